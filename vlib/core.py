"""Common machinery for the Fastor verification checks.

Every check:  (1) regenerates translated Lean files from /repo, (2) builds the Lean library and the
`fmodel` driver, (3) audits the property theorems (sorry / axioms), (4) runs the correspondence
between the executable model and the real templates compiled from the current /repo tree,
(5) searches for a failing input when a proof obligation or the correspondence breaks,
(6) writes evidence and prints VIOLATION / KNOWN-FINDING lines.
"""
import json, os, re, shutil, subprocess, sys, tempfile, time, hashlib, random
from concurrent.futures import ThreadPoolExecutor

VERIF = os.path.dirname(os.path.dirname(os.path.abspath(__file__)))
REPO = os.environ.get("VERIF_REPO", "/repo")
LEAN = os.path.join(VERIF, "lean")
FMODEL = os.path.join(LEAN, ".lake", "build", "bin", "fmodel")
NCPU = int(os.environ.get("VERIF_JOBS", "0")) or (os.cpu_count() or 4)

ISA_FLAGS = {
    "scalar": ["-DFASTOR_DONT_VECTORISE"],
    "sse2": [],
    "sse42": ["-msse4.2"],
    "avx": ["-mavx"],
    "avx2": ["-mavx2", "-mfma"],
    "avx512": ["-mavx512f", "-mavx512cd", "-mavx512bw", "-mavx512dq", "-mavx512vl", "-mfma"],
}
QUICK_ISAS = ["sse2", "avx2", "avx512"]
ALL_ISAS = ["scalar", "sse2", "sse42", "avx", "avx2", "avx512"]

TRUSTED_BASE = [
    "Lean 4.33.0 kernel (lake build); axioms allowed: propext, Classical.choice, Quot.sound",
    "Mathlib v4.33.0 for the imported modules (kernel-checked, no extra axioms)",
    "the statements in lean/FastorModel/Props/*.lean say what the property says",
    "hand-written models in lean/FastorModel/Model/*.lean, tied to /repo by the correspondence runs of this check",
    "harness carriers (harness/common/sym.h, simd_sym.h, rat.h) and the reference oracles inside the harnesses",
    "g++ 12.2 and the host CPU for everything the harness executes",
]


def seed_from_env():
    try:
        return int(os.environ.get("VERIF_SEED", "1"))
    except ValueError:
        return 1


def run(cmd, cwd=None, timeout=None, env=None, input=None):
    p = subprocess.run(cmd, cwd=cwd, stdout=subprocess.PIPE, stderr=subprocess.STDOUT, timeout=timeout,
                       env=env, input=input, text=True)
    return p.returncode, p.stdout


class Scratch:
    """scratch directory outside /repo and /verif, removed on exit"""
    def __enter__(self):
        base = os.environ.get("TMPDIR", "/tmp")
        self.dir = tempfile.mkdtemp(prefix="verif-", dir=base)
        return self.dir
    def __exit__(self, *a):
        shutil.rmtree(self.dir, ignore_errors=True)


# ---------------------------------------------------------------------------------------------------
# Lean side
_lake_lock = os.path.join(LEAN, ".lake.verif.lock")

def lake_build(targets=None, log=None):
    """incremental build of the library (all Props, Proofs, Generated) and the driver.
    Returns (ok, output)."""
    import fcntl
    os.makedirs(os.path.join(LEAN, ".lake"), exist_ok=True)
    with open(_lake_lock, "w") as lk:
        fcntl.flock(lk, fcntl.LOCK_EX)
        t0 = time.time()
        rc, out = run(["lake", "build"] + (targets or ["FastorModel", "fmodel"]), cwd=LEAN, timeout=3600)
        if log is not None:
            log.append("lake build %s: rc=%d %.1fs" % (targets or "all", rc, time.time() - t0))
        return rc == 0, out


def failed_modules(build_output):
    mods = re.findall(r"^✖ \[\d+/\d+\] Building (\S+)", build_output, flags=re.M)
    errs = re.findall(r"^error: (\S+?\.lean):(\d+):(\d+): (.*)$", build_output, flags=re.M)
    return mods, errs


def strip_lean_comments(src):
    # remove nested block comments and line comments
    out = []; i = 0; depth = 0; n = len(src)
    while i < n:
        if src.startswith("/-", i):
            depth += 1; i += 2; continue
        if depth > 0 and src.startswith("-/", i):
            depth -= 1; i += 2; continue
        if depth > 0:
            i += 1; continue
        if src.startswith("--", i):
            j = src.find("\n", i)
            i = n if j < 0 else j
            continue
        out.append(src[i]); i += 1
    return "".join(out)

FORBIDDEN = re.compile(r"\bsorry\b|\badmit\b|^\s*axiom\s|\bnative_decide\b|\bbv_decide\b|implemented_by|\bunsafe\s|maxHeartbeats\s+0")

def grep_forbidden():
    hits = []
    for root, _, files in os.walk(os.path.join(LEAN, "FastorModel")):
        for f in files:
            if f.endswith(".lean"):
                p = os.path.join(root, f)
                src = strip_lean_comments(open(p).read())
                for ln, line in enumerate(src.split("\n"), 1):
                    if FORBIDDEN.search(line):
                        hits.append("%s:%d: %s" % (os.path.relpath(p, LEAN), ln, line.strip()))
    return hits


def prop_theorems(pid):
    """names of the theorems declared in Props/<pid>.lean"""
    p = os.path.join(LEAN, "FastorModel", "Props", pid + ".lean")
    if not os.path.exists(p):
        return []
    src = strip_lean_comments(open(p).read())
    ns = re.findall(r"^namespace\s+(\S+)", src, flags=re.M)
    prefix = (ns[0] + ".") if ns else ""
    return [prefix + m for m in re.findall(r"^theorem\s+(\S+)", src, flags=re.M)]

ALLOWED_AXIOMS = {"propext", "Classical.choice", "Quot.sound"}

def audit_axioms(pid, extra_imports=()):
    """#print axioms for every theorem of Props/<pid>.lean.  Returns (results, problems):
    results: {theorem: [axioms]}"""
    thms = prop_theorems(pid)
    results = {}; problems = []
    if not thms:
        return results, ["no theorems found in Props/%s.lean" % pid]
    with Scratch() as d:
        f = os.path.join(d, "Audit.lean")
        with open(f, "w") as fh:
            fh.write("import FastorModel.Props.%s\n" % pid)
            for t in thms:
                fh.write("#print axioms %s\n" % t)
        rc, out = run(["lake", "env", "lean", f], cwd=LEAN, timeout=1800)
    # parse
    cur = None
    text = out.replace("\n  ", " ")
    for m in re.finditer(r"'([^']+)' (depends on axioms: \[([^\]]*)\]|does not depend on any axioms)", text):
        name = m.group(1)
        axs = [a.strip() for a in (m.group(3) or "").split(",") if a.strip()]
        results[name] = axs
        bad = [a for a in axs if a not in ALLOWED_AXIOMS]
        if bad:
            problems.append("theorem %s depends on disallowed axioms %s" % (name, bad))
    for t in thms:
        if t not in results:
            problems.append("theorem %s: no axiom report (does it build?) %s" % (t, out[-400:] if rc else ""))
    return results, problems


def leanchecker(module):
    rc, out = run(["lake", "env", "leanchecker", module], cwd=LEAN, timeout=3600)
    return rc == 0, out[-2000:]


def fmodel(lines):
    """run the compiled driver on the given input lines; returns list of output lines"""
    inp = "\n".join(lines) + "\n"
    p = subprocess.run([FMODEL], input=inp, stdout=subprocess.PIPE, stderr=subprocess.PIPE, text=True, timeout=3600)
    if p.returncode != 0:
        raise RuntimeError("fmodel failed: " + p.stderr[-2000:])
    out = p.stdout.split("\n")
    if out and out[-1] == "":
        out.pop()
    return out


# ---------------------------------------------------------------------------------------------------
# C++ side
def cxx_cmd(src, exe, isa, std="c++14", opt="-O1", defs=(), extra=()):
    return (["g++", "-std=" + std, opt, "-w", "-DFASTOR_VERIF", "-DCFGNAME=\"%s\"" % isa]
            + ISA_FLAGS[isa] + list(defs) + list(extra)
            + ["-I" + REPO, "-I" + os.path.join(VERIF, "harness", "common"), "-I" + os.path.join(VERIF, "harness"),
               src, "-o", exe])


def build_and_run(jobs, workdir, timeout=1800):
    """jobs: list of dict(name, source_text, isa, std, opt, defs, extra, args).
    Compiles and runs each in parallel.  Returns {name: dict(rc_compile, compile_out, rc_run, out, wall)}"""
    def one(j):
        src = os.path.join(workdir, j["name"] + ".cpp")
        exe = os.path.join(workdir, j["name"] + ".exe")
        with open(src, "w") as fh:
            fh.write(j["source_text"])
        t0 = time.time()
        rc, out = run(cxx_cmd(src, exe, j["isa"], j.get("std", "c++14"), j.get("opt", "-O1"), j.get("defs", ()), j.get("extra", ())),
                      timeout=timeout)
        res = {"rc_compile": rc, "compile_out": out, "rc_run": None, "out": "", "compile_s": time.time() - t0}
        if rc == 0:
            t1 = time.time()
            try:
                p = subprocess.run([exe] + list(j.get("args", ())), stdout=subprocess.PIPE, stderr=subprocess.PIPE, text=True, timeout=timeout)
                res["rc_run"] = p.returncode; res["out"] = p.stdout; res["err"] = p.stderr[-2000:]
            except subprocess.TimeoutExpired:
                res["rc_run"] = -999; res["err"] = "timeout"
            res["run_s"] = time.time() - t1
            try:
                os.remove(exe)
            except OSError:
                pass
        return j["name"], res
    with ThreadPoolExecutor(max_workers=NCPU) as ex:
        return dict(ex.map(one, jobs))


# ---------------------------------------------------------------------------------------------------
# findings, evidence, verdicts
def load_findings():
    p = os.path.join(VERIF, "known_findings.json")
    res = {"known": [], "fixed": []}
    if os.path.exists(p):
        obj = json.load(open(p))
        res["known"] += obj.get("known", []); res["fixed"] += obj.get("fixed", [])
    # per-property fragments (same format), committed under known_findings.d/
    d = os.path.join(VERIF, "known_findings.d")
    if os.path.isdir(d):
        for f in sorted(os.listdir(d)):
            if f.endswith(".json"):
                obj = json.load(open(os.path.join(d, f)))
                res["known"] += obj.get("known", []); res["fixed"] += obj.get("fixed", [])
    return res


class Verdict:
    """collects violations / known findings for one check run and writes evidence"""
    def __init__(self, pid, tier, seed):
        self.pid = pid; self.tier = tier; self.seed = seed
        self.t0 = time.time()
        self.violations = []      # (replay_path, nofail)
        self.known_hits = []
        self.notes = []
        self.cov = {"evaluations": 0, "distinct_nontrivial": 0, "rule": "", "samples": [],
                    "obligations": 0, "discharged": 0, "checker_cmd": "cd /verif/lean && lake build && lake env lean <Audit with #print axioms>",
                    "trusted_base": list(TRUSTED_BASE)}
        self.assumptions = []
        self.findings = load_findings()
        # replays of earlier runs of this property are stale: start from an empty directory
        shutil.rmtree(os.path.join(VERIF, "replays", pid), ignore_errors=True)

    def replay_path(self, name):
        d = os.path.join(VERIF, "replays", self.pid)
        os.makedirs(d, exist_ok=True)
        return os.path.join(d, name)

    def match_known(self, key):
        for k in self.findings.get("known", []):
            if k.get("property") == self.pid and re.search(k["match"], key):
                return k
        return None

    def violation(self, key, replay_obj, nofail=False):
        """key: canonical one-line description of the failing case (matched against known findings)"""
        k = self.match_known(key)
        if k is not None:
            msg = "KNOWN-FINDING: property=%s %s [%s]" % (self.pid, k["what"], key)
            if msg not in self.known_hits:
                self.known_hits.append(msg)
            return
        if any(k0 == key for _, _, k0 in self.violations):
            return
        name = hashlib.sha1(key.encode()).hexdigest()[:12] + ".json"
        path = self.replay_path(name)
        replay_obj = dict(replay_obj); replay_obj.setdefault("property", self.pid); replay_obj.setdefault("key", key)
        with open(path, "w") as fh:
            json.dump(replay_obj, fh, indent=1)
        self.violations.append((path, nofail, key))

    def finish(self, level="proof"):
        wall = time.time() - self.t0
        # one line per distinct known finding id
        seen = set()
        for m in self.known_hits:
            fid = m.split("[")[0]
            if fid in seen:
                continue
            seen.add(fid); print(m)
        # dedupe violations by key; cap printed lines
        printed = 0
        for path, nofail, key in self.violations[:20]:
            print("VIOLATION property=%s replay=%s%s" % (self.pid, path, " no-failing-input-found" if nofail else ""))
            printed += 1
        ev = {"property_id": self.pid, "tier": self.tier, "seed": self.seed, "level": level,
              "coverage": self.cov, "assumptions": self.assumptions, "wall_s": round(wall, 2),
              "violations": len(self.violations)}
        if self.notes:
            ev["coverage"]["notes"] = self.notes[:50]
        ev["coverage"]["known_findings_hit"] = sorted(seen)
        os.makedirs(os.path.join(VERIF, "evidence"), exist_ok=True)
        with open(os.path.join(VERIF, "evidence", self.pid + ".json"), "w") as fh:
            json.dump(ev, fh, indent=1)
        for n in self.notes[:30]:
            print("note:", n)
        print("%s %s tier=%s seed=%d evaluations=%d obligations=%d/%d wall=%.1fs" % (
            self.pid, "FAIL" if self.violations else "ok", self.tier, self.seed, self.cov["evaluations"],
            self.cov["discharged"], self.cov["obligations"], wall))
        return 1 if self.violations else 0


def regen_generated(log):
    """Regenerates lean/FastorModel/Generated/*.lean from the CURRENT /repo tree (translator of the straight-line SIMD code,
    vlib/xlate_simd.py; ~2 s; files whose text is unchanged are not rewritten).  Every check does this, whichever property it
    serves, so that the generated definitions the driver links against never describe an earlier state of /repo."""
    try:
        from . import xlate_simd, xlate_validate
        reports = xlate_simd.regenerate(xlate_simd.ISAS, REPO, log)
        xlate_validate.write_tables(reports, log)
    except Exception as e:          # the translator itself must never take a check down; C08 reports what it could not translate
        log.append("regen_generated: %s: %s" % (type(e).__name__, str(e)[:300]))
    try:
        # C16: Generated/C16Spec_<isa>.lean (intrinsic specialisations of the reduction back ends) is cut out of the same translator's
        # output and must follow Simd_<isa>.lean; the function test-builds what it writes and falls back to stubs, so the driver links
        from props import c16_xlate
        c16_xlate.regenerate(REPO, log)
    except Exception as e:
        log.append("regen_generated (C16Spec): %s: %s" % (type(e).__name__, str(e)[:300]))


def prop_modules(pid):
    """Lean modules holding the theorems of property pid: Props/<pid>.lean and Props/<pid><suffix>.lean"""
    d = os.path.join(LEAN, "FastorModel", "Props")
    return sorted("FastorModel.Props." + f[:-5] for f in os.listdir(d) if f.endswith(".lean") and (f[:-5] == pid or (f.startswith(pid) and not f[len(pid)].isdigit())))


def proof_stage(v, pid, thorough=False, regen=None):
    """build + audit; fills obligations/discharged. Returns (ok, info).  On failure the caller runs the
    failing-input search and reports.  Only the modules of THIS property (and what they import) and the driver are built:
    a change to /repo that breaks a proof obligation of another property must not raise an alarm here."""
    log = []
    regen_generated(log)
    if regen:
        regen(log)
    ok, out = lake_build(targets=prop_modules(pid) + ["fmodel"], log=log)
    info = {"build_ok": ok, "log": log}
    thms = prop_theorems(pid)
    v.cov["obligations"] = len(thms)
    if not ok:
        mods, errs = failed_modules(out)
        info["failed_modules"] = mods
        info["errors"] = ["%s:%s: %s" % (e[0], e[1], e[3]) for e in errs][:20]
        info["tail"] = out[-3000:]
        v.cov["discharged"] = 0
        return False, info
    hits = grep_forbidden()
    results, problems = audit_axioms(pid)
    info["axioms"] = results
    problems = hits + problems
    if thorough and not problems:
        okc, outc = leanchecker("FastorModel.Props." + pid)
        info["leanchecker"] = "ok" if okc else outc
        if not okc:
            problems.append("leanchecker failed on FastorModel.Props.%s" % pid)
    info["problems"] = problems
    v.cov["discharged"] = len([t for t in thms if t in results and all(a in ALLOWED_AXIOMS for a in results[t])]) if not hits else 0
    v.cov["theorems"] = [{"name": t, "axioms": results.get(t)} for t in thms]
    return not problems, info
