"""Standard check flow shared by the property modules:
proof stage -> symbolic correspondence (model vs real templates) -> oracle-only value runs ->
failing-input search when the correspondence breaks -> verdicts and evidence."""
import json, os
from . import core, symrun

def report_infra(v, infra):
    for e in infra:
        if e.get("crashed_single"):
            # one call, compiled alone, dies at run time: that call is a concrete failing input
            v.violation("crash %s %s %s" % (e["group"], e["what"], " ".join(e.get("calls", [])[:1])),
                        {"kind": "crash", "detail": e, "note": "the translation unit containing only this call compiles and then dies at run time "
                         "(signal / abort) on the current tree; re-run it with the flags of the group to reproduce"})
            continue
        v.violation("harness-failure %s %s" % (e["group"], e["what"]),
                    {"kind": "harness-failure", "detail": e,
                     "note": "the harness for this configuration did not compile or crashed; the property is not shown for it"},
                    nofail=True)

def run_oracle_groups(groups, wd, per_tu=40):
    """groups whose lines are `<case> | ok` or `<case> | FAIL ...` (implementation vs in-harness oracle)"""
    rres = symrun.run_groups(groups, wd, per_tu=per_tu) if groups else []
    n = 0; fails = []; infra = []; samples = []
    for r in rres:
        rr = r["res"]
        if rr.get("rejected"):
            symrun.REJECTED.append({"group": r["group"]["key"], "call": r["calls"][0], "why": symrun.first_error(rr["compile_out"])})
            continue
        if rr["rc_compile"] != 0 or rr["rc_run"] != 0:
            infra.append({"group": r["group"]["key"], "what": "compile" if rr["rc_compile"] else "run rc=%s" % rr["rc_run"],
                          "crashed_single": bool(rr.get("crashed")), "isa": r["group"]["isa"], "std": r["group"].get("std", "c++14"),
                          "defs": list(r["group"].get("defs", ())), "opt": r["group"].get("opt", "-O1"), "header": r["group"]["header"],
                          "calls": r["calls"][:3], "out": (rr["compile_out"][-2500:] if rr["rc_compile"] else (rr.get("out", "")[-800:] + rr.get("err", "")))})
        olines = [l for l in rr["out"].split("\n") if "|" in l]
        calls = r["calls"] if len(r["calls"]) == len(olines) else [None] * len(olines)
        for line, call in zip(olines, calls):
            n += 1
            if len(samples) < 2: samples.append(line)
            if not line.split("|", 1)[1].strip().startswith("ok"):
                fails.append((r["group"], line, call))
    return n, fails, infra, samples

def standard_run(pid, tier, seed, theorem, model_name, sym_groups_fn, oracle_groups_fn=None, assumptions=(), rule="",
                 nontrivial=lambda inp, mo: True, extra_cov=None, per_tu=40, ignore=(), ofail_key=None):
    v = core.Verdict(pid, tier, seed)
    v.assumptions = list(assumptions)
    ok, info = core.proof_stage(v, pid, thorough=(tier == "thorough"))
    v.cov["proof"] = {k: info.get(k) for k in ("build_ok", "problems", "failed_modules", "errors", "leanchecker", "log")}
    if not info.get("build_ok"):
        v.violation("lean-build-failed " + ",".join(info.get("failed_modules", [])),
                    {"kind": "proof-obligation", "detail": info,
                     "note": "lake build failed, so neither the theorems nor the driver can be used; no correspondence was run"}, nofail=True)
        return v.finish()
    with core.Scratch() as wd:
        sg = sym_groups_fn(tier, seed)
        res = symrun.run_groups(sg, wd, per_tu=per_tu)
        n, mism, ofail, infra, lines = symrun.compare_with_model(res, v, ignore=ignore)
        og = oracle_groups_fn(tier, seed) if oracle_groups_fn else []
        real_n, real_fail, rinfra, rsamples = run_oracle_groups(og, wd, per_tu)
        report_infra(v, infra + rinfra)
        for f in ofail:
            key = ofail_key(f) if ofail_key else None
            v.violation(key or ("sym " + f["input"]), {"kind": "sym-oracle", "group": f["group"], "input": f["input"], "impl": f["impl"], "model": f["model"]})
        for g, line, call in real_fail:
            v.violation("real " + line.split("|")[0].strip(),
                        {"kind": "real-oracle", "group": g["key"], "isa": g["isa"], "defs": list(g.get("defs", ())), "std": g.get("std", "c++14"),
                         "opt": g.get("opt", "-O1"), "header": g["header"], "pre": g.get("pre", ""), "line": line, "call": call})
        ofail_inputs = set(f["input"] for f in ofail)
        mism = [m for m in mism if m["input"] not in ofail_inputs]
        if mism:
            keys = sorted(set(m["group"] for m in mism))
            groups = [g for g in sym_groups_fn("thorough", seed + 17) if g["key"] in keys]
            res2 = symrun.run_groups(groups, wd, per_tu=per_tu)
            nn, mm2, of2, infra2, _ = symrun.compare_with_model(res2, v, ignore=ignore)
            v.cov["search_evaluations"] = nn
            if of2:
                for f in of2[:5]:
                    v.violation("sym " + f["input"], {"kind": "sym-oracle", "group": f["group"], "input": f["input"], "impl": f["impl"], "model": f["model"]})
            else:
                m0 = mism[0]
                v.violation("correspondence " + m0["input"] + " fields=" + ",".join(m0["fields"]),
                            {"kind": "correspondence", "broken": "model %s (theorem %s is about this model) no longer describes the code: "
                             "the observables listed in `fields` differ" % (model_name, theorem), "first": m0, "count": len(mism),
                             "searched": nn, "others": [m["input"] for m in mism[1:10]]}, nofail=True)
        if not ok and info.get("build_ok"):
            v.violation("audit " + "; ".join(info.get("problems", []))[:200], {"kind": "audit", "detail": info.get("problems")}, nofail=True)
    routes = {}
    for inp, obs, mo in lines:
        r = symrun.kv(mo).get("route", "-")
        routes[r] = routes.get(r, 0) + 1
    nt = len(set(inp for inp, obs, mo in lines if nontrivial(inp, mo)))
    v.cov.update({"evaluations": n + real_n, "distinct_nontrivial": nt, "rule": rule,
                  "samples": [{"input": l[0], "impl": l[1], "model": l[2]} for l in lines[:3]] + rsamples,
                  "route_hits": routes, "sym_cases": n, "oracle_cases": real_n, "mismatches": len(mism),
                  "oracle_failures": len(ofail) + len(real_fail), "configs": sorted(set(g["key"] for g in sg))})
    if symrun.REJECTED:
        v.cov["compile_rejected"] = {"count": len(symrun.REJECTED), "examples": symrun.REJECTED[:8],
                                     "note": "instantiations the library does not accept at compile time; they are excluded from the box and not judged"}
    if extra_cov:
        v.cov.update(extra_cov)
    return v.finish()

def standard_replay(path, sym_call_of=None):
    """re-run the case stored in a replay file against the current tree"""
    obj = json.load(open(path))
    print(json.dumps(obj, indent=1)[:3000])
    kind = obj.get("kind")
    with core.Scratch() as wd:
        if kind in ("sym-oracle", "correspondence") and sym_call_of:
            first = obj if kind == "sym-oracle" else obj["first"]
            g = sym_call_of(first["input"])
            res = symrun.run_groups([g], wd, verbose=True)
            for r in res:
                print(r["res"]["compile_out"][-2000:] if r["res"]["rc_compile"] else r["res"]["out"])
            n, mism, ofail, infra, lines = symrun.compare_with_model(res, None)
            for l in lines: print("model:", l[2])
            return 1 if (mism or ofail or infra) else 0
        if kind == "real-oracle":
            # the stored group description is enough to rebuild the one case
            call = obj.get("call")
            line = obj["line"]
            g = {"key": "replay", "header": obj["header"], "isa": obj["isa"], "defs": obj.get("defs", []), "opt": obj.get("opt", "-O2"),
                 "std": obj.get("std", "c++14"), "pre": obj.get("pre", ""), "calls": [obj["call"]] if call else []}
            if not call:
                print("replay file has no call text; case line:", line); return 1
            res = symrun.run_groups([g], wd)
            bad = False
            for r in res:
                out = r["res"]["compile_out"][-2000:] if r["res"]["rc_compile"] else r["res"]["out"]
                print(out); bad = bad or "FAIL" in out or r["res"]["rc_compile"] != 0
            return 1 if bad else 0
        if kind == "crash":
            d = obj["detail"]
            g = {"key": "replay", "header": d["header"], "isa": d["isa"], "defs": d.get("defs", []), "opt": d.get("opt", "-O2"),
                 "std": d.get("std", "c++14"), "calls": d["calls"][:1]}
            res = symrun.run_groups([g], wd)
            bad = False
            for r in res:
                rr = r["res"]
                print(rr["compile_out"][-2000:] if rr["rc_compile"] else (rr["out"] + "\nrun rc=%s %s" % (rr["rc_run"], rr.get("err", ""))))
                bad = bad or rr["rc_compile"] != 0 or rr["rc_run"] != 0 or "FAIL" in rr["out"]
            return 1 if bad else 0
    print("replay: nothing executable in this replay file (kind=%s)" % kind)
    return 1
