"""Shape generators that cover the *dispatch classes* of the tiled kernels instead of sampling extents blindly.

The matmul-type kernels (_matmul_base, _matmul_base_masked, _tmatmul_base, _tmatmul_base_masked) split the rows into
a block part [0,M0), a 4-row part [M0,M1) and a tail [M1,M), and the columns into a multi-vector part [0,N0), a
single-vector part [N0,N1) and a remainder [N1,N) that is scalar, or one masked vector when N-N1 >= 2 and the ISA
has masked loads.  A defect confined to one (row part, column part) pair only shows for shapes in which both parts
are non-empty, so the generators below enumerate the classes and pick (seeded) representatives of every pair."""

NATIVE_BITS = {"scalar": 0, "sse2": 128, "sse42": 128, "avx": 256, "avx2": 256, "avx512f": 512, "avx512": 512}
HAS_AVX2 = {"avx2", "avx512f", "avx512"}
HAS_MASKS = {"avx512"}

def lanes(bits, sz):
    return max(bits // (8 * sz), 1)

def vsize(isa, sz, N):
    """choose_best_simd_type<SIMDVector<T,native>,N>::type::Size (mirrors Model/Config.lean, which is tied to the
    source by the C06 probe)"""
    bits = NATIVE_BITS[isa]
    if bits == 0:
        return 1
    vs = lanes(bits, sz)
    which = 2 if vs // max(N, 1) == 2 and N > 0 else (4 if N > 0 and vs // N == 4 else 1)
    exact = which != 1 and bits != 128
    if exact:
        tb = {(512, 2): 256, (256, 2): 128, (512, 4): 128}.get((bits, which), bits)
        return lanes(tb, sz)
    if isa in HAS_AVX2 or isa in HAS_MASKS:
        return vs
    if N < vs:
        return lanes({512: 256, 256: 128}.get(bits, bits), sz)
    return vs

def masked_dispatch(isa):
    return isa in HAS_AVX2 or isa in HAS_MASKS

def row_class(M, V, ob=None):
    u = 4
    nrows = ob if ob else (3 if M % (u * 3) == 0 else (1 if M < 2 * V else 2))
    blk = nrows * u
    M0 = M // blk * blk; M1 = M // u * u
    return (nrows, M0 > 0, M1 > M0, M > M1)

def col_class(M, N, V, isa, ib=None):
    ncols = ib if ib else (3 if (N % (V * 3) == 0 and M % (V * 3) == 0 and N > 24) else 2)
    blk = ncols * V
    N0 = N // blk * blk; N1 = N // V * V
    rem = N - N1
    remc = min(rem, 2)
    return (ncols, N0 > 0, N1 > N0, remc, masked_dispatch(isa) and rem >= 2)

def covering_mn(isa, sz, rng, maxM=None, maxN=None, ob=None, ib=None, per_pair=1):
    """(M,N) pairs such that every reachable (row class, column class) pair of the base kernels occurs at least
    `per_pair` times; representatives are drawn with `rng` so that different seeds visit different members."""
    W = lanes(NATIVE_BITS[isa], sz) if NATIVE_BITS[isa] else 1
    maxM = maxM or (3 * 4 * 2 + 8 + 2 * W)
    maxN = maxN or (6 * W + W + 3)
    buckets = {}
    for M in range(1, maxM + 1):
        for N in range(1, maxN + 1):
            V = vsize(isa, sz, N)
            key = (row_class(M, V, ob), col_class(M, N, V, isa, ib), V == W)
            buckets.setdefault(key, []).append((M, N))
    out = []
    for key in sorted(buckets):
        c = buckets[key]
        # prefer small members (cheap to compile) but not always the smallest
        c.sort(key=lambda mn: mn[0] * mn[1])
        pool = c[:max(3, len(c) // 4)]
        for mn in rng.sample(pool, min(per_pair, len(pool))):
            out.append(mn)
    return out

def class_count(isa, sz, **kw):
    import random
    return len(covering_mn(isa, sz, random.Random(1), **kw))
