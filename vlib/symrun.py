"""Generic correspondence runner: C++ harness TUs (one call per case) vs the Lean driver."""
import os, re, time, json
from . import core

def kv(s):
    d = {}
    for tok in s.split():
        if "=" in tok:
            k, val = tok.split("=", 1)
            d[k] = val
    return d

def chunk(lst, n):
    return [lst[i:i + n] for i in range(0, len(lst), n)]

def make_tu(header, calls, verbose=False, pre=""):
    body = "\n".join("    " + c for c in calls)
    return '%s\n#include "%s"\nint main() {\n%s\n%s\n    return 0;\n}\n' % (
        pre, header, "    g_verbose = true;" if verbose else "", body)

def run_groups(groups, workdir, per_tu=60, verbose=False, bisect=True):
    """groups: list of dict(key, header, isa, std, opt, defs, calls).  Returns list of
    dict(group, calls, res).  When a translation unit does not compile, its calls are recompiled one
    per unit: calls that fail on their own are returned with res["rejected"] = True (the library does
    not accept that instantiation), the others are run normally."""
    def mk(prefix, items):
        jobs = []; meta = {}
        for n, (gi, cs) in enumerate(items):
            g = groups[gi]
            name = "%s_%d" % (prefix, n)
            jobs.append({"name": name, "source_text": make_tu(g["header"], cs, verbose, g.get("pre", "")),
                         "isa": g["isa"], "std": g.get("std", "c++14"), "opt": g.get("opt", "-O1"),
                         "defs": g.get("defs", ())})
            meta[name] = (gi, cs)
        return jobs, meta
    items = []
    for gi, g in enumerate(groups):
        for cs in chunk(g["calls"], per_tu):
            items.append((gi, cs))
    jobs, meta = mk("tu", items)
    res = core.build_and_run(jobs, workdir)
    out = []; retry = []
    for name, r in res.items():
        gi, cs = meta[name]
        if r["rc_compile"] != 0 and bisect and len(cs) > 1:
            retry += [(gi, [c]) for c in cs]
        elif r["rc_compile"] == 0 and r["rc_run"] not in (0, None) and bisect and len(cs) > 1:
            # the unit compiled but died at run time (signal / abort): re-run its calls one per unit so that the
            # call that crashes is identified — a crash of the implementation on one input is a failing input
            retry += [(gi, [c]) for c in cs]
        else:
            out.append({"group": groups[gi], "calls": cs, "res": r})
    if retry:
        jobs2, meta2 = mk("one", retry)
        res2 = core.build_and_run(jobs2, workdir)
        per_group = {}
        for name, r in res2.items():
            gi, cs = meta2[name]
            st = per_group.setdefault(gi, [0, 0]); st[1] += 1
            if r["rc_compile"] != 0:
                r["rejected"] = True; st[0] += 1
            elif r["rc_run"] not in (0, None):
                r["crashed"] = True
            out.append({"group": groups[gi], "calls": cs, "res": r})
        # a group in which (almost) everything is rejected is a harness problem, not a library decision
        for gi, (bad, tot) in per_group.items():
            if tot >= 2 and bad == tot:
                for o in out:
                    if o["group"] is groups[gi] and o["res"].get("rejected"):
                        o["res"]["rejected"] = False
    return out

REJECTED = []

def first_error(out):
    for line in out.split("\n"):
        if "error" in line:
            return line.strip()[:300]
    return out[-200:]

def compare_with_model(results, v, ignore=()):
    """results from run_groups.  Returns (n_cases, mismatches, oracle_fails, infra_errors, lines)
    mismatch entries: dict(group, input, impl, model, fields)"""
    inputs = []; impl = []
    infra = []
    for r in results:
        res = r["res"]; g = r["group"]
        if res.get("rejected"):
            REJECTED.append({"group": g["key"], "call": r["calls"][0], "why": first_error(res["compile_out"])})
            continue
        if res["rc_compile"] != 0:
            infra.append({"group": g["key"], "what": "compile", "calls": r["calls"][:3], "out": res["compile_out"][-3000:]})
            continue
        if res["rc_run"] != 0:
            infra.append({"group": g["key"], "what": "run rc=%s" % res["rc_run"], "calls": r["calls"][:3], "crashed_single": bool(res.get("crashed")),
                          "out": (res.get("out", "")[-1500:] + res.get("err", ""))})
        for line in res["out"].split("\n"):
            if "|" not in line:
                continue
            inp, obs = line.split("|", 1)
            inputs.append(inp.strip()); impl.append((g, obs.strip()))
    model = core.fmodel(inputs) if inputs else []
    mism = []; ofail = []
    for inp, (g, obs), mo in zip(inputs, impl, model):
        io = kv(obs); mk = kv(mo)
        if mo.strip() == "bad-op":
            mism.append({"group": g["key"], "input": inp, "impl": obs, "model": mo, "fields": ["bad-op"]})
            continue
        bad = [k for k in mk if k not in ignore and k in io and io[k] != mk[k]]
        if bad:
            mism.append({"group": g["key"], "input": inp, "impl": obs, "model": mo, "fields": bad})
        if io.get("ORACLE", "ok") != "ok" or io.get("OOB", "0") != "0":
            ofail.append({"group": g["key"], "input": inp, "impl": obs, "model": mo})
    return len(inputs), mism, ofail, infra, list(zip(inputs, [o for _, o in impl], model))
