"""C08 translator (X2): straight-line intrinsic code of Fastor's SIMD layer  ->  Lean definitions.

Input : the *preprocessed* text of Fastor/simd_vector/SIMDVector.h for one ISA configuration
        (g++ -E -P -O2 <isa flags>; -O2 so that the Intel intrinsics stay function calls and the library's
        #ifdef ladders are resolved exactly as in a real build of that configuration).
Output: lean/FastorModel/Generated/Simd_<isa>.lean with one `def` per translated function
        (a) helpers of extintrin.h (free functions named _mm*, _add_pd, ...),
        (b) members / free operators of the SIMDVector<int32_t|int64_t|float|double, sse|avx|avx512> specialisations,
        over the vocabulary of FastorModel/Model/SimdIntrinsics.lean.  Anything outside the grammar is emitted as a
        comment `-- UNTRANSLATED name: why` and listed in the evidence.

Grammar: a body is a sequence of `T x = e;`  `x = e;`  `x.value = e;`  `value = e;`  `SIMDVector<..> out;`  `return e;`
with e built from calls of known intrinsics / already translated helpers, variables, `.value`, casts, integer
constant expressions (immediates such as _MM_SHUFFLE(..) after preprocessing), integer and float literals, and
+ - * between scalars.  Loops, branches, pointers and memory intrinsics are outside the grammar.
"""
import os, re, struct, subprocess
from . import core

GEN_DIR = os.environ.get("C08_GEN_DIR") or os.path.join(core.LEAN, "FastorModel", "Generated")
ISAS = ["sse2", "avx2", "avx512"]

REG_TYPES = {"__m128", "__m128d", "__m128i", "__m256", "__m256d", "__m256i", "__m512", "__m512d", "__m512i"}
SCALAR_TYPES = {"int": "i32", "int32_t": "i32", "int64_t": "i64", "Int64": "i64", "long long": "i64", "float": "f32", "double": "f64",
                "uint64_t": "i64", "uint32_t": "i32", "int32_lane_t": "i32", "int64_lane_t": "i64"}
LEAN_TY = {"mask": "Nat", "bool": "Bool", "R": "Reg", "i32": "BitVec 32", "f32": "BitVec 32", "i64": "BitVec 64", "f64": "BitVec 64", "C": "Reg × Reg", "P32": "Reg", "P64": "Reg"}
TNAME = {"int32_t": "int32", "int": "int32", "int64_t": "int64", "Int64": "int64", "float": "float", "double": "double",
         "std::complex<float>": "cfloat", "std::complex<double>": "cdouble"}
def is_cplx(T): return T.startswith("std::complex")
def reg_ctype(T, abi):
    base = {"sse": "__m128", "avx": "__m256", "avx512": "__m512"}.get(abi)
    if base is None: return None
    if T in ("float", "std::complex<float>"): return base
    if T in ("double", "std::complex<double>"): return base + "d"
    return base + "i"
KEYWORDS = {"at", "from", "fun", "end", "open", "then", "do", "show", "have", "in", "let", "if", "else", "by", "with", "match", "where", "def", "set",
            "instance", "structure", "class", "local", "section", "namespace", "variable", "universe", "theorem", "example", "abbrev", "private"}

def _f32bits(x): return struct.unpack("<I", struct.pack("<f", x))[0]
def _f64bits(x): return struct.unpack("<Q", struct.pack("<d", x))[0]

# ------------------------------------------------------------------------------------------------ intrinsic table
# base name (prefix _mm_/_mm256_/_mm512_ stripped) -> (lean name, arg kinds, result kind, needs fo)
def _tab():
    t = {}
    def add(names, lean, args, ret, fo=False):
        for n in names.split():
            t[n] = (lean, args, ret, fo)
    add("add_epi32", "add_epi32", "RR", "R"); add("sub_epi32", "sub_epi32", "RR", "R"); add("mullo_epi32", "mullo_epi32", "RR", "R")
    add("add_epi64", "add_epi64", "RR", "R"); add("sub_epi64", "sub_epi64", "RR", "R"); add("mullo_epi64", "mullo_epi64", "RR", "R")
    add("mul_epu32", "mul_epu32", "RR", "R"); add("mul_epi32", "mul_epi32", "RR", "R")
    add("and_si128 and_si256 and_si512 and_ps and_pd and_epi32 and_epi64", "and_si", "RR", "R")
    add("or_si128 or_si256 or_si512 or_ps or_pd", "or_si", "RR", "R")
    add("xor_si128 xor_si256 xor_si512 xor_ps xor_pd", "xor_si", "RR", "R")
    add("andnot_si128 andnot_si256 andnot_si512 andnot_ps andnot_pd", "andnot_si", "RR", "R")
    add("srai_epi32", "srai_epi32", "RI", "R"); add("srli_epi32", "srli_epi32", "RI", "R"); add("slli_epi32", "slli_epi32", "RI", "R")
    add("slli_si128", "slli_si128", "RI", "R")
    add("abs_epi32", "abs_epi32", "R", "R"); add("abs_epi64", "abs_epi64", "R", "R")
    add("min_epi32", "min_epi32", "RR", "R"); add("max_epi32", "max_epi32", "RR", "R")
    add("min_epi64", "min_epi64", "RR", "R"); add("max_epi64", "max_epi64", "RR", "R")
    add("shuffle_epi32 permute_ps", "shuffle_epi32", "RI", "R")
    add("shuffle_ps", "shuffle_ps", "RRI", "R"); add("shuffle_pd", "shuffle_pd", "RRI", "R")
    add("unpacklo_epi32 unpacklo_ps", "unpacklo_epi32", "RR", "R"); add("unpackhi_epi32 unpackhi_ps", "unpackhi_epi32", "RR", "R")
    add("unpacklo_epi64 unpacklo_pd", "unpacklo_epi64", "RR", "R"); add("unpackhi_epi64 unpackhi_pd", "unpackhi_epi64", "RR", "R")
    add("movehl_ps", "movehl_ps", "RR", "R"); add("movelh_ps", "movelh_ps", "RR", "R"); add("movehdup_ps", "movehdup_ps", "R", "R")
    add("blend_ps", "blend_ps", "RRI", "R")
    add("extractf128_ps extractf128_pd extractf128_si256 extracti128_si256", "extractf128", "RI", "R")
    add("insertf128_ps insertf128_pd insertf128_si256 inserti128_si256", "insertf128", "RRI", "R")
    add("permute2f128_ps permute2f128_pd permute2f128_si256 permute2x128_si256", "permute2f128", "RRI", "R")
    add("permute4x64_pd permute4x64_epi64", "permute4x64", "RI", "R")
    add("permutexvar_epi32 permutexvar_ps", "permutexvar32", "RR", "R"); add("permutexvar_epi64 permutexvar_pd", "permutexvar64", "RR", "R")
    add("permutex2var_ps permutex2var_epi32", "permutex2var32", "RRR", "R"); add("permutex2var_pd permutex2var_epi64", "permutex2var64", "RRR", "R")
    add("hadd_ps", "hadd_ps", "RR", "R", True); add("hadd_pd", "hadd_pd", "RR", "R", True)
    for op in "add sub mul div min max".split():
        add(op + "_ps", op + "_ps", "RR", "R", True); add(op + "_pd", op + "_pd", "RR", "R", True)
    for op in "add sub mul".split():
        add(op + "_ss", op + "_ss", "RR", "R", True); add(op + "_sd", op + "_sd", "RR", "R", True)
    add("sqrt_ps", "sqrt_ps", "R", "R", True); add("sqrt_pd", "sqrt_pd", "R", "R", True)
    for op in "fmadd fmsub fnmadd".split():
        add(op + "_ps", op + "_ps", "RRR", "R", True); add(op + "_pd", op + "_pd", "RRR", "R", True)
    add("set1_epi32", "set1_32", "a", "R"); add("set1_ps", "set1_32", "e", "R")
    add("set1_epi64x set1_epi64", "set1_64", "b", "R"); add("set1_pd", "set1_64", "g", "R")
    add("setzero_si128 setzero_si256 setzero_si512 setzero_ps setzero_pd", "setzero", "", "R")
    add("set_epi32", "set32", "a*", "R"); add("set_ps", "set32", "e*", "R"); add("setr_epi32", "setr32", "a*", "R"); add("setr_ps", "setr32", "e*", "R")
    add("set_epi64x set_epi64", "set64", "b*", "R"); add("set_pd", "set64", "g*", "R"); add("setr_epi64x setr_epi64", "setr64", "b*", "R"); add("setr_pd", "setr64", "g*", "R")
    add("cvtsi128_si32", "cvt32", "R", "i32"); add("cvtss_f32", "cvt32", "R", "f32"); add("cvtsd_f64", "cvt64", "R", "f64"); add("cvtsi128_si64", "cvt64", "R", "i64")
    add("reduce_add_epi32", "reduce_add_epi32", "R", "i32"); add("reduce_add_epi64", "reduce_add_epi64", "R", "i64")
    return t
TABLE = _tab()
CAST_ID = re.compile(r"^cast(ps|pd|si128|si256|si512)_(ps|pd|si128|si256|si512)$|^cast(ps256_ps128|pd256_pd128|si256_si128|ps512_ps256|pd512_pd256|si512_si256|ps512_ps128|pd512_pd128|si512_si128)$")
CAST_UP = re.compile(r"^cast(ps128_ps256|pd128_pd256|si128_si256)$")
# scalar kind letters of the table: a=i32 b=i64 e=f32 g=f64
LETTER = {"a": "i32", "b": "i64", "e": "f32", "g": "f64"}

def intrin_ctype(name):
    """C register type of the result of an intrinsic call (for overload resolution), or None"""
    m = re.match(r"^_mm(256|512)?_(.*)$", name)
    if not m: return None
    width = m.group(1) or "128"; base = m.group(2)
    mc = re.match(r"^cast(?:ps|pd|si)(\d+)?_(ps|pd|si)(\d+)?$", base)
    if mc: width = mc.group(3) or width; suf = mc.group(2)
    elif re.match(r"^extract[fi]128_", base): width = "128"; suf = base.split("_")[-1]
    else: suf = base.split("_")[-1]
    t = "" if suf in ("ps", "ss") else "d" if suf in ("pd", "sd") else "i" if re.match(r"^(epi\d+x?|epu\d+|si\d+)$", suf) else None
    if t is None: return None
    return "__m%s%s" % (width, t)

class Untranslatable(Exception):
    pass

# ------------------------------------------------------------------------------------------------ tokenizer / parser
TOK = re.compile(r"\s*(?:(0[xX][0-9a-fA-F]+[uUlL]*|\d+\.\d*(?:[eE][-+]?\d+)?[fFlL]?|\.\d+[fF]?|\d+[eE][-+]?\d+[fF]?|\d+[uUlLfF]*)|([A-Za-z_][\w]*(?:::[A-Za-z_]\w*)*)|(<<|>>|[-+*/|&(),.<>=\[\]!~?:^%]))")

def tokenize(s):
    out = []; i = 0; s = s.strip()
    while i < len(s):
        m = TOK.match(s, i)
        if not m or m.end() == i:
            raise Untranslatable("token at %r" % s[i:i + 20])
        if m.group(1) is not None: out.append(("num", m.group(1)))
        elif m.group(2) is not None: out.append(("id", m.group(2)))
        else: out.append(("p", m.group(3)))
        i = m.end()
    return out

class Val:
    __slots__ = ("kind", "text", "const", "fo", "ctype")
    def __init__(self, kind, text, const=None, fo=False, ctype=None):
        self.kind = kind; self.text = text; self.const = const; self.fo = fo; self.ctype = ctype

def mkC(expr, fo=False):
    """complex vector value from a Lean expression of type Reg × Reg"""
    return Val("C", ("(%s).1" % expr, "(%s).2" % expr), fo=fo)
def pairtext(v):
    return "(%s, %s)" % (v.text[0], v.text[1])

def lname(n):
    return ("v" + n) if (n.startswith("_") or n in KEYWORDS) else n

class Parser:
    def __init__(self, toks, env, funcs, cls, ctypes=None):
        # cls: None or (T, abi) of the enclosing class
        self.t = toks; self.i = 0; self.env = env; self.funcs = funcs; self.cls = cls; self.ctypes = ctypes or {}
        self.aliases = env.get("@aliases", {})
        self.cplx = bool(cls) and is_cplx(cls[0])
    def peek(self, k=0): return self.t[self.i + k] if self.i + k < len(self.t) else (None, None)
    def eat(self, v=None):
        tk = self.peek()
        if tk[0] is None or (v is not None and tk[1] != v):
            raise Untranslatable("expected %r near token %d" % (v, self.i))
        self.i += 1; return tk
    def done(self): return self.i >= len(self.t)

    def expr(self):
        a = self.bor()
        if self.peek() in (("p", "<"), ("p", ">")):
            op = self.eat()[1]; b = self.bor()
            kinds = {a.kind, b.kind} - {"imm"}
            if len(kinds) != 1 or kinds.copy().pop() not in ("i32", "i64"): raise Untranslatable("comparison of %s and %s" % (a.kind, b.kind))
            k = kinds.pop(); a = self.coerce(a, k); b = self.coerce(b, k)
            x, y = (a, b) if op == "<" else (b, a)
            return Val("bool", "(BitVec.slt %s %s)" % (x.text, y.text), fo=a.fo or b.fo)
        return a
    def _binc(self, sub, ops):
        a = sub()
        while self.peek()[1] in ops and self.peek()[0] == "p":
            op = self.eat()[1]; b = sub(); a = self.binop(op, a, b)
        return a
    def bor(self): return self._binc(self.band, ("|",))
    def band(self): return self._binc(self.shift, ("&",))
    def shift(self): return self._binc(self.add, ("<<", ">>"))
    def add(self): return self._binc(self.mul, ("+", "-"))
    def mul(self): return self._binc(self.unary, ("*", "/"))

    def coerce(self, v, kind):
        """bring a literal to scalar kind"""
        if v.kind == kind: return v
        if v.kind == "imm":
            if kind == "i32": return Val("i32", "%d#32" % (v.const % (1 << 32)))
            if kind == "i64": return Val("i64", "%d#64" % (v.const % (1 << 64)))
            if kind == "f32": return Val("f32", "%d#32" % _f32bits(float(v.const)))
            if kind == "f64": return Val("f64", "%d#64" % _f64bits(float(v.const)))
            if kind == "I": return v
        if v.kind == "flit":
            if kind == "f32": return Val("f32", "%d#32" % _f32bits(v.const))
            if kind == "f64": return Val("f64", "%d#64" % _f64bits(v.const))
        if v.kind == "V" and kind == "R": return Val("R", v.text, fo=v.fo, ctype=v.ctype)
        if v.kind == "R" and kind == "V": return Val("V", v.text, fo=v.fo, ctype=v.ctype)
        if v.kind == "i32" and kind == "i64": return Val("i64", "(BitVec.signExtend 64 %s)" % v.text, fo=v.fo)
        raise Untranslatable("cannot use a %s where a %s is needed (%s)" % (v.kind, kind, v.text))

    def binop(self, op, a, b):
        if a.kind in ("P32", "P64") and b.kind == "imm" and op in "+-":
            scale = 1 if a.kind == "P32" else 2
            d = b.const if op == "+" else -b.const
            if a.text[1] + d * scale < 0: raise Untranslatable("negative pointer offset")
            return Val(a.kind, (a.text[0], a.text[1] + d * scale), ctype=a.ctype)
        if a.kind == "imm" and b.kind == "imm":
            x, y = a.const, b.const
            if op == "/": raise Untranslatable("constant division")
            r = {"|": x | y, "&": x & y, "<<": x << y, ">>": x >> y, "+": x + y, "-": x - y, "*": x * y}[op]
            return Val("imm", str(r), r)
        if a.kind == "flit" and b.kind == "flit" and op in "+-*":
            r = {"+": a.const + b.const, "-": a.const - b.const, "*": a.const * b.const}[op]
            return Val("flit", repr(r), r)
        kinds = {a.kind, b.kind} - {"imm", "flit"}
        if len(kinds) != 1: raise Untranslatable("operator %s on %s and %s" % (op, a.kind, b.kind))
        k = kinds.pop()
        if k not in ("i32", "i64", "f32", "f64") or op not in "+-*/": raise Untranslatable("operator %s on %s" % (op, k))
        a = self.coerce(a, k); b = self.coerce(b, k)
        if k in ("i32", "i64"):
            if op == "/": return Val(k, "(BitVec.sdiv %s %s)" % (a.text, b.text), fo=a.fo or b.fo)    # C++ signed division truncates towards zero
            return Val(k, "(%s %s %s)" % (a.text, op, b.text), fo=a.fo or b.fo)
        fn = {"+": "add", "-": "sub", "*": "mul", "/": "div"}[op] + k[1:]
        return Val(k, "(fo.%s %s %s)" % (fn, a.text, b.text), fo=True)

    def unary(self):
        tk = self.peek()
        if tk == ("p", "-"):
            self.eat(); v = self.unary()
            if v.kind == "imm": return Val("imm", str(-v.const), -v.const)
            if v.kind == "flit": return Val("flit", repr(-v.const), -v.const)
            raise Untranslatable("unary minus on %s" % v.kind)
        if tk == ("p", "+"):
            self.eat(); return self.unary()
        if tk == ("p", "!"):
            self.eat(); v = self.unary()
            if v.kind != "bool": raise Untranslatable("! on %s" % v.kind)
            return Val("bool", "(!%s)" % v.text, fo=v.fo)
        if tk == ("p", "&") and self.peek(1)[0] == "id" and (self.peek(1)[1] in self.env and self.env[self.peek(1)[1]] in ("P32", "P64")) and self.peek(2) == ("p", "["):
            # &p[k] = p + k
            self.eat(); v = self.primary(); self.eat("["); ix = self.expr(); self.eat("]")
            if ix.kind != "imm": raise Untranslatable("address of a non-constant index")
            return self.binop("+", v, ix)
        if tk == ("p", "&"):
            self.eat(); v = self.postfix()
            if v.kind in ("R", "V") and re.match(r"^[A-Za-z_]\w*$", v.text): return Val("ADDR", v.text)
            raise Untranslatable("address-of")
        if tk == ("p", "*"):
            self.eat()
            if self.peek() == ("id", "this"):
                self.eat(); return self.selfval()
            raise Untranslatable("pointer dereference")
        if tk == ("p", "("):
            # pointer cast (T*)e : the word memory is untyped
            j = self.i + 1
            while j < len(self.t) and self.t[j][0] == "id": j += 1
            if j > self.i + 1 and j + 1 < len(self.t) and self.t[j] == ("p", "*") and self.t[j + 1] == ("p", ")"):
                tyname = " ".join(t[1] for t in self.t[self.i + 1:j] if t[1] != "const")
                save = self.i; self.i = j + 2
                v = self.unary()
                if v.kind in ("P32", "P64"):
                    if v.kind == "PADDR" or v.ctype == "@addr":
                        pass
                    return v
                if v.kind == "ADDR":
                    # (T*)&reg : the lanes of a register seen as an array of T
                    k, _ = parse_type(tyname + "*", self.cls) if tyname != "scalar_value_type" else (None, None)
                    if tyname == "scalar_value_type" and self.cls: k = "P64" if self.cls[0] in ("double", "int64_t", "Int64") else "P32"
                    if k in ("P32", "P64"): return Val(k, (v.text, 0), fo=v.fo, ctype=tyname)
                    raise Untranslatable("cast of an address to %s*" % tyname)
                self.i = save
            # cast?
            j = self.i + 1; names = []
            while j < len(self.t) and self.t[j][0] == "id": names.append(self.t[j][1]); j += 1
            if names and j < len(self.t) and self.t[j] == ("p", ")"):
                ty = " ".join(n for n in names if n not in ("const", "unsigned", "signed"))
                if ty in REG_TYPES or ty in ("__mmask8", "__mmask16", "uint8_t", "uint16_t"):
                    self.i = j + 1; v = self.unary()
                    if ty in REG_TYPES and v.kind in ("R", "V"): v = Val(v.kind, v.text, fo=v.fo, ctype=ty)
                    return v
                if ty in SCALAR_TYPES:
                    self.i = j + 1; v = self.unary(); return self.coerce(v, SCALAR_TYPES[ty])
        return self.postfix()

    def selfval(self):
        if not self.cls: raise Untranslatable("*this outside a class")
        if self.cplx: return Val("C", ("self_r", "self_i"))
        return Val("V", "self", ctype=reg_ctype(*self.cls))

    def postfix(self):
        v = self.primary()
        while self.peek() == ("p", "["):
            self.eat(); ix = self.expr(); self.eat("]")
            if v.kind not in ("P32", "P64") or ix.kind != "imm": raise Untranslatable("indexing")
            name, off = v.text
            if v.kind == "P32":
                v = Val("f32" if v.ctype in ("float",) else "i32", "(%s %d)" % (name, off + ix.const))
            else:
                if (off % 2): raise Untranslatable("misaligned double index")
                v = Val("f64" if v.ctype == "double" else "i64", "(lane64 %s %d)" % (name, off // 2 + ix.const))
        while self.peek() == ("p", "."):
            self.eat(); f = self.eat()[1]
            if f == "value" and v.kind == "V": v = Val("R", v.text, fo=v.fo, ctype=v.ctype)
            elif f == "value_r" and v.kind == "C": v = Val("R", v.text[0], fo=v.fo)
            elif f == "value_i" and v.kind == "C": v = Val("R", v.text[1], fo=v.fo)
            else: raise Untranslatable("member .%s" % f)
        return v

    def args(self):
        self.eat("("); out = []
        if self.peek() == ("p", ")"): self.eat(); return out
        while True:
            out.append(self.expr())
            if self.peek() == ("p", ","): self.eat(); continue
            self.eat(")"); return out

    def primary(self):
        kind, v = self.peek()
        if kind == "num":
            self.eat(); s = v
            if re.match(r"^0[xX]", s): return Val("imm", None, int(re.sub(r"[uUlL]+$", "", s), 16))
            if re.search(r"[.eE]", s) or s[-1] in "fF":
                x = float(re.sub(r"[fFlL]+$", "", s)); return Val("flit", repr(x), x)
            n = int(re.sub(r"[uUlL]+$", "", s)); return Val("imm", str(n), n)
        if kind == "p" and v == "(":
            self.eat(); e = self.expr(); self.eat(")"); return e
        if kind == "id":
            self.eat()
            if v == "SIMDVector" and self.peek() == ("p", "<"):
                # SIMDVector<T,abi>(expr): a vector built from a register or from *this
                depth = 0
                while True:
                    tk = self.eat()
                    if tk == ("p", "<"): depth += 1
                    elif tk == ("p", ">"):
                        depth -= 1
                        if depth == 0: break
                a = self.args()
                if len(a) == 2 and all(x.kind in ("R", "V") for x in a):
                    return Val("C", (a[0].text, a[1].text), fo=a[0].fo or a[1].fo)
                if len(a) == 1 and a[0].kind == "C": return a[0]
                if len(a) != 1 or a[0].kind not in ("R", "V"): raise Untranslatable("SIMDVector constructor call")
                return Val("V", a[0].text, fo=a[0].fo, ctype=a[0].ctype)
            if v == "reinterpret_cast" and self.peek() == ("p", "<"):
                names = []
                self.eat("<")
                while self.peek() != ("p", ">"): names.append(self.eat()[1])
                self.eat(">"); self.eat("("); e = self.expr(); self.eat(")")
                ty = " ".join(n for n in names if n not in ("const", "*"))
                if e.kind in ("P32", "P64") and "*" in names:
                    k = "P64" if ty in ("double", "int64_t", "uint64_t", "long long") else "P32"
                    return Val(k, e.text, fo=e.fo, ctype=ty)
                raise Untranslatable("reinterpret_cast to %s" % ty)
            if v == "vector_type" and self.cls and self.peek() == ("p", "("):
                a = self.args()
                if self.cplx and len(a) == 2 and all(x.kind in ("R", "V") for x in a): return Val("C", (a[0].text, a[1].text), fo=a[0].fo or a[1].fo)
                if len(a) == 1 and a[0].kind in ("C",): return a[0]
                if len(a) == 1 and a[0].kind in ("R", "V") and not self.cplx: return Val("V", a[0].text, fo=a[0].fo, ctype=a[0].ctype)
                raise Untranslatable("vector_type constructor call")
            if self.peek() == ("p", "("):
                return self.call(v)
            if v == "value" and self.cls and not self.cplx: return Val("R", "self", ctype=reg_ctype(*self.cls))
            if v == "value_r" and self.cplx: return Val("R", "self_r", ctype=reg_ctype(*self.cls))
            if v == "value_i" and self.cplx: return Val("R", "self_i", ctype=reg_ctype(*self.cls))
            if v in self.aliases:
                k, tgt, ct = self.aliases[v]; return Val(k, (tgt, 0), ctype=ct)
            if v in self.env:
                k = self.env[v]
                if k in ("P32", "P64"): return Val(k, (lname(v), 0), ctype=self.ctypes.get(v))
                if k == "C": return Val("C", (lname(v) + "_r", lname(v) + "_i"))
                return Val(k, lname(v), ctype=self.ctypes.get(v))
            raise Untranslatable("unknown identifier %s" % v)
        raise Untranslatable("unexpected token %r" % (v,))

    def resolve(self, name, a):
        cands = [f for f in self.funcs[name] if len(f["kinds"]) == len(a)]
        def kind_ok(x, k):
            if k in ("R", "V"): return x.kind in ("R", "V")
            if k == "C": return x.kind == "C"
            if k in ("P32", "P64"): return x.kind in ("P32", "P64")
            return x.kind in (k, "imm", "flit") or (x.kind == "i32" and k == "i64")
        cands = [f for f in cands if all(kind_ok(x, k) for x, k in zip(a, f["kinds"]))]
        if len(cands) > 1:
            c2 = [f for f in cands if all(x.ctype is None or ct is None or x.ctype == ct for x, ct in zip(a, f["ctypes"]))
                  and any(x.ctype is not None and x.ctype == ct for x, ct in zip(a, f["ctypes"]))]
            if c2: cands = c2
        if len(cands) != 1: raise Untranslatable("call of %s: %d candidate overloads" % (name, len(cands)))
        return cands[0]

    def call_translated(self, name, a):
        f = self.resolve(name, a)
        fo = any(x.fo for x in a) or f["fo"]
        txt = []
        for x, k in zip(a, f["kinds"]):
            if k == "C": txt.append(pairtext(x))
            elif k in ("P32", "P64"): txt.append(x.text[0] if x.text[1] == 0 else "(loadw %s %d)" % x.text)
            else: txt.append(self.coerce(x, k if k != "V" else "R").text)
        expr = "(%s%s%s)" % (f["lean"], " fo" if f["fo"] else "", "".join(" " + t for t in txt))
        if f["ret"] == "C": return mkC(expr, fo), f
        return Val(f["ret"], expr, fo=fo, ctype=f.get("retctype")), f

    def call(self, name):
        v = self.call0(name)
        if v.kind == "R" and v.ctype is None and name.startswith("_mm"): v.ctype = intrin_ctype(name)
        return v

    def call0(self, name):
        a = self.args()
        fo = any(x.fo for x in a)
        m = re.match(r"^_mm(256|512)?_(.*)$", name)
        base = m.group(2) if m else None
        if name in self.funcs:                    # an already translated Fastor helper (possibly overloaded on the register type)
            v, _ = self.call_translated(name, a)
            return v
        if base is None: raise Untranslatable("call of %s (not translated)" % name)
        if re.match(r"^loadu?_(ps|pd|si128|si256|si512|epi32|epi64)$", base):
            if len(a) != 1 or a[0].kind not in ("P32", "P64"): raise Untranslatable("load from a non-pointer")
            return Val("R", "(loadw %s %d)" % a[0].text, fo=fo)
        mm_ = re.match(r"^maskload_(ps|pd|epi32|epi64)$", base)
        if mm_:
            if len(a) != 2 or a[0].kind not in ("P32", "P64"): raise Untranslatable("maskload arguments")
            w64 = mm_.group(1) in ("pd", "epi64")
            return Val("R", "(maskload%s (loadw %s %d) %s)" % ("64" if w64 else "32", a[0].text[0], a[0].text[1], self.coerce(a[1], "R").text), fo=fo)
        mm_ = re.match(r"^mask_loadu?_(ps|pd|epi32|epi64)$", base)
        if mm_:
            if len(a) != 3 or a[2].kind not in ("P32", "P64") or a[1].kind not in ("imm", "mask"): raise Untranslatable("mask_load with a mask that is neither a constant nor a mask parameter")
            w64 = mm_.group(1) in ("pd", "epi64")
            ktxt = str(a[1].const) if a[1].kind == "imm" else a[1].text
            return Val("R", "(kload%s %s %s (loadw %s %d))" % ("64" if w64 else "32", self.coerce(a[0], "R").text, ktxt, a[2].text[0], a[2].text[1]), fo=fo)
        if base == "loadl_pi":
            if len(a) != 2 or a[1].kind not in ("P32", "P64"): raise Untranslatable("loadl_pi arguments")
            return Val("R", "(loadl_pi %s %s %d)" % (self.coerce(a[0], "R").text, a[1].text[0], a[1].text[1]), fo=fo)
        if base == "loadl_epi64":
            if len(a) != 1 or a[0].kind not in ("P32", "P64"): raise Untranslatable("load from a non-pointer")
            return Val("R", "(loadw_sd %s %d)" % a[0].text, fo=fo)
        if base in ("load_ss", "load_sd"):
            if len(a) != 1 or a[0].kind not in ("P32", "P64"): raise Untranslatable("load from a non-pointer")
            return Val("R", "(loadw_%s %s %d)" % (base[-2:], a[0].text[0], a[0].text[1]), fo=fo)
        if CAST_ID.match(base):
            if len(a) != 1: raise Untranslatable("cast arity")
            return Val("R", self.coerce(a[0], "R").text, fo=fo)
        if CAST_UP.match(base):
            return Val("R", "(cast128_256 %s)" % self.coerce(a[0], "R").text, fo=fo)
        if base not in TABLE: raise Untranslatable("intrinsic %s is not in the model vocabulary" % name)
        lean, kinds, ret, needfo = TABLE[base]
        if kinds.endswith("*"):
            k = LETTER[kinds[0]]
            items = [self.coerce(x, k).text for x in a]
            return Val(ret, "(%s [%s])" % (lean, ", ".join(items)), fo=fo)
        if len(kinds) != len(a): raise Untranslatable("arity of %s" % name)
        txt = []
        for x, k in zip(a, kinds):
            if k == "R": txt.append(self.coerce(x, "R").text)
            elif k == "I":
                if x.kind != "imm": raise Untranslatable("immediate of %s is not a constant" % name)
                txt.append(str(x.const))
            else: txt.append(self.coerce(x, LETTER[k]).text)
        return Val(ret, "(%s%s%s)" % (lean, " fo" if needfo else "", "".join(" " + s for s in txt)), fo=fo or needfo)

# ------------------------------------------------------------------------------------------------ source scanning
MARK = "inline __attribute__((always_inline))"

def preprocess(isa, repo=None):
    repo = repo or core.REPO
    cmd = ["g++", "-std=c++14", "-E", "-P", "-O2", "-DFASTOR_VERIF", "-x", "c++"] + core.ISA_FLAGS[isa] + ["-I" + repo, "-"]
    src = '#include "Fastor/simd_vector/SIMDVector.h"\n#include "Fastor/simd_math/simd_math.h"\n#include "Fastor/backend/transpose/transpose_kernels.h"\n#include "Fastor/backend/dyadic.h"\n#include "Fastor/backend/norm.h"\n#include "Fastor/backend/matmul/matmul_specialisations_kernels.h"\n'
    p = subprocess.run(cmd, input=src, stdout=subprocess.PIPE, stderr=subprocess.PIPE, text=True, timeout=600)
    if p.returncode != 0:
        raise RuntimeError("preprocessing failed for %s: %s" % (isa, p.stderr[-800:]))
    return p.stdout

def match_brace(s, i):
    """s[i] == '{' -> index just after the matching '}'"""
    d = 0
    for j in range(i, len(s)):
        c = s[j]
        if c == "{": d += 1
        elif c == "}":
            d -= 1
            if d == 0: return j + 1
    return len(s)

CLS_RE = re.compile(r"struct\s+SIMDVector<\s*([\w:<> ]+?)\s*,\s*simd_abi::(\w+)\s*>\s*\{")
SIG_RE = re.compile(r"^(?P<ret>.*?)(?P<name>operator\s*\(\s*\)|operator\s*[^\s(\w]+|[A-Za-z_]\w*(?:<[^()<>]*>)?)\s*\((?P<params>[^()]*)\)\s*(?P<q>const)?\s*(?P<init>:.*)?$", re.S)

def scan(text):
    """yields dict(cls, ret, name, params, init, body, raw_sig) for every FASTOR_INLINE function after `namespace Fastor`"""
    start = text.find("namespace Fastor")
    spans = []
    for m in CLS_RE.finditer(text, start):
        e = match_brace(text, m.end() - 1)
        spans.append((m.start(), e, m.group(1).strip(), m.group(2)))
    out = []
    pos = start
    while True:
        i = text.find(MARK, pos)
        if i < 0: break
        j = i + len(MARK)
        # signature: up to the first '{' at paren depth 0 (or ';' for a declaration)
        d = 0; k = j; end = None
        while k < len(text):
            c = text[k]
            if c == "(": d += 1
            elif c == ")": d -= 1
            elif c == ";" and d == 0: break
            elif c == "{" and d == 0: end = k; break
            k += 1
        if end is None:
            pos = k + 1; continue
        sig = " ".join(text[j:end].split())
        be = match_brace(text, end)
        body = text[end + 1:be - 1]
        cls = None
        for (s0, e0, T, abi) in spans:
            if s0 < i < e0: cls = (T, abi)
        m = SIG_RE.match(sig)
        if m:
            pre = text[max(0, i - 500):i]
            cut = max(pre.rfind("}"), pre.rfind(";"), pre.rfind("{"))
            th = pre[cut + 1:]
            tpos = th.find("template")
            out.append({"template": " ".join(th[tpos:].split()) if tpos >= 0 else "",
                        "cls": cls, "ret": m.group("ret").strip(), "name": re.sub(r"\s+", "", m.group("name")), "params": m.group("params").strip(),
                        "init": (m.group("init") or "").strip(), "body": body, "sig": sig})
        pos = be
    return out

VEC_RE = re.compile(r"^(?:const\s+)?SIMDVector<\s*([\w:<> ]+?)\s*,\s*simd_abi::(\w+)\s*>\s*&?\s*$")

def parse_type(t, cls=None):
    """-> (kind, info): kind 'R' (info = C register type), 'V' / 'C' (info = (T, abi)), scalar kinds, or None"""
    t = t.strip()
    t = re.sub(r"^const\s+", "", t).strip()
    if t in REG_TYPES: return "R", t
    if t in SCALAR_TYPES: return SCALAR_TYPES[t], None
    if t == "bool": return "bool", None
    if t in ("uint8_t", "uint16_t", "__mmask8", "__mmask16"): return "mask", None
    mp = re.match(r"^(float|double|int32_t|int64_t|int|uint64_t|uint32_t|int32_lane_t|int64_lane_t)\s*\*\s*(?:__restrict__|__restrict)?$", t)
    if mp: return ("P64" if mp.group(1) in ("double", "int64_t", "uint64_t", "int64_lane_t") else "P32"), mp.group(1)
    if cls is not None:
        mq = re.match(r"^scalar_value_type\s*\*$", t)
        if mq and cls[0] in SCALAR_TYPES: return ("P64" if cls[0] in ("double", "int64_t", "Int64") else "P32"), cls[0]
        if t == "vector_type": return ("C" if is_cplx(cls[0]) else "V"), cls
        if t == "value_type": return "R", reg_ctype(*cls)
        if t == "scalar_value_type" and cls[0] in SCALAR_TYPES: return SCALAR_TYPES[cls[0]], None
    m = VEC_RE.match(t)
    if m:
        T = m.group(1).strip().replace(" ", "")
        return ("C" if is_cplx(T) else "V"), (T, m.group(2))
    return None, None

def parse_params(ps, cls=None):
    """-> [(name, kind, info, is_out)]"""
    out = []
    if not ps.strip(): return out
    depth = 0; cur = ""; parts = []
    for c in ps:
        if c == "<": depth += 1
        if c == ">": depth -= 1
        if c == "," and depth == 0: parts.append(cur); cur = ""
        else: cur += c
    parts.append(cur)
    for p in parts:
        p = p.split("=")[0].strip()
        m = re.match(r"^(.*?)([A-Za-z_]\w*)$", p, re.S)
        if not m: raise Untranslatable("parameter %r" % p)
        ty, nm = m.group(1).strip(), m.group(2)
        ty = re.sub(r"\s*(__restrict__|__restrict)\s*", "", ty)
        is_ref = ty.endswith("&"); is_const = ty.startswith("const")
        ty = ty.rstrip("&").strip()
        kind, info = parse_type(ty, cls)
        if kind is None: raise Untranslatable("parameter type %r" % ty)
        out.append((nm, kind, info, (is_ref and not is_const and kind == "R") or (kind in ("P32", "P64") and not is_const)))
    return out

OPNAMES = {"+": "add", "-": "sub", "*": "mul", "/": "div", "+=": "iadd", "-=": "isub", "*=": "imul", "/=": "idiv"}

FOR_RE = re.compile(r"for\s*\(\s*(?:FASTOR_INDEX|int|size_t|int32_t|unsigned long|unsigned)\s+(\w+)\s*=\s*(\d+)(?:UL|ul|u|U)?\s*;\s*\1\s*<\s*(\d+(?:\s*[-+]\s*\d+)*)(?:UL|ul|u|U)?\s*;\s*(?:\+\+\s*\1|\1\s*\+\+)\s*\)")

def unroll(body):
    """constant-bound `for (I i = lo; i < hi; ++i) BODY`  ->  BODY[i:=lo]; ...; BODY[i:=hi-1]"""
    for _ in range(20):
        ms = list(FOR_RE.finditer(body))
        if not ms: return body
        m = ms[-1]
        var, lo, hi = m.group(1), int(m.group(2)), sum(int(t) for t in re.findall(r"[-+]?\d+", m.group(3).replace(" ", "")))
        if hi - lo > 64: raise Untranslatable("loop with %d iterations" % (hi - lo))
        rest = body[m.end():]
        k = len(rest) - len(rest.lstrip())
        if rest[k:k + 1] == "{":
            e = match_brace(rest, k); inner = rest[k + 1:e - 1]; tail = rest[e:]
        else:
            e = rest.find(";", k)
            if e < 0: raise Untranslatable("loop body")
            inner = rest[k:e + 1]; tail = rest[e + 1:]
        exp = "".join(re.sub(r"\b%s\b" % re.escape(var), str(i), inner) + ";" for i in range(lo, hi))
        body = body[:m.start()] + exp + tail
    raise Untranslatable("loop nesting")

def lanes_of(info):
    if not info or info[1] not in ("sse", "avx", "avx512") or info[0] not in TNAME: return None
    w = 64 if info[0] in ("double", "int64_t", "Int64", "std::complex<double>") else 32
    return {"sse": 128, "avx": 256, "avx512": 512}[info[1]] // w

def split_statements(body):
    if re.search(r"\b(for|while|else|switch|do|goto)\b", body):
        raise Untranslatable("control flow in the body")
    if re.search(r"\[[^\]]*[A-Za-z_][^\]]*\]", body): raise Untranslatable("array / pointer indexing with a non-constant index")
    return [s.strip() for s in body.split(";") if s.strip()]

def kletter(k):
    return {"V": "v", "C": "v", "R": "r", "bool": "b", "mask": "m", "P32": "p", "P64": "p"}.get(k, "s")

def translate_function(f, funcs):
    """-> (lean_name, lean_text, meta) or raises Untranslatable"""
    cls = f["cls"]
    if cls and cls[0] not in TNAME: raise Untranslatable("class %s is outside the grammar" % (cls[0],))
    params = parse_params(f["params"], cls)
    name = f["name"]
    is_ctor = (name == "SIMDVector" and cls is not None)
    owner = cls
    for (_, k, info, _) in params:
        if k in ("V", "C") and owner is None: owner = info
    retk, retinfo = parse_type(f["ret"], cls) if f["ret"] and not is_ctor else (None, None)
    if owner is None and retk in ("V", "C"): owner = retinfo
    if owner and owner[0] not in TNAME: raise Untranslatable("class %s is outside the grammar" % (owner[0],))
    cplx_cls = cls is not None and is_cplx(cls[0])
    env = {}; ctypes = {}
    lparams = []; prologue = []
    if cls is not None and not is_ctor:
        if cplx_cls:
            lparams.append(("self", "C")); prologue += [("self_r", "self.1"), ("self_i", "self.2")]
        else:
            lparams.append(("self", "R"))
    outs = []
    for (nm, k, info, is_out) in params:
        env[nm] = k
        if k in ("R", "P32", "P64"): ctypes[nm] = info
        if k == "V": ctypes[nm] = reg_ctype(*info)
        lparams.append((lname(nm), "R" if k == "V" else k))
        if k == "C": prologue += [(lname(nm) + "_r", lname(nm) + ".1"), (lname(nm) + "_i", lname(nm) + ".2")]
        if is_out: outs.append(nm)
    # name of the definition
    if owner:
        pre = "%s_%s" % (TNAME[owner[0]], owner[1])
        ks = "".join(kletter(k) for (_, k, _, _) in params)
        if name.startswith("operator"):
            op = name[len("operator"):]
            if op not in OPNAMES: raise Untranslatable("operator %s" % op)
            base = OPNAMES[op]
            if cls is None and len(params) == 1: base = {"add": "pos", "sub": "neg"}.get(base, base); ks = ""
            lean = "%s.%s%s" % (pre, base, ("_" + ks) if ks else "")
        elif is_ctor:
            lean = "%s.ctor%s" % (pre, ("_" + ks) if ks else "")
        else:
            nm0 = re.sub(r"<.*$", "", name)
            lean = "%s.%s%s" % (pre, nm0, ("_" + ks) if (ks and set(ks) != {"v"}) or (nm0 in ("set", "min", "max")) else "")
    else:
        lean = name.lstrip("_") if name.startswith("_mm") else "h_" + re.sub(r"\W+", "_", name.lstrip("_")).strip("_")
    # result kind
    void_ret = f["ret"].strip() == "void"
    void_inplace = void_ret and cls is not None and not outs
    if is_ctor or void_inplace: ret_kind = "C" if cplx_cls else "R"
    elif void_ret and outs: ret_kind = "OUTS"
    elif retk == "V": ret_kind = "R"
    elif retk in ("R", "C", "i32", "i64", "f32", "f64"): ret_kind = retk
    else: raise Untranslatable("return type %r" % f["ret"])
    lets = list(prologue); fo = [False]; result = [None]
    def ev(expr_text, want=None):
        p = Parser(tokenize(expr_text), env, funcs, cls, ctypes)
        v = p.expr()
        if not p.done(): raise Untranslatable("trailing tokens in %r" % expr_text[:60])
        if want and not (want == "C" and v.kind == "C"): v = p.coerce(v, want)
        fo[0] = fo[0] or v.fo
        return v
    def bind(nm, v):
        """let-bind variable nm (C kind binds two names)"""
        if v.kind == "C": lets.append((lname(nm) + "_r", v.text[0])); lets.append((lname(nm) + "_i", v.text[1]))
        else: lets.append((lname(nm), v.text))
    selfmod = [False]
    if is_ctor:
        if cplx_cls:
            m = re.match(r"^:\s*value_r\((.*)\)\s*,\s*value_i\((.*)\)$", f["init"], re.S)
            if not m or f["body"].strip(): raise Untranslatable("constructor body")
            r0 = ev(m.group(1), "R"); i0 = ev(m.group(2), "R"); result[0] = "(%s, %s)" % (r0.text, i0.text)
        else:
            m = re.match(r"^:\s*value\((.*)\)$", f["init"], re.S)
            if not m or f["body"].strip(): raise Untranslatable("constructor body")
            result[0] = ev(m.group(1), "R").text
    else:
        body = f["body"]
        N = lanes_of(cls or owner)
        if N: body = re.sub(r"\bout\.size\(\)|\bSize\b|\bsize\(\)", str(N), body)
        body = unroll(body)
        body = re.sub(r"(if\s*\(\s*!?\s*\w+\s*\)\s*[^;{}]+);\s*else\s+", r"\1 @ELSE@ ", body)
        stmts = split_statements(body)
        env["@aliases"] = {}
        def handle(s):
            mt = re.match(r"^(?:internal::)?(_matmul8k8_(?:float|double))\s*<\s*([^>]*)>\s*(\(.*\))$", s, re.S)
            if mt: s = mangle("%s<%s>" % (mt.group(1), mt.group(2).replace(" ", ""))) + mt.group(3)
            if re.match(r"^unused\s*\(.*\)$", s): return
            if result[0] is not None: raise Untranslatable("statement after return")
            m = re.match(r"^return\s+(.*)$", s, re.S)
            if m:
                e = m.group(1).strip()
                if e == "*this":
                    if not selfmod[0]: raise Untranslatable("return *this")
                    result[0] = "(self_r, self_i)" if cplx_cls else "self"; return
                v = ev(e, ret_kind if ret_kind != "OUTS" else None)
                result[0] = pairtext(v) if v.kind == "C" else v.text; return
            # local arrays  T a[n], b[n]
            m = re.match(r"^(?:alignas\s*\(\d+\)\s+|__attribute__\s*\(\(aligned\(\d+\)\)\)\s+)?(\w+)\s+(\w+\s*\[\d+\](?:\s*,\s*\w+\s*\[\d+\])*)$", s)
            if m and parse_type(m.group(1) + "*", cls)[0] in ("P32", "P64"):
                k, info = parse_type(m.group(1) + "*", cls)
                for d in m.group(2).split(","):
                    nm = re.match(r"\s*(\w+)", d).group(1); env[nm] = k; ctypes[nm] = info; lets.append((lname(nm), "junk"))
                return
            # pointer alias of a register  T *p = (T*)&reg
            m = re.match(r"^(?:const\s+)?(\w+)\s*\*\s*(\w+)\s*=\s*(.*)$", s, re.S)
            if m:
                v = ev(m.group(3))
                if v.kind in ("P32", "P64") and v.text[1] == 0:
                    env["@aliases"][m.group(2)] = (v.kind, v.text[0], v.ctype); return
                raise Untranslatable("statement %r" % s[:70])
            # conditional assignment  if (c) x = e
            m = re.match(r"^if\s*\((.*?)\)\s*([A-Za-z_]\w*)\s*=\s*(.*)$", s, re.S)
            if m and m.group(2) in env and env[m.group(2)] in ("i32", "i64", "f32", "f64"):
                c = ev(m.group(1))
                if c.kind != "bool": raise Untranslatable("condition %r" % m.group(1)[:40])
                e = ev(m.group(3), env[m.group(2)])
                lets.append((lname(m.group(2)), "(if %s then %s else %s)" % (c.text, e.text, lname(m.group(2))))); return
            if s.startswith("if"): raise Untranslatable("statement %r" % s[:70])
            # array element (compound) assignment  a[k] op= e
            m = re.match(r"^(\w+)\s*\[\s*(\d+)\s*\]\s*(=|\+=|-=|\*=|/=)\s*(.*)$", s, re.S)
            if m and (m.group(1) in env and env[m.group(1)] in ("P32", "P64") or m.group(1) in env["@aliases"]):
                cur = ev("%s[%s]" % (m.group(1), m.group(2)))
                rhs = ev(m.group(4), cur.kind)
                if m.group(3) != "=":
                    rhs = Parser([], env, funcs, cls, ctypes).binop(m.group(3)[0], cur, rhs); fo[0] = fo[0] or rhs.fo
                pv = ev(m.group(1)); tgt = pv.text[0]; k = int(m.group(2))
                if pv.kind == "P32": lets.append((tgt, "(storew %s %d 1 (set1_32 %s))" % (tgt, k, rhs.text)))
                else: lets.append((tgt, "(storew %s %d 2 (set1_64 %s))" % (tgt, 2 * k, rhs.text)))
                if tgt == "self": selfmod[0] = True
                return
            # scalar compound assignment  x op= e
            m = re.match(r"^([A-Za-z_]\w*)\s*(\+=|-=|\*=|/=)\s*(.*)$", s, re.S)
            if m and m.group(1) in env and env[m.group(1)] in ("i32", "i64", "f32", "f64"):
                k = env[m.group(1)]; cur = Val(k, lname(m.group(1))); rhs = ev(m.group(3), k)
                r = Parser([], env, funcs, cls, ctypes).binop(m.group(2)[0], cur, rhs); fo[0] = fo[0] or r.fo
                lets.append((lname(m.group(1)), r.text)); return
            # direct initialisation of a register  __m128 x(expr)
            m = re.match(r"^(__m\d+[di]?)\s+([A-Za-z_]\w*)\s*\((.*)\)$", s, re.S)
            if m:
                v = ev(m.group(3), "R"); env[m.group(2)] = "R"; ctypes[m.group(2)] = m.group(1); bind(m.group(2), v); return
            # declarations with initialiser
            m = re.match(r"^(?:static\s+)?(?:const\s+)?(SIMDVector<[^=]*?>|[A-Za-z_][\w ]*?)\s+([A-Za-z_]\w*)\s*=\s*(.*)$", s, re.S)
            if m and parse_type(m.group(1), cls)[0]:
                k, info = parse_type(m.group(1), cls); v = ev(m.group(3), "R" if k == "V" else k)
                env[m.group(2)] = k
                if k == "R": ctypes[m.group(2)] = info
                if k == "V": ctypes[m.group(2)] = reg_ctype(*info)
                bind(m.group(2), v); return
            m = re.match(r"^(?:const\s+)?auto\s+([A-Za-z_]\w*)\s*=\s*(.*)$", s, re.S)
            if m:
                v = ev(m.group(2)); k = "R" if v.kind == "V" else v.kind
                if k not in LEAN_TY: raise Untranslatable("auto of kind %s" % k)
                env[m.group(1)] = k; bind(m.group(1), v); return
            # declarations without initialiser (several declarators allowed): vectors start as zero, registers are undefined
            m = re.match(r"^(SIMDVector<[^=(]*?>|vector_type|__m\d+[di]?)\s+([A-Za-z_]\w*(?:\s*,\s*[A-Za-z_]\w*)*)$", s, re.S)
            if m and parse_type(m.group(1), cls)[0] in ("V", "C", "R"):
                k, info = parse_type(m.group(1), cls)
                for nm in [x.strip() for x in m.group(2).split(",")]:
                    env[nm] = k
                    if k == "C": lets.append((lname(nm) + "_r", "setzero")); lets.append((lname(nm) + "_i", "setzero"))
                    elif k == "V": ctypes[nm] = reg_ctype(*info); lets.append((lname(nm), "setzero"))
                    else: ctypes[nm] = info; lets.append((lname(nm), "junk"))
                return
            # copy construction  vector_type out(*this) / SIMDVector<..> out(expr)
            m = re.match(r"^(SIMDVector<[^=(]*?>|vector_type)\s+([A-Za-z_]\w*)\((.*)\)$", s, re.S)
            if m and parse_type(m.group(1), cls)[0] in ("V", "C"):
                k, info = parse_type(m.group(1), cls); v = ev(m.group(3))
                if k == "C" and v.kind != "C": raise Untranslatable("statement %r" % s[:70])
                if k == "V": v = Parser([], env, funcs, cls, ctypes).coerce(v, "R"); ctypes[m.group(2)] = reg_ctype(*info)
                env[m.group(2)] = k; bind(m.group(2), v); return
            if s == "return" and void_ret: return
            m = re.match(r"^_mm_(storel_pi|store_ss|store_sd)\s*\((.*)\)$", s, re.S)
            if m:
                aa = split_args(m.group(2))
                if len(aa) != 2: raise Untranslatable("store arity")
                pv = ev(aa[0]); rv = ev(aa[1], "R")
                if pv.kind not in ("P32", "P64"): raise Untranslatable("store through a non-pointer")
                W = {"storel_pi": 2, "store_ss": 1, "store_sd": 2}[m.group(1)]
                lets.append((pv.text[0], "(storew %s %d %d %s)" % (pv.text[0], pv.text[1], W, rv.text))); return
            # store through a pointer:  _mm_storeu_ps(p + k, e)
            m = re.match(r"^_mm(256|512)?_storeu?_(ps|pd|si128|si256|si512)\s*\((.*)\)$", s, re.S)
            if m:
                aa = split_args(m.group(3))
                if len(aa) != 2: raise Untranslatable("store arity")
                pv = ev(aa[0]); rv = ev(aa[1], "R")
                if pv.kind not in ("P32", "P64"): raise Untranslatable("store through a non-pointer")
                W = {None: 4, "256": 8, "512": 16}[m.group(1)]
                lets.append((pv.text[0], "(storew %s %d %d %s)" % (pv.text[0], pv.text[1], W, rv.text))); return
            m = re.match(r"^_mm(256|512)?_maskstore_(ps|pd|epi32|epi64)\s*\((.*)\)$", s, re.S)
            if m:
                aa = split_args(m.group(3))
                if len(aa) != 3: raise Untranslatable("maskstore arity")
                pv = ev(aa[0]); mk = ev(aa[1], "R"); rv = ev(aa[2], "R")
                if pv.kind not in ("P32", "P64"): raise Untranslatable("store through a non-pointer")
                W = {None: 4, "256": 8, "512": 16}[m.group(1)]
                lets.append((pv.text[0], "(maskstore%s %s %d %d %s %s)" % ("64" if m.group(2) in ("pd", "epi64") else "32", pv.text[0], pv.text[1], W, mk.text, rv.text))); return
            m = re.match(r"^_mm(256|512)?_mask_storeu?_(ps|pd|epi32|epi64)\s*\((.*)\)$", s, re.S)
            if m:
                aa = split_args(m.group(3))
                if len(aa) != 3: raise Untranslatable("mask_store arity")
                pv = ev(aa[0]); kv_ = ev(aa[1]); rv = ev(aa[2], "R")
                if pv.kind not in ("P32", "P64") or kv_.kind not in ("imm", "mask"): raise Untranslatable("mask_store with a mask that is neither a constant nor a mask parameter")
                W = {None: 4, "256": 8, "512": 16}[m.group(1)]
                ktxt = str(kv_.const) if kv_.kind == "imm" else kv_.text
                lets.append((pv.text[0], "(kstore%s %s %d %d %s %s)" % ("64" if m.group(2) in ("pd", "epi64") else "32", pv.text[0], pv.text[1], W, ktxt, rv.text))); return
            # call statement of a helper with reference (in-out) parameters
            m = re.match(r"^([A-Za-z_]\w*)\s*\((.*)\)$", s, re.S)
            if m and m.group(1) in funcs:
                p = Parser(tokenize(s), env, funcs, cls, ctypes)
                p.eat(); a = p.args()
                v, meta = p.call_translated(m.group(1), a)
                if not p.done() or not meta.get("outs"): raise Untranslatable("statement %r" % s[:70])
                fo[0] = fo[0] or v.fo
                # the arguments in the out positions must be plain variables
                toks_args = [t.strip() for t in split_args(m.group(2))]
                tmp = "t%d" % len(lets)
                lets.append((tmp, v.text))
                for n_out, pos in enumerate(meta["outs"]):
                    target = toks_args[pos]
                    comp = ("%s.%d" % (tmp, n_out + 1)) if len(meta["outs"]) == 2 else tmp
                    if len(meta["outs"]) > 2: raise Untranslatable("more than two reference parameters")
                    if meta["kinds"][pos] in ("P32", "P64"):
                        # the callee's memory is indexed from its pointer argument p + off: write it back at off
                        pv = a[pos]
                        if pv.kind not in ("P32", "P64"): raise Untranslatable("pointer argument")
                        nm_, off_ = pv.text
                        lets.append((nm_, comp if off_ == 0 else "(fun w => if %d ≤ w then %s (w - %d) else %s w)" % (off_, comp, off_, nm_)))
                    elif not assign(target, Val("R", comp), env, lets, cls, cplx_cls, selfmod):
                        raise Untranslatable("reference argument %r" % target[:30])
                return
            m = re.match(r"^([A-Za-z_]\w*)(\.value|\.value_r|\.value_i)?\s*=\s*(.*)$", s, re.S)
            if m:
                nm, mem = m.group(1), m.group(2)
                tgt = nm + (mem or "")
                kexp = None
                if nm in env and not mem: kexp = env[nm] if env[nm] != "V" else "R"
                v = ev(m.group(3), kexp if kexp in ("i32", "i64", "f32", "f64") else None)
                if assign(tgt, v, env, lets, cls, cplx_cls, selfmod): return
            raise Untranslatable("statement %r" % s[:70])
        for s in stmts:
            mi = re.match(r"^if\s*\((!?\s*\w+)\)\s*(.*?)\s*@ELSE@\s*(.*)$", s, re.S)
            if mi:
                c = ev(mi.group(1))
                if c.kind != "bool": raise Untranslatable("condition %r" % mi.group(1))
                n0 = len(lets); handle(mi.group(2)); l1 = lets[n0:]; del lets[n0:]
                handle(mi.group(3)); l2 = lets[n0:]; del lets[n0:]
                if len(l1) != 1 or len(l2) != 1 or l1[0][0] != l2[0][0] or result[0] is not None: raise Untranslatable("if / else branches are not two assignments (stores) to the same target")
                lets.append((l1[0][0], l1[0][1] if l1[0][1] == l2[0][1] else "(if %s then %s else %s)" % (c.text, l1[0][1], l2[0][1])))
            else:
                handle(s)
        if result[0] is None:
            if void_inplace and selfmod[0]: result[0] = "(self_r, self_i)" if cplx_cls else "self"
            elif ret_kind == "OUTS" and len(outs) > 2:
                result[0] = "fun r => [%s].getD r setzero" % ", ".join(lname(o) for o in outs)
            elif ret_kind == "OUTS":
                result[0] = lname(outs[0]) if len(outs) == 1 else "(%s)" % ", ".join(lname(o) for o in outs)
            else: raise Untranslatable("no result")
    lean_ret = LEAN_TY[ret_kind] if ret_kind != "OUTS" else ("Reg" if len(outs) == 1 else "Reg × Reg" if len(outs) == 2 else "Nat → Reg")
    sig = "".join(" (%s : %s)" % (n, LEAN_TY[k]) for n, k in lparams)
    lines = ["def %s%s%s : %s :=" % (lean, " (fo : FOps)" if fo[0] else "", sig, lean_ret)]
    for n, t in lets: lines.append("  let %s := %s" % (n, t))
    lines.append("  " + result[0])
    meta = {"lean": lean, "fo": fo[0], "kinds": [k for (_, k, _, _) in params], "ctypes": [(i if k == "R" else None) for (_, k, i, _) in params],
            "ret": ("ROWS" if (ret_kind == "OUTS" and len(outs) > 2) else "C" if (ret_kind == "OUTS" and len(outs) == 2) else "R" if ret_kind == "OUTS" else ret_kind),
            "outs": [n for n, (nm, _, _, o) in enumerate(params) if o], "retctype": (retinfo if retk == "R" else None),
            "cname": name, "owner": owner, "self": cls is not None and not is_ctor, "params": [(nm, k) for (nm, k, _, _) in params], "cls": cls, "cret": f["ret"].strip()}
    return lean, "\n".join(lines), meta

def split_args(s):
    out = []; d = 0; cur = ""
    for c in s:
        if c in "(<": d += 1
        if c in ")>": d -= 1
        if c == "," and d == 0: out.append(cur); cur = ""
        else: cur += c
    out.append(cur); return out

def assign(tgt, v, env, lets, cls, cplx_cls, selfmod):
    """assignment `tgt = v` (tgt: x | x.value | x.value_r | value | value_r ...).  Returns False when not understood"""
    if "." in tgt: nm, mem = tgt.split(".", 1)
    else: nm, mem = tgt, None
    if cls is not None and mem is None and nm in ("value", "value_r", "value_i") and nm not in env:
        if v.kind not in ("R", "V"): return False
        if nm == "value" and not cplx_cls: lets.append(("self", v.text)); selfmod[0] = True; return True
        if nm == "value_r" and cplx_cls: lets.append(("self_r", v.text)); selfmod[0] = True; return True
        if nm == "value_i" and cplx_cls: lets.append(("self_i", v.text)); selfmod[0] = True; return True
        return False
    if nm not in env: return False
    k = env[nm]
    if k == "R" and mem is None and v.kind in ("R", "V"): lets.append((lname(nm), v.text)); return True
    if k == "V" and (mem == "value" or mem is None) and v.kind in ("R", "V"): lets.append((lname(nm), v.text)); return True
    if k == "C" and mem == "value_r" and v.kind in ("R", "V"): lets.append((lname(nm) + "_r", v.text)); return True
    if k == "C" and mem == "value_i" and v.kind in ("R", "V"): lets.append((lname(nm) + "_i", v.text)); return True
    if k == "C" and mem is None and v.kind == "C": lets.append((lname(nm) + "_r", v.text[0])); lets.append((lname(nm) + "_i", v.text[1])); return True
    if k in ("i32", "i64", "f32", "f64") and mem is None and v.kind == k: lets.append((lname(nm), v.text)); return True
    return False

MATMUL_K = (1, 2, 3, 4, 5, 8)
MATMUL_INST = [(T, M, K, M) for T in ("float", "double") for M in (2, 3, 4, 8) for K in MATMUL_K]

def mangle(name):
    return re.sub(r"\W+", "_", name).strip("_")

def instantiate_matmul(fns):
    """template families of matmul_specialisations_kernels.h -> one function per (T, M, K, N) of MATMUL_INST for which the
    enable_if condition of the family holds and no full specialisation exists (C++ overload resolution)"""
    full = set(f["name"] for f in fns if re.match(r"^_matmul<", f["name"]))
    out = []
    for f in fns:
        th = f.get("template", "")
        if f["name"] in ("_matmul", "_matmul8k8_float", "_matmul8k8_double") and "size_t M" in th and "size_t K" in th:
            mc = re.search(r"enable_if<\s*(.*?)\s*,\s*bool\s*>", th, re.S)
            if not mc: continue
            cond = mc.group(1)
            py = re.sub(r"std::is_same<\s*T\s*,\s*(\w+)\s*>::value", r'(T=="\1")', cond).replace("&&", " and ").replace("||", " or ")
            py = re.sub(r"!(?!=)", " not ", py)
            for (T, M, K, N) in MATMUL_INST:
                try: ok = bool(eval(py, {"__builtins__": {}}, {"T": T, "M": M, "K": K, "N": N}))
                except Exception: ok = False
                nm = "%s<%s,%d,%d,%d>" % (f["name"], T, M, K, N)
                if not ok or nm in full: continue
                g = dict(f); g["name"] = nm; g["template"] = ""
                sub = lambda t: re.sub(r"\bT\b", T, re.sub(r"\bN\b", str(N), re.sub(r"\bK\b", str(K), re.sub(r"\bM\b", str(M), t))))
                g["body"] = sub(f["body"]); g["params"] = sub(f["params"]); g["sig"] = sub(f["sig"]); g["instance_of"] = cond
                out.append(g)
        else:
            out.append(f)
    order = lambda f: 1 if f["name"].startswith("_matmul8k8") else 2 if f["name"].startswith("_matmul") else 0
    return sorted(out, key=order)      # stable: helpers first, then the 8k8 kernels, then the _matmul instances that call them

def translate(isa, repo=None):
    """-> (lean file text, report dict)"""
    text = preprocess(isa, repo)
    fns = instantiate_matmul(scan(text))
    funcs = {}; used = set(); defs = []; untranslated = []; translated = []; metas = []
    for f in fns:
        nm = f["name"]
        interesting = (f["cls"] is not None) or nm.startswith("_mm") or nm.startswith("_add") or nm in ("_addsub_ps", "_mulsub_ps", "_hsub_pd", "arrange_from_load", "arrange_for_store") or nm.startswith("_MM_TRANSPOSE") or nm.startswith("_dyadic<") or nm.startswith("_norm<") or nm.startswith("_matmul<") or nm.startswith("_matmul8k8_") \
            or "SIMDVector<" in f["params"] or "SIMDVector<" in f["ret"]
        if not interesting: continue
        if "T,ABI" in f["sig"].replace(" ", "") or "template" in f["ret"]: continue
        if f["cls"] is not None and (f["cls"][0] in ("T", "std::complex<T>") or f["cls"][1] == "scalar"): continue   # class templates (scalar ABI): no intrinsic code
        label = ("%s<%s,%s>::" % ("SIMDVector", f["cls"][0], f["cls"][1]) if f["cls"] else "") + nm + "(" + f["params"] + ")"
        try:
            lean, txt, meta = translate_function(f, funcs)
            if lean in used:
                suffix = None
                if f["cls"] is None and meta["owner"] is None:
                    cts = [c for c in meta["ctypes"] if c]
                    if cts: suffix = cts[0].lstrip("_")
                cand = "%s_%s" % (lean, suffix) if suffix else None
                if not cand or cand in used:
                    k = 2
                    while "%s_%d" % (lean, k) in used: k += 1
                    cand = "%s_%d" % (lean, k)
                txt = txt.replace("def " + lean, "def " + cand, 1); lean = cand; meta["lean"] = lean
            used.add(lean)
            if f["cls"] is None and meta["owner"] is None:
                funcs.setdefault(nm, []).append(meta)      # free helper: callable from later bodies, overloads resolved by register type
                if "<" in nm: funcs.setdefault(mangle(nm), []).append(meta)
            defs.append("-- " + label + "\n" + txt)
            translated.append(lean); meta["label"] = label; metas.append(meta)
        except Untranslatable as e:
            defs.append("-- UNTRANSLATED %s: %s" % (label, e))
            untranslated.append((label, str(e)))
        except Exception as e:      # a bug of the translator must not look like a translation
            defs.append("-- UNTRANSLATED %s: translator error %s" % (label, e))
            untranslated.append((label, "translator error %s" % e))
    head = ("import FastorModel.Model.SimdIntrinsics\n"
            "/-! GENERATED by vlib/xlate_simd.py (C08) from the preprocessed Fastor/simd_vector/SIMDVector.h + simd_math/simd_math.h, configuration `%s`.\n"
            "    Regenerated on every `./check C08` run from the current repo tree; do not edit. -/\n"
            "set_option linter.unusedVariables false\n"
            "namespace Fastor.Gen.%s\nopen Fastor.Simd\n\n" % (isa, isa))
    body = "\n\n".join(defs)
    return head + body + "\n\nend Fastor.Gen.%s\n" % isa, {"isa": isa, "translated": translated, "untranslated": untranslated, "metas": metas}

def regenerate(isas=ISAS, repo=None, log=None):
    """writes Generated/Simd_<isa>.lean (only when the content changed).  Returns {isa: report}"""
    os.makedirs(GEN_DIR, exist_ok=True)
    reports = {}
    for isa in isas:
        try:
            txt, rep = translate(isa, repo)
        except Exception as e:
            # e.g. the headers do not preprocess: keep the previous file, never take a check down
            reports[isa] = {"isa": isa, "translated": [], "untranslated": [], "metas": [], "changed": False, "error": "%s: %s" % (type(e).__name__, str(e)[:400]),
                            "path": os.path.join(GEN_DIR, "Simd_%s.lean" % isa)}
            if log is not None: log.append("xlate %s: FAILED (%s), previous file kept" % (isa, reports[isa]["error"][:120]))
            continue
        p = os.path.join(GEN_DIR, "Simd_%s.lean" % isa)
        old = open(p).read() if os.path.exists(p) else None
        rep["changed"] = (old != txt)
        rep["previous_text"] = old if old != txt else None     # restored by xlate_validate.write_tables when the new file does not compile
        if old != txt:
            with open(p, "w") as fh: fh.write(txt)
        rep["path"] = p
        reports[isa] = rep
        if log is not None:
            log.append("xlate %s: %d translated, %d untranslated%s" % (isa, len(rep["translated"]), len(rep["untranslated"]), " (file rewritten)" if rep["changed"] else ""))
    return reports

if __name__ == "__main__":
    import sys
    for isa, rep in regenerate(sys.argv[1:] or ISAS).items():
        print(isa, len(rep["translated"]), "translated;", len(rep["untranslated"]), "untranslated; changed=%s" % rep["changed"])
        for l, w in rep["untranslated"][:400]:
            print("   UNTRANSLATED", l[:100], "::", w[:100])
