// C07 correspondence probes (model: lean/FastorModel/Model/Footprint.lean, driver commands pfoot / bounds / memidx / aflag)
//  pfoot : footprint of the real partial load / store helpers, measured with guard pages (lowest / highest lane
//          whose access faults) and by contents (which lanes were loaded / which elements changed)
//  bounds: Tensor / TensorMap scalar indexing with and without runtime checks
//  aflag : is_aligned() of the storage classes
#include <Fastor/Fastor.h>
#include "guard.h"
#include <array>
#include <climits>
using namespace Fastor;
using namespace vg;
#ifndef CFGNAME
#define CFGNAME "sse2"
#endif
static bool g_verbose = false;

#if defined(FASTOR_HAS_AVX512_MASKS)
#define VG_BRANCH "avx512"
#elif defined(FASTOR_AVX_IMPL)
#define VG_BRANCH "avx"
#else
#define VG_BRANCH "sse"
#endif

// ---- generic measuring: `acc(p)` performs the access on element pointer p (T*, V lanes) --------------------
template<class T, int V, class ACC> static void hull(ACC acc, int& lo, int& hi) {
    g_reg[0].init();
    hi = -1;
    for (int k = 0; k <= V; ++k) {            // exactly k elements are accessible below the high guard
        T* p = (T*)(g_reg[0].hi - (size_t)k * sizeof(T));
        if (protect([&] { acc(p); }) == 0) { hi = k; break; }
    }
    lo = -1;
    for (int j = V; j >= 0; --j) {            // the first j elements lie in the low guard page
        T* p = (T*)(g_reg[0].lo - (size_t)j * sizeof(T));
        if (protect([&] { acc(p); }) == 0) { lo = j; break; }
    }
}
template<class T, int V> static T* mid_buffer() {     // 64-byte aligned, in the middle of the region, holds 1..V
    g_reg[0].init(); T* p = (T*)(g_reg[0].lo + 4096);
    for (int i = -V; i < 2 * V; ++i) p[i] = (T)(i + 1 + 100);
    return p;
}
template<class T, int V, class LD> static void probe_load(const char* h, unsigned maskbits, LD ld) {
    T* p = mid_buffer<T, V>();
    std::array<T, V> got{}; ld(p, got.data());
    unsigned lanes = 0; for (int l = 0; l < V; ++l) if (got[l] != T(0)) lanes |= 1u << l;
    bool vals = true; for (int l = 0; l < V; ++l) if ((lanes >> l & 1) && got[l] != p[l]) vals = false;
    int lo, hi; T sinkbuf[V];
    hull<T, V>([&](T* q) { ld(q, sinkbuf); asm volatile("" ::: "memory"); }, lo, hi);
    std::printf("pfoot h=%s V=%d mask=%u branch=%s cfg=%s T=%s kind=load | LANES=%u LO=%d HI=%d ORACLE=%s\n", h, V, maskbits, VG_BRANCH, CFGNAME,
                tname<T>::s(), lanes, lo, hi, vals ? "ok" : "FAIL");
}
template<class T, int V, class ST> static void probe_store(const char* h, unsigned maskbits, ST st) {
    T* p = mid_buffer<T, V>();
    T before[3 * V]; for (int i = -V; i < 2 * V; ++i) before[i + V] = p[i];
    st(p);                                       // stores lane values 1..V (never equal to the prefill 101+)
    unsigned lanes = 0; bool stray = false;
    for (int i = -V; i < 2 * V; ++i) if (p[i] != before[i + V]) { if (i >= 0 && i < V) lanes |= 1u << i; else stray = true; }
    int lo, hi;
    hull<T, V>([&](T* q) { st(q); asm volatile("" ::: "memory"); }, lo, hi);
    std::printf("pfoot h=%s V=%d mask=%u branch=%s cfg=%s T=%s kind=store | LANES=%u LO=%d HI=%d ORACLE=%s\n", h, V, maskbits, VG_BRANCH, CFGNAME,
                tname<T>::s(), lanes, lo, hi, stray ? "FAIL" : "ok");
}

// ---- the helpers ------------------------------------------------------------------------------------------
static void run_three() {
#ifdef FASTOR_SSE2_IMPL
    probe_load<float, 4>("load3", 7, [](const float* p, float* out) { _mm_storeu_ps(out, _mm_loadul3_ps(p)); });
    probe_store<float, 4>("store3", 7, [](float* p) { _mm_storeul3_ps(p, _mm_setr_ps(1.f, 2.f, 3.f, 4.f)); });
#endif
#ifdef FASTOR_AVX_IMPL
    probe_load<double, 4>("load3", 7, [](const double* p, double* out) { _mm256_storeu_pd(out, _mm256_loadul3_pd(p)); });
    probe_store<double, 4>("store3", 7, [](double* p) { _mm256_storeul3_pd(p, _mm256_setr_pd(1., 2., 3., 4.)); });
#endif
}

template<class T, class ABI> static void run_maskfree() {        // free maskload / maskstore with the reversed mask array
    using Vt = SIMDVector<T, ABI>;
    constexpr int V = Vt::Size;
#if defined(FASTOR_AVX2_IMPL)
    const char* h = "maskavx";
#else
    const char* h = "maskloop";
#endif
    for (unsigned bits = 0; bits < (1u << V); ++bits) {
        int maska[V]; for (int i = 0; i < V; ++i) maska[i] = (bits >> i & 1) ? -1 : 0;
        probe_load<T, V>(h, bits, [&](const T* p, T* out) { Vt v = maskload<Vt>(p, maska); v.store(out, false); });
        probe_store<T, V>(h, bits, [&](T* p) { Vt v; for (int l = 0; l < V; ++l) v.set_sequential(T(1)); maskstore(p, maska, v); });
#ifdef FASTOR_HAS_AVX512_MASKS
        std::printf("pfoot h=a2m V=%d mask=%u branch=%s cfg=%s T=%s kind=a2m | LANES=%u\n", V, bits, VG_BRANCH, CFGNAME, tname<T>::s(), (unsigned)array_to_mask(maska));
#endif
    }
}
template<class T, class ABI> static void run_member() {          // member mask_load / mask_store
    using Vt = SIMDVector<T, ABI>;
    constexpr int V = Vt::Size;
#ifdef FASTOR_HAS_AVX512_MASKS
    const char* hl = "kmask"; const char* hs = "kmask";
#else
    const char* hl = "loadfb"; const char* hs = "storefb";
#endif
    const unsigned top = V >= 16 ? 0xFFFFu : (1u << V) - 1;
    for (unsigned bits = 0; bits <= top; bits = (V >= 16 ? bits * 3 + 1 : bits + 1)) {
        unsigned b = bits & top;
        probe_load<T, V>(hl, b, [&](const T* p, T* out) { Vt v(T(0)); v.mask_load(p, b, false); v.store(out, false); });
        probe_store<T, V>(hs, b, [&](T* p) { Vt v; v.set_sequential(T(1)); v.mask_store(p, b, false); });
        if (bits > top) break;
    }
}

// ---- bounds -----------------------------------------------------------------------------------------------
#if FASTOR_BOUNDS_CHECK && (!defined(NDEBUG) || FASTOR_ENABLE_RUNTIME_CHECKS)
#define VG_CHK 1
#else
#define VG_CHK 0
#endif
static const int g_idx_pool[] = {0, 1, 2, -1, -2, 3, 4, 5, -3, -4, -5, -6, 6, 7, 9, 100, -100, INT_MAX, INT_MIN + 1, 65536, -65536};
template<class TT, class... I> static void bounds_line(const char* kind, const char* dims, TT& t, I... idx) {
    long got = -2;
    int rc = protect([&] { got = (long)t(idx...); });
    int arr[] = {idx...};
    std::printf("bounds chk=%d kind=%s cfg=%s d=%s i=", VG_CHK, kind, CFGNAME, dims);
    for (size_t k = 0; k < sizeof...(I); ++k) std::printf("%s%d", k ? "," : "", arr[k]);
    if (rc == 0) std::printf(" | R=%ld\n", got);
    else if (rc == 2) std::printf(" | R=err\n");
    else std::printf(" | R=fault ORACLE=FAIL\n");
}
// without checks only in-range indices are legal: `inrange` says whether to feed out-of-range ones
template<size_t... D> struct Dims {};
template<class F> static void for_indices(int rank, const size_t* dims, unsigned seed, int count, F f) {
    uint32_t s = seed * 2654435761u + 12345u;
    // systematically: every axis at each boundary value (-d-1, -d, -1, 0, d-1, d, d+1) with the other indices in range
    for (int ax = 0; ax < rank; ++ax) {
        const int d = (int)dims[ax];
        const int edge[] = {-d - 1, -d, -1, 0, d - 1, d, d + 1};
        for (int v : edge) {
            int idx[6];
            for (int k = 0; k < rank; ++k) { int dk = (int)dims[k]; idx[k] = (int)(lcg(s) % (2 * dk)) - dk; }     // -dk .. dk-1: in range
            idx[ax] = v;
            const bool ok = (v >= 0 && v < d) || (v < 0 && v + d >= 0);
            if (VG_CHK || ok) f(idx);
        }
    }
    for (int c = 0; c < count; ++c) {
        int idx[6]; bool ok = true;
        for (int k = 0; k < rank; ++k) {
            int v;
            if (lcg(s) % 3 == 0) v = g_idx_pool[lcg(s) % (sizeof g_idx_pool / sizeof g_idx_pool[0])];
            else { int d = (int)dims[k]; v = (int)(lcg(s) % (2 * d + 3)) - d - 1; }      // -d-1 .. d+1
            idx[k] = v;
            long d = (long)dims[k];
            if (!((v >= 0 && v < d) || (v < 0 && v + d >= 0))) ok = false;
        }
        if (VG_CHK || ok) f(idx);
    }
}
template<size_t A> static void run_bounds1(unsigned seed, int count) {
    static Tensor<int, A> t; t.iota(0); static int raw[A]; for (size_t k = 0; k < A; ++k) raw[k] = (int)k; TensorMap<int, A> m(raw);
    const size_t dims[] = {A}; char ds[64]; std::snprintf(ds, sizeof ds, "%zu", A);
    for_indices(1, dims, seed, count, [&](const int* i) { bounds_line("tensor", ds, t, i[0]); bounds_line("map", ds, m, i[0]); });
}
template<size_t A, size_t B> static void run_bounds2(unsigned seed, int count) {
    static Tensor<int, A, B> t; t.iota(0); static int raw[A * B]; for (size_t k = 0; k < A * B; ++k) raw[k] = (int)k; TensorMap<int, A, B> m(raw);
    const size_t dims[] = {A, B}; char ds[64]; std::snprintf(ds, sizeof ds, "%zu,%zu", A, B);
    for_indices(2, dims, seed, count, [&](const int* i) { bounds_line("tensor", ds, t, i[0], i[1]); bounds_line("map", ds, m, i[0], i[1]); });
}
template<size_t A, size_t B, size_t C> static void run_bounds3(unsigned seed, int count) {
    static Tensor<int, A, B, C> t; t.iota(0);
    const size_t dims[] = {A, B, C}; char ds[64]; std::snprintf(ds, sizeof ds, "%zu,%zu,%zu", A, B, C);
    for_indices(3, dims, seed, count, [&](const int* i) { bounds_line("tensor", ds, t, i[0], i[1], i[2]); });
}
template<size_t A, size_t B, size_t C, size_t D> static void run_bounds4(unsigned seed, int count) {
    static Tensor<int, A, B, C, D> t; t.iota(0);
    const size_t dims[] = {A, B, C, D}; char ds[64]; std::snprintf(ds, sizeof ds, "%zu,%zu,%zu,%zu", A, B, C, D);
    for_indices(4, dims, seed, count, [&](const int* i) { bounds_line("tensor", ds, t, i[0], i[1], i[2], i[3]); });
}
template<size_t A, size_t B, size_t C, size_t D, size_t E> static void run_bounds5(unsigned seed, int count) {
    static Tensor<int, A, B, C, D, E> t; t.iota(0);
    const size_t dims[] = {A, B, C, D, E}; char ds[64]; std::snprintf(ds, sizeof ds, "%zu,%zu,%zu,%zu,%zu", A, B, C, D, E);
    for_indices(5, dims, seed, count, [&](const int* i) { bounds_line("tensor", ds, t, i[0], i[1], i[2], i[3], i[4]); });
}

// ---- aligned flag -------------------------------------------------------------------------------------------
#ifdef FASTOR_DONT_ALIGN
#define VG_DA 1
#else
#define VG_DA 0
#endif
#ifdef FASTOR_DONT_VECTORISE
#define VG_DV 1
#else
#define VG_DV 0
#endif
template<class T, size_t N> static void run_aflag(const char* tn, int simd) {
    using V = typename Tensor<T, N>::simd_vector_type;
    Tensor<T, N> t; TensorMap<T, N> m(t.data());
    std::printf("aflag st=tensor da=%d dv=%d simd=%d n=%zu V=%d cfg=%s T=%s | FLAG=%d\n", VG_DA, VG_DV, simd, N, (int)V::Size, CFGNAME, tn, (int)t.is_aligned());
    std::printf("aflag st=map da=%d dv=%d simd=%d n=%zu V=%d cfg=%s T=%s | FLAG=%d\n", VG_DA, VG_DV, simd, N, (int)V::Size, CFGNAME, tn, (int)m.is_aligned());
    std::printf("aflag st=view da=%d dv=%d simd=%d n=%zu V=%d cfg=%s T=%s | FLAG=%d\n", VG_DA, VG_DV, simd, N, (int)V::Size, CFGNAME, tn, (int)t(seq(0, (int)N)).is_aligned());
    std::printf("aflag st=fview da=%d dv=%d simd=%d n=%zu V=%d cfg=%s T=%s | FLAG=%d\n", VG_DA, VG_DV, simd, N, (int)V::Size, CFGNAME, tn, (int)t(fseq<1, N>()).is_aligned());
    // the storage really has the alignment the flag promises
    if (t.is_aligned() && ((uintptr_t)t.data() % FASTOR_MEMORY_ALIGNMENT_VALUE) != 0) std::printf("aflag st=tensor n=%zu cfg=%s T=%s | FLAG=misaligned-storage ORACLE=FAIL\n", N, CFGNAME, tn);
}
static void run_aflags() {
    run_aflag<float, 11>("float", 1); run_aflag<double, 5>("double", 1); run_aflag<int32_t, 9>("int32_t", 1); run_aflag<int64_t, 3>("int64_t", 1);
    run_aflag<std::complex<double>, 3>("cdouble", 1); run_aflag<std::complex<float>, 3>("cfloat", 1);
    run_aflag<short, 7>("short", 0); run_aflag<char, 7>("char", 0); run_aflag<unsigned, 7>("unsigned", 0); run_aflag<long double, 3>("longdouble", 0);
}

static void run_helpers() {
    run_three();
#ifdef FASTOR_SSE2_IMPL
    run_maskfree<float, simd_abi::sse>(); run_maskfree<double, simd_abi::sse>(); run_maskfree<int, simd_abi::sse>(); run_maskfree<Int64, simd_abi::sse>();
    // (without AVX-512 masks the member functions are the fallback loops: dead code as far as the kernels go, measured anyway)
    run_member<float, simd_abi::sse>(); run_member<double, simd_abi::sse>();
    run_member<int, simd_abi::sse>(); run_member<Int64, simd_abi::sse>();
#endif
#ifdef FASTOR_AVX_IMPL
    run_maskfree<float, simd_abi::avx>(); run_maskfree<double, simd_abi::avx>();
    run_member<float, simd_abi::avx>(); run_member<double, simd_abi::avx>();
#endif
#ifdef FASTOR_AVX2_IMPL
    run_maskfree<int, simd_abi::avx>(); run_maskfree<Int64, simd_abi::avx>();
    run_member<int, simd_abi::avx>(); run_member<Int64, simd_abi::avx>();
#endif
#ifdef FASTOR_AVX512F_IMPL
    run_member<float, simd_abi::avx512>(); run_member<double, simd_abi::avx512>(); run_member<int, simd_abi::avx512>(); run_member<Int64, simd_abi::avx512>();
#endif
}

// ---- kern3: operand hulls and write sets of the fixed-size intrinsic kernels (model: Model/Kern3.lean) -----------------
// Every operand lives in its own guard region.  For operand i the kernel is run with exactly k of its elements
// accessible below the high guard (k = 0, 1, …): the smallest k without a fault is the highest offset touched + 1;
// likewise the largest j such that hiding the first j elements in the low guard does not fault is the lowest offset.
// The result operand is pre-filled with a sentinel: the elements that changed are the write set.
struct KOp { size_t n; bool out; int diag; };
template<class T, class F> static void kern_line(const char* name, int K, const KOp* ops, int nops, F f) {
    T* p[MAXOPS];
    for (int i = 0; i < nops; ++i) g_reg[i].init();
    auto place_mid = [&](int i) { p[i] = (T*)(g_reg[i].lo + 8192); };
    auto fill = [&](int i) {
        uint32_t s = 77u + 13u * i;
        for (long k = -16; k < (long)ops[i].n + 16; ++k) p[i][k] = ops[i].out ? T(12345.678) : Filler<T>::make(s);
        if (ops[i].diag) for (int d = 0; d < ops[i].diag; ++d) p[i][d * ops[i].diag + d] = T(5 * ops[i].diag + d);
    };
    long lo[3] = {1000000, 1000000, 1000000}, hi[3] = {0, 0, 0};
    for (int i = 0; i < nops; ++i) {
        long H = -1, L = -1;
        for (long k = 0; k <= (long)ops[i].n + 16; ++k) {
            for (int j = 0; j < nops; ++j) { place_mid(j); fill(j); }
            T* q = (T*)(g_reg[i].hi - (size_t)k * sizeof(T));
            // copy the first min(k,n) elements so that the data are the same in every run
            for (long e = 0; e < k && e < (long)ops[i].n; ++e) q[e] = p[i][e];
            for (long e = (long)ops[i].n; e < k; ++e) q[e] = p[i][e];
            p[i] = q;
            T* const* pp = p;
            if (protect([&] { f(pp); asm volatile("" ::: "memory"); }) == 0) { H = k; break; }
        }
        for (long j = (long)ops[i].n; j >= 0; --j) {
            for (int jj = 0; jj < nops; ++jj) { place_mid(jj); fill(jj); }
            T* q = (T*)(g_reg[i].lo - (size_t)j * sizeof(T));
            for (long e = j; e < (long)ops[i].n + 16; ++e) q[e] = p[i][e];
            p[i] = q;
            T* const* pp = p;
            if (protect([&] { f(pp); asm volatile("" ::: "memory"); }) == 0) { L = j; break; }
        }
        // H = 0 means nothing of the operand is touched; the model prints LO=1000000 HI=0 for that
        hi[i] = H; lo[i] = (H == 0) ? 1000000 : L;
    }
    // write set
    unsigned long wrmask = 0; bool stray = false;
    for (int j = 0; j < nops; ++j) { place_mid(j); fill(j); }
    { T* const* pp = p; f(pp); }
    for (int i = 0; i < nops; ++i) {
        uint32_t s = 77u + 13u * i;
        for (long k = -16; k < (long)ops[i].n + 16; ++k) {
            T expect = ops[i].out ? T(12345.678) : Filler<T>::make(s);
            if (ops[i].diag && k >= 0 && k < (long)ops[i].n && (k / ops[i].diag == k % ops[i].diag)) expect = T(5 * ops[i].diag + k / ops[i].diag);
            if (p[i][k] != expect) { if (ops[i].out && k >= 0 && k < 64) wrmask |= 1ul << k; else stray = true; }
        }
    }
    const int oi = nops - 1;   // by convention the result is the last operand (if any is `out`)
    std::printf("kern3 k=%s branch=%s avx2=%d K=%d cfg=%s T=%s | ALO=%ld AHI=%ld", name, VG_BRANCH,
#ifdef FASTOR_AVX2_IMPL
        1,
#else
        0,
#endif
        K, CFGNAME, tname<T>::s(), lo[0], hi[0]);
    if (nops >= 2 && !ops[1].out) std::printf(" BLO=%ld BHI=%ld", lo[1], hi[1]);
    if (ops[oi].out) std::printf(" OLO=%ld OHI=%ld WR=%lu", lo[oi], hi[oi], wrmask);
    std::printf(" ORACLE=%s\n", stray ? "FAIL" : "ok");
}

template<class T, size_t K> static void kern_matmul3K3() {
    KOp ops[] = {{3 * K, false, 0}, {3 * K, false, 0}, {9, true, 0}};
    kern_line<T>("matmul3K3", (int)K, ops, 3, [](T* const* p) { Fastor::_matmul<T, 3, K, 3>(p[0], p[1], p[2]); });
}
template<class T> static void run_kern3_T(bool isfloat) {
    { KOp ops[] = {{9, false, 0}, {9, false, 0}, {9, true, 0}};
      kern_line<T>("matmul333", 3, ops, 3, [](T* const* p) { Fastor::_matmul<T, 3, 3, 3>(p[0], p[1], p[2]); }); }
    { KOp ops[] = {{9, false, 0}, {3, false, 0}, {3, true, 0}};
      kern_line<T>("matvec331", 3, ops, 3, [](T* const* p) { Fastor::_matmul<T, 3, 3, 1>(p[0], p[1], p[2]); }); }
    kern_matmul3K3<T, 1>(); kern_matmul3K3<T, 2>(); kern_matmul3K3<T, 4>(); kern_matmul3K3<T, 5>(); kern_matmul3K3<T, 7>();
#ifdef FASTOR_AVX_IMPL
    { KOp ops[] = {{9, false, 0}};
      kern_line<T>(isfloat ? "norm9f" : "norm9d", 3, ops, 1, [](T* const* p) { sink_val(Fastor::_norm<T, 9>(p[0])); });
      kern_line<T>(isfloat ? "trace33f" : "trace33d", 3, ops, 1, [](T* const* p) { sink_val(Fastor::_trace<T, 3, 3>(p[0])); });
      kern_line<T>("det33", 3, ops, 1, [](T* const* p) { sink_val(Fastor::_det<T, 3, 3>(p[0])); }); }
    { KOp d[] = {{3, false, 0}, {3, false, 0}, {9, true, 0}};
      kern_line<T>(isfloat ? "dyadic33f" : "dyadic33d", 3, d, 3, [](T* const* p) { Fastor::_dyadic<T, 3, 3>(p[0], p[1], p[2]); }); }
    { KOp ops[] = {{9, false, 0}, {9, false, 0}};
      kern_line<T>(isfloat ? "dc33f" : "dc33d", 3, ops, 2, [](T* const* p) { sink_val(Fastor::_doublecontract<T, 3, 3>(p[0], p[1])); }); }
#endif
}
static void run_kern3() {
#ifdef FASTOR_SSE2_IMPL
    { KOp u[] = {{4, false, 2}, {4, true, 0}};
      kern_line<float>("unary4f", 2, u, 2, [](float* const* p) { Fastor::_transpose<float, 2, 2>(p[0], p[1]); });
      kern_line<float>("unary4f", 2, u, 2, [](float* const* p) { Fastor::_inverse<float, 2>(p[0], p[1]); });
      kern_line<double>("unary4d", 2, u, 2, [](double* const* p) { Fastor::_inverse<double, 2>(p[0], p[1]); }); }
    { KOp t4[] = {{16, false, 0}, {16, true, 0}};
      kern_line<float>("transpose44f", 4, t4, 2, [](float* const* p) { Fastor::_transpose<float, 4, 4>(p[0], p[1]); }); }
    { KOp t3[] = {{9, false, 0}, {9, true, 0}};
      kern_line<double>("transpose33d", 3, t3, 2, [](double* const* p) { Fastor::_transpose<double, 3, 3>(p[0], p[1]); }); }
    { KOp m2[] = {{4, false, 0}, {4, false, 0}, {4, true, 0}};
      kern_line<float>("matmul222f", 2, m2, 3, [](float* const* p) { Fastor::_matmul<float, 2, 2, 2>(p[0], p[1], p[2]); }); }
    { KOp m4[] = {{16, false, 0}, {16, false, 0}, {16, true, 0}};
      kern_line<float>("matmul444f", 4, m4, 3, [](float* const* p) { Fastor::_matmul<float, 4, 4, 4>(p[0], p[1], p[2]); }); }
    { KOp ops[] = {{9, false, 0}, {9, true, 0}};
      kern_line<float>("transpose33", 3, ops, 2, [](float* const* p) { Fastor::_transpose<float, 3, 3>(p[0], p[1]); }); }
    run_kern3_T<float>(true);
#endif
#ifdef FASTOR_AVX_IMPL
    run_kern3_T<double>(false);
    { KOp d2[] = {{2, false, 0}, {2, false, 0}, {4, true, 0}};
      kern_line<float>("dyadic22f", 2, d2, 3, [](float* const* p) { Fastor::_dyadic<float, 2, 2>(p[0], p[1], p[2]); }); }
#endif
}
