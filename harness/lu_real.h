// C11 (K4): lu<LUCompType::…> on float / double under the ISA of the translation unit.
// Judged exactly: L unit lower with exact zeros above the diagonal, U with exact zeros below, P a bijection (vector) /
// a 0-1 matrix with one 1 per row and column, the input left untouched.
// Measured against the property's bound (a TEST, the part the proof technique cannot decide):
//   max|L*U - P*A| and max|reconstruct(L,U,P) - A|  <=  C * n * eps * max(|L|*|U|);
// cases whose growth max(|L||U|)/max|A| exceeds GROWTH_MAX (or is not finite) are counted (`skip`) but not judged.
// One line per case:  lureal T= n= strat= enc= seed= | ok be=<ratio to the bound> growth=   or   | FAIL <what>
#ifndef VF_LU_REAL_H
#define VF_LU_REAL_H
#include <Fastor/Fastor.h>
#include <cstdio>
#include <cmath>
#include <vector>
#include <string>
#include <limits>

namespace vlr {
struct Rng { uint64_t s; explicit Rng(uint64_t seed) : s(seed * 0x9E3779B97F4A7C15ULL + 0xABCDEF1ULL) { next(); next(); }
    uint64_t next() { s ^= s << 13; s ^= s >> 7; s ^= s << 17; return s; }
    int upto(int m) { return (int)((next() >> 11) % (uint64_t)m); } };
template<class T> struct TN; template<> struct TN<float> { static const char* n() { return "float"; } }; template<> struct TN<double> { static const char* n() { return "double"; } };
static const char* STRAT_NAME[] = {"block", "simple", "blockpiv", "simplepiv"};
static const char* ENC_NAME[] = {"n", "v", "m"};

template<class T, size_t n, int STRAT, int ENC> void run_lureal(unsigned seed) {
    using namespace Fastor;
    const double C = 8.0, GROWTH_MAX = 1e3;
    Rng r((uint64_t)seed * 7919ULL + n * 31ULL + STRAT * 5 + ENC);
    // strictly diagonally dominant, entries multiples of 1/8; pivoted strategies: rows shuffled
    std::vector<double> B(n * n);
    for (size_t i = 0; i < n; ++i) { double s = 0; for (size_t j = 0; j < n; ++j) if (i != j) { double v = (r.upto(17) - 8) / 8.0; B[i * n + j] = v; s += std::fabs(v); }
        B[i * n + i] = (r.upto(2) ? 1 : -1) * (s + 1 + r.upto(8) / 8.0); }
    std::vector<size_t> sg(n); for (size_t i = 0; i < n; ++i) sg[i] = i;
    if (STRAT >= 2) for (size_t i = n; i > 1; --i) std::swap(sg[i - 1], sg[r.upto((int)i)]);
    Tensor<T, n, n> A; double amax = 0;
    for (size_t i = 0; i < n; ++i) for (size_t j = 0; j < n; ++j) { A(sg[i], j) = (T)B[i * n + j]; amax = std::fmax(amax, std::fabs(B[i * n + j])); }
    const Tensor<T, n, n> A0(A);
    Tensor<T, n, n> L, U, Pm, R; L.fill(T(7)); U.fill(T(-5)); Pm.fill(T(3));
    Tensor<size_t, n> Pv; Pv.fill(999);
    if (ENC == 0) { if (STRAT == 0) lu<LUCompType::BlockLU>(A, L, U); else lu<LUCompType::SimpleLU>(A, L, U); R = reconstruct(L, U); }
    else if (ENC == 1) { if (STRAT == 2) lu<LUCompType::BlockLUPiv>(A, L, U, Pv); else lu<LUCompType::SimpleLUPiv>(A, L, U, Pv); R = reconstruct(L, U, Pv); }
    else { if (STRAT == 2) lu<LUCompType::BlockLUPiv>(A, L, U, Pm); else lu<LUCompType::SimpleLUPiv>(A, L, U, Pm); R = reconstruct(L, U, Pm); }
    char head[200]; std::snprintf(head, sizeof head, "lureal cfg=%s T=%s n=%zu strat=%s enc=%s seed=%u", CFGNAME, TN<T>::n(), n, STRAT_NAME[STRAT], ENC_NAME[ENC], seed);
    std::string why;
    for (size_t i = 0; i < n * n && why.empty(); ++i) if (!(A.data()[i] == A0.data()[i])) why = "input-modified";
    for (size_t i = 0; i < n && why.empty(); ++i) for (size_t j = 0; j < n; ++j) {
        if (i == j && !(L(i, j) == T(1))) { why = "L-diag(" + std::to_string(i) + ")=" + std::to_string((double)L(i, j)); break; }
        if (j > i && !(L(i, j) == T(0))) { why = "L-upper(" + std::to_string(i) + "," + std::to_string(j) + ")=" + std::to_string((double)L(i, j)); break; }
        if (i > j && !(U(i, j) == T(0))) { why = "U-lower(" + std::to_string(i) + "," + std::to_string(j) + ")=" + std::to_string((double)U(i, j)); break; }
    }
    std::vector<size_t> perm(n); for (size_t i = 0; i < n; ++i) perm[i] = i;
    if (ENC == 1) for (size_t i = 0; i < n; ++i) perm[i] = Pv(i);
    if (ENC == 2) for (size_t i = 0; i < n && why.empty(); ++i) { size_t ones = 0, at = 0;
        for (size_t j = 0; j < n; ++j) { if (Pm(i, j) == T(1)) { ++ones; at = j; } else if (!(Pm(i, j) == T(0))) why = "P-entry(" + std::to_string(i) + "," + std::to_string(j) + ")"; }
        if (why.empty() && ones != 1) why = "P-row(" + std::to_string(i) + ")-has-" + std::to_string(ones) + "-ones"; perm[i] = at; }
    if (why.empty()) { std::vector<int> seen(n, 0);
        for (size_t i = 0; i < n; ++i) { if (perm[i] >= n) { why = "P-out-of-range"; break; } seen[perm[i]]++; }
        for (size_t i = 0; i < n && why.empty(); ++i) if (seen[i] != 1) why = "P-not-a-bijection"; }
    if (!why.empty()) { std::printf("%s | FAIL %s\n", head, why.c_str()); return; }
    long double e1 = 0, e2 = 0, g = 0;
    for (size_t i = 0; i < n; ++i) for (size_t j = 0; j < n; ++j) {
        long double s = 0, a = 0; for (size_t k = 0; k < n; ++k) { s += (long double)L(i, k) * (long double)U(k, j); a += std::fabs((long double)L(i, k) * (long double)U(k, j)); }
        e1 = std::fmax(e1, std::fabs(s - (long double)A0(perm[i], j))); g = std::fmax(g, a);
        e2 = std::fmax(e2, std::fabs((long double)R(i, j) - (long double)A0(i, j)));
        if (!(s == s)) g = std::numeric_limits<long double>::quiet_NaN();
    }
    double growth = (double)(g / amax);
    if (!(growth <= GROWTH_MAX)) { std::printf("%s | ok skip growth=%g (not judged)\n", head, growth); return; }
    long double bound = C * n * (long double)std::numeric_limits<T>::epsilon() * g;
    double ratio = (double)(std::fmax(e1, e2) / bound);
    if (ratio <= 1.0) std::printf("%s | ok be=%.3f growth=%.2f\n", head, ratio, growth);
    else std::printf("%s | FAIL backward-error max|LU-PA|=%Lg max|reconstruct-A|=%Lg bound=%Lg growth=%g\n", head, e1, e2, bound, growth);
}
} // namespace vlr
using vlr::run_lureal;
#endif
