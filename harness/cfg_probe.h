// C06 configuration probe (X4): prints the compiler predefines the ladder of config.h looks at, and what the
// real headers derive from them: native ABI, alignment, mask support, and the vector width
// choose_best_simd_t<SIMDVector<T,DEFAULT_ABI>,N>::Size for N = 1..40 and the four primitive element types.
#include <Fastor/Fastor.h>
#include <cstdio>
#include <cstdint>
#include <utility>
using namespace Fastor;
template<typename T, size_t... N> static void row(const char* name, std::index_sequence<N...>) {
    size_t v[] = { choose_best_simd_t<SIMDVector<T,DEFAULT_ABI>, N + 1>::Size... };
    std::printf(" %s=", name);
    for (size_t i = 0; i < sizeof...(N); ++i) std::printf("%s%zu", i ? "," : "", v[i]);
}
template<typename ABI> struct abin;
template<> struct abin<simd_abi::scalar> { static const char* n() { return "scalar"; } };
template<> struct abin<simd_abi::sse> { static const char* n() { return "sse"; } };
template<> struct abin<simd_abi::avx> { static const char* n() { return "avx"; } };
template<> struct abin<simd_abi::avx512> { static const char* n() { return "avx512"; } };
#define PD(m) (int)(
static void run_probe() {
    int sse2=0,sse3=0,ssse3=0,sse41=0,sse42=0,avx=0,avx2=0,fma=0,f=0,cd=0,bw=0,dq=0,vl=0,novec=0,masks=0,avx2impl=0;
#ifdef __SSE2__
    sse2=1;
#endif
#ifdef __SSE3__
    sse3=1;
#endif
#ifdef __SSSE3__
    ssse3=1;
#endif
#ifdef __SSE4_1__
    sse41=1;
#endif
#ifdef __SSE4_2__
    sse42=1;
#endif
#ifdef __AVX__
    avx=1;
#endif
#ifdef __AVX2__
    avx2=1;
#endif
#ifdef __FMA__
    fma=1;
#endif
#ifdef __AVX512F__
    f=1;
#endif
#ifdef __AVX512CD__
    cd=1;
#endif
#ifdef __AVX512BW__
    bw=1;
#endif
#ifdef __AVX512DQ__
    dq=1;
#endif
#ifdef __AVX512VL__
    vl=1;
#endif
#ifdef FASTOR_DONT_VECTORISE
    novec=1;
#endif
#ifdef FASTOR_HAS_AVX512_MASKS
    masks=1;
#endif
#ifdef FASTOR_AVX2_IMPL
    avx2impl=1;
#endif
    std::printf("config sse2=%d sse3=%d ssse3=%d sse41=%d sse42=%d avx=%d avx2=%d fma=%d f=%d cd=%d bw=%d dq=%d vl=%d novec=%d |",
                sse2,sse3,ssse3,sse41,sse42,avx,avx2,fma,f,cd,bw,dq,vl,novec);
    std::printf(" ABI=%s ALIGN=%d MASKS=%d AVX2=%d L4=%zu L8=%zu", abin<DEFAULT_ABI>::n(), (int)FASTOR_MEMORY_ALIGNMENT_VALUE, masks, avx2impl,
                (size_t)SIMDVector<float,DEFAULT_ABI>::Size, (size_t)SIMDVector<double,DEFAULT_ABI>::Size);
    row<float>("VSF", std::make_index_sequence<40>{});
    row<double>("VSD", std::make_index_sequence<40>{});
    row<int32_t>("VSI", std::make_index_sequence<40>{});
    row<int64_t>("VSL", std::make_index_sequence<40>{});
    // storage of a Tensor is aligned to the alignment value
    Tensor<float,5> t; std::printf(" TALIGN=%d", (int)((uintptr_t)t.data() % FASTOR_MEMORY_ALIGNMENT_VALUE == 0));
    std::printf(" ORACLE=ok\n");
}
