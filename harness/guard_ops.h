// K7 (C07) operation catalogue: every function runs ONE library operation on operands placed by
// vg::sweep (guard.h) and prints one line  `guard op=... T=... <dims> cfg=... | ok ...` / `| FAIL ...`.
#include <Fastor/Fastor.h>
#include "guard.h"
using namespace Fastor;
using namespace vg;
#ifndef CFGNAME
#define CFGNAME "sse2"
#endif
#ifndef VG_SEED
#define VG_SEED 1u
#endif
static bool g_verbose = false;

#define VG_DESC(...) char desc[256]; { int n_ = std::snprintf(desc, sizeof desc, "guard op=" __VA_ARGS__); std::snprintf(desc + n_, sizeof desc - n_, " cfg=%s", CFGNAME); }
#define TN tname<T>::s()

// ---------------------------------------------------------------------------------------------- matmul
template<class T, size_t M, size_t K, size_t N> void g_matmul_raw() {
    Operand ops[] = {{M*K}, {K*N}, {M*N, OUT}};
    auto r = sweep<T>(ops, 3, [](T* const* p) { Fastor::_matmul<T,M,K,N>(p[0], p[1], p[2]); }, VG_SEED, 2u);
    VG_DESC("matmul_raw T=%s M=%zu K=%zu N=%zu", TN, M, K, N); print_report(desc, r);
}
template<class T, size_t M, size_t K, size_t N> void g_matmul_map() {
    Operand ops[] = {{M*K}, {K*N}, {M*N, OUT}};
    auto r = sweep<T>(ops, 3, [](T* const* p) {
        TensorMap<T,M,K> a(p[0]); TensorMap<T,K,N> b(p[1]); TensorMap<T,M,N> c(p[2]);
        c = matmul(a, b); }, VG_SEED);
    VG_DESC("matmul_map T=%s M=%zu K=%zu N=%zu", TN, M, K, N); print_report(desc, r);
}
template<class T, size_t M, size_t K, size_t N> void g_matmul_expr() {
    Operand ops[] = {{M*K}, {K*N}, {M*N, OUT}};
    auto r = sweep<T>(ops, 3, [](T* const* p) {
        TensorMap<T,M,K> a(p[0]); TensorMap<T,K,N> b(p[1]); TensorMap<T,M,N> c(p[2]);
        Tensor<T,M,N> t; t = a % b; t += a % b; c = t; }, VG_SEED);      // (lazy % cannot be assigned to a map: it does not compile)
    VG_DESC("matmul_expr T=%s M=%zu K=%zu N=%zu", TN, M, K, N); print_report(desc, r);
}
// the small-N / remainder kernels: a, b and out each end exactly at a guard page (and start at one); few placements, many shapes
template<class T, size_t M, size_t K, size_t N> void g_mmflush() {
    Operand ops[] = {{M*K}, {K*N}, {M*N, OUT}};
    auto r = sweep<T>(ops, 3, [](T* const* p) { Fastor::_matmul<T,M,K,N>(p[0], p[1], p[2]); }, VG_SEED, 2u | 4u);
    VG_DESC("mmflush T=%s M=%zu K=%zu N=%zu", TN, M, K, N); print_report(desc, r);
}
// all five assignment operators, tensor / expression / scalar right-hand sides (integer and floating literals), destination a map
template<class T, size_t N> void g_assign_ops() {
    Operand ops[] = {{N}, {N, INOUT}, {N, INOUT}};
    auto r = sweep<T>(ops, 3, [](T* const* p) {
        TensorMap<T,N> a(p[0]); TensorMap<T,N> c(p[1]); TensorMap<T,N> d(p[2]);
        c = a; c += a; c -= a * a; c *= a; c /= (a * a + T(1));
        d = T(3); d += 2; d -= 1; d *= 2; d /= 2; d += T(2); d -= T(1); d *= T(2); d /= T(2); d = a + T(1); }, VG_SEED);
    VG_DESC("assign_ops T=%s N=%zu", TN, N); print_report(desc, r);
}
template<class T, size_t M, size_t K, size_t N, class Lt, class Rt> void g_tmatmul_raw(const char* tags) {
    Operand ops[] = {{M*K}, {K*N}, {M*N, OUT}};
    auto r = sweep<T>(ops, 3, [](T* const* p) { Fastor::_tmatmul<T,M,K,N,Lt,Rt>(p[0], p[1], p[2]); }, VG_SEED, 2u);
    VG_DESC("tmatmul_raw T=%s M=%zu K=%zu N=%zu tags=%s", TN, M, K, N, tags); print_report(desc, r);
}
// ---------------------------------------------------------------------------------------------- transpose
template<class T, size_t M, size_t N> void g_transpose_raw() {
    Operand ops[] = {{M*N}, {M*N, OUT}};
    auto r = sweep<T>(ops, 2, [](T* const* p) { Fastor::_transpose<T,M,N>(p[0], p[1]); }, VG_SEED, 2u);
    VG_DESC("transpose_raw T=%s M=%zu N=%zu", TN, M, N); print_report(desc, r);
}
template<class T, size_t M, size_t N> void g_transpose_map() {
    Operand ops[] = {{M*N}, {M*N, OUT}};
    auto r = sweep<T>(ops, 2, [](T* const* p) { TensorMap<T,M,N> a(p[0]); TensorMap<T,N,M> c(p[1]); c = transpose(a); }, VG_SEED);
    VG_DESC("transpose_map T=%s M=%zu N=%zu", TN, M, N); print_report(desc, r);
}
template<class T, size_t M, size_t N> void g_trans_expr() {
    Operand ops[] = {{M*N}, {M*N, INOUT}};
    auto r = sweep<T>(ops, 2, [](T* const* p) { TensorMap<T,M,N> a(p[0]); TensorMap<T,N,M> c(p[1]); c += trans(a); }, VG_SEED);
    VG_DESC("trans_expr T=%s M=%zu N=%zu", TN, M, N); print_report(desc, r);
}
template<class T, size_t M, size_t N> void g_trans_assign() {      // assign(dst, trans(a)) hands the destination pointer to the kernel
    Operand ops[] = {{M*N}, {M*N, OUT}};
    auto r = sweep<T>(ops, 2, [](T* const* p) { TensorMap<T,M,N> a(p[0]); TensorMap<T,N,M> c(p[1]); c = trans(a); }, VG_SEED);
    VG_DESC("trans_assign T=%s M=%zu N=%zu", TN, M, N); print_report(desc, r);
}
// owning tensors placed (placement new, library alignment) flush against the guard pages: batched kernels walk
// through the storage in steps of one matrix, so the last matrix ends where the tensor ends
template<class T, size_t B, size_t M> void g_own_batch() {
    using TT = Tensor<T,B,M,M>;
    static_assert(sizeof(TT) % sizeof(T) == 0, "");
    Operand ops[] = {{sizeof(TT) / sizeof(T), IN, 0}, {sizeof(TT) / sizeof(T), OUT, 0, B*M*M}};
    auto r = sweep<T>(ops, 2, [](T* const* p) {
        const TT& a = *reinterpret_cast<const TT*>(p[0]);
        TT* c = new (p[1]) TT(transpose(a));
        auto tr = trace(a); sink(tr.data(), sizeof(T) * B);
        (void)c; }, VG_SEED, 0u, alignof(TT));
    VG_DESC("own_batch T=%s B=%zu M=%zu", TN, B, M); print_report(desc, r);
}
template<class T, size_t B, size_t M> void g_own_batch_la() {     // floating point: batched determinant / inverse
    using TT = Tensor<T,B,M,M>;
    Operand ops[] = {{sizeof(TT) / sizeof(T), IN, 0}, {1, INOUT}};
    auto r = sweep<T>(ops, 2, [](T* const* p) {
        TT& a = *reinterpret_cast<TT*>(p[0]);
        auto d = determinant(a); sink(d.data(), sizeof(T) * B);
        auto iv = inverse(a); sink(iv.data(), sizeof(T) * B * M * M);
        (void)p; }, VG_SEED, 0u, alignof(TT));
    VG_DESC("own_batch_la T=%s B=%zu M=%zu", TN, B, M); print_report(desc, r);
}
// owning tensors on the heap: `new Tensor<…>` / std::vector<Tensor<…>>.  C++17 honours alignas in operator new; C++14 does
// not (the storage is only malloc-aligned) although is_aligned() is true.
template<class T, size_t N> void g_heap_new() {
    Report r; long mis = 0;
    Tensor<T,N>* kept[24] = {};
    for (int it = 0; it < 24; ++it) {
        char* pad = new char[8 + 16 * (it % 5)];
        Tensor<T,N>* t = nullptr;
        int rc = protect([&] {
            t = new Tensor<T,N>();
            t->iota(T(1)); Tensor<T,N> u = *t + *t; *t = u * T(2); sink_val(t->sum()); });
        ++r.runs;
        if (t && ((uintptr_t)t->data() % FASTOR_MEMORY_ALIGNMENT_VALUE)) ++mis;
        if (rc == 1) { ++r.fault; char more[96]; std::snprintf(more, sizeof more, "sig=%d heap-tensor-misaligned-so-far=%ld", g_fault_sig, mis); r.note("FAULT", '-', 0, 0, more); }
        kept[it] = t;
        delete[] pad;      // the tensors are kept until the end so that later allocations land elsewhere
    }
    for (auto* t : kept) delete t;
    VG_DESC("heap_new T=%s N=%zu std=%ld", TN, N, (long)__cplusplus); print_report(desc, r);
}
template<class T, size_t N> void g_own_1d() {     // owning tensor methods / reductions / element-wise at the guard
    using TT = Tensor<T,N>;
    Operand ops[] = {{sizeof(TT) / sizeof(T), IN, 0}, {sizeof(TT) / sizeof(T), INOUT, 0, N}, {sizeof(TT) / sizeof(T), OUT, 0, N}};
    auto r = sweep<T>(ops, 3, [](T* const* p) {
        const TT& a = *reinterpret_cast<const TT*>(p[0]); TT& b = *reinterpret_cast<TT*>(p[1]);
        TT* c = new (p[2]) TT(a + b * a);
        b += a; b.reverse(); sink_val(a.sum()); sink_val(a.product()); sink_val(norm(b)); sink_val(inner(a, b));
        (void)c; }, VG_SEED, 0u, alignof(TT));
    VG_DESC("own_1d T=%s N=%zu", TN, N); print_report(desc, r);
}
template<class T, size_t M, size_t N> void g_outer22_map() {    // fourth-order products of second-order tensors (dyadic / outer kernels)
    Operand ops[] = {{M*M}, {N*N}, {M*M*N*N, OUT}};
    auto r = sweep<T>(ops, 3, [](T* const* p) { TensorMap<T,M,M> a(p[0]); TensorMap<T,N,N> b(p[1]); TensorMap<T,M,M,N,N> c(p[2]); c = outer(a, b); }, VG_SEED);
    VG_DESC("outer22_map T=%s M=%zu N=%zu", TN, M, N); print_report(desc, r);
}
// ---------------------------------------------------------------------------------------------- scalar-valued
template<class T, size_t N> void g_norm_raw() {
    Operand ops[] = {{N}};
    auto r = sweep<T>(ops, 1, [](T* const* p) { sink_val(Fastor::_norm<T,N>(p[0])); }, VG_SEED, 2u);
    VG_DESC("norm_raw T=%s N=%zu", TN, N); print_report(desc, r);
}
template<class T, size_t M, size_t N> void g_norm_map() {
    Operand ops[] = {{M*N}};
    auto r = sweep<T>(ops, 1, [](T* const* p) { TensorMap<T,M,N> a(p[0]); sink_val(norm(a)); }, VG_SEED);
    VG_DESC("norm_map T=%s M=%zu N=%zu", TN, M, N); print_report(desc, r);
}
template<class T, size_t M> void g_det_raw() {
    Operand ops[] = {{M*M, IN, (int)M}};
    auto r = sweep<T>(ops, 1, [](T* const* p) { sink_val(Fastor::_det<T,M,M>(p[0])); }, VG_SEED, 2u);
    VG_DESC("det_raw T=%s M=%zu", TN, M); print_report(desc, r);
}
template<class T, size_t M> void g_det_map() {
    Operand ops[] = {{M*M, IN, (int)M}};
    auto r = sweep<T>(ops, 1, [](T* const* p) { TensorMap<T,M,M> a(p[0]); sink_val(determinant(a)); }, VG_SEED);
    VG_DESC("det_map T=%s M=%zu", TN, M); print_report(desc, r);
}
template<class T, size_t M> void g_trace_raw() {
    Operand ops[] = {{M*M}};
    auto r = sweep<T>(ops, 1, [](T* const* p) { sink_val(Fastor::_trace<T,M,M>(p[0])); }, VG_SEED, 2u);
    VG_DESC("trace_raw T=%s M=%zu", TN, M); print_report(desc, r);
}
template<class T, size_t M> void g_trace_map() {
    Operand ops[] = {{M*M}};
    auto r = sweep<T>(ops, 1, [](T* const* p) { TensorMap<T,M,M> a(p[0]); sink_val(trace(a)); }, VG_SEED);
    VG_DESC("trace_map T=%s M=%zu", TN, M); print_report(desc, r);
}
template<class T, size_t M, size_t N> void g_doublecontract_raw() {
    Operand ops[] = {{M*N}, {M*N}};
    auto r = sweep<T>(ops, 2, [](T* const* p) { sink_val(Fastor::_doublecontract<T,M,N>(p[0], p[1])); }, VG_SEED, 2u);
    VG_DESC("doublecontract_raw T=%s M=%zu N=%zu", TN, M, N); print_report(desc, r);
}
template<class T, size_t N> void g_inner_map() {
    Operand ops[] = {{N}, {N}};
    auto r = sweep<T>(ops, 2, [](T* const* p) { TensorMap<T,N> a(p[0]); TensorMap<T,N> b(p[1]); sink_val(inner(a, b)); }, VG_SEED);
    VG_DESC("inner_map T=%s N=%zu", TN, N); print_report(desc, r);
}
template<class T, size_t N> void g_reduce_map() {
    Operand ops[] = {{N}};
    auto r = sweep<T>(ops, 1, [](T* const* p) { TensorMap<T,N> a(p[0]); sink_val(sum(a)); sink_val(product(a)); sink_val(a.sum()); sink_val(a.product()); }, VG_SEED);
    VG_DESC("reduce_map T=%s N=%zu", TN, N); print_report(desc, r);
}
template<class T, size_t N> void g_minmax_map() {
    Operand ops[] = {{N}};
    auto r = sweep<T>(ops, 1, [](T* const* p) { TensorMap<T,N> a(p[0]); sink_val(min(a)); sink_val(max(a)); }, VG_SEED);
    VG_DESC("minmax_map T=%s N=%zu", TN, N); print_report(desc, r);
}
template<class T, size_t N> void g_reduce_expr() {
    Operand ops[] = {{N}, {N}};
    auto r = sweep<T>(ops, 2, [](T* const* p) { TensorMap<T,N> a(p[0]); TensorMap<T,N> b(p[1]); sink_val(sum(a + b * a)); sink_val(inner(a - b, b)); }, VG_SEED);
    VG_DESC("reduce_expr T=%s N=%zu", TN, N); print_report(desc, r);
}
// ---------------------------------------------------------------------------------------------- inverse family
template<class T, size_t M> void g_inverse_raw() {
    Operand ops[] = {{M*M, IN, (int)M}, {M*M, OUT}};
    auto r = sweep<T>(ops, 2, [](T* const* p) { Fastor::_inverse<T,M>(p[0], p[1]); }, VG_SEED, 2u);
    VG_DESC("inverse_raw T=%s M=%zu", TN, M); print_report(desc, r);
}
template<class T, size_t M> void g_inverse_map() {
    Operand ops[] = {{M*M, IN, (int)M}, {M*M, OUT}};
    auto r = sweep<T>(ops, 2, [](T* const* p) { TensorMap<T,M,M> a(p[0]); TensorMap<T,M,M> c(p[1]); c = inverse(a); }, VG_SEED);
    VG_DESC("inverse_map T=%s M=%zu", TN, M); print_report(desc, r);
}
template<class T, size_t M> void g_inv_expr() {
    Operand ops[] = {{M*M, IN, (int)M}, {M*M, OUT}};
    auto r = sweep<T>(ops, 2, [](T* const* p) { TensorMap<T,M,M> a(p[0]); TensorMap<T,M,M> c(p[1]); Tensor<T,M,M> t = inv(a); c = t; }, VG_SEED);
    VG_DESC("inv_expr T=%s M=%zu", TN, M); print_report(desc, r);
}
template<class T, size_t M> void g_adjcof_raw() {
    Operand ops[] = {{M*M}, {M*M, OUT}, {M*M, OUT}};
    auto r = sweep<T>(ops, 3, [](T* const* p) { Fastor::_adjoint<T,M>(p[0], p[1]); Fastor::_cofactor<T,M>(p[0], p[2]); }, VG_SEED, 2u);
    VG_DESC("adjcof_raw T=%s M=%zu", TN, M); print_report(desc, r);
}
template<class T, size_t M> void g_solve_map() {
    Operand ops[] = {{M*M, IN, (int)M}, {M}, {M, OUT}};
    auto r = sweep<T>(ops, 3, [](T* const* p) { TensorMap<T,M,M> a(p[0]); TensorMap<T,M> b(p[1]); TensorMap<T,M> x(p[2]); x = solve(a, b); }, VG_SEED);
    VG_DESC("solve_map T=%s M=%zu", TN, M); print_report(desc, r);
}
// ---------------------------------------------------------------------------------------------- products of vectors / tensors
template<class T, size_t M, size_t N> void g_outer_map() {
    Operand ops[] = {{M}, {N}, {M*N, OUT}};
    auto r = sweep<T>(ops, 3, [](T* const* p) { TensorMap<T,M> a(p[0]); TensorMap<T,N> b(p[1]); TensorMap<T,M,N> c(p[2]); c = outer(a, b); }, VG_SEED);
    VG_DESC("outer_map T=%s M=%zu N=%zu", TN, M, N); print_report(desc, r);
}
template<class T, size_t M, size_t N> void g_outer_raw() {
    Operand ops[] = {{M}, {N}, {M*N, OUT}};
    auto r = sweep<T>(ops, 3, [](T* const* p) { Fastor::_dyadic<T,M,N>(p[0], p[1], p[2]); }, VG_SEED, 2u);
    VG_DESC("dyadic_raw T=%s M=%zu N=%zu", TN, M, N); print_report(desc, r);
}
template<class T> void g_cross_map() {
    Operand ops[] = {{3}, {3}, {3, OUT}};
    auto r = sweep<T>(ops, 3, [](T* const* p) { TensorMap<T,3> a(p[0]); TensorMap<T,3> b(p[1]); TensorMap<T,3> c(p[2]); c = cross(a, b); }, VG_SEED);
    VG_DESC("cross_map T=%s", TN); print_report(desc, r);
}
// einsum: C(i,k) = A(i,j) B(j,k);  C(i) = A(i,j) b(j);  D(i,l) = A(i,j,k) B(j,k,l)
template<class T, size_t M, size_t K, size_t N> void g_einsum_ijjk() {
    Operand ops[] = {{M*K}, {K*N}, {M*N, OUT}};
    auto r = sweep<T>(ops, 3, [](T* const* p) { TensorMap<T,M,K> a(p[0]); TensorMap<T,K,N> b(p[1]); TensorMap<T,M,N> c(p[2]);
        c = einsum<Index<0,1>,Index<1,2>>(a, b); }, VG_SEED);
    VG_DESC("einsum_ij_jk T=%s M=%zu K=%zu N=%zu", TN, M, K, N); print_report(desc, r);
}
template<class T, size_t M, size_t K> void g_einsum_ijj() {
    Operand ops[] = {{M*K}, {K}, {M, OUT}};
    auto r = sweep<T>(ops, 3, [](T* const* p) { TensorMap<T,M,K> a(p[0]); TensorMap<T,K> b(p[1]); TensorMap<T,M> c(p[2]);
        c = einsum<Index<0,1>,Index<1>>(a, b); }, VG_SEED);
    VG_DESC("einsum_ij_j T=%s M=%zu K=%zu", TN, M, K); print_report(desc, r);
}
template<class T, size_t A, size_t B, size_t C> void g_einsum_ijk_jkl() {
    Operand ops[] = {{A*B*C}, {B*C*A}, {A*A, OUT}};
    auto r = sweep<T>(ops, 3, [](T* const* p) { TensorMap<T,A,B,C> a(p[0]); TensorMap<T,B,C,A> b(p[1]); TensorMap<T,A,A> c(p[2]);
        c = einsum<Index<0,1,2>,Index<1,2,3>>(a, b); }, VG_SEED);
    VG_DESC("einsum_ijk_jkl T=%s A=%zu B=%zu C=%zu", TN, A, B, C); print_report(desc, r);
}
template<class T, size_t A, size_t B, size_t C> void g_einsum_outer3() {     // no contracted index: C(i,j,k) = a(i,j) b(k)
    Operand ops[] = {{A*B}, {C}, {A*B*C, OUT}};
    auto r = sweep<T>(ops, 3, [](T* const* p) { TensorMap<T,A,B> a(p[0]); TensorMap<T,C> b(p[1]); TensorMap<T,A,B,C> c(p[2]);
        c = einsum<Index<0,1>,Index<2>>(a, b); }, VG_SEED);
    VG_DESC("einsum_ij_k T=%s A=%zu B=%zu C=%zu", TN, A, B, C); print_report(desc, r);
}
template<class T, size_t A, size_t B, size_t C> void g_permute_map() {
    Operand ops[] = {{A*B*C}, {A*B*C, OUT}};
    auto r = sweep<T>(ops, 2, [](T* const* p) { TensorMap<T,A,B,C> a(p[0]); TensorMap<T,C,A,B> c(p[1]); c = permute<Index<2,0,1>>(a); }, VG_SEED);
    VG_DESC("permute_map T=%s A=%zu B=%zu C=%zu", TN, A, B, C); print_report(desc, r);
}
// ---------------------------------------------------------------------------------------------- element-wise expressions
template<class T, size_t N> void g_expr_arith() {
    Operand ops[] = {{N}, {N}, {N, OUT}, {N, INOUT}};
    auto r = sweep<T>(ops, 4, [](T* const* p) {
        TensorMap<T,N> a(p[0]); TensorMap<T,N> b(p[1]); TensorMap<T,N> c(p[2]); TensorMap<T,N> d(p[3]);
        c = a + b * a - T(2);  d += a;  d -= b * T(3);  d *= a - b; }, VG_SEED);
    VG_DESC("expr_arith T=%s N=%zu", TN, N); print_report(desc, r);
}
template<class T, size_t M, size_t N> void g_expr_arith2d() {
    Operand ops[] = {{M*N}, {M*N}, {M*N, OUT}};
    auto r = sweep<T>(ops, 3, [](T* const* p) {
        TensorMap<T,M,N> a(p[0]); TensorMap<T,M,N> b(p[1]); TensorMap<T,M,N> c(p[2]);
        c = (a - b) * a + T(1); }, VG_SEED);
    VG_DESC("expr_arith2d T=%s M=%zu N=%zu", TN, M, N); print_report(desc, r);
}
template<class T, size_t N> void g_expr_math() {      // floating point only
    Operand ops[] = {{N}, {N, OUT}};
    auto r = sweep<T>(ops, 2, [](T* const* p) { TensorMap<T,N> a(p[0]); TensorMap<T,N> c(p[1]); c = sqrt(abs(a)) + a / T(2); }, VG_SEED);
    VG_DESC("expr_math T=%s N=%zu", TN, N); print_report(desc, r);
}
template<class T, size_t N> void g_expr_mixed() {     // an owning Tensor and a map in one expression: the aligned flag is the conjunction
    Operand ops[] = {{N}, {N, OUT}};
    auto r = sweep<T>(ops, 2, [](T* const* p) {
        TensorMap<T,N> a(p[0]); TensorMap<T,N> c(p[1]);
        Tensor<T,N> t; t.iota(T(1)); Tensor<T,N> u;
        c = t + a; u = a - t; u += a; sink(u.data(), N * sizeof(T)); }, VG_SEED);
    VG_DESC("expr_mixed T=%s N=%zu", TN, N); print_report(desc, r);
}
template<class T, size_t N> void g_methods_map() {
    Operand ops[] = {{N, INOUT}, {N, OUT}, {N, OUT}};
    auto r = sweep<T>(ops, 3, [](T* const* p) {
        TensorMap<T,N> a(p[0]); TensorMap<T,N> b(p[1]); TensorMap<T,N> c(p[2]);
        b.fill(T(3)); c.iota(T(2)); a.reverse(); }, VG_SEED);
    VG_DESC("methods_map T=%s N=%zu", TN, N); print_report(desc, r);
}
template<class T, size_t N> void g_methods_tensor() {   // owning tensors: aligned accesses are allowed, at aligned offsets only
    Operand ops[] = {{N}};
    auto r = sweep<T>(ops, 1, [](T* const* p) {
        TensorMap<T,N> a(p[0]); Tensor<T,N> t(a); t.reverse(); sink(t.data(), N * sizeof(T));
        Tensor<T,N> z; z.zeros(); z.fill(T(2)); z.iota(T(1)); sink(z.data(), N * sizeof(T)); sink_val(t.sum()); sink_val(t.product()); }, VG_SEED);
    VG_DESC("methods_tensor T=%s N=%zu", TN, N); print_report(desc, r);
}
// ---------------------------------------------------------------------------------------------- views
// (dynamic seq views of a TensorMap cannot be assigned from a tensor expression: that does not compile; they are
//  read into owning tensors and assigned scalars here; compile-time fseq views are used on both sides)
template<class T, size_t N> void g_view1d() {
    Operand ops[] = {{N}, {N, INOUT}, {N, INOUT}};
    auto r = sweep<T>(ops, 3, [](T* const* p) {
        TensorMap<T,N> a(p[0]); TensorMap<T,N> c(p[1]); TensorMap<T,N> d(p[2]);
        Tensor<T,N> t; t.zeros();
        t(seq(0, (int)N)) = a(seq(0, (int)N));                  // whole range
        t(seq(N > 1 ? 1 : 0, (int)N)) += a(seq(0, N > 1 ? (int)N - 1 : 1));   // shifted by one
        t(seq(0, (int)N, 2)) -= a(seq(0, (int)N, 2));            // strided
        Tensor<T,(N+1)/2> h = a(seq(0, (int)N, 2));
        sink(t.data(), sizeof(T) * N); sink(h.data(), sizeof(T) * ((N+1)/2));
        c(seq(0, (int)N)) = T(2); c(seq(N - 1, (int)N)) = T(5); c(seq(0, (int)N, 3)) = T(7);
        d(fseq<0,N>()) -= a(fseq<0,N>());                         // compile-time range
        d(fseq<N/2,N>()) = a(fseq<0,N-N/2>());
        d(fseq<N-1,N>()) += a(fseq<0,1>()); }, VG_SEED);
    VG_DESC("view1d T=%s N=%zu", TN, N); print_report(desc, r);
}
template<class T, size_t M, size_t N> void g_view2d() {
    Operand ops[] = {{M*N}, {M*N, INOUT}, {M*N, INOUT}};
    auto r = sweep<T>(ops, 3, [](T* const* p) {
        TensorMap<T,M,N> a(p[0]); TensorMap<T,M,N> c(p[1]); TensorMap<T,M,N> d(p[2]);
        Tensor<T,M,N> t; t.zeros();
        t(seq(0, (int)M), seq(0, (int)N)) = a(seq(0, (int)M), seq(0, (int)N));
        t(seq(M - 1, (int)M), seq(0, (int)N)) += a(seq(0, 1), seq(0, (int)N));          // last row
        t(seq(0, (int)M), seq(N - 1, (int)N)) -= a(seq(0, (int)M), seq(0, 1));          // last column
        Tensor<T,1,N> lastrow = a(seq(M - 1, (int)M), seq(0, (int)N));
        Tensor<T,M,1> lastcol = a(seq(0, (int)M), seq(N - 1, (int)N));
        sink(t.data(), sizeof(T) * M * N); sink(lastrow.data(), sizeof(T) * N); sink(lastcol.data(), sizeof(T) * M);
        c(seq(0, (int)M), seq(0, (int)N)) = T(2); c(seq(M - 1, (int)M), seq(0, (int)N)) = T(3); c(seq(0, (int)M), seq(N - 1, (int)N)) = T(4);
        d(fseq<0,M>(), fseq<0,N>()) = a(fseq<0,M>(), fseq<0,N>());
        d(fseq<M-1,M>(), fseq<0,N>()) += a(fseq<0,1>(), fseq<0,N>());
        d(all, fseq<N-1,N>()) = a(all, fseq<0,1>()); }, VG_SEED);
    VG_DESC("view2d T=%s M=%zu N=%zu", TN, M, N); print_report(desc, r);
}
template<class T, size_t A, size_t B, size_t C> void g_view3d() {
    Operand ops[] = {{A*B*C}, {A*B*C, INOUT}};
    auto r = sweep<T>(ops, 2, [](T* const* p) {
        TensorMap<T,A,B,C> a(p[0]); TensorMap<T,A,B,C> c(p[1]);
        Tensor<T,A,B,C> t; t.zeros();
        t(seq(0, (int)A), seq(0, (int)B), seq(0, (int)C)) = a(seq(0, (int)A), seq(0, (int)B), seq(0, (int)C));
        t(seq(A - 1, (int)A), all, all) += a(seq(0, 1), all, all);
        t(all, all, seq(C - 1, (int)C)) -= a(all, all, seq(0, 1));
        sink(t.data(), sizeof(T) * A * B * C);
        c(fseq<A-1,A>(), fseq<0,B>(), fseq<0,C>()) = a(fseq<0,1>(), fseq<0,B>(), fseq<0,C>());
        c(fseq<0,A>(), fseq<0,B>(), fseq<C-1,C>()) += a(fseq<0,A>(), fseq<0,B>(), fseq<0,1>()); }, VG_SEED);
    VG_DESC("view3d T=%s A=%zu B=%zu C=%zu", TN, A, B, C); print_report(desc, r);
}
// ---------------------------------------------------------------------------------------------- round 3: views by index / mask, layout, factorisations
// index-tensor views (random views) exist on owning tensors: the parent sits at the guard, indices cover first / last element
template<class T, size_t N> void g_randview() {
    using TT = Tensor<T,N>;
    Operand ops[] = {{sizeof(TT) / sizeof(T), INOUT, 0, N}};
    auto r = sweep<T>(ops, 1, [](T* const* p) {
        TT& a = *reinterpret_cast<TT*>(p[0]);
        constexpr size_t K = (N + 1) / 2 + 1;
        Tensor<int,K> idx; for (size_t k = 0; k < K; ++k) idx(k) = (int)((k * 2) % N); idx(K - 1) = (int)N - 1;
        Tensor<T,K> g = a(idx); sink(g.data(), sizeof(T) * K);
        sink_val(sum(a(idx)));
        a(idx) += T(1); a(idx) = T(3); a(idx) = g; a(idx) += g; a(idx) *= g + g; }, VG_SEED, 0u, alignof(TT));
    VG_DESC("randview T=%s N=%zu", TN, N); print_report(desc, r);
}
template<class T, size_t M, size_t N> void g_randview2d() {
    using TT = Tensor<T,M,N>;
    Operand ops[] = {{sizeof(TT) / sizeof(T), INOUT, 0, M*N}};
    auto r = sweep<T>(ops, 1, [](T* const* p) {
        TT& a = *reinterpret_cast<TT*>(p[0]);
        Tensor<int,2> ri; ri(0) = 0; ri(1) = (int)M - 1;
        Tensor<int,2> ci; ci(0) = (int)N - 1; ci(1) = 0;
        Tensor<T,2,2> g = a(ri, ci); sink(g.data(), sizeof(T) * 4);
        a(ri, ci) = T(2); }, VG_SEED, 0u, alignof(TT));
    VG_DESC("randview2d T=%s M=%zu N=%zu", TN, M, N); print_report(desc, r);
}
// boolean mask (filter) views (owning parents only: the view class is not defined for maps)
template<class T, size_t N> void g_filterview() {
    using TT = Tensor<T,N>;
    Operand ops[] = {{sizeof(TT) / sizeof(T), INOUT, 0, N}, {sizeof(TT) / sizeof(T), IN, 0, N}};
    auto r = sweep<T>(ops, 2, [](T* const* p) {
        TT& a = *reinterpret_cast<TT*>(p[0]); const TT& b = *reinterpret_cast<const TT*>(p[1]);
        Tensor<bool,N> mask; for (size_t k = 0; k < N; ++k) mask(k) = (k % 3 != 1); mask(N - 1) = true;
        a(mask) = T(4); a(mask) += b; a(mask) *= T(2); a(mask) = b; a(mask) -= b + b;
        Tensor<T,N> t = a(mask); sink(t.data(), sizeof(T) * N); }, VG_SEED, 0u, alignof(TT));
    VG_DESC("filterview T=%s N=%zu", TN, N); print_report(desc, r);
}
// reshape / flatten of maps, element-wise work on the reshaped map, converters
template<class T, size_t M, size_t N> void g_layout_map() {
    Operand ops[] = {{M*N}, {M*N, INOUT}};
    auto r = sweep<T>(ops, 2, [](T* const* p) {
        TensorMap<T,M,N> a(p[0]); TensorMap<T,M,N> c(p[1]);
        auto fa = flatten(a); auto fc = flatten(c);
        fc += fa; fc(fseq<M*N-1,M*N>()) = T(7);
        auto ra = reshape<N,M>(a); auto rc = reshape<N,M>(c);
        rc -= ra * T(2);
        sink_val(sum(fa)); sink_val(ra(N - 1, M - 1));
        Tensor<T,M,N> t(a); Tensor<T,M*N> u = flatten(t); sink(u.data(), sizeof(T) * M * N);
        T raw[M*N]; std::copy(a.data(), a.data() + M*N, raw); Tensor<T,M,N> w(raw); sink(w.data(), sizeof(T) * M * N); }, VG_SEED);
    VG_DESC("layout_map T=%s M=%zu N=%zu", TN, M, N); print_report(desc, r);
}
// reductions over views of a map
template<class T, size_t N> void g_reduce_view() {
    Operand ops[] = {{N}};
    auto r = sweep<T>(ops, 1, [](T* const* p) {
        TensorMap<T,N> a(p[0]);
        sink_val(sum(a(fseq<N/2,N>()))); sink_val(sum(a(seq(N > 1 ? 1 : 0, (int)N)))); sink_val(product(a(seq(0, (int)N, 2))));
        sink_val(sum(a(fseq<0,N,2>()))); Tensor<T,N-N/2> h1 = a(fseq<0,N-N/2>()); Tensor<T,N-N/2> h2 = a(fseq<N/2,N>()); sink_val(inner(h1, h2)); }, VG_SEED);
    VG_DESC("reduce_view T=%s N=%zu", TN, N); print_report(desc, r);
}
// LU / QR / inverse variants on a map operand (diagonally dominant), results into owning tensors
template<class T, size_t M> void g_lu_map() {
    Operand ops[] = {{M*M, IN, (int)M}};
    auto r = sweep<T>(ops, 1, [](T* const* p) {
        TensorMap<T,M,M> a(p[0]);
        Tensor<T,M,M> L, U; lu(a, L, U); sink(L.data(), sizeof(T) * M * M); sink(U.data(), sizeof(T) * M * M);
        Tensor<size_t,M> P; lu<LUCompType::SimpleLUPiv>(a, L, U, P); sink(U.data(), sizeof(T) * M * M); }, VG_SEED);
    VG_DESC("lu_map T=%s M=%zu", TN, M); print_report(desc, r);
}
template<class T, size_t M> void g_qr_map() {
    Operand ops[] = {{M*M, IN, (int)M}};
    auto r = sweep<T>(ops, 1, [](T* const* p) {
        TensorMap<T,M,M> a(p[0]);
        Tensor<T,M,M> Q, R; qr(a, Q, R); sink(Q.data(), sizeof(T) * M * M); sink(R.data(), sizeof(T) * M * M);
        Tensor<T,M,M> iv = inverse<InvCompType::SimpleInvPiv>(a); sink(iv.data(), sizeof(T) * M * M); }, VG_SEED);
    VG_DESC("qr_map T=%s M=%zu", TN, M); print_report(desc, r);
}
// F-C04-dynres seen from C07: functions that materialise `result_type` of a DYNAMIC slice (= the parent type) evaluate the slice over
// the parent's extent; with a non-zero first index that reads past the end of the parent (release builds; debug builds throw)
template<class T, size_t N> void g_dyn_inner() {
    using TT = Tensor<T,N>;
    Operand ops[] = {{sizeof(TT) / sizeof(T)}, {sizeof(TT) / sizeof(T)}};
    auto r = sweep<T>(ops, 2, [](T* const* p) { TT& a = *reinterpret_cast<TT*>(p[0]); TT& b = *reinterpret_cast<TT*>(p[1]);
        sink_val(inner(a(seq((int)N - 3, (int)N)), b(seq((int)N - 3, (int)N)))); }, VG_SEED, 0u, alignof(TT));
    VG_DESC("dyn_inner T=%s N=%zu", TN, N); print_report(desc, r);
}
template<class T, size_t M, size_t N> void g_dyn_trans() {
    using TT = Tensor<T,M,N>;
    Operand ops[] = {{sizeof(TT) / sizeof(T)}};
    auto r = sweep<T>(ops, 1, [](T* const* p) { TT& a = *reinterpret_cast<TT*>(p[0]);
        auto o = evaluate(trans(a(seq(1, (int)M), seq(1, (int)N)))); sink(o.data(), sizeof(T) * 4); }, VG_SEED, 0u, alignof(TT));
    VG_DESC("dyn_trans T=%s M=%zu N=%zu", TN, M, N); print_report(desc, r);
}
// std::vector of owning tensors (allocator storage: not covered by a class-level operator new)
template<class T, size_t N> void g_heap_vec() {
    Report r;
    for (int it = 0; it < 12; ++it) {
        char* pad = new char[8 + 16 * (it % 5)];
        int rc = protect([&] {
            std::vector<Tensor<T,N>> v(3);
            v[1].iota(T(1)); v[2] = v[1] + v[1]; v[0] = v[2] * T(2); sink_val(v[0].sum()); });
        ++r.runs;
        if (rc == 1) { ++r.fault; char more[64]; std::snprintf(more, sizeof more, "sig=%d", g_fault_sig); r.note("FAULT", '-', 0, 0, more); }
        delete[] pad;
    }
    VG_DESC("heap_vec T=%s N=%zu std=%ld", TN, N, (long)__cplusplus); print_report(desc, r);
}
// ---------------------------------------------------------------------------------------------- runtime checks
// with checks enabled: an out-of-range scalar index must raise (std::runtime_error) and must not touch memory;
// the operand ends exactly at a guard page at one of the placements, so an access past the end faults.
#if defined(VG_CHECKS)
template<class T, size_t M, size_t N> void g_bounds2d() {
    Operand ops[] = {{M*N, INOUT}};
    long raised = 0, expected = 0;
    auto r = sweep<T>(ops, 1, [&](T* const* p) {
        g_count = 0;      // raising allocates the exception object: the operation does not complete normally, so it is exempt
        TensorMap<T,M,N> a(p[0]);
        const int bad[][2] = {{(int)M, 0}, {0, (int)N}, {-(int)M - 1, 0}, {0, -(int)N - 1}, {(int)M + 7, (int)N + 7}, {1 << 30, 0}, {0, 1 << 30}};
        for (auto& ij : bad) {
            ++expected;
            try { a(ij[0], ij[1]) = T(1); } catch (const std::runtime_error&) { ++raised; }
            try { sink_val(static_cast<const TensorMap<T,M,N>&>(a)(ij[0], ij[1])); } catch (const std::runtime_error&) { ++raised; }
        }
        sink_val(a(0, 0)); sink_val(a((int)M - 1, (int)N - 1)); sink_val(a(-1, -1)); sink_val(a(-(int)M, -(int)N));   // in range: must not raise
    }, VG_SEED);
    if (raised != 2 * expected) { ++r.exc; r.note("NORAISE", '-', 0, 0, "an-out-of-range-index-did-not-raise"); }
    VG_DESC("bounds2d T=%s M=%zu N=%zu", TN, M, N); print_report(desc, r);
}
#endif
