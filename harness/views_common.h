// Shared by the symbolic and the real-type harnesses of C04: enumeration of the ways a user can
// write a range on one axis, and the explicit multi-index reference ("oracle") of a slice.
#ifndef VF_VIEWS_COMMON_H
#define VF_VIEWS_COMMON_H
#include <Fastor/Fastor.h>
#include <array>
#include <vector>
#include <string>
#include <cstdio>
#include <cstdint>

namespace vw {

// what is written on one axis, and what it is documented to mean: elements bf, bf+bs, ... (n of them)
struct Enc { int f, l, s; int bf, bs, n; };

static inline uint32_t lcg(uint32_t& s) { s = s * 1664525u + 1013904223u; return s >> 8; }
static inline int ceil_div(int a, int b) { return (a + b - 1) / b; }

// KIND 0: seq(f,l,s) in every documented spelling; 1: a plain integer (also negative, from the end);
//      2: `all`.  D = extent of the parent axis, d = number of selected elements wanted.
// `both_neg` : spellings with both ends counted from the end (`seq(last-3,last-1)`)
static inline std::vector<Enc> encodings(int kind, int D, int d, int smax) {
    std::vector<Enc> out;
    if (kind == 2) { if (d == D) out.push_back({0, -1, 1, 0, 1, D}); return out; }
    if (kind == 1) {
        if (d != 1) return out;
        for (int k = 0; k < D; ++k) { out.push_back({k, 0, 0, k, 1, 1}); out.push_back({k - D, 0, 0, k, 1, 1}); }
        return out;
    }
    for (int s = 1; s <= smax; ++s) for (int f = 0; f < D; ++f) for (int l = f + 1; l <= D; ++l) {
        if (ceil_div(l - f, s) != d) continue;
        out.push_back({f, l, s, f, s, d});                          // seq(f,l,s)
        out.push_back({f, l - (D + 1), s, f, s, d});                // seq(f,last-k,s)   (last == -1)
        out.push_back({f - (D + 1), l - (D + 1), s, f, s, d});      // seq(last-j,last-k,s)
    }
    return out;
}

template<int K> struct ArgMaker;
template<> struct ArgMaker<0> { static Fastor::seq make(const Enc& e) { return Fastor::seq(e.f, e.l, e.s); } };
template<> struct ArgMaker<1> { static int make(const Enc& e) { return e.f; } };
template<> struct ArgMaker<2> { static Fastor::fseq<0,-1,1> make(const Enc&) { return Fastor::fseq<0,-1,1>(); } };

template<size_t... N> struct Dims { static constexpr size_t rank = sizeof...(N); };
template<int... K> struct Kinds {};

template<size_t RK> static inline long rowmajor(const std::array<int,RK>& dims, const std::array<int,RK>& idx) {
    long p = 0; for (size_t k = 0; k < RK; ++k) p = p * dims[k] + idx[k]; return p;
}
template<size_t RK> static inline std::array<int,RK> unrowmajor(const std::array<int,RK>& dims, long p) {
    std::array<int,RK> idx{}; for (int k = (int)RK - 1; k >= 0; --k) { idx[k] = (int)(p % dims[k]); p /= dims[k]; } return idx;
}
// reference: parent offset of element j of the slice, by the documented meaning
template<size_t RK> static inline long ref_offset(const std::array<int,RK>& pd, const std::array<Enc,RK>& e, const std::array<int,RK>& j) {
    std::array<int,RK> src{}; for (size_t k = 0; k < RK; ++k) src[k] = e[k].bf + j[k] * e[k].bs;
    return rowmajor(pd, src);
}

// the list of combinations (one encoding per axis) for the wanted result extents, capped by seeded sampling
template<size_t RK> static inline std::vector<std::array<Enc,RK>>
combos(const std::array<int,RK>& kinds, const std::array<int,RK>& pd, const std::array<int,RK>& rd, int smax, size_t cap, uint32_t seed) {
    std::array<std::vector<Enc>,RK> per; size_t total = 1;
    for (size_t k = 0; k < RK; ++k) { per[k] = encodings(kinds[k], pd[k], rd[k], smax); total *= per[k].size(); if (per[k].empty()) return {}; }
    std::vector<std::array<Enc,RK>> out;
    auto pick = [&](size_t id) { std::array<Enc,RK> c; for (int k = (int)RK - 1; k >= 0; --k) { c[k] = per[k][id % per[k].size()]; id /= per[k].size(); } return c; };
    if (total <= cap) { for (size_t id = 0; id < total; ++id) out.push_back(pick(id)); return out; }
    uint32_t s = seed * 2654435761u + 12345u;
    // stratified: walk the index space with a random stride so that every axis' encodings are all visited
    for (size_t n = 0; n < cap; ++n) { size_t id = ((size_t)lcg(s) * 16777216u + lcg(s)) % total; out.push_back(pick(id)); }
    return out;
}

template<size_t RK> static inline std::string seqs_str(const std::array<Enc,RK>& e, const std::array<int,RK>& kinds) {
    std::string s;
    for (size_t k = 0; k < RK; ++k) {
        if (k) s += ",";
        s += std::to_string(e[k].f) + ":" + std::to_string(e[k].l) + ":" + std::to_string(kinds[k] == 1 ? 1 : e[k].s) + ":" + (kinds[k] == 1 ? "1" : "0");
    }
    return s;
}
template<size_t RK> static inline std::string dims_str(const std::array<int,RK>& d) {
    std::string s; for (size_t k = 0; k < RK; ++k) { if (k) s += "x"; s += std::to_string(d[k]); } return s;
}

} // namespace vw
#endif
