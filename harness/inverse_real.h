// C10 floating-point TEST (not a proof): residuals of the real inverse templates in float / double, per ISA,
// against  C * n * eps * cond_inf(A).   One line per case:  <case> | ok ratio=<r/(n eps cond)>   or   | FAIL ...
#ifndef VF_INVERSE_REAL_H
#define VF_INVERSE_REAL_H
#include <Fastor/Fastor.h>
#include "inverse_calls.h"
#include <map>
#include <string>
#include <fstream>
#include <sstream>
#include <cstdio>
#include <cmath>
#include <cstdint>
#include <limits>
#include <vector>
#include <algorithm>
#ifndef CFGNAME
#define CFGNAME "?"
#endif
#ifndef C10_BOUND_C
#define C10_BOUND_C 8.0L
#endif

namespace c10r {
using namespace Fastor;
typedef long double ld;
using namespace icall;
static const char* sname(int s) { return names[s]; }

struct Rng { uint64_t s; explicit Rng(uint64_t x) : s(x * 0x9E3779B97F4A7C15ULL + 0x1234567ULL) {}
    uint64_t next() { s ^= s << 13; s ^= s >> 7; s ^= s << 17; return s; }
    ld uni() { return (ld)((next() >> 11) % 2000001ULL) / 1000000.0L - 1.0L; } };   // [-1,1]

// reference inverse in long double (Gauss-Jordan, partial pivoting); returns false when singular
static inline bool ref_inverse(size_t n, const std::vector<ld>& A, std::vector<ld>& X) {
    std::vector<ld> M(A); X.assign(n * n, 0); for (size_t i = 0; i < n; ++i) X[i*n+i] = 1;
    for (size_t c = 0; c < n; ++c) {
        size_t p = c; for (size_t r = c; r < n; ++r) if (std::fabs(M[r*n+c]) > std::fabs(M[p*n+c])) p = r;
        if (M[p*n+c] == 0) return false;
        if (p != c) for (size_t k = 0; k < n; ++k) { std::swap(M[p*n+k], M[c*n+k]); std::swap(X[p*n+k], X[c*n+k]); }
        ld d = M[c*n+c]; for (size_t k = 0; k < n; ++k) { M[c*n+k] /= d; X[c*n+k] /= d; }
        for (size_t r = 0; r < n; ++r) if (r != c) { ld f = M[r*n+c]; if (f != 0) for (size_t k = 0; k < n; ++k) { M[r*n+k] -= f * M[c*n+k]; X[r*n+k] -= f * X[c*n+k]; } }
    }
    return true;
}
static inline ld norm_inf(size_t n, const std::vector<ld>& A) { ld m = 0; for (size_t i = 0; i < n; ++i) { ld s = 0; for (size_t j = 0; j < n; ++j) s += std::fabs(A[i*n+j]); m = std::max(m, s); } return m; }

// families: 0 diagonally dominant; 1 symmetric positive definite Q*D*Q^T with prescribed condition number
// (every leading block and Schur complement is at least as well conditioned); 2 rows of family 0 exchanged pairwise
// (needs pivoting; the exchanged entries carry the largest off-diagonal magnitude so the pivot search finds them).
// UT / LUT: triangular, well conditioned.
template<int S>
static inline void make(size_t n, int fam, Rng& g, std::vector<ld>& A) {
    A.assign(n * n, 0);
    if (S == UT || S == LUT) {
        for (size_t i = 0; i < n; ++i) for (size_t j = 0; j < n; ++j) {
            if (i == j) A[i*n+j] = S == LUT ? 1.0L : (g.uni() > 0 ? 1 : -1) * (1.0L + std::fabs(g.uni()));
            else if ((S == UT && i < j) || (S == LUT && j < i)) A[i*n+j] = g.uni() / (ld)std::max<size_t>(2, n / 2);
        }
        return;
    }
    if (fam == 1) {
        // Q = product of n Householder reflections, D log-spaced in [1/kappa, 1]
        ld kappa = 200.0L;
        std::vector<ld> Q(n * n, 0); for (size_t i = 0; i < n; ++i) Q[i*n+i] = 1;
        for (size_t h = 0; h < std::min<size_t>(n, 6); ++h) {
            std::vector<ld> v(n); ld nv = 0; for (auto& x : v) { x = g.uni(); nv += x * x; }
            if (nv == 0) continue;
            for (size_t c = 0; c < n; ++c) { ld dot = 0; for (size_t r = 0; r < n; ++r) dot += v[r] * Q[r*n+c]; for (size_t r = 0; r < n; ++r) Q[r*n+c] -= 2 * v[r] * dot / nv; }
        }
        for (size_t i = 0; i < n; ++i) for (size_t j = 0; j < n; ++j) { ld s = 0; for (size_t k = 0; k < n; ++k) { ld d = n == 1 ? 1.0L : std::pow(kappa, -(ld)k / (ld)(n - 1)); s += Q[i*n+k] * d * Q[j*n+k]; } A[i*n+j] = s; }
        return;
    }
    std::vector<ld> B(n * n);
    for (size_t i = 0; i < n; ++i) { ld s = 0; for (size_t j = 0; j < n; ++j) if (i != j) { B[i*n+j] = 0.9L * g.uni(); s += std::fabs(B[i*n+j]); } B[i*n+i] = (g.uni() > 0 ? 1 : -1) * (s + 1.5L + std::fabs(g.uni())); }
    if (fam == 2 && n >= 2) {
        std::vector<size_t> idx(n); for (size_t i = 0; i < n; ++i) idx[i] = i;
        for (size_t i = n - 1; i > 0; --i) std::swap(idx[i], idx[g.next() % (i + 1)]);
        size_t np = std::max<size_t>(1, n / 3); std::vector<size_t> sigma(n); for (size_t i = 0; i < n; ++i) sigma[i] = i;
        for (size_t k = 0; k + 1 < n && k / 2 < np; k += 2) { size_t p = std::min(idx[k], idx[k+1]), q = std::max(idx[k], idx[k+1]); sigma[p] = q; sigma[q] = p; B[p*n+q] = g.uni() > 0 ? 1.0L : -1.0L; }
        // keep dominance after forcing the entries
        for (size_t i = 0; i < n; ++i) { ld s = 0; for (size_t j = 0; j < n; ++j) if (i != j) s += std::fabs(B[i*n+j]); ld sg = B[i*n+i] < 0 ? -1 : 1; B[i*n+i] = sg * std::max(std::fabs(B[i*n+i]), s + 1.5L); }
        for (size_t i = 0; i < n; ++i) for (size_t j = 0; j < n; ++j) A[i*n+j] = B[sigma[i]*n+j];
        return;
    }
    A = B;
}

template<class T, int S, size_t n>
static void run_real(int fam, unsigned seed) {
    Rng g(seed);
    std::vector<ld> Ald; make<S>(n, fam, g, Ald);
    Tensor<T,n,n> A; for (size_t k = 0; k < n * n; ++k) { A.data()[k] = (T)Ald[k]; Ald[k] = (ld)A.data()[k]; }
    Tensor<T,n,n> X = Call<T,S,n>::go(A);
    std::vector<ld> Xr; bool okref = ref_inverse(n, Ald, Xr);
    ld cond = okref ? norm_inf(n, Ald) * norm_inf(n, Xr) : 0;
    ld r = 0; bool finite = true;
    for (size_t i = 0; i < n; ++i) {
        ld s1 = 0, s2 = 0;
        for (size_t j = 0; j < n; ++j) {
            ld ax = 0, xa = 0;
            for (size_t k = 0; k < n; ++k) { ax += Ald[i*n+k] * (ld)X.data()[k*n+j]; xa += (ld)X.data()[i*n+k] * Ald[k*n+j]; }
            if (!std::isfinite((double)ax) || !std::isfinite((double)xa)) finite = false;
            s1 += std::fabs(ax - (i == j ? 1 : 0)); s2 += std::fabs(xa - (i == j ? 1 : 0));
        }
        r = std::max(r, std::max(s1, s2));
    }
    ld eps = (ld)std::numeric_limits<T>::epsilon();
    ld ratio = okref ? r / ((ld)n * eps * cond) : -1;
    bool ok = okref && finite && ratio <= C10_BOUND_C;
    std::printf("real T=%s strat=%s n=%zu fam=%d seed=%u cfg=%s | %s ratio=%.4Lg res=%.3Lg cond=%.3Lg\n",
                sizeof(T) == 4 ? "float" : "double", sname(S), n, fam, seed, CFGNAME, ok ? "ok" : "FAIL", ratio, r, cond);
}

template<class T, size_t NB, size_t J>
static void run_real_batched(unsigned seed) {
    Rng g(seed);
    Tensor<T,NB,J,J> A; std::vector<std::vector<ld>> As(NB);
    for (size_t b = 0; b < NB; ++b) { make<SIMPLE>(J, 0, g, As[b]); for (size_t k = 0; k < J * J; ++k) { A.data()[b*J*J+k] = (T)As[b][k]; As[b][k] = (ld)A.data()[b*J*J+k]; } }
    Tensor<T,NB,J,J> X = inverse(A);
    ld worst = 0; bool ok = true;
    for (size_t b = 0; b < NB; ++b) {
        std::vector<ld> Xr; bool okref = ref_inverse(J, As[b], Xr); ld cond = okref ? norm_inf(J, As[b]) * norm_inf(J, Xr) : 0; ld r = 0;
        for (size_t i = 0; i < J; ++i) { ld s1 = 0, s2 = 0; for (size_t j = 0; j < J; ++j) { ld ax = 0, xa = 0; for (size_t k = 0; k < J; ++k) { ax += As[b][i*J+k] * (ld)X.data()[b*J*J+k*J+j]; xa += (ld)X.data()[b*J*J+i*J+k] * As[b][k*J+j]; } s1 += std::fabs(ax - (i == j)); s2 += std::fabs(xa - (i == j)); } r = std::max(r, std::max(s1, s2)); }
        ld ratio = okref ? r / ((ld)J * (ld)std::numeric_limits<T>::epsilon() * cond) : 1e30L;
        if (!(ratio <= C10_BOUND_C)) ok = false;
        worst = std::max(worst, ratio);
    }
    std::printf("real T=%s strat=batched nb=%zu n=%zu seed=%u cfg=%s | %s ratio=%.4Lg\n", sizeof(T) == 4 ? "float" : "double", NB, J, seed, CFGNAME, ok ? "ok" : "FAIL", worst);
}

// ---------------------------------------------------------------------------------------------------------------
// EXACT runs in float / double: integer matrices on which every value the algorithm divides by is +-2^k, so that
// every intermediate quantity is a dyadic rational with few bits and IEEE arithmetic is exact.  The result is
// printed as a digest of canonical rational strings and compared bit for bit with the exact model (this is what
// reaches the SSE/AVX intrinsic leaf kernels _inverse<float|double,2|4>, which the rational carrier cannot run).
static inline uint64_t fnv1a(uint64_t h, const std::string& s) { for (unsigned char c : s) { h ^= (uint64_t)c; h *= 1099511628211ULL; } return h; }
static inline std::string hex16(uint64_t x) { char b[32]; std::snprintf(b, sizeof b, "%016llx", (unsigned long long)x); return b; }
template<class T> static inline std::string exact_str(T v) {
    if (!std::isfinite((double)v)) return "nan";
    if (v == 0) return "0";
    int e; T m = std::frexp(v, &e);
    const int D = std::numeric_limits<T>::digits;
    long long mi = (long long)std::ldexp(m, D); e -= D;
    while (mi % 2 == 0 && e < 0) { mi /= 2; ++e; }
    if (e >= 0) { if (e > 8) return "big"; return std::to_string(mi * (1LL << e)); }
    if (-e > 62) return "tiny";
    return std::to_string(mi) + "/" + std::to_string(1LL << (-e));
}
template<class T> static inline std::string digest_vals(const T* p, size_t cnt) {
    uint64_t h = 14695981039346656037ULL;
    for (size_t k = 0; k < cnt; ++k) { h = fnv1a(h, exact_str(p[k])); h = fnv1a(h, ";"); }
    return hex16(h);
}
template<class T> static inline std::string oracle_exact(size_t n, const T* A, const T* X) {
    bool xa = true, ax = true;
    for (size_t i = 0; i < n; ++i) for (size_t j = 0; j < n; ++j) {
        ld s1 = 0, s2 = 0;
        for (size_t k = 0; k < n; ++k) { s1 += (ld)X[i*n+k] * (ld)A[k*n+j]; s2 += (ld)A[i*n+k] * (ld)X[k*n+j]; }
        if (!(s1 == (i == j ? 1 : 0))) xa = false;
        if (!(s2 == (i == j ? 1 : 0))) ax = false;
    }
    return xa && ax ? "ok" : (!xa && !ax ? "XA+AX" : (!xa ? "XA" : "AX"));
}
template<class T, int S, size_t n>
static std::string run_exact(const std::vector<long>& a) {
    Tensor<T,n,n> A; for (size_t k = 0; k < n * n; ++k) A.data()[k] = (T)a[k];
    std::string pstr;
    if (is_piv(S)) { Tensor<size_t,n> P; pivot_inplace(A, P); for (size_t i = 0; i < n; ++i) pstr += (i ? "," : "") + std::to_string(P(i)); }
    Tensor<T,n,n> X = Call<T,S,n>::go(A);
    std::string res = "DEF=1 X=" + digest_vals(X.data(), n * n);
    if (!pstr.empty()) res += " P=" + pstr;
    return res + " ORACLE=" + oracle_exact(n, A.data(), X.data());
}
template<class T, size_t NB, size_t J>
static std::string run_exact_batched(const std::vector<long>& a) {
    Tensor<T,NB,J,J> A; for (size_t k = 0; k < NB * J * J; ++k) A.data()[k] = (T)a[k];
    Tensor<T,NB,J,J> X = inverse(A);
    std::string o = "ok"; for (size_t b = 0; b < NB; ++b) { std::string ob = oracle_exact(J, A.data() + b*J*J, X.data() + b*J*J); if (ob != "ok") o = ob; }
    return "DEF=1 X=" + digest_vals(X.data(), NB * J * J) + " ORACLE=" + o;
}
template<class T, size_t N1, size_t N2, size_t J>
static std::string run_exact_batched4(const std::vector<long>& a) {
    const size_t NB = N1 * N2;
    Tensor<T,N1,N2,J,J> A; for (size_t k = 0; k < NB * J * J; ++k) A.data()[k] = (T)a[k];
    Tensor<T,N1,N2,J,J> X = inverse(A);
    std::string o = "ok"; for (size_t b = 0; b < NB; ++b) { std::string ob = oracle_exact(J, A.data() + b*J*J, X.data() + b*J*J); if (ob != "ok") o = ob; }
    return "DEF=1 X=" + digest_vals(X.data(), NB * J * J) + " ORACLE=" + o;
}
typedef std::string (*runner_t)(const std::vector<long>&);
static std::map<std::string, runner_t> g_runners;      // key: <type>/<variant>/<n>  or  <type>/batched[4]/<nb>/<J>
template<class T> static inline const char* tname() { return sizeof(T) == 4 ? "float" : "double"; }
#define REG_X(T, S, N) c10r::g_runners[std::string(c10r::tname<T>()) + "/" + icall::names[icall::S] + "/" + std::to_string(N)] = &c10r::run_exact<T, icall::S, N>
#define REG_XB(T, NB, J) c10r::g_runners[std::string(c10r::tname<T>()) + "/batched/" + std::to_string(NB) + "/" + std::to_string(J)] = &c10r::run_exact_batched<T, NB, J>
#define REG_XB4(T, N1, N2, J) c10r::g_runners[std::string(c10r::tname<T>()) + "/batched4/" + std::to_string((N1)*(N2)) + "/" + std::to_string(J)] = &c10r::run_exact_batched4<T, N1, N2, J>

static void run_exact_file(const char* path) {
    std::ifstream in(path);
    std::string line;
    static const char* types[] = {"float", "double"};
    while (std::getline(in, line)) {
        if (line.empty()) continue;
        std::istringstream ss(line);
        std::string tok, strat, astr; size_t n = 0, nb = 0;
        while (ss >> tok) {
            if (tok.rfind("strat=", 0) == 0) strat = tok.substr(6);
            else if (tok.rfind("n=", 0) == 0) n = std::stoul(tok.substr(2));
            else if (tok.rfind("nb=", 0) == 0) nb = std::stoul(tok.substr(3));
            else if (tok.rfind("a=", 0) == 0) astr = tok.substr(2);
        }
        std::vector<long> a; { std::istringstream as(astr); std::string t; while (std::getline(as, t, ',')) a.push_back(std::stol(t)); }
        for (const char* ty : types) {
            std::vector<std::pair<std::string, std::string>> keys;
            if (strat == "batched") {
                keys.push_back({std::string(ty) + "/batched/" + std::to_string(nb) + "/" + std::to_string(n), "rank3"});
                keys.push_back({std::string(ty) + "/batched4/" + std::to_string(nb) + "/" + std::to_string(n), "rank4"});
            } else {
                int b = variant_id(strat);
                for (int v = 0; v < NVAR; ++v) if (base_of[v] == b) keys.push_back({std::string(ty) + "/" + names[v] + "/" + std::to_string(n), names[v]});
            }
            for (auto& kk : keys) {
                auto it = g_runners.find(kk.first);
                if (it == g_runners.end()) continue;
                std::string res = it->second(a);
                std::printf("%s via=%s T=%s cfg=%s | %s\n", line.c_str(), kk.second.c_str(), ty, CFGNAME, res.c_str());
            }
        }
    }
}
} // namespace c10r
using c10r::run_real; using c10r::run_real_batched;
#endif
