// Verification carriers for Fastor (used by the correspondence harnesses, never by the library).
//
//  vf::Sym<B>   scalar carrier of B bytes (4 or 8) whose value is an exact polynomial with integer
//               coefficients over element tokens (free commutative ring).  A Sym is a handle into a
//               global pool; handle 0 is the zero polynomial so zero-initialised storage is 0.
//  vf::trace    every read / write of a Sym that lives inside the arena is recorded, with the window
//               (operand) it belongs to or as out-of-window access.
//
// Must be included BEFORE <Fastor/Fastor.h> is used with these types and AFTER it is included
// (simd_sym.h supplies the SIMDVector specialisations).
#ifndef VF_SYM_H
#define VF_SYM_H
#include <cstdint>
#include <cstdio>
#include <cstdlib>
#include <cstring>
#include <vector>
#include <string>
#include <algorithm>
#include <utility>
#include <cmath>
#include <complex>
#include <type_traits>

namespace vf {

// ---------------------------------------------------------------------------------------------
// modular evaluation point (the same function is implemented in lean/FastorModel/Core/Fp.lean)
static constexpr uint64_t P = 4294967291ULL;            // 2^32 - 5, prime
static inline uint64_t mix64(uint64_t x) {              // splitmix64 finaliser
    x += 0x9E3779B97F4A7C15ULL;
    x = (x ^ (x >> 30)) * 0xBF58476D1CE4E5B9ULL;
    x = (x ^ (x >> 27)) * 0x94D049BB133111EBULL;
    return x ^ (x >> 31);
}
static inline uint64_t tokval(uint32_t tok, int point) { return mix64((uint64_t)tok * 4 + point) % P; }
static inline uint32_t mktok(int win, uint32_t k) { return ((uint32_t)win << 20) | k; }

// ---------------------------------------------------------------------------------------------
using Mono = std::vector<uint32_t>;                      // sorted token ids (with repetition)
struct Poly {
    std::vector<std::pair<Mono,long long>> t;            // sorted by Mono, no zero coefficients
    bool operator==(const Poly& o) const { return t == o.t; }
    bool operator!=(const Poly& o) const { return !(t == o.t); }
};
static inline void normalise(Poly& p) {
    std::sort(p.t.begin(), p.t.end(), [](auto& a, auto& b){ return a.first < b.first; });
    std::vector<std::pair<Mono,long long>> r;
    for (auto& e : p.t) {
        if (!r.empty() && r.back().first == e.first) r.back().second += e.second;
        else r.push_back(e);
    }
    r.erase(std::remove_if(r.begin(), r.end(), [](auto& e){ return e.second == 0; }), r.end());
    p.t.swap(r);
}
static inline Poly padd(const Poly& a, const Poly& b, long long sb = 1) {
    Poly r; r.t.reserve(a.t.size() + b.t.size());
    size_t i = 0, j = 0;
    while (i < a.t.size() || j < b.t.size()) {
        if (j == b.t.size() || (i < a.t.size() && a.t[i].first < b.t[j].first)) r.t.push_back(a.t[i++]);
        else if (i == a.t.size() || b.t[j].first < a.t[i].first) { r.t.push_back({b.t[j].first, sb * b.t[j].second}); ++j; }
        else { long long c = a.t[i].second + sb * b.t[j].second; if (c) r.t.push_back({a.t[i].first, c}); ++i; ++j; }
    }
    return r;
}
static inline Poly pmul(const Poly& a, const Poly& b) {
    Poly r;
    for (auto& x : a.t) for (auto& y : b.t) {
        Mono m(x.first.size() + y.first.size());
        std::merge(x.first.begin(), x.first.end(), y.first.begin(), y.first.end(), m.begin());
        r.t.push_back({std::move(m), x.second * y.second});
    }
    normalise(r);
    return r;
}
static inline Poly pconst(long long c) { Poly r; if (c) r.t.push_back({Mono{}, c}); return r; }
static inline Poly ptok(uint32_t tok) { Poly r; r.t.push_back({Mono{tok}, 1}); return r; }
static inline uint64_t peval(const Poly& p, int point) {
    uint64_t s = 0;
    for (auto& e : p.t) {
        uint64_t m = (uint64_t)(((e.second % (long long)P) + (long long)P) % (long long)P);
        for (auto tk : e.first) m = (m * tokval(tk, point)) % P;
        s = (s + m) % P;
    }
    return s;
}
static inline std::string pstr(const Poly& p) {
    if (p.t.empty()) return "0";
    std::string s;
    for (auto& e : p.t) {
        if (!s.empty()) s += "+";
        s += std::to_string(e.second);
        for (auto tk : e.first) { s += "*"; s += (char)('A' + (tk >> 20)); s += std::to_string(tk & 0xFFFFF); }
    }
    return s;
}

struct Pool {
    std::vector<Poly> v;
    Pool() { reset(); }
    void reset() { v.clear(); v.push_back(Poly{}); }
    uint32_t put(Poly&& p) { if (p.t.empty()) return 0; v.push_back(std::move(p)); return (uint32_t)(v.size() - 1); }
};
static Pool pool;

// ---------------------------------------------------------------------------------------------
// access tracing
struct Window { const char* lo; const char* hi; int id; int esz; };
struct Event { char kind; int win; long off; long aux; };   // kind: r w L S m M ; aux = lanes or lane bitmask
struct Trace {
    const char* alo = nullptr; const char* ahi = nullptr;    // arena bounds
    std::vector<Window> wins;
    std::vector<Event> ev;
    bool on = false;
    long oob = 0;
    void clear() { ev.clear(); oob = 0; }
    inline bool in_arena(const void* p) const { return (const char*)p >= alo && (const char*)p < ahi; }
    // returns window index, -1 for arena-but-no-window; off in elements
    int locate(const void* p, long& off) const {
        const char* c = (const char*)p;
        for (auto& w : wins) if (c >= w.lo && c < w.hi) { off = (c - w.lo) / w.esz; return w.id; }
        off = c - alo; return -1;
    }
    inline void note(char kind, const void* p, long aux) {
        if (!on || !in_arena(p)) return;
        long off; int w = locate(p, off);
        if (w < 0) ++oob;
        ev.push_back({kind, w, off, aux});
    }
    // element-wise note for vector accesses: each touched lane is located separately so that an
    // access straddling the end of a window is reported as out-of-window for the lanes outside it
    inline void note_lanes(char kind, const void* p, int esz, int lanes, unsigned long mask) {
        if (!on || !in_arena(p)) return;
        long off; int w = locate(p, off);
        ev.push_back({kind, w, off, (long)mask});
        for (int l = 0; l < lanes; ++l) if (mask >> l & 1) {
            long o2; const char* q = (const char*)p + (long)l * esz;
            if (!in_arena(q) || locate(q, o2) != w || w < 0) { ++oob; ev.push_back({'!', -1, (long)(q - alo), (long)l}); }
        }
    }
};
static Trace trace;

// Arena: operands are carved out of one buffer with unregistered gaps between them
struct Arena {
    static constexpr size_t BYTES = 1u << 22;
    alignas(64) char buf[BYTES];
    size_t top = 0;
    Arena() { trace.alo = buf; trace.ahi = buf + BYTES; std::memset(buf, 0, BYTES); }
    void reset() { std::memset(buf, 0, top + 4096 < BYTES ? top + 4096 : BYTES); top = 0; trace.wins.clear(); trace.clear(); }
    // returns pointer to n elements of size esz at the given byte misalignment from a 64-byte boundary
    void* alloc(int id, size_t n, int esz, size_t misalign = 0, size_t gap = 1024) {
        top = (top + gap + 63) / 64 * 64 + misalign;
        char* p = buf + top;
        top += n * esz;
        if (top + gap > BYTES) { std::fprintf(stderr, "arena exhausted\n"); std::abort(); }
        if (id >= 0) trace.wins.push_back({p, p + n * esz, id, esz});
        return p;
    }
};
static Arena arena;

// ---------------------------------------------------------------------------------------------
template<int B> struct HandleT;
template<> struct HandleT<4> { using type = uint32_t; };
template<> struct HandleT<8> { using type = uint64_t; };

template<int B>
struct Sym {
    typename HandleT<B>::type h;
    Sym() : h(0) {}
    Sym(const Sym& o) : h(o.h) { trace.note('r', &o, 1); trace.note('w', this, 1); }
    Sym& operator=(const Sym& o) { trace.note('r', &o, 1); h = o.h; trace.note('w', this, 1); return *this; }
    // numeric constants (must be integral)
    Sym(int c) : h(pool.put(pconst(c))) { trace.note('w', this, 1); }
    Sym(long c) : h(pool.put(pconst(c))) { trace.note('w', this, 1); }
    Sym(long long c) : h(pool.put(pconst(c))) { trace.note('w', this, 1); }
    Sym(unsigned c) : h(pool.put(pconst(c))) { trace.note('w', this, 1); }
    Sym(unsigned long c) : h(pool.put(pconst((long long)c))) { trace.note('w', this, 1); }
    Sym(double c) : h(0) {
        if (c != std::floor(c)) { std::fprintf(stderr, "Sym from non-integral double %g\n", c); std::abort(); }
        h = pool.put(pconst((long long)c)); trace.note('w', this, 1);
    }
    static Sym raw(uint32_t handle) { Sym s; s.h = handle; return s; }
    static Sym token(int win, uint32_t k) { Sym s; s.h = pool.put(ptok(mktok(win, k))); return s; }
    const Poly& poly() const { return pool.v[h]; }
    const Poly& rpoly() const { trace.note('r', this, 1); return pool.v[h]; }
    // raw accessors that do not trace (used by the harness itself)
    void rawset(const Sym& o) { h = o.h; }

    Sym& operator+=(const Sym& o) { Poly p = padd(rpoly(), o.rpoly()); h = pool.put(std::move(p)); trace.note('w', this, 1); return *this; }
    Sym& operator-=(const Sym& o) { Poly p = padd(rpoly(), o.rpoly(), -1); h = pool.put(std::move(p)); trace.note('w', this, 1); return *this; }
    Sym& operator*=(const Sym& o) { Poly p = pmul(rpoly(), o.rpoly()); h = pool.put(std::move(p)); trace.note('w', this, 1); return *this; }
    Sym& operator/=(const Sym&) { std::fprintf(stderr, "Sym division\n"); std::abort(); }
};
template<int B> inline Sym<B> operator+(const Sym<B>& a, const Sym<B>& b) { return Sym<B>::raw(pool.put(padd(a.rpoly(), b.rpoly()))); }
template<int B> inline Sym<B> operator-(const Sym<B>& a, const Sym<B>& b) { return Sym<B>::raw(pool.put(padd(a.rpoly(), b.rpoly(), -1))); }
template<int B> inline Sym<B> operator*(const Sym<B>& a, const Sym<B>& b) { return Sym<B>::raw(pool.put(pmul(a.rpoly(), b.rpoly()))); }
template<int B> inline Sym<B> operator/(const Sym<B>&, const Sym<B>&) { std::fprintf(stderr, "Sym division\n"); std::abort(); }
template<int B> inline Sym<B> operator-(const Sym<B>& a) { return Sym<B>::raw(pool.put(padd(Poly{}, a.rpoly(), -1))); }
template<int B> inline Sym<B> operator+(const Sym<B>& a) { return Sym<B>::raw((uint32_t)a.h); }
template<int B> inline bool operator==(const Sym<B>& a, const Sym<B>& b) { return a.rpoly() == b.rpoly(); }
template<int B> inline bool operator!=(const Sym<B>& a, const Sym<B>& b) { return a.rpoly() != b.rpoly(); }
template<int B> inline bool operator==(const Sym<B>& a, int b) { return a.rpoly() == pconst(b); }
template<int B> inline bool operator!=(const Sym<B>& a, int b) { return a.rpoly() != pconst(b); }
template<int B> inline bool operator==(const Sym<B>& a, double b) { return a.rpoly() == pconst((long long)b); }
// mixed with plain numbers
#define VF_MIXED(OP) \
template<int B> inline Sym<B> operator OP(const Sym<B>& a, int b) { return a OP Sym<B>(b); } \
template<int B> inline Sym<B> operator OP(int a, const Sym<B>& b) { return Sym<B>(a) OP b; } \
template<int B> inline Sym<B> operator OP(const Sym<B>& a, double b) { return a OP Sym<B>(b); } \
template<int B> inline Sym<B> operator OP(double a, const Sym<B>& b) { return Sym<B>(a) OP b; }
VF_MIXED(+) VF_MIXED(-) VF_MIXED(*)
#undef VF_MIXED

using Sym4 = Sym<4>;
using Sym8 = Sym<8>;
static_assert(sizeof(Sym4) == 4 && sizeof(Sym8) == 8, "carrier sizes");

} // namespace vf
namespace std {
// Fastor binds scalar operands of expressions by value only when std::is_arithmetic says so;
// anything else is bound by reference to a by-value parameter (dangling for user scalars).
template<int B> struct is_arithmetic<vf::Sym<B>> : std::true_type {};
}
namespace vf {
// digest helpers shared with the Lean driver (FastorModel/Core/Fp.lean: hashStep)
static inline uint64_t hstep(uint64_t h, uint64_t x) { return mix64(h ^ (x + 0x51ED27ULL)); }

} // namespace vf

#endif
