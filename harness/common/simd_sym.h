// Ideal lane-wise SIMDVector specialisations for the symbolic carriers.
// The kernels' *use* of the vector interface (tiling, indices, masks, accumulation) is what the
// symbolic runs check; what each real (T,ABI) specialisation does behind the interface is C08.
// Include after <Fastor/Fastor.h> and sym.h.
#ifndef VF_SIMD_SYM_H
#define VF_SIMD_SYM_H
#include "sym.h"

namespace Fastor {

template<int B> struct is_numeric<vf::Sym<B>> { static constexpr bool value = true; };
namespace internal {
template<int B> struct verif_vectorisable<vf::Sym<B>> { static constexpr bool value = true; };
}

namespace vfdetail {
template<size_t N> struct mask_of { using type = uint64_t; };
template<> struct mask_of<1> { using type = uint8_t; };
template<> struct mask_of<2> { using type = uint8_t; };
template<> struct mask_of<4> { using type = uint8_t; };
template<> struct mask_of<8> { using type = uint8_t; };
template<> struct mask_of<16> { using type = uint16_t; };
template<> struct mask_of<32> { using type = uint32_t; };

template<typename T, typename ABI, size_t N>
struct IdealVec {
    using Self = SIMDVector<T,ABI>;
    static constexpr FASTOR_INDEX Size = N;
    static constexpr FASTOR_INLINE FASTOR_INDEX size() { return N; }
    using vector_type = Self;
    using value_type = T[N];
    using scalar_value_type = T;
    using abi_type = ABI;
    using mask_type = typename mask_of<N>::type;

    T value[N];

    IdealVec() { for (size_t i = 0; i < N; ++i) value[i].h = 0; }
    IdealVec(T num) { for (size_t i = 0; i < N; ++i) value[i].h = num.h; }
    IdealVec(const IdealVec& a) { for (size_t i = 0; i < N; ++i) value[i].h = a.value[i].h; }
    IdealVec(const T* data, bool Aligned = true) { load(data, Aligned); }
    IdealVec& operator=(const IdealVec& a) { for (size_t i = 0; i < N; ++i) value[i].h = a.value[i].h; return *this; }

    void load(const T* data, bool Aligned = true) {
        vf::trace.note_lanes(Aligned ? 'A' : 'L', data, sizeof(T), N, ~0ul >> (64 - N));
        for (size_t i = 0; i < N; ++i) value[i].h = data[i].h;
    }
    void store(T* data, bool Aligned = true) const {
        vf::trace.note_lanes(Aligned ? 'T' : 'S', data, sizeof(T), N, ~0ul >> (64 - N));
        for (size_t i = 0; i < N; ++i) data[i].h = value[i].h;
    }
    void aligned_load(const T* data) { load(data, true); }
    void aligned_store(T* data) const { store(data, true); }
    void broadcast(const T* data) { vf::trace.note('r', data, 1); for (size_t i = 0; i < N; ++i) value[i].h = data->h; }

    // mask bit l (from the least significant end) enables lane l, as in the AVX-512 k-registers
    void mask_load(const T* a, mask_type mask, bool = false) {
        vf::trace.note_lanes('m', a, sizeof(T), N, (unsigned long)mask);
        for (size_t i = 0; i < N; ++i) value[i].h = (mask >> i & 1) ? a[i].h : 0;
    }
    void mask_store(T* a, mask_type mask, bool = false) const {
        vf::trace.note_lanes('M', a, sizeof(T), N, (unsigned long)mask);
        for (size_t i = 0; i < N; ++i) if (mask >> i & 1) a[i].h = value[i].h;
    }

    T operator[](FASTOR_INDEX i) const { T r; r.h = value[i].h; return r; }
    T operator()(FASTOR_INDEX i) const { T r; r.h = value[i].h; return r; }

    void set(T num) { for (size_t i = 0; i < N; ++i) value[i].h = num.h; }
    template<typename U, typename... Args>
    void set(U first, Args... args) {
        static_assert(sizeof...(args) + 1 == N, "set: wrong number of values");
        T arr[N] = {T(first), T(args)...};
        for (size_t i = 0; i < N; ++i) value[i].h = arr[N - 1 - i].h;
    }
    void set_sequential(T num0) { for (size_t i = 0; i < N; ++i) value[i] = num0 + T((int)i); }

    void operator+=(T num) { for (size_t i = 0; i < N; ++i) value[i] += num; }
    void operator+=(const Self& a) { for (size_t i = 0; i < N; ++i) value[i] += a.value[i]; }
    void operator-=(T num) { for (size_t i = 0; i < N; ++i) value[i] -= num; }
    void operator-=(const Self& a) { for (size_t i = 0; i < N; ++i) value[i] -= a.value[i]; }
    void operator*=(T num) { for (size_t i = 0; i < N; ++i) value[i] *= num; }
    void operator*=(const Self& a) { for (size_t i = 0; i < N; ++i) value[i] *= a.value[i]; }
    void operator/=(T num) { for (size_t i = 0; i < N; ++i) value[i] /= num; }
    void operator/=(const Self& a) { for (size_t i = 0; i < N; ++i) value[i] /= a.value[i]; }

    T sum() const { T q; for (size_t i = 0; i < N; ++i) q += value[i]; return q; }
    T product() const { T q(1); for (size_t i = 0; i < N; ++i) q *= value[i]; return q; }
    Self reverse() const { Self out; for (size_t i = 0; i < N; ++i) out.value[i].h = value[N - 1 - i].h; return out; }
    T dot(const Self& o) const { T q; for (size_t i = 0; i < N; ++i) q += value[i] * o.value[i]; return q; }
};
} // vfdetail

#define VF_IDEAL(ABI_) \
template<int B> struct SIMDVector<vf::Sym<B>, simd_abi::ABI_> \
    : vfdetail::IdealVec<vf::Sym<B>, simd_abi::ABI_, internal::get_simd_vector_size<SIMDVector<vf::Sym<B>,simd_abi::ABI_>>::value> { \
    using Base = vfdetail::IdealVec<vf::Sym<B>, simd_abi::ABI_, internal::get_simd_vector_size<SIMDVector<vf::Sym<B>,simd_abi::ABI_>>::value>; \
    using T = vf::Sym<B>; \
    SIMDVector() : Base() {} \
    SIMDVector(T num) : Base(num) {} \
    SIMDVector(const SIMDVector& a) : Base(a) {} \
    SIMDVector(const T* data, bool Aligned = true) : Base(data, Aligned) {} \
    SIMDVector& operator=(const SIMDVector& a) { Base::operator=(a); return *this; } \
    SIMDVector& operator=(T num) { this->set(num); return *this; } \
};
VF_IDEAL(sse)
VF_IDEAL(avx)
VF_IDEAL(avx512)
#undef VF_IDEAL

} // namespace Fastor
#endif
