// Exact rational scalar for the linear-algebra correspondence runs (K3).
// __int128 numerator/denominator, always normalised (den > 0, gcd 1); overflow traps.
// Admitted to the library by specialising Fastor::is_numeric (no hook needed); SIMD width is 1.
#ifndef VF_RAT_H
#define VF_RAT_H
#include <cstdint>
#include <cstdio>
#include <cstdlib>
#include <string>
#include <cmath>
#include <iostream>
#include <vector>
#include <type_traits>

namespace vf {
typedef __int128 i128;
static inline i128 iabs(i128 x) { return x < 0 ? -x : x; }
static inline i128 igcd(i128 a, i128 b) { a = iabs(a); b = iabs(b); while (b) { i128 t = a % b; a = b; b = t; } return a; }
static inline std::string i128str(i128 x) {
    if (x == 0) return "0";
    bool neg = x < 0; if (neg) x = -x;
    std::string s; while (x > 0) { s = char('0' + (int)(x % 10)) + s; x /= 10; }
    return neg ? "-" + s : s;
}
static long rat_sqrt_calls = 0, rat_sqrt_nonsquare = 0;

// value type (never stored in tensors)
struct RatV {
    i128 n, d;
    RatV() : n(0), d(1) {}
    RatV(i128 num, i128 den) : n(num), d(den) {
        if (den == 0) { std::fprintf(stderr, "Rat: division by zero\n"); std::abort(); }
        if (d < 0) { n = -n; d = -d; }
        i128 g = igcd(n, d); if (g > 1) { n /= g; d /= g; }
        const i128 LIM = (i128)1 << 100;
        if (iabs(n) > LIM || d > LIM) { std::fprintf(stderr, "Rat: overflow\n"); std::abort(); }
    }
};
struct RatPool {
    std::vector<RatV> v;
    RatPool() { reset(); }
    void reset() { v.clear(); v.push_back(RatV()); }
    uint64_t put(const RatV& r) { if (r.n == 0) return 0; v.push_back(r); return v.size() - 1; }
};
static RatPool ratpool;

// the scalar stored in tensors: an 8-byte handle into the pool (handle 0 is zero), so that the
// library's sizeof-dispatched gather/scatter helpers accept it
struct Rat {
    uint64_t h;
    Rat() : h(0) {}
    Rat(int v) : h(ratpool.put(RatV(v, 1))) {}
    Rat(long v) : h(ratpool.put(RatV(v, 1))) {}
    Rat(long long v) : h(ratpool.put(RatV(v, 1))) {}
    Rat(unsigned v) : h(ratpool.put(RatV(v, 1))) {}
    Rat(unsigned long v) : h(ratpool.put(RatV((i128)v, 1))) {}
    Rat(double v) : h(0) {
        if (v != std::floor(v) || std::fabs(v) > 1e15) { std::fprintf(stderr, "Rat from non-integral double %g\n", v); std::abort(); }
        h = ratpool.put(RatV((i128)(long long)v, 1));
    }
    static Rat make(i128 num, i128 den) { Rat r; r.h = ratpool.put(RatV(num, den)); return r; }
    const RatV& val() const { return ratpool.v[h]; }
    i128 num() const { return val().n; }
    i128 den() const { return val().d; }
    std::string str() const { const RatV& x = val(); return x.d == 1 ? i128str(x.n) : i128str(x.n) + "/" + i128str(x.d); }
    explicit operator double() const { return (double)num() / (double)den(); }
    Rat& operator+=(const Rat& o) { *this = make(num() * o.den() + o.num() * den(), den() * o.den()); return *this; }
    Rat& operator-=(const Rat& o) { *this = make(num() * o.den() - o.num() * den(), den() * o.den()); return *this; }
    Rat& operator*=(const Rat& o) { *this = make(num() * o.num(), den() * o.den()); return *this; }
    Rat& operator/=(const Rat& o) { *this = make(num() * o.den(), den() * o.num()); return *this; }
};
static_assert(sizeof(Rat) == 8, "Rat handle size");
static inline Rat operator+(const Rat& a, const Rat& b) { return Rat::make(a.num() * b.den() + b.num() * a.den(), a.den() * b.den()); }
static inline Rat operator-(const Rat& a, const Rat& b) { return Rat::make(a.num() * b.den() - b.num() * a.den(), a.den() * b.den()); }
static inline Rat operator*(const Rat& a, const Rat& b) { return Rat::make(a.num() * b.num(), a.den() * b.den()); }
static inline Rat operator/(const Rat& a, const Rat& b) { return Rat::make(a.num() * b.den(), a.den() * b.num()); }
static inline Rat operator-(const Rat& a) { return Rat::make(-a.num(), a.den()); }
static inline Rat operator+(const Rat& a) { return a; }
static inline bool operator==(const Rat& a, const Rat& b) { return a.num() == b.num() && a.den() == b.den(); }
static inline bool operator!=(const Rat& a, const Rat& b) { return !(a == b); }
static inline bool operator<(const Rat& a, const Rat& b) { return a.num() * b.den() < b.num() * a.den(); }
static inline bool operator>(const Rat& a, const Rat& b) { return b < a; }
static inline bool operator<=(const Rat& a, const Rat& b) { return !(b < a); }
static inline bool operator>=(const Rat& a, const Rat& b) { return !(a < b); }
#define VF_RMIX(OP, RT) \
static inline RT operator OP(const Rat& a, int b) { return a OP Rat(b); } \
static inline RT operator OP(int a, const Rat& b) { return Rat(a) OP b; } \
static inline RT operator OP(const Rat& a, double b) { return a OP Rat(b); } \
static inline RT operator OP(double a, const Rat& b) { return Rat(a) OP b; }
VF_RMIX(+, Rat) VF_RMIX(-, Rat) VF_RMIX(*, Rat) VF_RMIX(/, Rat) VF_RMIX(<, bool) VF_RMIX(>, bool) VF_RMIX(==, bool)
#undef VF_RMIX
static inline std::ostream& operator<<(std::ostream& os, const Rat& r) { return os << r.str(); }
static inline i128 isqrt(i128 x) {
    if (x < 0) return -1;
    i128 r = (i128)std::sqrt((double)x);
    while (r * r > x) --r;
    while ((r + 1) * (r + 1) <= x) ++r;
    return r;
}
// exact square root: counts (and flags) arguments that are not perfect rational squares
static inline Rat rsqrt_exact(const Rat& a) {
    ++rat_sqrt_calls;
    i128 an = a.num(), ad = a.den();
    i128 rn = isqrt(an), rd = isqrt(ad);
    if (an < 0 || rn * rn != an || rd * rd != ad) { ++rat_sqrt_nonsquare; return Rat::make(rn < 0 ? 0 : rn, rd > 0 ? rd : 1); }
    return Rat::make(rn, rd);
}
} // namespace vf

namespace std {
// Fastor binds scalar operands of expressions by value only when std::is_arithmetic says so;
// anything else is bound by reference to a by-value parameter (dangling for user scalars).
template<> struct is_arithmetic<vf::Rat> : std::true_type {};
inline vf::Rat abs(const vf::Rat& a) { return a.num() < 0 ? -a : a; }
inline vf::Rat sqrt(const vf::Rat& a) { return vf::rsqrt_exact(a); }
inline vf::Rat conj(const vf::Rat& a) { return a; }
}
#endif
