// Shared helpers for the symbolic correspondence harnesses.
#ifndef VF_HUTIL_H
#define VF_HUTIL_H
#include "sym.h"
#include <cinttypes>
#include <set>
#include <map>
#include <unistd.h>
#include <sys/wait.h>

namespace vf {

static inline std::string hex16(uint64_t x) { char b[32]; std::snprintf(b, sizeof b, "%016" PRIx64, x); return b; }

template<typename T>
static inline T* sym_alloc(int win, size_t n, size_t misalign = 0) {
    T* p = (T*)arena.alloc(win, n, sizeof(T), misalign);
    for (size_t k = 0; k < n; ++k) p[k].h = pool.put(ptok(mktok(win, (uint32_t)k)));
    return p;
}

// digest of the final contents of a window
template<typename T>
static inline uint64_t val_digest(const T* p, size_t n) {
    uint64_t h = 0;
    for (size_t k = 0; k < n; ++k) { h = hstep(h, peval(pool.v[p[k].h], 0)); h = hstep(h, peval(pool.v[p[k].h], 1)); }
    return h;
}

struct TraceSummary {
    uint64_t wseq = 0; long nw = 0;          // ordered element positions written in window `outwin`
    std::map<int, std::set<long>> reads;     // element offsets read per window
    long oob = 0; long aligned = 0;
    std::string wlist;                       // verbose
};

static inline TraceSummary summarise(int outwin, bool verbose = false) {
    TraceSummary s; s.oob = trace.oob;
    for (auto& e : trace.ev) {
        switch (e.kind) {
        case 'w':
            if (e.win == outwin) { s.wseq = hstep(s.wseq, (uint64_t)e.off); ++s.nw; if (verbose) s.wlist += std::to_string(e.off) + " "; }
            break;
        case 'S': case 'T': case 'M':
            if (e.kind == 'T') ++s.aligned;
            if (e.win == outwin) for (int l = 0; l < 64; ++l) if (e.aux >> l & 1) {
                s.wseq = hstep(s.wseq, (uint64_t)(e.off + l)); ++s.nw; if (verbose) s.wlist += std::to_string(e.off + l) + " ";
            }
            break;
        case 'r':
            if (e.win >= 0) s.reads[e.win].insert(e.off);
            break;
        case 'L': case 'A': case 'm':
            if (e.kind == 'A') ++s.aligned;
            if (e.win >= 0) for (int l = 0; l < 64; ++l) if (e.aux >> l & 1) s.reads[e.win].insert(e.off + l);
            break;
        default: break;
        }
    }
    return s;
}
static inline uint64_t set_digest(const std::set<long>& st) { uint64_t h = 0; for (long x : st) h = hstep(h, (uint64_t)x); return h; }

// run one case in a forked child so that a crash of the library code (segfault, abort, trap) is
// reported as a failing case instead of killing the whole harness.  The case must print its
// `<cmd k=v...>` prefix and flush BEFORE touching the library; on a crash the parent completes the line.
template<class F> static inline void guarded(F f) {
    std::fflush(stdout);
    pid_t p = fork();
    if (p == 0) { f(); std::fflush(stdout); _exit(0); }
    int st = 0; waitpid(p, &st, 0);
    if (!(WIFEXITED(st) && WEXITSTATUS(st) == 0)) {
        std::printf(" | CRASH=%d ORACLE=FAIL\n", WIFSIGNALED(st) ? WTERMSIG(st) : -WEXITSTATUS(st));
        std::fflush(stdout);
    }
}

} // namespace vf
#endif
