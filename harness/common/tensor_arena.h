// Placing Fastor tensors inside the traced arena (include after Fastor and sym.h).
#ifndef VF_TENSOR_ARENA_H
#define VF_TENSOR_ARENA_H
#include "sym.h"
#include <new>
namespace vf {
// raw, window-less, 64-byte aligned storage for one object of type X inside the arena
template<typename X> inline void* arena_raw() { return arena.alloc(-1, sizeof(X), 1, 0); }
// register the element range [p, p+n) as window `win`
template<typename T> inline void add_window(int win, const T* p, size_t n) {
    trace.wins.push_back({(const char*)p, (const char*)(p + n), win, (int)sizeof(T)});
}
// default-construct a tensor in the arena, fill it with the tokens of window `win`, register it
template<typename TensorT> inline TensorT* arena_tensor(int win) {
    using T = typename TensorT::scalar_type;
    TensorT* t = new (arena_raw<TensorT>()) TensorT();
    T* d = t->data();
    for (size_t k = 0; k < (size_t)t->size(); ++k) d[k].h = pool.put(ptok(mktok(win, (uint32_t)k)));
    add_window(win, d, (size_t)t->size());
    return t;
}
// storage for a result tensor that a returning function constructs in place (copy elision):
// registers the data range as window `win` before the object exists
template<typename TensorT> inline void* arena_result_slot(int win) {
    using T = typename TensorT::scalar_type;
    void* mem = arena_raw<TensorT>();
    TensorT* t = reinterpret_cast<TensorT*>(mem);
    add_window(win, (const T*)t->data(), (size_t)TensorT::size());
    return mem;
}
} // namespace vf
#endif
