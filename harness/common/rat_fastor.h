// include after <Fastor/Fastor.h>: admits vf::Rat as a numeric scalar
#ifndef VF_RAT_FASTOR_H
#define VF_RAT_FASTOR_H
#include "rat.h"
namespace Fastor { template<> struct is_numeric<vf::Rat> { static constexpr bool value = true; }; }
#endif
