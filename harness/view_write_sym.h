// Symbolic correspondence harness for writing through tensor views (C05) and for overlapping
// assignments with noalias() (C18).  One instantiation of `run_vw<T, RDims<E...>, D...>` interprets a
// run-time script: a sequence of writes `A(ranges) op= rhs` on ONE parent tensor A (window 0), every
// (first,last,step) triple, operator and right-hand-side kind chosen at run time.  After every write
// the WHOLE parent tensor is digested, the bytes around it are compared with their initial contents
// and the trace is reduced to the ordered sequence of written positions.
#include "view_write_common.h"
#include "simd_sym.h"
#include "hutil.h"
#include "tensor_arena.h"
#include <array>
#include <vector>
#include <string>
#include <memory>
using namespace vf;
#ifndef CFGNAME
#define CFGNAME "sse2"
#endif
#ifdef FASTOR_USE_VECTORISED_EXPR_ASSIGN
#define VW_VEA 1
#else
#define VW_VEA 0
#endif
#if FASTOR_NO_ALIAS
#define VW_NAL 1
#else
#define VW_NAL 0
#endif
static bool g_verbose = false;

namespace vw {
static inline Poly papply(int op, const Poly& a, const Poly& b) {
    return op == 0 ? b : op == 1 ? padd(a, b) : op == 2 ? padd(a, b, -1) : pmul(a, b);
}

// the evaluation-requiring right-hand side: a matrix product written as an expression
template<typename T, size_t R, size_t... E> struct EvalRhs;
template<typename T, size_t E0> struct EvalRhs<T,1,E0> {
    Tensor<T,E0,2>* P; Tensor<T,2>* Q;
    void init() { P = arena_tensor<Tensor<T,E0,2>>(6); Q = arena_tensor<Tensor<T,2>>(7); }
    template<typename Vw> void run(int op, Vw&& v) { apply_op(op, v, (*P) % (*Q)); }
    Poly at(long jf) const { return padd(pmul(ptok(mktok(6, jf*2)), ptok(mktok(7, 0))), pmul(ptok(mktok(6, jf*2+1)), ptok(mktok(7, 1)))); }
};
template<typename T, size_t E0, size_t E1> struct EvalRhs<T,2,E0,E1> {
    Tensor<T,E0,2>* P; Tensor<T,2,E1>* Q;
    void init() { P = arena_tensor<Tensor<T,E0,2>>(6); Q = arena_tensor<Tensor<T,2,E1>>(7); }
    template<typename Vw> void run(int op, Vw&& v) { apply_op(op, v, (*P) % (*Q)); }
    Poly at(long jf) const { long i = jf / E1, j = jf % E1;
        return padd(pmul(ptok(mktok(6, i*2)), ptok(mktok(7, j))), pmul(ptok(mktok(6, i*2+1)), ptok(mktok(7, E1 + j)))); }
};
template<typename T, size_t R, size_t... E> struct EvalRhs {        // no linear-algebra expression of rank >= 3 exists
    void init() {}
    template<typename Vw> void run(int, Vw&&) { std::printf(" | ORACLE=FAIL bad-script-m\n"); std::fflush(stdout); _exit(0); }
    Poly at(long) const { return Poly{}; }
};

template<typename T, typename RD, typename Maker, size_t... D> struct Runner;
template<typename T, size_t... E, typename Maker, size_t... D>
struct Runner<T, RDims<E...>, Maker, D...> {
    static constexpr size_t R = sizeof...(D);
    using TA = Tensor<T,D...>; using TB = Tensor<T,E...>; using TF = Tensor<T,prod_of<E...>::value>;
    static void go(const char* script) {
        std::vector<int> dims = {(int)D...}; std::vector<int> rdims = {(int)E...};
        std::string ds, rs;
        for (size_t k = 0; k < dims.size(); ++k) ds += (k ? "x" : "") + std::to_string(dims[k]);
        for (size_t k = 0; k < rdims.size(); ++k) rs += (k ? "x" : "") + std::to_string(rdims[k]);
        vf::guarded([&]{
            std::printf("vw cls=%s cfg=%s sz=%d vea=%d%s dims=%s rd=%s W=%s", Maker::cls(), CFGNAME, (int)sizeof(T), VW_VEA, VW_NAL ? " nal=1" : "", ds.c_str(), rs.c_str(), script);
            std::fflush(stdout);
            arena.reset(); pool.reset();
            TA* A = arena_tensor<TA>(0); TA* B = arena_tensor<TA>(1); TA* C = arena_tensor<TA>(2);
            TB* Bt = arena_tensor<TB>(3); TB* Ct = arena_tensor<TB>(4); TF* Bf = arena_tensor<TF>(5);
            EvalRhs<T,sizeof...(E),E...> ev; ev.init();
            const size_t NA = TA::size();
            std::integral_constant<size_t,R> rk;
            // memory image around A: the bytes of the arena before and after the element range
            const char* lo = (const char*)A->data(); const char* hi = (const char*)(A->data() + NA);
            const long MARG = 512;
            std::vector<char> before(lo - MARG, lo), after(hi, hi + MARG);
            std::vector<Poly> ref(NA); for (size_t p = 0; p < NA; ++p) ref[p] = ptok(mktok(0, p));
            uint64_t val = 0, wseq = 0, rd0 = 0; long nw = 0, nvs = 0, oob = 0, unjudged = 0; bool ok = true, marg = true; long bad = -1; int badw = -1;
            auto wsp = parse_script(script);
            using VT = decltype(Maker::make(*A, wsp[0].dst, rk));
            std::unique_ptr<VT> held;
            bool flag = false;          // the harness's own account of the alias flag of the held view object
            for (size_t wi = 0; wi < wsp.size(); ++wi) {
                const WSpec& w = wsp[wi];
                T c(w.c);
                if (!w.keep || !held) { held.reset(new VT(Maker::make(*A, w.dst, rk))); flag = false; }
                if (w.na) flag = true;
                const bool guarded = flag && w.rk != 's' && !VW_NAL;   // FASTOR_NO_ALIAS=1 compiles the guard out
                if (guarded) flag = false;
                vf::trace.clear(); vf::trace.on = true;
                {
                    VT& v = *held;
                    if (w.na) Maker::noalias(v);
                    switch (w.rk) {
                    case 's': apply_op(w.op, v, c); break;
                    case 'v': apply_op(w.op, v, mkview(*B, w.src, rk)); break;
                    case 'e': apply_op(w.op, v, mkview(*B, w.src, rk) + mkview(*C, w.src2, rk) * c); break;
                    case 't': apply_op(w.op, v, *Bt); break;
                    case 'x': apply_op(w.op, v, (*Bt) * c - (*Ct)); break;
                    case 'f': apply_op(w.op, v, *Bf); break;
                    case 'm': ev.run(w.op, v); break;
                    // aliased right-hand sides (C18): slices of A itself
                    case 'a': apply_op(w.op, v, Maker::src(*A, w.src, rk)); break;
                    case 'b': apply_op(w.op, v, Maker::src(*A, w.src, rk) * c + Maker::src(*A, w.src2, rk)); break;
                    default: std::printf(" | ORACLE=FAIL bad-script\n"); std::fflush(stdout); _exit(0);
                    }
                }
                vf::trace.on = false;
                auto s = summarise(0, g_verbose);
                for (auto& e : vf::trace.ev) if ((e.kind == 'S' || e.kind == 'T' || e.kind == 'M') && e.win == 0) ++nvs;
                wseq = hstep(wseq, s.wseq); nw += s.nw; oob += s.oob;
                rd0 = hstep(rd0, set_digest(s.reads[0]));
                // reference: snapshot semantics
                RefSel sel = Maker::is_diag() ? RefSel::diagonal(dims[0]) : RefSel(w.dst, dims); RefSel s1(w.src, dims), s2(w.src2, dims);
                std::vector<Poly> old = ref;
                for (long jf = 0; jf < sel.total; ++jf) {
                    Poly r;
                    switch (w.rk) {
                    case 's': r = pconst(w.c); break;
                    case 'v': r = ptok(mktok(1, s1.pos(jf, dims))); break;
                    case 'e': r = padd(ptok(mktok(1, s1.pos(jf, dims))), pmul(ptok(mktok(2, s2.pos(jf, dims))), pconst(w.c))); break;
                    case 't': r = ptok(mktok(3, jf)); break;
                    case 'x': r = padd(pmul(ptok(mktok(3, jf)), pconst(w.c)), ptok(mktok(4, jf)), -1); break;
                    case 'f': r = ptok(mktok(5, jf)); break;
                    case 'm': r = ev.at(jf); break;
                    case 'a': r = old[s1.pos(jf, dims)]; break;
                    case 'b': r = padd(pmul(old[s1.pos(jf, dims)], pconst(w.c)), old[s2.pos(jf, dims)]); break;
                    }
                    long p = sel.pos(jf, dims);
                    ref[p] = papply(w.op, old[p], r);
                }
                // an aliased right-hand side without the guard is judged only when source and destination
                // coincide exactly; otherwise the outcome depends on the traversal (the model predicts it)
                if ((w.rk == 'a' || w.rk == 'b') && !guarded) {
                    bool same = true;
                    for (long jf = 0; jf < sel.total; ++jf) {
                        if (s1.pos(jf, dims) != sel.pos(jf, dims)) same = false;
                        if (w.rk == 'b' && s2.pos(jf, dims) != sel.pos(jf, dims)) same = false;
                    }
                    if (!same) { for (size_t p = 0; p < NA; ++p) ref[p] = pool.v[A->data()[p].h]; ++unjudged; }
                }
                for (size_t p = 0; p < NA && ok; ++p) if (ref[p] != pool.v[A->data()[p].h]) { ok = false; bad = p; badw = (int)wi; }
                if (std::memcmp(before.data(), lo - MARG, MARG) != 0 || std::memcmp(after.data(), hi, MARG) != 0) marg = false;
                val = hstep(val, val_digest(A->data(), NA));
                if (g_verbose) std::printf(" W%zu=[%s]", wi, s.wlist.c_str());
            }
            using V = typename TA::simd_vector_type;
            std::printf(" | V=%d VAL=%s WSEQ=%s NW=%ld NVS=%ld RD0=%s UNJ=%ld OOB=%ld ORACLE=%s", (int)V::Size, hex16(val).c_str(), hex16(wseq).c_str(),
                        nw, nvs, hex16(rd0).c_str(), unjudged, oob, (ok && marg) ? "ok" : "FAIL");
            if (!marg) std::printf(" margin-changed");
            if (!ok) std::printf(" write=%d badpos=%ld got=%s want=%s", badw, bad, pstr(pool.v[A->data()[bad].h]).substr(0, 120).c_str(), pstr(ref[bad]).substr(0, 120).c_str());
            std::printf("\n");
        });
    }
};
} // namespace vw

// VW(T, (E...), (D...), "script")
#define VW(T, RD, DD, SCRIPT) vw::Runner<T, vw::RDims<VW_UNPACK RD>, vw::DynMaker, VW_UNPACK DD>::go(SCRIPT)
// VWF(T, (E...), (D...), (fseq<..>, fseq<..>), "script")
#define VWD(T, RD, DD, SCRIPT) vw::Runner<T, vw::RDims<VW_UNPACK RD>, vw::DiagMaker, VW_UNPACK DD>::go(SCRIPT)
#define VWP(T, RD, DD, SCRIPT) vw::Runner<T, vw::RDims<VW_UNPACK RD>, vw::MapDynMaker, VW_UNPACK DD>::go(SCRIPT)
#define VWPF(T, RD, DD, FS, SCRIPT) vw::Runner<T, vw::RDims<VW_UNPACK RD>, vw::MapFixMaker<VW_UNPACK FS>, VW_UNPACK DD>::go(SCRIPT)
#define VWF(T, RD, DD, FS, SCRIPT) vw::Runner<T, vw::RDims<VW_UNPACK RD>, vw::FixMaker<VW_UNPACK FS>, VW_UNPACK DD>::go(SCRIPT)

