// Symbolic correspondence harness for writing through tensor views (C05) and for overlapping
// assignments with noalias() (C18).  One instantiation of `run_vw<T, RDims<E...>, D...>` interprets a
// run-time script: a sequence of writes `A(ranges) op= rhs` on ONE parent tensor A (window 0), every
// (first,last,step) triple, operator and right-hand-side kind chosen at run time.  After every write
// the WHOLE parent tensor is digested, the bytes around it are compared with their initial contents
// and the trace is reduced to the ordered sequence of written positions.
#include <Fastor/Fastor.h>
#include "simd_sym.h"
#include "hutil.h"
#include "tensor_arena.h"
#include <array>
#include <vector>
#include <string>
#include <memory>
using namespace vf;
#ifndef CFGNAME
#define CFGNAME "sse2"
#endif
#ifdef FASTOR_USE_VECTORISED_EXPR_ASSIGN
#define VW_VEA 1
#else
#define VW_VEA 0
#endif
static bool g_verbose = false;

namespace vw {
using Fastor::seq; using Fastor::Tensor;
template<size_t... E> struct RDims {};
typedef std::array<int,3> Tri;

// ------------------------------------------------------------------------------------ script parsing
struct WSpec { int op; char rk; int c; bool na, keep; std::vector<Tri> dst, src, src2; };
static inline std::vector<std::string> split(const std::string& s, char d) {
    std::vector<std::string> r; std::string cur;
    for (char ch : s) { if (ch == d) { r.push_back(cur); cur.clear(); } else cur += ch; }
    r.push_back(cur); return r;
}
static inline std::vector<Tri> parse_ranges(const std::string& s) {
    std::vector<Tri> r;
    if (s.empty()) return r;
    for (auto& ax : split(s, ',')) { auto p = split(ax, '_'); r.push_back(Tri{std::atoi(p[0].c_str()), std::atoi(p[1].c_str()), std::atoi(p[2].c_str())}); }
    return r;
}
static inline int opcode(const std::string& s) { return s == "set" ? 0 : s == "add" ? 1 : s == "sub" ? 2 : s == "mul" ? 3 : 4; }
// write := op.rk.c.dst[.src[.src2]]   rk: s v e t x f m a b ; trailing letters on the op: `n` = noalias() is called on
// the view first, `k` = the write is applied to the view OBJECT of the previous write (stored view, same ranges)
static inline std::vector<WSpec> parse_script(const char* script) {
    std::vector<WSpec> ws;
    for (auto& w : split(script, '/')) {
        auto f = split(w, '.');
        WSpec s; std::string o = f[0];
        s.na = s.keep = false;
        while (!o.empty() && (o.back() == 'n' || o.back() == 'k')) { if (o.back() == 'n') s.na = true; else s.keep = true; o.pop_back(); }
        s.op = opcode(o); s.rk = f[1][0]; s.c = std::atoi(f[2].c_str());
        s.dst = parse_ranges(f[3]);
        if (f.size() > 4) s.src = parse_ranges(f[4]);
        if (f.size() > 5) s.src2 = parse_ranges(f[5]);
        ws.push_back(s);
    }
    return ws;
}

// ------------------------------------------------------------------------------------ reference
// documented meaning of a (first,last,step) triple on an axis of n elements (independent of the
// library's normalisers): negative `last` counts from the end with -1 = n; the pair (-1,0) is the
// single last element (integer index -1); both negative: both count from the end.
static inline void ref_norm(Tri t, int n, int& f, int& cnt, int& s) {
    int a = t[0], b = t[1]; s = t[2];
    if (a == -1 && b == 0) { a = n - 1; b = n; }
    else { if (b < 0) b += n + 1; if (a < 0) a += n + 1; }
    f = a; cnt = 0; for (int x = a; x < b; x += s) ++cnt;
}
struct RefSel { std::vector<int> f, cnt, s; long total = 1;
    RefSel(const std::vector<Tri>& r, const std::vector<int>& dims) {
        f.resize(r.size()); cnt.resize(r.size()); s.resize(r.size());
        for (size_t k = 0; k < r.size(); ++k) { ref_norm(r[k], dims[k], f[k], cnt[k], s[k]); total *= cnt[k]; }
    }
    // position in the parent of the logical flat (row-major) index jf
    long pos(long jf, const std::vector<int>& dims) const {
        long p = 0, rem = jf; std::vector<long> j(f.size());
        for (int k = (int)f.size() - 1; k >= 0; --k) { j[k] = rem % cnt[k]; rem /= cnt[k]; }
        for (size_t k = 0; k < f.size(); ++k) p = p * dims[k] + (f[k] + j[k] * s[k]);
        return p;
    }
};
static inline Poly papply(int op, const Poly& a, const Poly& b) {
    return op == 0 ? b : op == 1 ? padd(a, b) : op == 2 ? padd(a, b, -1) : pmul(a, b);
}

// ------------------------------------------------------------------------------------ view makers
template<typename TT> inline auto mkview(TT& A, const std::vector<Tri>& r, std::integral_constant<size_t,1>)
    -> decltype(A(seq(0,1,1))) { return A(seq(r[0][0], r[0][1], r[0][2])); }
template<typename TT> inline auto mkview(TT& A, const std::vector<Tri>& r, std::integral_constant<size_t,2>)
    -> decltype(A(seq(0,1,1), seq(0,1,1))) { return A(seq(r[0][0], r[0][1], r[0][2]), seq(r[1][0], r[1][1], r[1][2])); }
template<typename TT> inline auto mkview(TT& A, const std::vector<Tri>& r, std::integral_constant<size_t,3>)
    -> decltype(A(seq(0,1,1), seq(0,1,1), seq(0,1,1))) {
    return A(seq(r[0][0], r[0][1], r[0][2]), seq(r[1][0], r[1][1], r[1][2]), seq(r[2][0], r[2][1], r[2][2])); }
template<typename TT> inline auto mkview(TT& A, const std::vector<Tri>& r, std::integral_constant<size_t,4>)
    -> decltype(A(seq(0,1,1), seq(0,1,1), seq(0,1,1), seq(0,1,1))) {
    return A(seq(r[0][0], r[0][1], r[0][2]), seq(r[1][0], r[1][1], r[1][2]), seq(r[2][0], r[2][1], r[2][2]), seq(r[3][0], r[3][1], r[3][2])); }

template<typename L, typename R> inline void apply_op(int op, L&& lhs, const R& rhs) {
    switch (op) { case 0: lhs = rhs; break; case 1: lhs += rhs; break; case 2: lhs -= rhs; break; default: lhs *= rhs; break; }
}

// the evaluation-requiring right-hand side: a matrix product written as an expression
template<typename T, size_t R, size_t... E> struct EvalRhs;
template<typename T, size_t E0> struct EvalRhs<T,1,E0> {
    Tensor<T,E0,2>* P; Tensor<T,2>* Q;
    void init() { P = arena_tensor<Tensor<T,E0,2>>(6); Q = arena_tensor<Tensor<T,2>>(7); }
    template<typename Vw> void run(int op, Vw&& v) { apply_op(op, v, (*P) % (*Q)); }
    Poly at(long jf) const { return padd(pmul(ptok(mktok(6, jf*2)), ptok(mktok(7, 0))), pmul(ptok(mktok(6, jf*2+1)), ptok(mktok(7, 1)))); }
};
template<typename T, size_t E0, size_t E1> struct EvalRhs<T,2,E0,E1> {
    Tensor<T,E0,2>* P; Tensor<T,2,E1>* Q;
    void init() { P = arena_tensor<Tensor<T,E0,2>>(6); Q = arena_tensor<Tensor<T,2,E1>>(7); }
    template<typename Vw> void run(int op, Vw&& v) { apply_op(op, v, (*P) % (*Q)); }
    Poly at(long jf) const { long i = jf / E1, j = jf % E1;
        return padd(pmul(ptok(mktok(6, i*2)), ptok(mktok(7, j))), pmul(ptok(mktok(6, i*2+1)), ptok(mktok(7, E1 + j)))); }
};
template<typename T, size_t R, size_t... E> struct EvalRhs {        // no linear-algebra expression of rank >= 3 exists
    void init() {}
    template<typename Vw> void run(int, Vw&&) { std::printf(" | ORACLE=FAIL bad-script-m\n"); std::fflush(stdout); _exit(0); }
    Poly at(long) const { return Poly{}; }
};

template<size_t... E> struct prod_of { static constexpr size_t value = 1; };
template<size_t E0, size_t... E> struct prod_of<E0,E...> { static constexpr size_t value = E0 * prod_of<E...>::value; };

// how the destination view is made: from the run-time triples of the script (dynamic view classes) ...
struct DynMaker {
    static const char* cls() { return "dyn"; }
    template<typename TT, size_t R> static auto make(TT& A, const std::vector<Tri>& r, std::integral_constant<size_t,R> rk)
        -> decltype(mkview(A, r, rk)) { return mkview(A, r, rk); }
};
// ... or from compile-time fseq<F,L,S> (fixed view classes; the script must carry the same triples)
template<typename... FS> struct FixMaker {
    static const char* cls() { return "fix"; }
    template<typename TT, size_t R> static auto make(TT& A, const std::vector<Tri>& r, std::integral_constant<size_t,R>)
        -> decltype(A(FS{}...)) {
        const int want[] = {FS::_first..., FS::_last..., FS::_step...};
        for (size_t k = 0; k < R; ++k)
            if (r[k][0] != want[k] || r[k][1] != want[R + k] || r[k][2] != want[2 * R + k]) { std::printf(" | ORACLE=FAIL script-does-not-match-fseq\n"); std::fflush(stdout); _exit(0); }
        return A(FS{}...);
    }
};

template<typename T, typename RD, typename Maker, size_t... D> struct Runner;
template<typename T, size_t... E, typename Maker, size_t... D>
struct Runner<T, RDims<E...>, Maker, D...> {
    static constexpr size_t R = sizeof...(D);
    using TA = Tensor<T,D...>; using TB = Tensor<T,E...>; using TF = Tensor<T,prod_of<E...>::value>;
    static void go(const char* script) {
        std::vector<int> dims = {(int)D...}; std::vector<int> rdims = {(int)E...};
        std::string ds, rs;
        for (size_t k = 0; k < dims.size(); ++k) ds += (k ? "x" : "") + std::to_string(dims[k]);
        for (size_t k = 0; k < rdims.size(); ++k) rs += (k ? "x" : "") + std::to_string(rdims[k]);
        vf::guarded([&]{
            std::printf("vw cls=%s cfg=%s sz=%d vea=%d dims=%s rd=%s W=%s", Maker::cls(), CFGNAME, (int)sizeof(T), VW_VEA, ds.c_str(), rs.c_str(), script);
            std::fflush(stdout);
            arena.reset(); pool.reset();
            TA* A = arena_tensor<TA>(0); TA* B = arena_tensor<TA>(1); TA* C = arena_tensor<TA>(2);
            TB* Bt = arena_tensor<TB>(3); TB* Ct = arena_tensor<TB>(4); TF* Bf = arena_tensor<TF>(5);
            EvalRhs<T,sizeof...(E),E...> ev; ev.init();
            const size_t NA = TA::size();
            std::integral_constant<size_t,R> rk;
            // memory image around A: the bytes of the arena before and after the element range
            const char* lo = (const char*)A->data(); const char* hi = (const char*)(A->data() + NA);
            const long MARG = 512;
            std::vector<char> before(lo - MARG, lo), after(hi, hi + MARG);
            std::vector<Poly> ref(NA); for (size_t p = 0; p < NA; ++p) ref[p] = ptok(mktok(0, p));
            uint64_t val = 0, wseq = 0, rd0 = 0; long nw = 0, nvs = 0, oob = 0, unjudged = 0; bool ok = true, marg = true; long bad = -1; int badw = -1;
            auto wsp = parse_script(script);
            using VT = decltype(Maker::make(*A, wsp[0].dst, rk));
            std::unique_ptr<VT> held;
            bool flag = false;          // the harness's own account of the alias flag of the held view object
            for (size_t wi = 0; wi < wsp.size(); ++wi) {
                const WSpec& w = wsp[wi];
                T c(w.c);
                if (!w.keep || !held) { held.reset(new VT(Maker::make(*A, w.dst, rk))); flag = false; }
                if (w.na) flag = true;
                const bool guarded = flag && w.rk != 's';
                if (guarded) flag = false;
                vf::trace.clear(); vf::trace.on = true;
                {
                    VT& v = *held;
                    if (w.na) v.noalias();
                    switch (w.rk) {
                    case 's': apply_op(w.op, v, c); break;
                    case 'v': apply_op(w.op, v, mkview(*B, w.src, rk)); break;
                    case 'e': apply_op(w.op, v, mkview(*B, w.src, rk) + mkview(*C, w.src2, rk) * c); break;
                    case 't': apply_op(w.op, v, *Bt); break;
                    case 'x': apply_op(w.op, v, (*Bt) * c - (*Ct)); break;
                    case 'f': apply_op(w.op, v, *Bf); break;
                    case 'm': ev.run(w.op, v); break;
                    // aliased right-hand sides (C18): slices of A itself
                    case 'a': apply_op(w.op, v, mkview(*A, w.src, rk)); break;
                    case 'b': apply_op(w.op, v, mkview(*A, w.src, rk) * c + mkview(*A, w.src2, rk)); break;
                    default: std::printf(" | ORACLE=FAIL bad-script\n"); std::fflush(stdout); _exit(0);
                    }
                }
                vf::trace.on = false;
                auto s = summarise(0, g_verbose);
                for (auto& e : vf::trace.ev) if ((e.kind == 'S' || e.kind == 'T' || e.kind == 'M') && e.win == 0) ++nvs;
                wseq = hstep(wseq, s.wseq); nw += s.nw; oob += s.oob;
                rd0 = hstep(rd0, set_digest(s.reads[0]));
                // reference: snapshot semantics
                RefSel sel(w.dst, dims), s1(w.src, dims), s2(w.src2, dims);
                std::vector<Poly> old = ref;
                for (long jf = 0; jf < sel.total; ++jf) {
                    Poly r;
                    switch (w.rk) {
                    case 's': r = pconst(w.c); break;
                    case 'v': r = ptok(mktok(1, s1.pos(jf, dims))); break;
                    case 'e': r = padd(ptok(mktok(1, s1.pos(jf, dims))), pmul(ptok(mktok(2, s2.pos(jf, dims))), pconst(w.c))); break;
                    case 't': r = ptok(mktok(3, jf)); break;
                    case 'x': r = padd(pmul(ptok(mktok(3, jf)), pconst(w.c)), ptok(mktok(4, jf)), -1); break;
                    case 'f': r = ptok(mktok(5, jf)); break;
                    case 'm': r = ev.at(jf); break;
                    case 'a': r = old[s1.pos(jf, dims)]; break;
                    case 'b': r = padd(pmul(old[s1.pos(jf, dims)], pconst(w.c)), old[s2.pos(jf, dims)]); break;
                    }
                    long p = sel.pos(jf, dims);
                    ref[p] = papply(w.op, old[p], r);
                }
                // an aliased right-hand side without the guard is judged only when source and destination
                // coincide exactly; otherwise the outcome depends on the traversal (the model predicts it)
                if ((w.rk == 'a' || w.rk == 'b') && !guarded) {
                    bool same = true;
                    for (long jf = 0; jf < sel.total; ++jf) {
                        if (s1.pos(jf, dims) != sel.pos(jf, dims)) same = false;
                        if (w.rk == 'b' && s2.pos(jf, dims) != sel.pos(jf, dims)) same = false;
                    }
                    if (!same) { for (size_t p = 0; p < NA; ++p) ref[p] = pool.v[A->data()[p].h]; ++unjudged; }
                }
                for (size_t p = 0; p < NA && ok; ++p) if (ref[p] != pool.v[A->data()[p].h]) { ok = false; bad = p; badw = (int)wi; }
                if (std::memcmp(before.data(), lo - MARG, MARG) != 0 || std::memcmp(after.data(), hi, MARG) != 0) marg = false;
                val = hstep(val, val_digest(A->data(), NA));
                if (g_verbose) std::printf(" W%zu=[%s]", wi, s.wlist.c_str());
            }
            using V = typename TA::simd_vector_type;
            std::printf(" | V=%d VAL=%s WSEQ=%s NW=%ld NVS=%ld RD0=%s UNJ=%ld OOB=%ld ORACLE=%s", (int)V::Size, hex16(val).c_str(), hex16(wseq).c_str(),
                        nw, nvs, hex16(rd0).c_str(), unjudged, oob, (ok && marg) ? "ok" : "FAIL");
            if (!marg) std::printf(" margin-changed");
            if (!ok) std::printf(" write=%d badpos=%ld got=%s want=%s", badw, bad, pstr(pool.v[A->data()[bad].h]).substr(0, 120).c_str(), pstr(ref[bad]).substr(0, 120).c_str());
            std::printf("\n");
        });
    }
};
} // namespace vw

// VW(T, (E...), (D...), "script")
#define VW_UNPACK(...) __VA_ARGS__
#define VW(T, RD, DD, SCRIPT) vw::Runner<T, vw::RDims<VW_UNPACK RD>, vw::DynMaker, VW_UNPACK DD>::go(SCRIPT)
// VWF(T, (E...), (D...), (fseq<..>, fseq<..>), "script")
#define VWF(T, RD, DD, FS, SCRIPT) vw::Runner<T, vw::RDims<VW_UNPACK RD>, vw::FixMaker<VW_UNPACK FS>, VW_UNPACK DD>::go(SCRIPT)
using Fastor::fseq;
