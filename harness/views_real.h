// K4 value runs for C04 on the real element types: every view evaluator and consumer against an
// explicit multi-index loop.  The gather helpers (`vector_setter`) are dispatched on sizeof(T) and the
// register width, so each (type, ISA) pair runs the strided form (1-D views, 2-D step != 1, strided n-D
// `teval`) and the index-array form (flat `eval` of 2-D / n-D views).
#include <Fastor/Fastor.h>
#include "views_common.h"
#include <cstring>
#include <complex>
using namespace Fastor;
#ifndef CFGNAME
#define CFGNAME "sse2"
#endif
static bool g_verbose = false;
template<typename T> struct tn;
template<> struct tn<float> { static const char* n() { return "float"; } };
template<> struct tn<double> { static const char* n() { return "double"; } };
template<> struct tn<int32_t> { static const char* n() { return "int32"; } };
template<> struct tn<int64_t> { static const char* n() { return "int64"; } };
template<> struct tn<std::complex<double>> { static const char* n() { return "cdouble"; } };
template<> struct tn<std::complex<float>> { static const char* n() { return "cfloat"; } };
// element helpers: complex elements get a distinct imaginary part; reals ignore it
template<typename T> struct el { static T mk(size_t a, size_t) { return (T)a; } static double d(const T& x) { return (double)x; } static constexpr bool cplx = false; };
template<typename U> struct el<std::complex<U>> { static std::complex<U> mk(size_t a, size_t b) { return std::complex<U>((U)a, (U)b); }
    static double d(const std::complex<U>& x) { return (double)x.real() + 1e-3 * (double)x.imag(); } static constexpr bool cplx = true; };
// the expression consumer: 2*A(v) + B(v) for the real types, A(v) + B(v) for complex (no scalar*expression overload is needed)
template<typename T, bool C = el<T>::cplx> struct combo {
    template<typename X, typename Y> static auto make(const X& x, const Y& y) -> decltype((T)2 * x + y) { return (T)2 * x + y; }
    static T want(const T& a, const T& b) { return (T)((T)2 * a + b); } };
template<typename T> struct combo<T, true> {
    template<typename X, typename Y> static auto make(const X& x, const Y& y) -> decltype(x + y) { return x + y; }
    static T want(const T& a, const T& b) { return a + b; } };

namespace vw {
struct RFail { std::string what; };
#define VR_CHECK(cond, ...) do { if (!(cond) && fail.what.empty()) { char b_[256]; std::snprintf(b_, sizeof b_, __VA_ARGS__); fail.what = b_; } } while (0)

template<typename View> static auto route_flags_r(const View& v, int) -> decltype(v.is_vectorisable(), int()) {
    return v.is_vectorisable() ? 0 : (v.is_strided_vectorisable() ? 1 : 2);
}
template<typename View> static int route_flags_r(const View&, long) { return -1; }
template<typename T, size_t RK, bool TWO, typename View>
static void rprobe(const View& v, const std::array<int,RK>& rd, const std::vector<T>& expect, RFail& fail) {
    using V = typename View::simd_vector_type;
    constexpr int VS = (int)V::Size;
    const long n = (long)expect.size();
    VR_CHECK((long)v.size() == n, "size()=%ld want %ld", (long)v.size(), n);
    if ((long)v.size() != n) return;
    for (size_t k = 0; k < RK; ++k) VR_CHECK((long)v.dimension(k) == rd[k], "dimension(%zu)", k);
    T buf[64];
    for (long i = 0; i < n; ++i) VR_CHECK(v.template eval_s<T>(i) == expect[i], "eval_s(%ld)", i);
    for (long i = 0; i + VS <= n; ++i) {
        v.template eval<T>(i).store(buf, false);
        for (int l = 0; l < VS; ++l) VR_CHECK(buf[l] == expect[i + l], "eval(%ld) lane %d", i, l);
    }
    const int dl = rd[RK - 1];
    if (TWO) {
        for (int i = 0; i < rd[0]; ++i) for (int j = 0; j < dl; ++j) VR_CHECK(v.template eval_s<T>(i, j) == expect[(long)i * dl + j], "eval_s(%d,%d)", i, j);
        for (int i = 0; i < rd[0]; ++i) for (int j = 0; j + VS <= dl; ++j) {
            v.template eval<T>(i, j).store(buf, false);
            for (int l = 0; l < VS; ++l) VR_CHECK(buf[l] == expect[(long)i * dl + j + l], "eval(%d,%d) lane %d", i, j, l);
        }
    }
    bool gather = false;
    { int r = route_flags_r(v, 0); gather = r == 2; }
    for (long p = 0; p < n; ++p) {
        auto as = unrowmajor<RK>(rd, p);
        VR_CHECK(v.template teval_s<T>(as) == expect[p], "teval_s(#%ld)", p);
        if (gather ? (p + VS > n) : (as[RK - 1] + VS > dl)) continue;
        v.template teval<T>(as).store(buf, false);
        for (int l = 0; l < VS; ++l) VR_CHECK(buf[l] == expect[p + l], "teval(#%ld) lane %d", p, l);
    }
}

template<typename RT, typename T> static void rcheck(const char* tag, const RT& r, const std::vector<T>& expect, const std::vector<T>* e2, RFail& fail) {
    for (size_t p = 0; p < expect.size(); ++p) {
        T want = e2 ? combo<T>::want(expect[p], (*e2)[p]) : expect[p];
        VR_CHECK(r.data()[p] == want, "consumer %s result[%zu]=%g want %g", tag, p, el<T>::d(r.data()[p]), el<T>::d(want));
    }
}
template<typename PT> static void rfill(PT& A, PT& B) {
    using T = typename PT::scalar_type;
    for (size_t k = 0; k < (size_t)PT::size(); ++k) { A.data()[k] = el<T>::mk(k + 1, 5000 + k); B.data()[k] = el<T>::mk(1000 + 3 * k, 7000 + 2 * k); }
}
template<typename P, typename... A> static auto rslice(P& p, A... a) -> decltype(p(a...)) { return p(a...); }

template<typename T, int CK, typename KindsT, typename PD, typename RD> struct RDynRunner;
template<typename T, int CK, int... K, size_t... D, size_t... R>
struct RDynRunner<T, CK, Kinds<K...>, Dims<D...>, Dims<R...>> {
    static constexpr size_t RK = sizeof...(D);
    using PT = Tensor<T, D...>; using RT = Tensor<T, R...>;
    using PRef = typename std::conditional<CK == 1, const PT, PT>::type;
    template<size_t... I>
    static void one(const std::array<Enc,RK>& e, RFail& fail, std_ext::index_sequence<I...>) {
        const std::array<int,RK> pd = {(int)D...}, rd = {(int)R...};
        PT A, B; rfill(A, B);
        PRef& a = A; PRef& b = B;
        const long n = (long)RT::size();
        std::vector<T> expect(n), expect2(n);
        for (long p = 0; p < n; ++p) { long off = ref_offset<RK>(pd, e, unrowmajor<RK>(rd, p)); expect[p] = A.data()[off]; expect2[p] = B.data()[off]; }
        try {
            { auto v = rslice(a, ArgMaker<K>::make(e[I])...); rprobe<T, RK, RK == 2>(v, rd, expect, fail); }
            { RT r(rslice(a, ArgMaker<K>::make(e[I])...)); rcheck("ctor", r, expect, (const std::vector<T>*)nullptr, fail); }
            { RT r; r.zeros(); r += rslice(a, ArgMaker<K>::make(e[I])...); rcheck("+=", r, expect, (const std::vector<T>*)nullptr, fail); }
            { RT r(combo<T>::make(rslice(a, ArgMaker<K>::make(e[I])...), rslice(b, ArgMaker<K>::make(e[I])...))); rcheck("2a+b", r, expect, &expect2, fail); }
            { RT r; r = rslice(a, ArgMaker<K>::make(e[I])...); rcheck("=", r, expect, (const std::vector<T>*)nullptr, fail); }
        } catch (const std::exception& ex) { VR_CHECK(false, "exception %s", ex.what()); }
    }
    static void run(int smax, size_t cap, uint32_t seed) {
        const std::array<int,RK> kinds = {K...}, pd = {(int)D...}, rd = {(int)R...};
        RFail fail; std::string where; size_t cnt = 0;
        for (auto& e : combos<RK>(kinds, pd, rd, smax, cap, seed)) {
            ++cnt; one(e, fail, typename std_ext::make_index_sequence<RK>::type{});
            if (!fail.what.empty()) { where = seqs_str<RK>(e, kinds); break; }
        }
        std::printf("rview cfg=%s T=%s ck=%s K=%s D=%s R=%s n=%zu | %s", CFGNAME, tn<T>::n(), CK ? "c" : "n", dims_str<RK>(kinds).c_str(), dims_str<RK>(pd).c_str(), dims_str<RK>(rd).c_str(), cnt, fail.what.empty() ? "ok" : "FAIL");
        if (!fail.what.empty()) std::printf(" S=%s %s", where.c_str(), fail.what.c_str());
        std::printf("\n");
    }
};

template<typename T, int CK, typename PD, typename... Fseqs> struct RFixRunner;
template<typename T, int CK, size_t... D, typename... Fseqs>
struct RFixRunner<T, CK, Dims<D...>, Fseqs...> {
    static constexpr size_t RK = sizeof...(D);
    using PT = Tensor<T, D...>;
    using RT = Tensor<T, (size_t)internal::fseq_range_detector<to_positive_t<Fseqs, (int)D>>::value...>;
    using PRef = typename std::conditional<CK == 1, const PT, PT>::type;
    static void run() {
        const std::array<int,RK> kinds{}, pd = {(int)D...};
        const std::array<int,RK> rd = {(int)internal::fseq_range_detector<to_positive_t<Fseqs, (int)D>>::value...};
        const std::array<int,RK> F = {Fseqs::_first...}, L = {Fseqs::_last...}, S = {Fseqs::_step...};
        std::array<Enc,RK> e; RFail fail;
        for (size_t k = 0; k < RK; ++k) {
            int f = F[k], l = L[k];
            if (f == -1 && l == 0) { f = pd[k] - 1; l = pd[k]; } else { if (f < 0) f += pd[k] + 1; if (l < 0) l += pd[k] + 1; }
            e[k] = {F[k], L[k], S[k], f, S[k], ceil_div(l - f, S[k])};
            VR_CHECK(rd[k] == e[k].n, "extent of axis %zu is %d want %d", k, rd[k], e[k].n);
        }
        if (fail.what.empty()) {
            PT A, B; rfill(A, B);
            PRef& a = A; PRef& b = B;
            const long n = (long)RT::size();
            std::vector<T> expect(n), expect2(n);
            for (long p = 0; p < n; ++p) { long off = ref_offset<RK>(pd, e, unrowmajor<RK>(rd, p)); expect[p] = A.data()[off]; expect2[p] = B.data()[off]; }
            try {
                { auto v = a(Fseqs()...); rprobe<T, RK, RK == 2>(v, rd, expect, fail); }
                { RT r(a(Fseqs()...)); rcheck("ctor", r, expect, (const std::vector<T>*)nullptr, fail); }
                { RT r; r.zeros(); r += a(Fseqs()...); rcheck("+=", r, expect, (const std::vector<T>*)nullptr, fail); }
                { RT r(combo<T>::make(a(Fseqs()...), b(Fseqs()...))); rcheck("2a+b", r, expect, &expect2, fail); }
                { RT r; r = a(Fseqs()...); rcheck("=", r, expect, (const std::vector<T>*)nullptr, fail); }
            } catch (const std::exception& ex) { VR_CHECK(false, "exception %s", ex.what()); }
        }
        std::printf("rfix cfg=%s T=%s ck=%s D=%s S=%s | %s", CFGNAME, tn<T>::n(), CK ? "c" : "n", dims_str<RK>(pd).c_str(), seqs_str<RK>(e, kinds).c_str(), fail.what.empty() ? "ok" : "FAIL");
        if (!fail.what.empty()) std::printf(" %s", fail.what.c_str());
        std::printf("\n");
    }
};
} // namespace vw
#define DIMS(...) vw::Dims<__VA_ARGS__>
#define KINDS(...) vw::Kinds<__VA_ARGS__>
template<typename T, int CK, typename K, typename PD, typename RD>
static void run_rview(int smax, size_t cap, unsigned seed) { vw::RDynRunner<T, CK, K, PD, RD>::run(smax, cap, seed); }
template<typename T, int CK, typename PD, typename... Fseqs>
static void run_rfix() { vw::RFixRunner<T, CK, PD, Fseqs...>::run(); }
