// C04, use sites: slices inside the operations a program actually writes — compound assignment, comparisons,
// reductions, linear algebra, mixed fixed/dynamic/integer forms, TensorMap parents — on the real element types,
// each against a plain loop over the documented elements.  One instantiation = (T, rows M, last extent NL); the
// caller picks NL per vector width: V (vector only), V+1 / 2V+1 (vector + tail), V-1 (tail only).
#include <Fastor/Fastor.h>
#include <cstdio>
#include <cstdint>
#include <cmath>
#include <string>
#include <type_traits>
using namespace Fastor;
#ifndef CFGNAME
#define CFGNAME "sse2"
#endif
static bool g_verbose = false;
template<typename T> struct tnu;
template<> struct tnu<float> { static const char* n() { return "float"; } };
template<> struct tnu<double> { static const char* n() { return "double"; } };
template<> struct tnu<int32_t> { static const char* n() { return "int32"; } };
template<> struct tnu<int64_t> { static const char* n() { return "int64"; } };

namespace vu {
struct Fail { std::string what; int n = 0; };
#define VU_CHECK(cond, ...) do { if (!(cond)) { ++fail.n; if (fail.what.empty()) { char b_[200]; std::snprintf(b_, sizeof b_, __VA_ARGS__); fail.what = b_; } } } while (0)

// small integer data, distinct enough that a wrong element is seen, small enough that every sum / product below is exact
template<typename T> static inline T valA(size_t i, size_t j) { return (T)(1 + (int)((i * 7 + j * 3) % 11)); }
template<typename T> static inline T valB(size_t i, size_t j) { return (T)(2 + (int)((i * 5 + j * 4) % 9)); }

// floating point only parts
template<typename T, size_t M, size_t NL, size_t PM, size_t PN, bool FP = std::is_floating_point<T>::value> struct FpPart {
    static void run(const Tensor<T,PM,PN>&, const Tensor<T,PM,PN>&, Fail&) {}
};
template<typename T, size_t M, size_t NL, size_t PM, size_t PN> struct FpPart<T, M, NL, PM, PN, true> {
    static void run(const Tensor<T,PM,PN>& cA, const Tensor<T,PM,PN>& cB, Fail& fail) {
        Tensor<T,PM,PN> A = cA, B = cB;
        // norm of a slice
        { T s = 0; for (size_t i = 0; i < M; ++i) for (size_t j = 0; j < NL; ++j) s += A(1 + i, 1 + j) * A(1 + i, 1 + j);
          T got = norm(A(seq(1, 1 + M), seq(1, 1 + NL))); VU_CHECK(got == std::sqrt(s), "norm(A(seq,seq))=%g want %g", (double)got, (double)std::sqrt(s)); }
        // square root element-wise of a slice of squares
        { Tensor<T,PM,PN> Q; for (size_t i = 0; i < PM; ++i) for (size_t j = 0; j < PN; ++j) Q(i, j) = A(i, j) * A(i, j);
          Tensor<T,M,NL> r = sqrt(Q(seq(1, 1 + M), seq(2, 2 + 2 * NL, 2)));
          for (size_t i = 0; i < M; ++i) for (size_t j = 0; j < NL; ++j) VU_CHECK(r(i, j) == A(1 + i, 2 + 2 * j), "sqrt(Q(seq,seq:2))(%zu,%zu)", i, j); }
        // inverse / determinant of a fixed 3x3 block (unit upper triangular: exact), against the same on a copied block
        { Tensor<T,PM,PN> U = A; const size_t r0 = PM - 3, c0 = PN - 3;
          for (size_t i = 0; i < 3; ++i) for (size_t j = 0; j < 3; ++j) U(r0 + i, c0 + j) = i == j ? (T)1 : (i < j ? (T)(1 + i + 2 * j) : (T)0);
          Tensor<T,3,3> blk; for (size_t i = 0; i < 3; ++i) for (size_t j = 0; j < 3; ++j) blk(i, j) = U(r0 + i, c0 + j);
          Tensor<T,3,3> want = inv(blk);
          Tensor<T,3,3> got = inv(U(fseq<(int)PM - 3, (int)PM>(), fseq<(int)PN - 3, (int)PN>()));
          for (size_t i = 0; i < 3; ++i) for (size_t j = 0; j < 3; ++j) VU_CHECK(got(i, j) == want(i, j), "inv(A(fseq,fseq))(%zu,%zu)=%g want %g", i, j, (double)got(i, j), (double)want(i, j));
          T d = determinant(U(fseq<(int)PM - 3, (int)PM>(), fseq<(int)PN - 3, (int)PN>())); VU_CHECK(d == (T)1, "determinant(A(fseq,fseq))=%g", (double)d); }
    }
};

template<typename T, size_t NL, size_t PN, bool One = (NL == 1)> struct OuterPart {
    static void run(const Tensor<T,PN>& cv, Fail& fail) {
        Tensor<T,PN> v = cv;
        Tensor<T,NL,NL> o = outer(v(fseq<1, 1 + (int)NL>()), v(fseq<2, 2 + 2 * (int)NL, 2>()));
        for (size_t i = 0; i < NL; ++i) for (size_t j = 0; j < NL; ++j) VU_CHECK(o(i, j) == v(1 + i) * v(2 + 2 * j), "outer(v(f),v(f:2)) (%zu,%zu)", i, j);
    }
};
// outer() of two one-element vectors is ambiguous in the library (nothing to do with slices): skipped
template<typename T, size_t NL, size_t PN> struct OuterPart<T, NL, PN, true> { static void run(const Tensor<T,PN>&, Fail&) {} };

template<typename T, size_t M, size_t NL>
static void run() {
    constexpr size_t PM = M + 3, PN = 2 * NL + 3;
    Fail fail; int step = 0;
    Tensor<T,PM,PN> A, B;
    for (size_t i = 0; i < PM; ++i) for (size_t j = 0; j < PN; ++j) { A(i, j) = valA<T>(i, j); B(i, j) = valB<T>(i, j); }
    const Tensor<T,PM,PN>& cA = A;
    Tensor<T,PN> v; for (size_t j = 0; j < PN; ++j) v(j) = valA<T>(3, j);
    const seq r0(1, 1 + M), c1(1, 1 + NL), c2(2, 2 + 2 * NL, 2);
#define AT1(i, j) A(1 + (i), 1 + (j))
#define AT2(i, j) A(1 + (i), 2 + 2 * (j))
#define BT1(i, j) B(1 + (i), 1 + (j))
#define BT2(i, j) B(1 + (i), 2 + 2 * (j))
#define FORIJ for (size_t i = 0; i < M; ++i) for (size_t j = 0; j < NL; ++j)
    try {
        // --- compound assignment with products / sums of slices (contiguous and strided last axis, const and non-const)
        { step = 1; Tensor<T,M,NL> C; C.fill((T)3); C += A(r0, c1) * B(r0, c2); FORIJ VU_CHECK(C(i, j) == (T)3 + AT1(i, j) * BT2(i, j), "C += A(v)*B(v) (%zu,%zu)", i, j); }
        { step = 2; Tensor<T,M,NL> C; C.fill((T)500); C -= cA(r0, c2) + B(r0, c1); FORIJ VU_CHECK(C(i, j) == (T)500 - (AT2(i, j) + BT1(i, j)), "C -= cA(v)+B(v) (%zu,%zu)", i, j); }
        { step = 3; Tensor<T,M,NL> C; C.fill((T)2); C *= A(r0, c2); FORIJ VU_CHECK(C(i, j) == (T)2 * AT2(i, j), "C *= A(v) (%zu,%zu)", i, j); }
        { step = 4; Tensor<T,M,NL> C = A(r0, c1) * B(r0, c1) - (T)2 * cA(r0, c2); FORIJ VU_CHECK(C(i, j) == AT1(i, j) * BT1(i, j) - (T)2 * AT2(i, j), "A(v)*B(v)-2*cA(v) (%zu,%zu)", i, j); }
        { step = 5; Tensor<T,NL> c; c.fill((T)1); c += v(c2) * v(c1); for (size_t j = 0; j < NL; ++j) VU_CHECK(c(j) == (T)1 + v(2 + 2 * j) * v(1 + j), "c += v(s)*v(s) (%zu)", j); }
        // --- mixed fixed / dynamic / integer / all forms
        { step = 6; Tensor<T,M,NL> C = A(fseq<1, 1 + (int)M>(), c2); FORIJ VU_CHECK(C(i, j) == AT2(i, j), "A(fseq,seq) (%zu,%zu)", i, j); }
        { step = 7; Tensor<T,M,NL> C = A(r0, fseq<2, 2 + 2 * (int)NL, 2>()); FORIJ VU_CHECK(C(i, j) == AT2(i, j), "A(seq,fseq) (%zu,%zu)", i, j); }
        { step = 8; Tensor<T,M,NL> C = A(fseq<1, 1 + (int)M>(), fseq<1, 1 + (int)NL>()); FORIJ VU_CHECK(C(i, j) == AT1(i, j), "A(fseq,fseq) (%zu,%zu)", i, j); }
        { step = 9; Tensor<T,1,PN> C = A(2, all); for (size_t j = 0; j < PN; ++j) VU_CHECK(C(0, j) == A(2, j), "A(i,all) (%zu)", j); }
        { step = 10; Tensor<T,1,PN> C = A(last, all); for (size_t j = 0; j < PN; ++j) VU_CHECK(C(0, j) == A(PM - 1, j), "A(last,all) (%zu)", j); }
        { step = 11; Tensor<T,PM,1> C = A(all, 3); for (size_t i = 0; i < PM; ++i) VU_CHECK(C(i, 0) == A(i, 3), "A(all,j) (%zu)", i); }
        { step = 12; Tensor<T,PM,1> C = cA(all, -2); for (size_t i = 0; i < PM; ++i) VU_CHECK(C(i, 0) == A(i, PN - 2), "cA(all,-2) (%zu)", i); }
        { step = 13; Tensor<T,M,1> C = A(r0, first); for (size_t i = 0; i < M; ++i) VU_CHECK(C(i, 0) == A(1 + i, 0), "A(seq,first) (%zu)", i); }
        { step = 14; Tensor<T,1,NL> C = A(fix<2>, c2); for (size_t j = 0; j < NL; ++j) VU_CHECK(C(0, j) == A(2, 2 + 2 * j), "A(fix,seq) (%zu)", j); }
        { step = 15; Tensor<T,M,1> C = A(fseq<1, 1 + (int)M>(), last); for (size_t i = 0; i < M; ++i) VU_CHECK(C(i, 0) == A(1 + i, PN - 1), "A(fseq,last) (%zu)", i); }
        { step = 16; VU_CHECK(v(first) == v(0) && v(last) == v(PN - 1) && A(last, first) == A(PM - 1, 0) && cA(first, last) == A(0, PN - 1), "A(first) / A(last)"); }
        { step = 17; Tensor<T,NL> c = v(seq(first, (int)NL)); for (size_t j = 0; j < NL; ++j) VU_CHECK(c(j) == v(j), "v(seq(first,n)) (%zu)", j); }
        { step = 18; Tensor<T,NL> c = v(seq(PN - NL, last)); for (size_t j = 0; j < NL; ++j) VU_CHECK(c(j) == v(PN - NL + j), "v(seq(k,last)) (%zu)", j); }
        // --- TensorMap parents
        { step = 19; TensorMap<T,PM,PN> Mp(A.data()); Tensor<T,M,NL> C = Mp(r0, c2); FORIJ VU_CHECK(C(i, j) == AT2(i, j), "map(seq,seq:2) (%zu,%zu)", i, j);
          Tensor<T,M,NL> D; D.fill((T)1); D += Mp(r0, c1) * B(r0, c1); FORIJ VU_CHECK(D(i, j) == (T)1 + AT1(i, j) * BT1(i, j), "D += map(v)*B(v) (%zu,%zu)", i, j);
          Tensor<T,M,NL> E = Mp(fseq<1, 1 + (int)M>(), fseq<2, 2 + 2 * (int)NL, 2>()); FORIJ VU_CHECK(E(i, j) == AT2(i, j), "map(fseq,fseq:2) (%zu,%zu)", i, j); }
        // --- comparisons / boolean
        { step = 20; Tensor<bool,M,NL> L = A(r0, c1) < B(r0, c2); FORIJ VU_CHECK(L(i, j) == (AT1(i, j) < BT2(i, j)), "A(v)<B(v) (%zu,%zu)", i, j); }
        { step = 21; Tensor<bool,M,NL> L = cA(r0, c2) >= B(r0, c1); FORIJ VU_CHECK(L(i, j) == (AT2(i, j) >= BT1(i, j)), "cA(v)>=B(v) (%zu,%zu)", i, j); }
        { step = 22; bool any = false, allb = true; FORIJ { bool e = AT2(i, j) == BT1(i, j); any = any || e; allb = allb && e; }
          VU_CHECK(any_of(A(r0, c2) == B(r0, c1)) == any, "any_of(A(v)==B(v))"); VU_CHECK(all_of(A(r0, c2) == B(r0, c1)) == allb, "all_of(A(v)==B(v))");
          VU_CHECK(all_of(A(r0, c2) == cA(r0, c2)), "all_of(A(v)==cA(v))"); }
        // --- reductions
        { step = 23; T s1 = 0, s2 = 0, mn = AT2(0, 0), mx = AT2(0, 0), ip = 0; FORIJ { s1 += AT1(i, j); s2 += AT2(i, j); mn = AT2(i, j) < mn ? AT2(i, j) : mn; mx = AT2(i, j) > mx ? AT2(i, j) : mx; ip += AT1(i, j) * BT2(i, j); }
          VU_CHECK(sum(A(r0, c1)) == s1, "sum(A(seq,seq))=%g want %g", (double)sum(A(r0, c1)), (double)s1);
          VU_CHECK(sum(cA(r0, c2)) == s2, "sum(cA(seq,seq:2))=%g want %g", (double)sum(cA(r0, c2)), (double)s2);
          VU_CHECK(sum(A(fseq<1, 1 + (int)M>(), fseq<2, 2 + 2 * (int)NL, 2>())) == s2, "sum(A(fseq,fseq:2))");
          VU_CHECK(min(A(r0, c2)) == mn, "min(A(v))=%g want %g", (double)min(A(r0, c2)), (double)mn);
          VU_CHECK(max(A(r0, c2)) == mx, "max(A(v))=%g want %g", (double)max(A(r0, c2)), (double)mx);
          { constexpr size_t n = M * NL, VS = Tensor<T,4>::simd_vector_type::Size; const size_t tail0 = n / VS * VS;
            const size_t poss[3] = {0, tail0 < n ? tail0 : n - 1, n - 1};
            for (size_t q = 0; q < 3; ++q) { const size_t pi = poss[q] / NL, pj = poss[q] % NL;
              Tensor<T,PM,PN> A2 = A; A2(1 + pi, 2 + 2 * pj) = (T)-5; VU_CHECK(min(A2(r0, c2)) == (T)-5, "min(A(v)) with the minimum at flat position %zu = %g", poss[q], (double)min(A2(r0, c2)));
              Tensor<T,PM,PN> A3 = A; A3(1 + pi, 1 + pj) = (T)99; VU_CHECK(max(A3(r0, c1)) == (T)99, "max(A(v)) with the maximum at flat position %zu = %g", poss[q], (double)max(A3(r0, c1)));
              const Tensor<T,PM,PN>& cA3 = A3; VU_CHECK(max(cA3(fseq<1, 1 + (int)M>(), fseq<1, 1 + (int)NL>())) == (T)99, "max(cA(f,f)) with the maximum at flat position %zu", poss[q]); } }
          { T got = inner(A(fseq<1, 1 + (int)M>(), fseq<1, 1 + (int)NL>()), B(fseq<1, 1 + (int)M>(), fseq<2, 2 + 2 * (int)NL, 2>())); VU_CHECK(got == ip, "inner(A(f,f),B(f,f:2))=%g want %g", (double)got, (double)ip); }
          T sv = 0; for (size_t j = 0; j < NL; ++j) sv += v(2 + 2 * j); VU_CHECK(sum(v(c2)) == sv, "sum(v(seq:2))=%g want %g", (double)sum(v(c2)), (double)sv);
          T s3 = 0; FORIJ s3 += AT1(i, j) * BT1(i, j); VU_CHECK(sum(A(r0, c1) * B(r0, c1)) == s3, "sum(A(v)*B(v))=%g want %g", (double)sum(A(r0, c1) * B(r0, c1)), (double)s3); }
        // --- linear algebra on slices
        { step = 24; Tensor<T,NL,M> F = trans(A(fseq<1, 1 + (int)M>(), fseq<2, 2 + 2 * (int)NL, 2>())); FORIJ VU_CHECK(F(j, i) == AT2(i, j), "trans(A(fseq,fseq:2)) (%zu,%zu)", j, i); }
        { step = 25; Tensor<T,M,M> P = matmul(A(fseq<1, 1 + (int)M>(), fseq<2, 2 + 2 * (int)NL, 2>()), trans(B(fseq<1, 1 + (int)M>(), fseq<1, 1 + (int)NL>())));
          for (size_t i = 0; i < M; ++i) for (size_t k = 0; k < M; ++k) { T s = 0; for (size_t j = 0; j < NL; ++j) s += AT2(i, j) * BT1(k, j); VU_CHECK(P(i, k) == s, "matmul(A(f,f),trans(B(f,f))) (%zu,%zu)=%g want %g", i, k, (double)P(i, k), (double)s); } }
        { step = 26; Tensor<T,M,M> P = A(fseq<1, 1 + (int)M>(), fseq<1, 1 + (int)NL>()) % trans(B(fseq<1, 1 + (int)M>(), fseq<2, 2 + 2 * (int)NL, 2>()));
          for (size_t i = 0; i < M; ++i) for (size_t k = 0; k < M; ++k) { T s = 0; for (size_t j = 0; j < NL; ++j) s += AT1(i, j) * BT2(k, j); VU_CHECK(P(i, k) == s, "A(f,f)%%trans(B(f,f)) (%zu,%zu)", i, k); } }
        { step = 27; Tensor<T,M> w = matmul(A(fseq<1, 1 + (int)M>(), fseq<1, 1 + (int)NL>()), v(fseq<2, 2 + 2 * (int)NL, 2>()));
          for (size_t i = 0; i < M; ++i) { T s = 0; for (size_t j = 0; j < NL; ++j) s += AT1(i, j) * v(2 + 2 * j); VU_CHECK(w(i) == s, "matmul(A(f,f),v(f:2)) (%zu)", i); } }
        { step = 77; OuterPart<T, NL, PN>::run(v, fail); }
        // --- slice to slice
        { step = 29; Tensor<T,PM,PN> Z; Z.fill((T)0); Z(r0, c1) = A(r0, c2); FORIJ VU_CHECK(Z(1 + i, 1 + j) == AT2(i, j), "Z(v)=A(v) (%zu,%zu)", i, j); }
        step = 99; FpPart<T, M, NL, PM, PN>::run(A, B, fail);
    } catch (const std::exception& ex) { VU_CHECK(false, "exception %s at step %d", ex.what(), step); }
    std::printf("ruse cfg=%s T=%s M=%zu NL=%zu V=%d | %s", CFGNAME, tnu<T>::n(), M, NL, (int)Tensor<T,4>::simd_vector_type::Size, fail.n == 0 ? "ok" : "FAIL");
    if (fail.n) std::printf(" n=%d first: %s", fail.n, fail.what.c_str());
    std::printf("\n");
}

// functions that materialise `Derived::result_type` of their operand, applied to dynamic views (whose result_type
// is the parent tensor type): one line per form
template<typename T>
static void run_dynres() {
    Tensor<T,6,11> A, B; Tensor<T,11> v;
    for (size_t i = 0; i < 6; ++i) for (size_t j = 0; j < 11; ++j) { A(i, j) = valA<T>(i, j); B(i, j) = valB<T>(i, j); }
    for (size_t j = 0; j < 11; ++j) v(j) = valA<T>(3, j);
    const seq r0(1, 4), c1(1, 5), c2(2, 10, 2);
    auto line = [](const char* form, bool ok, const char* why) {
        std::printf("rdynres cfg=%s T=%s form=%s | %s%s%s\n", CFGNAME, tnu<T>::n(), form, ok ? "ok" : "FAIL", ok ? "" : " ", ok ? "" : why); };
    { bool ok = true; const char* why = "value"; try { T w = 0; for (int j = 0; j < 4; ++j) w += v(2 + 2 * j) * v(2 + 2 * j); ok = inner(v(c2)) == w; } catch (const std::exception& e) { ok = false; why = "exception"; } line("inner1", ok, why); }
    { bool ok = true; const char* why = "value"; try { T w = 0; for (int i = 0; i < 3; ++i) for (int j = 0; j < 4; ++j) w += A(1 + i, 1 + j) * B(1 + i, 2 + 2 * j); ok = inner(A(r0, c1), B(r0, c2)) == w; } catch (const std::exception& e) { ok = false; why = "exception"; } line("inner2", ok, why); }
    { bool ok = true; const char* why = "value"; try { Tensor<T,4,3> F = trans(A(r0, c2)); for (int i = 0; i < 3; ++i) for (int j = 0; j < 4; ++j) ok = ok && F(j, i) == A(1 + i, 2 + 2 * j); } catch (const std::exception& e) { ok = false; why = "exception"; } line("trans", ok, why); }
}
} // namespace vu
template<typename T, size_t M, size_t NL> static void run_use() { vu::run<T, M, NL>(); }
template<typename T> static void run_dynres() { vu::run_dynres<T>(); }
