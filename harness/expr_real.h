// K4 value runs for element-wise expressions on the real element types (C02): the same generic
// lambda is evaluated by the library on tensors and by plain scalar C++ per element; results are
// compared bit for bit (memcmp), "both NaN" counting as equal.
#include <Fastor/Fastor.h>
#include <cstdio>
#include <cstdint>
#include <cstring>
#include <cmath>
#include <limits>
using namespace Fastor;
#ifndef CFGNAME
#define CFGNAME "sse2"
#endif
template<typename T> struct tn;
template<> struct tn<float> { static const char* n() { return "float"; } };
template<> struct tn<double> { static const char* n() { return "double"; } };
template<> struct tn<int32_t> { static const char* n() { return "int32"; } };
template<> struct tn<int64_t> { static const char* n() { return "int64"; } };
static inline uint32_t rnd(uint32_t& s) { s = s * 1664525u + 1013904223u; return s >> 8; }
template<typename T> struct gen;
template<> struct gen<float> { static float v(uint32_t& s, int mode) {
    static const float sp[] = {0.f, -0.f, 1.f, -1.f, 3.5f, -2.25f, 0.5f, -0.5f, 2.5f, -2.5f, 0.49999997f, 8388608.5f, 4194304.5f, 1e-30f, -1e30f, std::numeric_limits<float>::infinity(), -std::numeric_limits<float>::infinity(),
                               std::numeric_limits<float>::quiet_NaN(), std::numeric_limits<float>::min(), std::numeric_limits<float>::denorm_min(), 16777216.f};
    if (mode == 0) return (float)((int)(rnd(s) % 17) - 8);
    if (mode == 1) return sp[rnd(s) % (sizeof sp / sizeof sp[0])];
    return ((float)(rnd(s) % 200001) - 100000.f) / 317.f; } };
template<> struct gen<double> { static double v(uint32_t& s, int mode) {
    static const double sp[] = {0., -0., 1., -1., 3.5, -2.25, 0.5, -0.5, 2.5, -2.5, 0.49999999999999994, 4503599627370496.5, 2251799813685248.5, 1e-300, -1e300, std::numeric_limits<double>::infinity(), -std::numeric_limits<double>::infinity(),
                                std::numeric_limits<double>::quiet_NaN(), std::numeric_limits<double>::min(), std::numeric_limits<double>::denorm_min(), 9007199254740992.};
    if (mode == 0) return (double)((int)(rnd(s) % 17) - 8);
    if (mode == 1) return sp[rnd(s) % (sizeof sp / sizeof sp[0])];
    return ((double)(rnd(s) % 200001) - 100000.) / 317.; } };
template<> struct gen<int32_t> { static int32_t v(uint32_t& s, int mode) {
    static const int32_t sp[] = {0, 1, -1, 2, -2, INT32_MAX, INT32_MIN, INT32_MAX - 1, INT32_MIN + 1, 65536, -65536, 46341};
    if (mode == 1) return sp[rnd(s) % (sizeof sp / sizeof sp[0])];
    return (int32_t)(rnd(s) % 2001) - 1000; } };
template<> struct gen<int64_t> { static int64_t v(uint32_t& s, int mode) {
    static const int64_t sp[] = {0, 1, -1, 2, -2, INT64_MAX, INT64_MIN, INT64_MAX - 1, INT64_MIN + 1, 4294967296LL, -4294967296LL, 3037000500LL};
    if (mode == 1) return sp[rnd(s) % (sizeof sp / sizeof sp[0])];
    return (int64_t)(rnd(s) % 2001) - 1000; } };
template<typename T> static inline bool same(const T& a, const T& b) { if (a != a && b != b) return true; return std::memcmp(&a, &b, sizeof(T)) == 0; }
// wrap-around integer arithmetic is what the vector units do; signed overflow in the scalar
// reference would be undefined, so integer references are computed in the unsigned type
template<typename T> struct W { T v; W() : v() {} W(T x) : v(x) {} };
template<typename T> using U = typename std::make_unsigned<T>::type;
template<typename T> static inline W<T> operator+(W<T> a, W<T> b) { return W<T>((T)((U<T>)a.v + (U<T>)b.v)); }
template<typename T> static inline W<T> operator-(W<T> a, W<T> b) { return W<T>((T)((U<T>)a.v - (U<T>)b.v)); }
template<typename T> static inline W<T> operator*(W<T> a, W<T> b) { return W<T>((T)((U<T>)a.v * (U<T>)b.v)); }
template<typename T> static inline W<T> operator-(W<T> a) { return W<T>((T)((U<T>)0 - (U<T>)a.v)); }
template<typename T> struct sref { using type = T; static T get(T x) { return x; } static T out(T x) { return x; } };
template<> struct sref<int32_t> { using type = W<int32_t>; static W<int32_t> get(int32_t x) { return W<int32_t>(x); } static int32_t out(W<int32_t> x) { return x.v; } };
template<> struct sref<int64_t> { using type = W<int64_t>; static W<int64_t> get(int64_t x) { return W<int64_t>(x); } static int64_t out(W<int64_t> x) { return x.v; } };
template<typename T, size_t N> static inline T kk(const Tensor<T,N>&, int c) { return T(c); }
static inline float kk(float, int c) { return (float)c; }
static inline double kk(double, int c) { return (double)c; }
template<typename T> static inline W<T> kk(W<T>, int c) { return W<T>((T)c); }

template<typename T, size_t N, int OP, typename F>
void run_rexpr(const char* name, unsigned seed, F f) {
    static const char* opn[] = {"set", "add", "sub", "mul", "div"};
    long bad = -1; int badmode = -1;
    for (int mode = 0; mode < 3 && bad < 0; ++mode) for (int rep = 0; rep < 4 && bad < 0; ++rep) {
        uint32_t s = seed * 7919u + mode * 131u + rep;
        Tensor<T,N> A, B, C, D, D0;
        for (size_t i = 0; i < N; ++i) { A(i) = gen<T>::v(s, mode); B(i) = gen<T>::v(s, mode); C(i) = gen<T>::v(s, mode); D(i) = gen<T>::v(s, mode); }
        D0 = D;
        if (OP == 0) D = f(A, B, C); else if (OP == 1) D += f(A, B, C); else if (OP == 2) D -= f(A, B, C); else if (OP == 3) D *= f(A, B, C);
        for (size_t i = 0; i < N; ++i) {
            using S = typename sref<T>::type;
            S r = f(sref<T>::get(A(i)), sref<T>::get(B(i)), sref<T>::get(C(i)));
            S d = sref<T>::get(D0(i));
            T want = sref<T>::out(OP == 0 ? r : OP == 1 ? d + r : OP == 2 ? d - r : d * r);
            if (!same(want, (T)D(i))) { bad = i; badmode = mode; break; }
        }
    }
    std::printf("rexpr cfg=%s T=%s n=%zu op=%s E=%s | %s", CFGNAME, tn<T>::n(), N, opn[OP], name, bad < 0 ? "ok" : "FAIL");
    if (bad >= 0) std::printf(" pos=%ld mode=%d", bad, badmode);
    std::printf("\n");
}
#define REXPR_CASE(T, N, OP, NAME, SEED, ...) run_rexpr<T, N, OP>(NAME, SEED, [](const auto& A, const auto& B, const auto& C) { (void)A; (void)B; (void)C; return __VA_ARGS__; })
