// K4 value runs, second family (C02): the operators of the property that the symbolic carrier cannot
// express — division in every form (tensor/tensor, scalar/tensor, tensor/scalar, operator /=), the
// element-wise math functions (bit for bit against the same std:: function on scalars), comparisons and
// logical operators into boolean tensors, and the documented reciprocal-multiply form `D /= scalar`
// (within two units in the last place of the true quotient — a test, labelled as such).
#include "expr_real.h"
#include <algorithm>

// binary min / max: `using std::min` would hijack the call on tensors, so the generic lambdas use mn / mx
static inline float  mn(float a, float b)   { return std::min(a, b); }
static inline double mn(double a, double b) { return std::min(a, b); }
static inline float  mx(float a, float b)   { return std::max(a, b); }
static inline double mx(double a, double b) { return std::max(a, b); }
template<typename X, typename Y, size_t D> static inline auto mn(const AbstractTensor<X,D>& a, const AbstractTensor<Y,D>& b) -> decltype(Fastor::min(a, b)) { return Fastor::min(a, b); }
template<typename X, typename Y, size_t D> static inline auto mx(const AbstractTensor<X,D>& a, const AbstractTensor<Y,D>& b) -> decltype(Fastor::max(a, b)) { return Fastor::max(a, b); }

// run_rexpr with OP = 4 (operator /=) and a mask of data modes (bit m set = mode m is used);
// mode 0 small integers, mode 1 boundary / IEEE special values, mode 2 seeded reals
template<typename T> static inline W<T> operator/(W<T> a, W<T> b) { return W<T>((T)(a.v / b.v)); }
template<typename T, size_t N, int OP, int MODES, typename F>
void run_rexpr2(const char* name, unsigned seed, F f) {
    static const char* opn[] = {"set", "add", "sub", "mul", "div"};
    long bad = -1; int badmode = -1;
    for (int mode = 0; mode < 3 && bad < 0; ++mode) {
        if (!((MODES >> mode) & 1)) continue;
        for (int rep = 0; rep < 4 && bad < 0; ++rep) {
            uint32_t s = seed * 7919u + mode * 131u + rep;
            Tensor<T,N> A, B, C, D, D0;
            for (size_t i = 0; i < N; ++i) { A(i) = gen<T>::v(s, mode); B(i) = gen<T>::v(s, mode); C(i) = gen<T>::v(s, mode); D(i) = gen<T>::v(s, mode); }
            D0 = D;
            if (OP == 0) D = f(A, B, C); else if (OP == 1) D += f(A, B, C); else if (OP == 2) D -= f(A, B, C); else if (OP == 3) D *= f(A, B, C);
            else D /= f(A, B, C);
            for (size_t i = 0; i < N; ++i) {
                using S = typename sref<T>::type;
                S r = f(sref<T>::get(A(i)), sref<T>::get(B(i)), sref<T>::get(C(i)));
                S d = sref<T>::get(D0(i));
                T want = sref<T>::out(OP == 0 ? r : OP == 1 ? d + r : OP == 2 ? d - r : OP == 3 ? d * r : d / r);
                if (!same(want, (T)D(i))) { bad = i; badmode = mode; break; }
            }
        }
    }
    std::printf("rexpr2 cfg=%s T=%s n=%zu op=%s E=%s | %s", CFGNAME, tn<T>::n(), N, opn[OP], name, bad < 0 ? "ok" : "FAIL");
    if (bad >= 0) std::printf(" pos=%ld mode=%d", bad, badmode);
    std::printf("\n");
}
#define REXPR2_CASE(T, N, OP, MODES, NAME, SEED, ...) run_rexpr2<T, N, OP, MODES>(NAME, SEED, [](const auto& A, const auto& B, const auto& C) { (void)A; (void)B; (void)C; return __VA_ARGS__; })

// comparisons / logical operators / classification into a boolean tensor
template<typename T, size_t N, int MODES, typename F>
void run_rbool(const char* name, unsigned seed, F f) {
    long bad = -1; int badmode = -1;
    for (int mode = 0; mode < 3 && bad < 0; ++mode) {
        if (!((MODES >> mode) & 1)) continue;
        for (int rep = 0; rep < 4 && bad < 0; ++rep) {
            uint32_t s = seed * 7919u + mode * 131u + rep;
            Tensor<T,N> A, B, C;
            for (size_t i = 0; i < N; ++i) { A(i) = gen<T>::v(s, mode); B(i) = gen<T>::v(s, mode); C(i) = gen<T>::v(s, mode); }
            // make equal pairs likely so that ==, <=, >= see both outcomes
            for (size_t i = 0; i < N; i += 3) B(i) = A(i);
            Tensor<bool,N> R = f(A, B, C);
            for (size_t i = 0; i < N; ++i) {
                bool want = f((T)A(i), (T)B(i), (T)C(i));
                if (want != (bool)R(i)) { bad = i; badmode = mode; break; }
            }
        }
    }
    std::printf("rbool cfg=%s T=%s n=%zu E=%s | %s", CFGNAME, tn<T>::n(), N, name, bad < 0 ? "ok" : "FAIL");
    if (bad >= 0) std::printf(" pos=%ld mode=%d", bad, badmode);
    std::printf("\n");
}
#define RBOOL_CASE(T, N, MODES, NAME, SEED, ...) run_rbool<T, N, MODES>(NAME, SEED, [](const auto& A, const auto& B, const auto& C) { (void)A; (void)B; (void)C; return __VA_ARGS__; })

// D /= scalar : the library documents multiplication by the reciprocal for non-integral scalars; the
// result must be within 2 ulp of the correctly rounded quotient (a test of the rounding clause);
// for integral element types the quotient is exact (truncating) and compared bit for bit
template<typename T> static inline long ulpdiff(T a, T b) {
    if (a != a || b != b) return (a != a && b != b) ? 0 : 1000;
    if (a == b) return 0;
    if (std::isinf(a) || std::isinf(b)) return 1000;
    long n = 0; T x = a < b ? a : b, y = a < b ? b : a;
    while (x < y && n < 8) { x = std::nextafter(x, y); ++n; }
    return n;
}
template<typename T, size_t N, bool INTEGRAL = std::is_integral<T>::value> struct divs;
template<typename T, size_t N> struct divs<T,N,false> { static void run(unsigned seed, int k) {
    long bad = -1; long worst = 0;
    for (int mode = 0; mode < 3 && bad < 0; mode += 2) for (int rep = 0; rep < 4 && bad < 0; ++rep) {
        uint32_t s = seed * 7919u + mode * 131u + rep;
        Tensor<T,N> D, D0; for (size_t i = 0; i < N; ++i) D(i) = gen<T>::v(s, mode);
        D0 = D; T sc = (T)k + (T)0.5 * (T)(rep & 1);
        D /= sc;
        for (size_t i = 0; i < N; ++i) { long u = ulpdiff<T>((T)D(i), (T)(D0(i) / sc)); if (u > worst) worst = u; if (u > 2) { bad = i; break; } }
    }
    std::printf("rdivs cfg=%s T=%s n=%zu k=%d | %s worst_ulp=%ld", CFGNAME, tn<T>::n(), N, k, bad < 0 ? "ok" : "FAIL", worst);
    if (bad >= 0) std::printf(" pos=%ld", bad);
    std::printf("\n"); } };
template<typename T, size_t N> struct divs<T,N,true> { static void run(unsigned seed, int k) {
    long bad = -1;
    for (int mode = 0; mode < 3 && bad < 0; ++mode) for (int rep = 0; rep < 4 && bad < 0; ++rep) {
        uint32_t s = seed * 7919u + mode * 131u + rep;
        Tensor<T,N> D, D0; for (size_t i = 0; i < N; ++i) D(i) = gen<T>::v(s, mode);
        D0 = D; T sc = (T)(k + rep);        // k >= 2: never 0 or -1
        D /= sc;
        for (size_t i = 0; i < N; ++i) if ((T)D(i) != (T)(D0(i) / sc)) { bad = i; break; }
    }
    std::printf("rdivs cfg=%s T=%s n=%zu k=%d | %s", CFGNAME, tn<T>::n(), N, k, bad < 0 ? "ok" : "FAIL");
    if (bad >= 0) std::printf(" pos=%ld", bad);
    std::printf("\n"); } };
template<typename T, size_t N> void run_rdivs(unsigned seed, int k) { divs<T,N>::run(seed, k); }

// D op= scalar with a scalar of a DIFFERENT arithmetic type S (double tensor with a float or int scalar, float tensor
// with an int or double scalar whose value is exactly representable in T, integer tensors with a narrower integer):
// + - * bit for bit against (T)d op (T)s, / within 2 ulp for floating T (documented reciprocal-multiply), exact for integral T
template<typename T, typename S, size_t N, int OP>
void run_rscal(unsigned seed, int k) {
    static const char* opn[] = {"set", "add", "sub", "mul", "div"};
    long bad = -1; long worst = 0;
    for (int mode = 0; mode < 3 && bad < 0; mode += 2) for (int rep = 0; rep < 4 && bad < 0; ++rep) {
        uint32_t s = seed * 7919u + mode * 131u + rep;
        Tensor<T,N> D, D0; for (size_t i = 0; i < N; ++i) D(i) = gen<T>::v(s, mode);
        D0 = D;
        S sc = std::is_integral<S>::value ? (S)(k + rep) : (S)((double)k + 0.5 * (double)(rep & 1));   // exactly representable in float
        if (OP == 1) D += sc; else if (OP == 2) D -= sc; else if (OP == 3) D *= sc; else D /= sc;
        for (size_t i = 0; i < N; ++i) {
            T d = D0(i), t = (T)sc;
            if (OP == 4 && !std::is_integral<T>::value) { long u = ulpdiff<double>((double)(T)D(i), (double)(T)(d / t)); if (sizeof(T) == 4) u = ulpdiff<float>((float)D(i), (float)(d / t));
                if (u > worst) worst = u; if (u > 2) { bad = i; break; } }
            else { T want = OP == 1 ? sref<T>::out(sref<T>::get(d) + sref<T>::get(t)) : OP == 2 ? sref<T>::out(sref<T>::get(d) - sref<T>::get(t))
                          : OP == 3 ? sref<T>::out(sref<T>::get(d) * sref<T>::get(t)) : (T)(d / t);
                   if (!same(want, (T)D(i))) { bad = i; break; } }
        }
    }
    std::printf("rscal cfg=%s T=%s S=%s n=%zu op=%s k=%d | %s", CFGNAME, tn<T>::n(), sizeof(S) == 8 ? (std::is_integral<S>::value ? "i64" : "f64") : (std::is_integral<S>::value ? "i32" : "f32"),
                N, opn[OP], k, bad < 0 ? "ok" : "FAIL");
    if (bad >= 0) std::printf(" pos=%ld", bad);
    if (OP == 4) std::printf(" worst_ulp=%ld", worst);
    std::printf("\n");
}
