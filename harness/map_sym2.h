// C20, enlarged alphabet over the symbolic carrier: THREE names of one storage (0 = the owning tensor, 1 = a TensorMap of
// shape M..., 2 = a TensorMap of another shape G...), operations issued through any of them in any order:
//   <k>:ss:0            X = token(9,step)                         <k>:wi:<i.j..>   X(i,j,..) = token (negative: n<abs>)
//   <k>:vw<op><s|t>:<f-s-e.f-s-e..>   X(seq(f,f+(e-1)*s+1,s),..) op= token | B(seq..)      op in set add sub mul
//   <k>:red:0           acc = X.sum()                             <k>:fill:0 / <k>:eadd:0 (X += B)
//   <k>:tr:0            X = trans(X) (square rank 2)              <k>:mm<op>:0  X op= A % B      <k>:mx:0  X = A % X
// After every step the whole buffer is compared with a plain-array oracle and chained into VAL (the Lean model's
// `runNames` computes the same chain).
#include "map_sym.h"
namespace c20 {
template<typename TT, size_t... I>
static inline auto view_impl(TT& t, const std::vector<Fastor::seq>& s, std::index_sequence<I...>) { return t(s[I]...); }
template<typename TT> static inline auto view_of(TT& t, const std::vector<Fastor::seq>& s) {
    return view_impl(t, s, std::make_index_sequence<TT::dimension_t::value>{});
}
template<int OPK, class V, class R> static inline void vop(V v, const R& r) {
    if (OPK == 0) v = r; else if (OPK == 1) v += r; else if (OPK == 2) v -= r; else v *= r;
}
template<class V, class R> static inline void vop_dyn(int opk, V v, const R& r) {
    switch (opk) { case 0: vop<0>(v, r); break; case 1: vop<1>(v, r); break; case 2: vop<2>(v, r); break; default: vop<3>(v, r); }
}
// linear algebra only for rank-2 names (M x N): A is M x M
template<typename T, bool IS2D, typename DIMS> struct Lin {
    template<class X, class B> static bool run(const std::string&, int, X&, const B&, std::vector<Poly>&, int, int, void*) { return false; }
    static void* make_a(int) { return nullptr; }
};
template<typename T, size_t M, size_t N> struct Lin<T, true, Index<M,N>> {
    using AT = Fastor::Tensor<T,M,M>;
    static void* make_a(int win) { return arena_tensor<AT>(win); }
    template<class X, class B> static void tr(X& x, std::true_type) { x = Fastor::trans(x); }
    template<class X, class B> static void tr(X&, std::false_type) { std::abort(); }
    template<class X, class B> static bool run(const std::string& kind, int opk, X& x, const B& b, std::vector<Poly>& buf, int awin, int bwin, void* ap) {
        using namespace Fastor;
        AT& A = *reinterpret_cast<AT*>(ap);
        std::vector<Poly> old = buf;
        if (kind == "tr") {
            if (M != N) std::abort();
            tr<X,B>(x, std::integral_constant<bool, M == N>{});
            for (size_t i = 0; i < M; ++i) for (size_t j = 0; j < N; ++j) buf[i * N + j] = old[j * M + i];
            return true;
        }
        const bool reads_x = kind == "mx";
        if (reads_x) x = A % x;
        else if (opk == 0) x = A % b; else if (opk == 1) x += A % b; else if (opk == 2) x -= A % b; else x *= A % b;
        for (size_t i = 0; i < M; ++i) for (size_t j = 0; j < N; ++j) {
            Poly s;
            for (size_t q = 0; q < M; ++q) s = padd(s, pmul(ptok(mktok(awin, (uint32_t)(i * M + q))), reads_x ? old[q * N + j] : ptok(mktok(bwin, (uint32_t)(q * N + j)))));
            buf[i * N + j] = reads_x ? s : oracle_ap(opk, old[i * N + j], s);
        }
        return true;
    }
};

template<typename T, typename DIMS> struct NameOps;
template<typename T, size_t... D> struct NameOps<T, Index<D...>> {
    using BT = Fastor::Tensor<T,D...>;
    using L = Lin<T, sizeof...(D) == 2, Index<D...>>;
    template<class X>
    static long go(X& x, int k, const std::string& kind, const std::string& arg, int step, std::vector<Poly>& buf, BT& B, void* ap, Poly& acc, bool& has_acc) {
        using namespace Fastor;
        std::vector<size_t> d{D...}; const size_t n = prodv(d);
        T cst = T::token(9, (uint32_t)step); Poly cp = ptok(mktok(9, (uint32_t)step));
        const int bwin = 1 + k, awin = 4 + k;
        auto strides = [&](size_t ax) { size_t s = 1; for (size_t q = ax + 1; q < d.size(); ++q) s *= d[q]; return s; };
        if (kind == "ss") { x = cst; for (auto& v : buf) v = cp; }
        else if (kind == "fill") { x.fill(cst); for (auto& v : buf) v = cp; }
        else if (kind == "eadd") { x += B; for (size_t p = 0; p < n; ++p) buf[p] = padd(buf[p], ptok(mktok(bwin, (uint32_t)p))); }
        else if (kind == "wi") {
            std::vector<long> idx; size_t q = 0;
            while (q < arg.size()) { size_t r = arg.find('.', q); if (r == std::string::npos) r = arg.size(); std::string t = arg.substr(q, r - q); idx.push_back(t[0] == 'n' ? -std::stol(t.substr(1)) : std::stol(t)); q = r + 1; }
            size_t p = 0; for (size_t a = 0; a < d.size(); ++a) p += (size_t)(idx[a] < 0 ? (long)d[a] + idx[a] : idx[a]) * strides(a);
            at_signed(x, idx) = cst; buf[p] = cp;
        }
        else if (kind.substr(0, 2) == "vw") {
            const std::string o = kind.substr(2, kind.size() - 3); const int opk = o == "set" ? 0 : o == "add" ? 1 : o == "sub" ? 2 : 3;
            const bool scalar_rhs = kind.back() == 's';
            std::vector<seq> sq; std::vector<std::array<size_t,3>> ax; size_t q = 0;
            while (q < arg.size()) { size_t r = arg.find('.', q); if (r == std::string::npos) r = arg.size(); std::string t = arg.substr(q, r - q);
                size_t d1 = t.find('-'), d2 = t.find('-', d1 + 1); size_t f = std::stoul(t.substr(0, d1)), s = std::stoul(t.substr(d1 + 1, d2 - d1 - 1)), e = std::stoul(t.substr(d2 + 1));
                ax.push_back({f, s, e}); sq.push_back(seq((int)f, (int)(f + (e - 1) * s + 1), (int)s)); q = r + 1; }
            if (scalar_rhs) vop_dyn(opk, view_of(x, sq), cst); else vop_dyn(opk, view_of(x, sq), view_of(B, sq));
            size_t total = 1; for (auto& a : ax) total *= a[2];
            for (size_t c = 0; c < total; ++c) {
                size_t rem = c, p = 0;
                for (size_t a = ax.size(); a-- > 0;) { size_t j = rem % ax[a][2]; rem /= ax[a][2]; p += (j * ax[a][1] + ax[a][0]) * strides(a); }
                buf[p] = oracle_ap(opk, buf[p], scalar_rhs ? cp : ptok(mktok(bwin, (uint32_t)p)));
            }
        }
        else if (kind == "red") { T a = x.sum(); acc = pool.v[a.h]; has_acc = true; Poly s; for (auto& v : buf) s = padd(s, v); if (acc != s) return -3; }
        else if (kind == "tr" || kind == "mx" || kind.substr(0, 2) == "mm") {
            int opk = kind == "mmset" ? 0 : kind == "mmadd" ? 1 : kind == "mmsub" ? 2 : 3;
            if (!L::run(kind, opk, x, B, buf, awin, bwin, ap)) std::abort();
        }
        else { std::fprintf(stderr, "bad wide op %s\n", kind.c_str()); std::abort(); }
        return -1;
    }
    template<class X, size_t... I> static auto& ats(X& x, const std::vector<long>& i, std::index_sequence<I...>) { return x((int)i[I]...); }
    template<class X> static auto& at_signed(X& x, const std::vector<long>& i) { return ats(x, i, std::make_index_sequence<sizeof...(D)>{}); }
};

template<typename T, typename SD, typename MD, typename GD> struct WideCase;
template<typename T, size_t... S, size_t... M, size_t... G>
struct WideCase<T, Index<S...>, Index<M...>, Index<G...>> {
    static void go(const char* ops) {
        using namespace Fastor;
        using ST = Tensor<T,S...>; using MT = TensorMap<T,M...>; using GT = TensorMap<T,G...>;
        std::vector<size_t> sd{S...}; const size_t n = prodv(sd);
        ST* Sp = arena_tensor<ST>(0);
        MT* Mp = new (arena_raw<MT>()) MT(Sp->data());
        GT* Gp = new (arena_raw<GT>()) GT(Sp->data());
        auto* B0 = arena_tensor<Tensor<T,S...>>(1); auto* B1 = arena_tensor<Tensor<T,M...>>(2); auto* B2 = arena_tensor<Tensor<T,G...>>(3);
        void* A0 = Lin<T, sizeof...(S) == 2, Index<S...>>::make_a(4); void* A1 = Lin<T, sizeof...(M) == 2, Index<M...>>::make_a(5); void* A2 = Lin<T, sizeof...(G) == 2, Index<G...>>::make_a(6);
        std::vector<Poly> buf(n); for (size_t p = 0; p < n; ++p) buf[p] = ptok(mktok(0, (uint32_t)p));
        uint64_t chain = 0; bool ok = Mp->data() == Sp->data() && Gp->data() == Sp->data(); long badstep = -1, badpos = -1, oob = 0;
        std::string s(ops); size_t pos = 0; int step = 0;
        while (pos < s.size()) {
            size_t e = s.find(',', pos); if (e == std::string::npos) e = s.size();
            std::string tok = s.substr(pos, e - pos); pos = e + 1;
            size_t c1 = tok.find(':'), c2 = tok.find(':', c1 + 1);
            int k = tok[0] - '0'; std::string kind = tok.substr(c1 + 1, c2 - c1 - 1), arg = tok.substr(c2 + 1);
            Poly acc; bool has_acc = false; long r;
            vf::trace.clear(); vf::trace.on = true;
            if (k == 0) r = NameOps<T, Index<S...>>::go(*Sp, 0, kind, arg, step, buf, *B0, A0, acc, has_acc);
            else if (k == 1) r = NameOps<T, Index<M...>>::go(*Mp, 1, kind, arg, step, buf, *B1, A1, acc, has_acc);
            else r = NameOps<T, Index<G...>>::go(*Gp, 2, kind, arg, step, buf, *B2, A2, acc, has_acc);
            vf::trace.on = false;
            oob += vf::trace.oob;
            if (ok && r != -1) { ok = false; badstep = step; badpos = r; }
            uint64_t h = 0;
            for (size_t p = 0; p < n; ++p) {
                const T& v = Sp->data()[p];
                h = hstep(h, peval(pool.v[v.h], 0)); h = hstep(h, peval(pool.v[v.h], 1));
                if (ok && pool.v[v.h] != buf[p]) { ok = false; badstep = step; badpos = (long)p; }
            }
            chain = hstep(chain, h);
            if (has_acc) { chain = hstep(chain, peval(acc, 0)); chain = hstep(chain, peval(acc, 1)); }
            ++step;
        }
        std::printf(" | VAL=%s SAME=%d OOB=%ld ORACLE=%s", hex16(chain).c_str(), (int)(Mp->data() == Sp->data()), oob, ok ? "ok" : "FAIL");
        if (!ok) std::printf(" badstep=%ld badpos=%ld", badstep, badpos);
        std::printf("\n");
    }
};

template<typename T, typename SD, typename MD, typename GD>
void run_mapwide(const char* ops) {
    vf::guarded([&]{
        std::printf("mapwide cfg=%s sz=%d sdims=%s mdims=%s gdims=%s ops=%s", CFGNAME, (int)sizeof(T), dimstr(dimsv(SD{})).c_str(), dimstr(dimsv(MD{})).c_str(), dimstr(dimsv(GD{})).c_str(), ops);
        std::fflush(stdout);
        arena.reset(); pool.reset();
        WideCase<T, SD, MD, GD>::go(ops);
    });
}
} // namespace c20
using c20::run_mapwide;
