// Symbolic correspondence harness for C20: layout converters, constructors, and operation sequences
// issued alternately through a map (TensorMap / reshape / flatten / squeeze) and its source.
#include <Fastor/Fastor.h>
#include "simd_sym.h"
#include "hutil.h"
#include "tensor_arena.h"
#include <array>
#include <vector>
#include <string>
using namespace vf;
#ifndef CFGNAME
#define CFGNAME "sse2"
#endif
static bool g_verbose = false;

namespace c20 {
using Fastor::Index;

template<size_t... D> static inline std::vector<size_t> dimsv(Index<D...>) { return std::vector<size_t>{D...}; }
static inline std::string dimstr(const std::vector<size_t>& d) {
    std::string s; for (size_t k = 0; k < d.size(); ++k) { if (k) s += "x"; s += std::to_string(d[k]); } return s.empty() ? "0" : s;
}
static inline size_t prodv(const std::vector<size_t>& d) { size_t p = 1; for (auto x : d) p *= x; return p; }
// independent reference index arithmetic (plain loops; not the library's, not the model's)
static inline std::vector<size_t> unflat_row(const std::vector<size_t>& d, size_t p) {
    std::vector<size_t> i(d.size()); for (size_t k = d.size(); k-- > 0;) { i[k] = p % d[k]; p /= d[k]; } return i;
}
static inline size_t flat_row(const std::vector<size_t>& d, const std::vector<size_t>& i) {
    size_t p = 0; for (size_t k = 0; k < d.size(); ++k) p = p * d[k] + i[k]; return p;
}
static inline size_t flat_col(const std::vector<size_t>& d, const std::vector<size_t>& i) {
    size_t p = 0, s = 1; for (size_t k = 0; k < d.size(); ++k) { p += i[k] * s; s *= d[k]; } return p;
}

// ordered sequence of element offsets read from / written to one window (vector accesses lane by lane)
static inline uint64_t seq_digest(int win, bool writes, long* count = nullptr, std::string* verbose = nullptr) {
    uint64_t h = 0; long n = 0;
    for (auto& e : vf::trace.ev) {
        if (e.win != win) continue;
        bool isw = e.kind == 'w' || e.kind == 'S' || e.kind == 'T' || e.kind == 'M';
        bool isr = e.kind == 'r' || e.kind == 'L' || e.kind == 'A' || e.kind == 'm';
        if (writes ? !isw : !isr) continue;
        if (e.kind == 'w' || e.kind == 'r') { h = hstep(h, (uint64_t)e.off); ++n; if (verbose) *verbose += std::to_string(e.off) + " "; }
        else for (int l = 0; l < 64; ++l) if (e.aux >> l & 1) { h = hstep(h, (uint64_t)(e.off + l)); ++n; if (verbose) *verbose += std::to_string(e.off + l) + " "; }
    }
    if (count) *count = n;
    return h;
}
static inline long aligned_count() { long a = 0; for (auto& e : vf::trace.ev) if (e.kind == 'A' || e.kind == 'T') ++a; return a; }

// one overload per (function, source kind) so that only the requested path is instantiated
#define C20_LAY(FN, SRC, ...) template<class TT, class A_, class M_, class T_, class R_, class V_> \
    static inline TT* lay_make(std::integral_constant<int,FN>, std::integral_constant<int,SRC>, void* slot, A_* A, M_* MA, const T_* in, R_* arr, V_* vec) { \
        (void)A; (void)MA; (void)in; (void)arr; (void)vec; using namespace Fastor; return new (slot) TT(__VA_ARGS__); }
C20_LAY(0, 0, tocolumnmajor(*A))  C20_LAY(0, 1, tocolumnmajor(*MA))
C20_LAY(1, 0, torowmajor(*A))     C20_LAY(1, 1, torowmajor(*MA))
C20_LAY(2, 0, torowmajor(tocolumnmajor(*A)))  C20_LAY(2, 1, torowmajor(tocolumnmajor(*MA)))
C20_LAY(3, 0, tocolumnmajor(torowmajor(*A)))  C20_LAY(3, 1, tocolumnmajor(torowmajor(*MA)))
C20_LAY(4, 1, in, ColumnMajor)    C20_LAY(5, 1, in, RowMajor)
C20_LAY(6, 1, *arr, ColumnMajor)  C20_LAY(7, 1, *arr, RowMajor)
C20_LAY(8, 1, *vec, ColumnMajor)  C20_LAY(9, 1, *vec, RowMajor)
#undef C20_LAY

// ------------------------------------------------------------------------------------------------------------
// layout converters and raw-buffer / std::array / std::vector constructors
//   fn: tocm torm rt_cr (torowmajor(tocolumnmajor)) rt_rc ptr_cm ptr_rm arr_cm arr_rm vec_cm vec_rm
//   src: t = owning tensor, m = TensorMap over a raw buffer (converters only)
template<typename T, int FN, int SRC, size_t... D>
void run_layout() {
    vf::guarded([&]{
        using namespace Fastor;
        static const char* fnn[] = {"tocm", "torm", "rtcr", "rtrc", "ptrcm", "ptrrm", "arrcm", "arrrm", "veccm", "vecrm"};
        std::vector<size_t> d{D...};
        const size_t n = prodv(d);
        std::printf("layout cfg=%s sz=%d fn=%s src=%s dims=%s", CFGNAME, (int)sizeof(T), fnn[FN], SRC ? "m" : "t", dimstr(d).c_str()); std::fflush(stdout);
        arena.reset(); pool.reset();
        using TT = Tensor<T,D...>;
        // window 1: the input (a tensor, or a raw buffer), window 0: the result tensor
        const T* in = nullptr; TT* A = nullptr; TensorMap<T,D...>* MA = nullptr;
        if (FN <= 3 && SRC == 0) { A = arena_tensor<TT>(1); in = A->data(); }
        else { T* buf = sym_alloc<T>(1, n, 0); in = buf; if (FN <= 3) MA = new (arena_raw<TensorMap<T,D...>>()) TensorMap<T,D...>(buf); }
        void* slot = arena_result_slot<TT>(0);
        TT* R = nullptr;
        std::array<T,TT::size()>* arr = nullptr; std::vector<T>* vec = nullptr;
        if (FN == 6 || FN == 7) { arr = new std::array<T,TT::size()>(); for (size_t k = 0; k < n; ++k) (*arr)[k].h = in[k].h; }
        if (FN == 8 || FN == 9) { vec = new std::vector<T>(n); for (size_t k = 0; k < n; ++k) (*vec)[k].h = in[k].h; }
        vf::trace.clear(); vf::trace.on = true;
        R = lay_make<TT>(std::integral_constant<int,FN>{}, std::integral_constant<int,SRC>{}, slot, A, MA, in, arr, vec);
        vf::trace.on = false;
        long nw = 0, nr = 0, nr0 = 0; std::string wl, rl;
        uint64_t wseq = seq_digest(0, true, &nw, g_verbose ? &wl : nullptr);
        uint64_t rseq = seq_digest(1, false, &nr, g_verbose ? &rl : nullptr);
        uint64_t r0seq = seq_digest(0, false, &nr0);
        // reference: what each function is documented / used to do (see docs/DESIGN_C20.md)
        bool ok = true; long bad = -1;
        for (size_t p = 0; p < n && ok; ++p) {
            auto i = unflat_row(d, p);
            size_t want;
            switch (FN) {
                case 0: case 4: case 6: case 8: want = flat_col(d, i); break;              // result(i) = input[col-major offset of i]
                case 1: {                                                                   // result[col-major offset of i] = input(i)
                    // p is a position of the result: find the multi-index whose column-major offset is p
                    std::vector<size_t> j(d.size()); size_t q = p; for (size_t k = 0; k < d.size(); ++k) { j[k] = q % d[k]; q /= d[k]; }
                    want = flat_row(d, j); break; }
                default: want = p; break;                                                    // round trips, row-major constructors
            }
            if (pool.v[R->data()[p].h] != ptok(mktok(1, (uint32_t)want))) { ok = false; bad = (long)p; }
        }
        for (size_t p = 0; p < n && ok; ++p) if (pool.v[in[p].h] != ptok(mktok(1, (uint32_t)p))) { ok = false; bad = -2; }
        std::printf(" | VAL=%s RSEQ=%s NR=%ld WSEQ=%s NW=%ld R0SEQ=%s NR0=%ld OOB=%ld ORACLE=%s", hex16(val_digest(R->data(), n)).c_str(), hex16(rseq).c_str(), nr,
                    hex16(wseq).c_str(), nw, hex16(r0seq).c_str(), nr0, vf::trace.oob, ok ? "ok" : "FAIL");
        if (!ok) std::printf(" bad=%ld got=%s", bad, bad >= 0 ? pstr(pool.v[R->data()[bad].h]).substr(0, 80).c_str() : "input-modified");
        if (g_verbose) std::printf(" reads=[%s] writes=[%s]", rl.c_str(), wl.c_str());
        std::printf("\n");
        delete arr; delete vec;
    });
}

// ------------------------------------------------------------------------------------------------------------
// nested initializer lists: the python side generates the braces; element k (in reading order) is token (1,k)
#define TK(k) T::token(1, k)
template<typename T, size_t... D, typename F>
void run_ilist(F make) {
    vf::guarded([&]{
        using namespace Fastor;
        std::vector<size_t> d{D...};
        const size_t n = prodv(d);
        std::printf("layout cfg=%s sz=%d fn=ilist src=t dims=%s", CFGNAME, (int)sizeof(T), dimstr(d).c_str()); std::fflush(stdout);
        arena.reset(); pool.reset();
        using TT = Tensor<T,D...>;
        void* slot = arena_result_slot<TT>(0);
        vf::trace.clear(); vf::trace.on = true;
        TT* R = make(slot);
        vf::trace.on = false;
        long nw = 0; uint64_t wseq = seq_digest(0, true, &nw);
        bool ok = true; long bad = -1;
        for (size_t p = 0; p < n && ok; ++p) if (pool.v[R->data()[p].h] != ptok(mktok(1, (uint32_t)p))) { ok = false; bad = (long)p; }
        std::printf(" | VAL=%s WSEQ=%s NW=%ld OOB=%ld ORACLE=%s", hex16(val_digest(R->data(), n)).c_str(), hex16(wseq).c_str(), nw, vf::trace.oob, ok ? "ok" : "FAIL");
        if (!ok) std::printf(" bad=%ld", bad);
        std::printf("\n");
    });
}

// ------------------------------------------------------------------------------------------------------------
// operation sequences through a map and its source
//   KIND: 0 TensorMap<T,M...>(Tensor<T,S...>&)   1 reshape<M...>(src)   2 flatten(src)   3 squeeze(src)
//         4 TensorMap<T,M...>(raw pointer) where the "source" is a TensorMap<T,S...> over the same raw buffer
//           placed `mis` bytes after a 64-byte boundary
//   ops : comma separated  <via>:<kind>:<arg>   via = m | s
//         w:<i.j.k>   X(i,j,k) = token(9,step)          fill:0      X.fill(token(9,step))
//         sadd|ssub|smul:0   X op= token(9,step)         e<set|add|sub|mul>:<id>  X op= EXPR_id(X,B,C)
//         x<set|add|sub|mul>:0  X op= Y (the other name)  rd:<id>    R = EXPR_id(X,B,C)   (R owning, own window)
struct PolyS { Poly p; PolyS() {} PolyS(const Poly& q) : p(q) {} explicit PolyS(int c) : p(pconst(c)) {} };
static inline PolyS operator+(const PolyS& a, const PolyS& b) { return PolyS(padd(a.p, b.p)); }
static inline PolyS operator-(const PolyS& a, const PolyS& b) { return PolyS(padd(a.p, b.p, -1)); }
static inline PolyS operator*(const PolyS& a, const PolyS& b) { return PolyS(pmul(a.p, b.p)); }
static inline PolyS operator-(const PolyS& a) { return PolyS(padd(Poly{}, a.p, -1)); }
template<typename X> static inline typename X::scalar_type kk(const X&, int c) { return typename X::scalar_type(c); }
static inline PolyS kk(const PolyS&, int c) { return PolyS(c); }

// the expression menu: the same generic text is evaluated by the library (tensors) and by the oracle (polynomials);
// the postfix encodings (t0 = X itself, t1 = B, t2 = C) are what the Lean model parses
static const char* const EXPR_ENC[] = {"t1", "t1_t2_add", "t1_t2_mul_t0_sub", "t0_t1_add", "t0_neg", "t0_c2_add_t2_mul", "t0_t0_mul_t1_sub", "c3_t1_sub",
                                       "t0_t0_add", "t2_t0_t1_mul_sub_neg"};
static const int NEXPR = 10;
template<int ID> struct Ex;
#define C20_EX(ID, ...) template<> struct Ex<ID> { template<class X, class B, class C> static auto f(const X& x, const B& b, const C& c) { (void)x; (void)b; (void)c; return __VA_ARGS__; } };
C20_EX(1, b + c)
C20_EX(2, b * c - x)
C20_EX(3, x + b)
C20_EX(4, -x)
C20_EX(5, (x + kk(x, 2)) * c)
C20_EX(6, x * x - b)
C20_EX(7, kk(b, 3) - b)
C20_EX(8, x + x)
C20_EX(9, -(c - x * b))
#undef C20_EX
// E0 is the bare operand B for the library (so that the assign(dst, Tensor) overloads are taken)
template<class X, class B, class C> static inline const B& ex0(const X&, const B& b, const C&) { return b; }

template<class TensorLike, size_t... I>
static inline auto& at_impl(TensorLike& t, const std::vector<size_t>& i, std::index_sequence<I...>) { return t((int)i[I]...); }
template<class TensorLike> static inline auto& at(TensorLike& t, const std::vector<size_t>& i) {
    return at_impl(t, i, std::make_index_sequence<TensorLike::dimension_t::value>{});
}

template<int OPK, class X, class E> static inline void apply_op(X& x, const E& e) {
    if (OPK == 0) x = e; else if (OPK == 1) x += e; else if (OPK == 2) x -= e; else x *= e;
}
// only the expressions enabled in MASK are instantiated for a case (compile time); the others abort
template<int ID, bool EN> struct Slot {
    template<class X, class B, class C> static void ap(int, X&, const B&, const C&) { std::fprintf(stderr, "expression %d not enabled\n", ID); std::abort(); }
    template<class R, class X, class B, class C> static void rd(R&, const X&, const B&, const C&) { std::fprintf(stderr, "expression %d not enabled\n", ID); std::abort(); }
};
template<int ID> struct Slot<ID, true> {
    template<class X, class B, class C> static void ap(int opk, X& x, const B& b, const C& c) {
        switch (opk) { case 0: x = Ex<ID>::f(x, b, c); break; case 1: x += Ex<ID>::f(x, b, c); break; case 2: x -= Ex<ID>::f(x, b, c); break; default: x *= Ex<ID>::f(x, b, c); }
    }
    template<class R, class X, class B, class C> static void rd(R& r, const X& x, const B& b, const C& c) { r = Ex<ID>::f(x, b, c); }
};
template<> struct Slot<0, true> {
    template<class X, class B, class C> static void ap(int opk, X& x, const B& b, const C&) {
        switch (opk) { case 0: x = b; break; case 1: x += b; break; case 2: x -= b; break; default: x *= b; }
    }
    template<class R, class X, class B, class C> static void rd(R& r, const X& x, const B&, const C&) { r = x; }
};
template<unsigned MASK, class X, class B, class C> static inline void apply_expr(int opk, int id, X& x, const B& b, const C& c) {
#define C20_ID(ID) case ID: Slot<ID, (MASK >> ID & 1u) != 0>::ap(opk, x, b, c); break;
    switch (id) { C20_ID(0) C20_ID(1) C20_ID(2) C20_ID(3) C20_ID(4) C20_ID(5) C20_ID(6) C20_ID(7) C20_ID(8) C20_ID(9) default: std::abort(); }
#undef C20_ID
}
template<unsigned MASK, class R, class X, class B, class C> static inline void apply_read(int id, R& r, const X& x, const B& b, const C& c) {
#define C20_ID(ID) case ID: Slot<ID, (MASK >> ID & 1u) != 0>::rd(r, x, b, c); break;
    switch (id) { C20_ID(0) C20_ID(1) C20_ID(2) C20_ID(3) C20_ID(4) C20_ID(5) C20_ID(6) C20_ID(7) C20_ID(8) C20_ID(9) default: std::abort(); }
#undef C20_ID
}
static inline PolyS oracle_expr(int id, const PolyS& x, const PolyS& b, const PolyS& c) {
    switch (id) {
        case 0: return b; case 1: return Ex<1>::f(x, b, c); case 2: return Ex<2>::f(x, b, c); case 3: return Ex<3>::f(x, b, c); case 4: return Ex<4>::f(x, b, c);
        case 5: return Ex<5>::f(x, b, c); case 6: return Ex<6>::f(x, b, c); case 7: return Ex<7>::f(x, b, c); case 8: return Ex<8>::f(x, b, c); default: return Ex<9>::f(x, b, c);
    }
}
static inline Poly oracle_ap(int opk, const Poly& d, const Poly& r) { return opk == 0 ? r : opk == 1 ? padd(d, r) : opk == 2 ? padd(d, r, -1) : pmul(d, r); }

template<typename T, int KIND, unsigned MASK, typename SD, typename MD> struct MapCase;
template<typename T, int KIND, unsigned MASK, size_t... S, size_t... M>
struct MapCase<T, KIND, MASK, Index<S...>, Index<M...>> {
    using ST = Fastor::Tensor<T,S...>;
    using SMT = Fastor::TensorMap<T,S...>;
    using MT = Fastor::TensorMap<T,M...>;
    using BM = Fastor::Tensor<T,M...>;
    using BS = Fastor::Tensor<T,S...>;
    template<class SRC> static MT make_map(SRC& s, std::integral_constant<int,0>) { return MT(s); }
    template<class SRC> static MT make_map(SRC& s, std::integral_constant<int,1>) { return Fastor::reshape<M...>(s); }
    template<class SRC> static MT make_map(SRC& s, std::integral_constant<int,2>) { return Fastor::flatten(s); }
    template<class SRC> static MT make_map(SRC& s, std::integral_constant<int,3>) { return Fastor::squeeze(s); }
    template<class SRC> static MT make_map(SRC& s, std::integral_constant<int,4>) { return MT(s.data()); }

    template<class SRC>
    static void go(SRC* Sp, size_t mis, const char* ops) {
        using namespace Fastor;
        std::vector<size_t> sd{S...}, md{M...};
        const size_t n = prodv(sd);
        SRC& Sx = *Sp;
        MT* Mp = new (arena_raw<MT>()) MT(make_map(Sx, std::integral_constant<int,KIND>{}));
        MT& Mx = *Mp;
        // operands and read targets, one of each shape: windows 1,2 (B,C map-shaped) 3,4 (B,C source-shaped) 5 (R map-shaped) 6 (R source-shaped)
        BM* Bm = arena_tensor<BM>(1); BM* Cm = arena_tensor<BM>(2); BS* Bs = arena_tensor<BS>(3); BS* Cs = arena_tensor<BS>(4);
        BM* Rm = arena_tensor<BM>(5); BS* Rs = arena_tensor<BS>(6);
        std::vector<Poly> buf(n), rm(n), rs(n);               // the oracle: a plain array
        for (size_t p = 0; p < n; ++p) { buf[p] = ptok(mktok(0, (uint32_t)p)); rm[p] = ptok(mktok(5, (uint32_t)p)); rs[p] = ptok(mktok(6, (uint32_t)p)); }
        bool same_storage = (Mx.data() == Sx.data());
        uint64_t chain = 0; long alnm = 0, alns = 0; bool ok = same_storage; long badstep = ok ? -1 : -9, badpos = -1;
        std::string wl; uint64_t wseq = 0; long nw = 0; long oob = 0;
        std::string s(ops); size_t pos = 0; int step = 0;
        while (pos < s.size()) {
            size_t e = s.find(',', pos); if (e == std::string::npos) e = s.size();
            std::string tok = s.substr(pos, e - pos); pos = e + 1;
            size_t c1 = tok.find(':'), c2 = tok.find(':', c1 + 1);
            const bool viam = tok[0] == 'm';
            std::string kind = tok.substr(c1 + 1, c2 - c1 - 1), arg = tok.substr(c2 + 1);
            T cst = T::token(9, (uint32_t)step); Poly cp = ptok(mktok(9, (uint32_t)step));
            const int bw = viam ? 1 : 3, cw = viam ? 2 : 4;
            vf::trace.clear(); vf::trace.on = true;
            if (kind == "w") {
                std::vector<size_t> idx; size_t q = 0; while (q < arg.size()) { size_t r = arg.find('.', q); if (r == std::string::npos) r = arg.size(); idx.push_back(std::stoul(arg.substr(q, r - q))); q = r + 1; }
                if (viam) at(Mx, idx) = cst; else at(Sx, idx) = cst;
                buf[flat_row(viam ? md : sd, idx)] = cp;
            } else if (kind == "fill") {
                if (viam) Mx.fill(cst); else Sx.fill(cst);
                for (size_t p = 0; p < n; ++p) buf[p] = cp;
            } else if (kind == "sadd" || kind == "ssub" || kind == "smul") {
                int opk = kind == "sadd" ? 1 : kind == "ssub" ? 2 : 3;
                if (viam) { if (opk == 1) Mx += cst; else if (opk == 2) Mx -= cst; else Mx *= cst; }
                else { if (opk == 1) Sx += cst; else if (opk == 2) Sx -= cst; else Sx *= cst; }
                for (size_t p = 0; p < n; ++p) buf[p] = oracle_ap(opk, buf[p], cp);
            } else if (kind[0] == 'e') {
                int opk = kind == "eset" ? 0 : kind == "eadd" ? 1 : kind == "esub" ? 2 : 3; int id = std::stoi(arg);
                if (viam) apply_expr<MASK>(opk, id, Mx, *Bm, *Cm); else apply_expr<MASK>(opk, id, Sx, *Bs, *Cs);
                for (size_t p = 0; p < n; ++p) {
                    PolyS r = oracle_expr(id, PolyS(buf[p]), PolyS(ptok(mktok(bw, (uint32_t)p))), PolyS(ptok(mktok(cw, (uint32_t)p))));
                    buf[p] = oracle_ap(opk, buf[p], r.p);
                }
            } else if (kind[0] == 'x') {
                int opk = kind == "xset" ? 0 : kind == "xadd" ? 1 : kind == "xsub" ? 2 : 3;
                if (viam) apply_op_dyn(opk, Mx, Sx); else apply_op_dyn(opk, Sx, Mx);
                for (size_t p = 0; p < n; ++p) buf[p] = oracle_ap(opk, buf[p], buf[p]);
            } else if (kind == "cp") {
                // assignment from another object of the SAME type holding B's values (a map over B's storage, or B itself for an owning source)
                if (viam) { MT o(Bm->data()); Mx = o; } else copy_same(Sx, *Bs);
                for (size_t p = 0; p < n; ++p) buf[p] = ptok(mktok(bw, (uint32_t)p));
            } else if (kind == "rd") {
                int id = std::stoi(arg);
                if (viam) apply_read<MASK>(id, *Rm, Mx, *Bm, *Cm); else apply_read<MASK>(id, *Rs, Sx, *Bs, *Cs);
                for (size_t p = 0; p < n; ++p) {
                    PolyS r = id == 0 ? PolyS(buf[p]) : oracle_expr(id, PolyS(buf[p]), PolyS(ptok(mktok(bw, (uint32_t)p))), PolyS(ptok(mktok(cw, (uint32_t)p))));
                    (viam ? rm : rs)[p] = r.p;
                }
            } else { std::fprintf(stderr, "bad op %s\n", tok.c_str()); std::abort(); }
            vf::trace.on = false;
            // observables of this step
            oob += vf::trace.oob;
            long a = aligned_count(); if (viam) alnm += a; else alns += a;
            long k = 0; wseq = hstep(wseq, seq_digest(0, true, &k, g_verbose ? &wl : nullptr)); nw += k; if (g_verbose) wl += "| ";
            // the buffer is read back through the OTHER name, element by element with its scalar indexing
            uint64_t h = 0;
            for (size_t p = 0; p < n; ++p) {
                const T& v = viam ? at(Sx, unflat_row(sd, p)) : at(Mx, unflat_row(md, p));
                h = hstep(h, peval(pool.v[v.h], 0)); h = hstep(h, peval(pool.v[v.h], 1));
                if (ok && pool.v[v.h] != buf[p]) { ok = false; badstep = step; badpos = (long)p; }
            }
            chain = hstep(chain, h);
            if (kind == "rd") {
                const T* r = viam ? Rm->data() : Rs->data(); const std::vector<Poly>& want = viam ? rm : rs;
                chain = hstep(chain, val_digest(r, n));
                for (size_t p = 0; p < n && ok; ++p) if (pool.v[r[p].h] != want[p]) { ok = false; badstep = step; badpos = -(long)p - 100; }
            }
            ++step;
        }
        // operands must be untouched
        for (size_t p = 0; p < n && ok; ++p)
            if (pool.v[Bm->data()[p].h] != ptok(mktok(1, (uint32_t)p)) || pool.v[Cm->data()[p].h] != ptok(mktok(2, (uint32_t)p)) ||
                pool.v[Bs->data()[p].h] != ptok(mktok(3, (uint32_t)p)) || pool.v[Cs->data()[p].h] != ptok(mktok(4, (uint32_t)p))) { ok = false; badstep = -2; }
        using V = typename MT::simd_vector_type;
        std::printf(" | V=%d VAL=%s WSEQ=%s NW=%ld ALNM=%ld ALNS=%ld SAME=%d OOB=%ld ORACLE=%s", (int)V::Size, hex16(chain).c_str(), hex16(wseq).c_str(), nw, alnm, alns,
                    (int)same_storage, oob, ok ? "ok" : "FAIL");
        if (!ok) std::printf(" badstep=%ld badpos=%ld", badstep, badpos);
        if (g_verbose) std::printf(" writes=[%s]", wl.c_str());
        std::printf("\n");
    }
    static void copy_same(ST& s, BS& b) { s = b; }
    static void copy_same(SMT& s, BS& b) { SMT o(b.data()); s = o; }
    template<class X, class Y> static void apply_op_dyn(int opk, X& x, const Y& y) {
        if (opk == 0) x = y; else if (opk == 1) x += y; else if (opk == 2) x -= y; else x *= y;
    }
};

template<typename T, size_t MIS, class MC> static inline void start_case(std::true_type, size_t n, const char* ops) {
    T* raw = sym_alloc<T>(0, n, MIS);
    auto* Sp = new (arena_raw<typename MC::SMT>()) typename MC::SMT(raw);
    MC::go(Sp, MIS, ops);
}
template<typename T, size_t MIS, class MC> static inline void start_case(std::false_type, size_t, const char* ops) {
    auto* Sp = arena_tensor<typename MC::ST>(0);
    MC::go(Sp, 0, ops);
}

template<typename T, int KIND, size_t MIS, unsigned MASK, typename SD, typename MD>
void run_mapops(const char* ops) {
    vf::guarded([&]{
        static const char* kn[] = {"map", "reshape", "flatten", "squeeze", "raw"};
        using MC = MapCase<T, KIND, MASK, SD, MD>;
        auto sd = dimsv(SD{}); auto md = dimsv(MD{});
        std::printf("mapops cfg=%s sz=%d kind=%s mis=%zu sdims=%s mdims=%s ops=%s", CFGNAME, (int)sizeof(T), kn[KIND], (size_t)MIS, dimstr(sd).c_str(), dimstr(md).c_str(), ops);
        std::fflush(stdout);
        arena.reset(); pool.reset();
        start_case<T, MIS, MC>(std::integral_constant<bool, KIND == 4>{}, prodv(sd), ops);
    });
}
} // namespace c20
using c20::run_layout; using c20::run_ilist; using c20::run_mapops;
template<size_t... D> using IX = Fastor::Index<D...>;
