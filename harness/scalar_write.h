// Scalar element assignment A(i,j,...) op= x (last sentence of C05) through Tensor and TensorMap, ranks 1-5:
// run-time scripts  op.c.i_j_k/op.c.i_j_k/...  with every index in [-dim, dim).
//  * symbolic carrier (SW / SWM): after every write the WHOLE tensor is digested, the trace gives the written position,
//    margins of the arena are compared; line protocol `sw ...` for the Lean model;
//  * real types (SWR / SWRM): A between 0xA5 sentinels, five operators, bit-for-bit against own row-major arithmetic.
#include "view_write_common.h"
#include <cstdint>
#include <cstring>
#include <sys/wait.h>
#ifdef SW_SYM
#include "simd_sym.h"
#include "hutil.h"
#include "tensor_arena.h"
using namespace vf;
static bool g_verbose = false;
#else
static bool g_verbose = false;
#endif
#ifndef CFGNAME
#define CFGNAME "sse2"
#endif

namespace sw {
using Fastor::Tensor; using Fastor::TensorMap;
struct SW { int op; int c; std::vector<int> idx; };
static inline std::vector<SW> parse(const char* script) {
    std::vector<SW> r;
    for (auto& w : vw::split(script, '/')) {
        auto f = vw::split(w, '.');
        SW s; s.op = vw::opcode(f[0]); s.c = std::atoi(f[1].c_str());
        for (auto& x : vw::split(f[2], '_')) s.idx.push_back(std::atoi(x.c_str()));
        r.push_back(s);
    }
    return r;
}
// documented meaning: negative index counts from the end; row-major offset
static inline long ref_offset(const std::vector<int>& dims, const std::vector<int>& idx) {
    long p = 0;
    for (size_t k = 0; k < dims.size(); ++k) { long i = idx[k] < 0 ? idx[k] + dims[k] : idx[k]; p = p * dims[k] + i; }
    return p;
}
template<typename TT, size_t... I> inline auto elem(TT& A, const std::vector<int>& ix, vw::prod_of<I...>*) -> decltype(A(ix[I]...)) { return A(ix[I]...); }
template<size_t R> struct Seq;
template<> struct Seq<1> { using type = vw::prod_of<0>; };
template<> struct Seq<2> { using type = vw::prod_of<0,1>; };
template<> struct Seq<3> { using type = vw::prod_of<0,1,2>; };
template<> struct Seq<4> { using type = vw::prod_of<0,1,2,3>; };
template<> struct Seq<5> { using type = vw::prod_of<0,1,2,3,4>; };
template<typename L, typename X> inline void app(int op, L& l, const X& x, std::true_type) {
    switch (op) { case 0: l = x; break; case 1: l += x; break; case 2: l -= x; break; case 3: l *= x; break; default: l /= x; break; } }
template<typename L, typename X> inline void app(int op, L& l, const X& x, std::false_type) {
    switch (op) { case 0: l = x; break; case 1: l += x; break; case 2: l -= x; break; default: l *= x; break; } }
template<typename F> static inline void guarded(F f) {
    std::fflush(stdout);
    pid_t p = fork();
    if (p == 0) { f(); std::fflush(stdout); _exit(0); }
    int st = 0; waitpid(p, &st, 0);
    if (!(WIFEXITED(st) && WEXITSTATUS(st) == 0)) { std::printf(" | CRASH=%d ORACLE=FAIL crash\n", WIFSIGNALED(st) ? WTERMSIG(st) : -WEXITSTATUS(st)); std::fflush(stdout); }
}
static inline std::string dimstr(const std::vector<int>& d) { std::string s; for (size_t k = 0; k < d.size(); ++k) s += (k ? "x" : "") + std::to_string(d[k]); return s; }

#ifdef SW_SYM
template<typename T, bool MAP, size_t... D> void run_sym(const char* script) {
    std::vector<int> dims = {(int)D...};
    guarded([&]{
        std::printf("sw cfg=%s sz=%d cont=%s dims=%s W=%s", CFGNAME, (int)sizeof(T), MAP ? "map" : "tensor", dimstr(dims).c_str(), script); std::fflush(stdout);
        arena.reset(); pool.reset();
        constexpr size_t NA = vw::prod_of<D...>::value;
        using TT = Tensor<T,D...>; using TM = TensorMap<T,D...>;
        TT* At = nullptr; T* data = nullptr;
        if (MAP) data = sym_alloc<T>(0, NA); else { At = arena_tensor<TT>(0); data = At->data(); }
        TM Am(data);
        const char* lo = (const char*)data; const char* hi = (const char*)(data + NA); const long MARG = 512;
        std::vector<char> before(lo - MARG, lo), after(hi, hi + MARG);
        std::vector<Poly> ref(NA); for (size_t p = 0; p < NA; ++p) ref[p] = ptok(mktok(0, p));
        uint64_t val = 0, wseq = 0; long nw = 0, oob = 0; bool ok = true; long bad = -1; int badw = -1;
        auto ws = parse(script);
        typename Seq<sizeof...(D)>::type* sq = nullptr;
        for (size_t wi = 0; wi < ws.size(); ++wi) {
            const SW& w = ws[wi]; T c(w.c);
            vf::trace.clear(); vf::trace.on = true;
            if (MAP) app(w.op, elem(Am, w.idx, sq), c, std::false_type()); else app(w.op, elem(*At, w.idx, sq), c, std::false_type());
            vf::trace.on = false;
            auto s = summarise(0, g_verbose);
            wseq = hstep(wseq, s.wseq); nw += s.nw; oob += s.oob;
            long p = ref_offset(dims, w.idx);
            Poly cc = pconst(w.c);
            ref[p] = w.op == 0 ? cc : w.op == 1 ? padd(ref[p], cc) : w.op == 2 ? padd(ref[p], cc, -1) : pmul(ref[p], cc);
            for (size_t q = 0; q < NA && ok; ++q) if (ref[q] != pool.v[data[q].h]) { ok = false; bad = q; badw = (int)wi; }
            if (std::memcmp(before.data(), lo - MARG, MARG) != 0 || std::memcmp(after.data(), hi, MARG) != 0) { ok = false; badw = (int)wi; bad = -2; }
            val = hstep(val, val_digest(data, NA));
            if (!ok) break;
        }
        std::printf(" | VAL=%s WSEQ=%s NW=%ld OOB=%ld ORACLE=%s", hex16(val).c_str(), hex16(wseq).c_str(), nw, oob, ok ? "ok" : "FAIL");
        if (!ok) { std::printf(" write=%d(", badw); for (int x : ws[badw].idx) std::printf("%d,", x); std::printf(") badpos=%ld", bad); }
        std::printf("\n");
    });
}
#define SW(T, DD, SCRIPT) sw::run_sym<T, false, VW_UNPACK DD>(SCRIPT)
#define SWM(T, DD, SCRIPT) sw::run_sym<T, true, VW_UNPACK DD>(SCRIPT)
#else
template<typename T> struct tn;
template<> struct tn<float> { static const char* n() { return "float"; } };
template<> struct tn<double> { static const char* n() { return "double"; } };
template<> struct tn<int32_t> { static const char* n() { return "int32_t"; } };
template<> struct tn<int64_t> { static const char* n() { return "int64_t"; } };
template<typename T> static inline T rop(int op, T a, T b) {
    return op == 0 ? b : op == 1 ? (T)(a + b) : op == 2 ? (T)(a - b) : op == 3 ? (T)(a * b) : (T)(a / b); }
template<typename T, bool MAP, size_t... D> void run_real(const char* script, unsigned seed) {
    std::vector<int> dims = {(int)D...};
    guarded([&]{
        std::printf("swr cfg=%s T=%s cont=%s dims=%s seed=%u W=%s", CFGNAME, tn<T>::n(), MAP ? "map" : "tensor", dimstr(dims).c_str(), seed, script); std::fflush(stdout);
        constexpr size_t NA = vw::prod_of<D...>::value;
        using TT = Tensor<T,D...>; using TM = TensorMap<T,D...>;
        struct Block { unsigned char pre[256]; TT A; unsigned char post[256]; };
        static typename std::aligned_storage<sizeof(Block), 64>::type store;
        std::memset(&store, 0xA5, sizeof(Block));
        Block* blk = reinterpret_cast<Block*>(&store);
        TT* At = new (&blk->A) TT; T* data = At->data();
        TM Am(data);
        uint32_t s = seed * 2654435761u + 99u;
        for (size_t p = 0; p < NA; ++p) { s = s * 1664525u + 1013904223u; data[p] = (T)((int)((s >> 8) % 1999) - 999) + (T)(std::is_floating_point<T>::value ? 0.5 : 0) ; }
        std::vector<T> ref(data, data + NA);
        const unsigned char* lo = (const unsigned char*)data; const unsigned char* hi = (const unsigned char*)(data + NA);
        const unsigned char* b0 = (const unsigned char*)blk; const unsigned char* b1 = b0 + sizeof(Block);
        bool ok = true; long bad = -1; int badw = -1;
        auto ws = parse(script);
        typename Seq<sizeof...(D)>::type* sq = nullptr;
        for (size_t wi = 0; wi < ws.size() && ok; ++wi) {
            const SW& w = ws[wi]; T c = (T)w.c;
            if (MAP) app(w.op, elem(Am, w.idx, sq), c, std::true_type()); else app(w.op, elem(*At, w.idx, sq), c, std::true_type());
            long p = ref_offset(dims, w.idx);
            ref[p] = rop<T>(w.op, ref[p], c);
            for (size_t q = 0; q < NA && ok; ++q) if (std::memcmp(&ref[q], &data[q], sizeof(T)) != 0) { ok = false; bad = q; badw = (int)wi; }
            for (const unsigned char* q = b0; q < b1 && ok; ++q) if ((q < lo || q >= hi) && *q != 0xA5) { ok = false; bad = -2; badw = (int)wi; }
        }
        if (ok) std::printf(" | ok\n");
        else { std::printf(" | FAIL write=%d index=(", badw); for (int x : ws[badw].idx) std::printf("%d,", x); std::printf(") %s pos=%ld\n", bad == -2 ? "memory-outside-A-changed" : "wrong-element", bad); }
    });
}
#define SWR(T, DD, SEED, SCRIPT) sw::run_real<T, false, VW_UNPACK DD>(SCRIPT, SEED)
#define SWRM(T, DD, SEED, SCRIPT) sw::run_real<T, true, VW_UNPACK DD>(SCRIPT, SEED)
#endif
} // namespace sw
