// C10 harness: the REAL inverse templates of Fastor run over an exact rational carrier.
//   vf::QL wraps vf::Rat (harness/common/rat.h) and logs every divisor, so that the run also yields the
//   sequence of values the code divides by (one determinant per leaf of the block recursion): a structural
//   observable that pins the split points.  A division by zero does not trap: it is flagged (DEF=0).
// Case lines are read from a file (argv[1]):   inv strat=<name> n=<n> id=<tag> a=<n*n ints, comma separated>
// For every case whose (strat,n) was registered in this TU one line is printed:
//   <case line> | DEF=<0|1> X=<digest> DIVS=<digest> P=<pivot vector> ORACLE=<ok|XA|AX|XA+AX> ERR=<none|overflow>
#ifndef VF_INVERSE_RAT_H
#define VF_INVERSE_RAT_H
#include "rat.h"
#include <csetjmp>
#include <csignal>
#include <map>
#include <string>
#include <vector>
#include <fstream>
#include <sstream>
#include <unistd.h>

namespace vf {
static std::vector<Rat> g_divs;
static bool g_divzero = false;
#ifndef VF_QL_POISON
#define VF_QL_POISON 7777777
#endif
struct QL {
    Rat r;
    // a default-constructed scalar is POISON, not zero: Fastor leaves `Tensor<T,...> x;` uninitialised for the real
    // types, so code that relies on a zero must write it (a missing zero fill shows up as poison in the result)
    QL() : r(Rat::make(VF_QL_POISON, 1)) {}
    QL(int v) : r(v) {}
    QL(long v) : r(v) {}
    QL(long long v) : r(v) {}
    QL(unsigned v) : r(v) {}
    QL(unsigned long v) : r(v) {}
    QL(double v) : r(v) {}
    struct raw {};
    QL(const Rat& x, raw) : r(x) {}
    explicit operator double() const { return (double)r; }
    QL& operator+=(const QL& o) { r = r + o.r; return *this; }
    QL& operator-=(const QL& o) { r = r - o.r; return *this; }
    QL& operator*=(const QL& o) { r = r * o.r; return *this; }
    inline QL& operator/=(const QL& o);
};
static_assert(sizeof(QL) == 8, "QL handle size");
static inline QL operator+(const QL& a, const QL& b) { return QL(a.r + b.r, QL::raw()); }
static inline QL operator-(const QL& a, const QL& b) { return QL(a.r - b.r, QL::raw()); }
static inline QL operator*(const QL& a, const QL& b) { return QL(a.r * b.r, QL::raw()); }
static inline QL operator/(const QL& a, const QL& b) {
    g_divs.push_back(b.r);
    if (b.r.num() == 0) { g_divzero = true; return QL(); }
    return QL(a.r / b.r, QL::raw());
}
inline QL& QL::operator/=(const QL& o) { *this = *this / o; return *this; }
static inline QL operator-(const QL& a) { return QL(-a.r, QL::raw()); }
static inline QL operator+(const QL& a) { return a; }
static inline bool operator==(const QL& a, const QL& b) { return a.r == b.r; }
static inline bool operator!=(const QL& a, const QL& b) { return !(a.r == b.r); }
static inline bool operator<(const QL& a, const QL& b) { return a.r < b.r; }
static inline bool operator>(const QL& a, const QL& b) { return b.r < a.r; }
static inline bool operator<=(const QL& a, const QL& b) { return !(b.r < a.r); }
static inline bool operator>=(const QL& a, const QL& b) { return !(a.r < b.r); }
#define VF_QMIX(OP, RT) \
static inline RT operator OP(const QL& a, int b) { return a OP QL(b); } \
static inline RT operator OP(int a, const QL& b) { return QL(a) OP b; } \
static inline RT operator OP(const QL& a, double b) { return a OP QL(b); } \
static inline RT operator OP(double a, const QL& b) { return QL(a) OP b; }
VF_QMIX(+, QL) VF_QMIX(-, QL) VF_QMIX(*, QL) VF_QMIX(/, QL) VF_QMIX(<, bool) VF_QMIX(>, bool) VF_QMIX(==, bool)
#undef VF_QMIX
static inline std::ostream& operator<<(std::ostream& os, const QL& q) { return os << q.r.str(); }
} // namespace vf
namespace std {
template<> struct is_arithmetic<vf::QL> : std::true_type {};
inline vf::QL abs(const vf::QL& a) { return a.r.num() < 0 ? -a : a; }
inline vf::QL sqrt(const vf::QL& a) { return vf::QL(vf::rsqrt_exact(a.r), vf::QL::raw()); }
inline vf::QL conj(const vf::QL& a) { return a; }
}

#include <Fastor/Fastor.h>
namespace Fastor { template<> struct is_numeric<vf::QL> { static constexpr bool value = true; }; }
#include "inverse_calls.h"

namespace c10 {
using namespace Fastor;
using vf::QL; using vf::Rat;

static inline uint64_t fnv1a(uint64_t h, const std::string& s) {
    for (unsigned char c : s) { h ^= (uint64_t)c; h *= 1099511628211ULL; }
    return h;
}
static const uint64_t FNV_INIT = 14695981039346656037ULL;
static inline std::string hex16(uint64_t x) { char b[32]; std::snprintf(b, sizeof b, "%016llx", (unsigned long long)x); return b; }
template<class It> static inline std::string digest_rats(It b, It e) {
    uint64_t h = FNV_INIT;
    for (; b != e; ++b) { h = fnv1a(h, b->str()); h = fnv1a(h, ";"); }
    return hex16(h);
}

// rat.h multiplies numerators/denominators in __int128 before it checks the 2^100 limit, so values must stay
// below 2^62 for the products to be exact: a case that leaves this range is reported as inconclusive
static inline bool pool_in_range() {
    const vf::i128 LIM = (vf::i128)1 << 62;
    for (const auto& v : vf::ratpool.v) if (vf::iabs(v.n) > LIM || v.d > LIM) return false;
    return true;
}
static sigjmp_buf g_jmp;
static volatile sig_atomic_t g_armed = 0;
static void on_abort(int) { if (g_armed) { g_armed = 0; siglongjmp(g_jmp, 1); } }

using namespace icall;

// plain-loop oracle: X*A == I and A*X == I exactly
static inline std::string oracle(size_t n, const QL* A, const QL* X) {
    bool xa = true, ax = true;
    for (size_t i = 0; i < n; ++i) for (size_t j = 0; j < n; ++j) {
        Rat s1, s2;
        for (size_t k = 0; k < n; ++k) { s1 = s1 + X[i*n+k].r * A[k*n+j].r; s2 = s2 + A[i*n+k].r * X[k*n+j].r; }
        Rat e((int)(i == j ? 1 : 0));
        if (!(s1 == e)) xa = false;
        if (!(s2 == e)) ax = false;
    }
    return xa && ax ? "ok" : (!xa && !ax ? "XA+AX" : (!xa ? "XA" : "AX"));
}

template<int S, size_t n>
static std::string run_case(const std::vector<long>& a) {
    vf::ratpool.reset();
    Tensor<QL,n,n> A;
    for (size_t k = 0; k < n * n; ++k) A.data()[k] = QL((long)a[k]);
    std::string pstr;
    if (is_piv(S)) {
        Tensor<size_t,n> P; pivot_inplace(A, P);
        for (size_t i = 0; i < n; ++i) pstr += (i ? "," : "") + std::to_string(P(i));
    }
    vf::g_divs.clear(); vf::g_divzero = false;
    std::string res;
    g_armed = 1;
    if (sigsetjmp(g_jmp, 1) == 0) {
        Tensor<QL,n,n> X = Call<QL, S, n>::go(A);
        g_armed = 0;
        bool def = !vf::g_divzero;
        std::vector<Rat> xs; for (size_t k = 0; k < n * n; ++k) xs.push_back(X.data()[k].r);
        res = std::string("DEF=") + (def ? "1" : "0") + " X=" + digest_rats(xs.begin(), xs.end())
            + " DIVS=" + digest_rats(vf::g_divs.begin(), vf::g_divs.end());
        if (!pstr.empty()) res += " P=" + pstr;
        g_armed = 1;
        if (sigsetjmp(g_jmp, 1) == 0) {
            res += " ORACLE=" + (def ? oracle(n, A.data(), X.data()) : std::string("undefined")); g_armed = 0;
            res += pool_in_range() ? " ERR=none" : " ERR=overflow";
        }
        else res += " ORACLE=unknown ERR=overflow";
    } else {
        res = "DEF=? ERR=overflow";
    }
    return res;
}

// batched inverse over the trailing two axes of a Tensor<QL,NB,J,J>
template<size_t NB, size_t J>
static std::string run_batched(const std::vector<long>& a) {
    vf::ratpool.reset();
    Tensor<QL,NB,J,J> A;
    for (size_t k = 0; k < NB * J * J; ++k) A.data()[k] = QL((long)a[k]);
    vf::g_divs.clear(); vf::g_divzero = false;
    std::string res;
    g_armed = 1;
    if (sigsetjmp(g_jmp, 1) == 0) {
        Tensor<QL,NB,J,J> X = inverse(A);
        g_armed = 0;
        bool def = !vf::g_divzero;
        std::vector<Rat> xs; for (size_t k = 0; k < NB * J * J; ++k) xs.push_back(X.data()[k].r);
        // the batched loop also evaluates _det of every slice (unused); it performs no division
        res = std::string("DEF=") + (def ? "1" : "0") + " X=" + digest_rats(xs.begin(), xs.end())
            + " DIVS=" + digest_rats(vf::g_divs.begin(), vf::g_divs.end());
        std::string o = "ok";
        if (def) for (size_t b = 0; b < NB; ++b) { std::string ob = oracle(J, A.data() + b*J*J, X.data() + b*J*J); if (ob != "ok") o = ob; }
        res += " ORACLE=" + (def ? o : std::string("undefined")) + (pool_in_range() ? " ERR=none" : " ERR=overflow");
    } else res = "DEF=? ERR=overflow";
    return res;
}

// batched inverse of a rank-4 tensor Tensor<QL,N1,N2,J,J> (N1*N2 matrices)
template<size_t N1, size_t N2, size_t J>
static std::string run_batched4(const std::vector<long>& a) {
    vf::ratpool.reset();
    const size_t NB = N1 * N2;
    Tensor<QL,N1,N2,J,J> A;
    for (size_t k = 0; k < NB * J * J; ++k) A.data()[k] = QL((long)a[k]);
    vf::g_divs.clear(); vf::g_divzero = false;
    std::string res;
    g_armed = 1;
    if (sigsetjmp(g_jmp, 1) == 0) {
        Tensor<QL,N1,N2,J,J> X = inverse(A);
        g_armed = 0;
        bool def = !vf::g_divzero;
        std::vector<Rat> xs; for (size_t k = 0; k < NB * J * J; ++k) xs.push_back(X.data()[k].r);
        res = std::string("DEF=") + (def ? "1" : "0") + " X=" + digest_rats(xs.begin(), xs.end())
            + " DIVS=" + digest_rats(vf::g_divs.begin(), vf::g_divs.end());
        std::string o = "ok";
        if (def) for (size_t b = 0; b < NB; ++b) { std::string ob = oracle(J, A.data() + b*J*J, X.data() + b*J*J); if (ob != "ok") o = ob; }
        res += " ORACLE=" + (def ? o : std::string("undefined")) + (pool_in_range() ? " ERR=none" : " ERR=overflow");
    } else res = "DEF=? ERR=overflow";
    return res;
}

typedef std::string (*runner_t)(const std::vector<long>&);
static std::map<std::string, runner_t> g_runners;
#define REG_INV(S, N) c10::g_runners[std::string(#S) + "/" + std::to_string(N)] = &c10::run_case<c10::S, N>
#define REG_BATCH(NB, J) c10::g_runners["batched/" + std::to_string(NB) + "/" + std::to_string(J)] = &c10::run_batched<NB, J>
// rank 4: registered under the same key as the rank-3 batch with NB = N1*N2 (the model does not depend on the rank)
#define REG_BATCH4(N1, N2, J) c10::g_runners["batched4/" + std::to_string((N1)*(N2)) + "/" + std::to_string(J)] = &c10::run_batched4<N1, N2, J>

static inline std::string upper(std::string s) { for (auto& c : s) c = (char)std::toupper(c); return s; }

static int run_file(const char* path) {
    std::signal(SIGABRT, on_abort);
    // the Rat carrier reports overflow on stderr before aborting; keep stderr quiet but available
    std::ifstream in(path);
    std::string line;
    while (std::getline(in, line)) {
        if (line.empty()) continue;
        std::istringstream ss(line);
        std::string tok, strat, astr; size_t n = 0, nb = 0;
        while (ss >> tok) {
            if (tok.rfind("strat=", 0) == 0) strat = tok.substr(6);
            else if (tok.rfind("n=", 0) == 0) n = std::stoul(tok.substr(2));
            else if (tok.rfind("nb=", 0) == 0) nb = std::stoul(tok.substr(3));
            else if (tok.rfind("a=", 0) == 0) astr = tok.substr(2);
        }
        std::vector<long> a; { std::istringstream as(astr); std::string t; while (std::getline(as, t, ',')) a.push_back(std::stol(t)); }
        size_t want = strat == "batched" ? nb * n * n : n * n;
        std::vector<std::pair<std::string, std::string>> keys;   // (registry key, variant tag)
        if (strat == "batched") {
            keys.push_back({"batched/" + std::to_string(nb) + "/" + std::to_string(n), "rank3"});
            keys.push_back({"batched4/" + std::to_string(nb) + "/" + std::to_string(n), "rank4"});
        } else {
            int b = variant_id(strat);
            for (int v = 0; v < NVAR; ++v) if (base_of[v] == b) keys.push_back({upper(names[v]) + "/" + std::to_string(n), names[v]});
        }
        for (auto& kk : keys) {
            auto it = g_runners.find(kk.first);
            if (it == g_runners.end()) continue;
            if (a.size() != want) { std::printf("%s via=%s | ERR=badcase\n", line.c_str(), kk.second.c_str()); continue; }
            std::string res = it->second(a);
            std::printf("%s via=%s | %s\n", line.c_str(), kk.second.c_str(), res.c_str());
            std::fflush(stdout);
        }
    }
    return 0;
}
} // namespace c10
#endif
