// C12 (K3): the REAL solve<SolveCompType::…> overloads (tensor and expression forms, vector and matrix right-hand sides) and the
// substitution helpers internal::forward_subs / backward_subs over the exact rational carrier.
//   solve n= c= vec= strat= form= fam= seed= A= B= | X= ORACLE= OOB=0      (fmodel `solve`)
//   fsub  n= c= vec= p=<perm|-> seed= L= B=        | X= ORACLE= OOB=0      (fmodel `fsub`)
//   bsub  n= c= vec= seed= U= B=                   | X= ORACLE= OOB=0      (fmodel `bsub`)
// ORACLE: A*X == B (L*X == B∘p, U*X == B) exactly, plain loops over vf::Rat, independent of the model and of the library's products.
#ifndef VF_SOLVE_RAT_H
#define VF_SOLVE_RAT_H
#include "lu_rat.h"

namespace vsl {
using namespace vlu;
static const char* SSTRAT_NAME[] = {"inv", "invpiv", "block", "blockpiv", "simple", "simplepiv"};

template<int STRAT> struct ST;
template<> struct ST<0> { static constexpr Fastor::SolveCompType v = Fastor::SolveCompType::SimpleInv; };
template<> struct ST<1> { static constexpr Fastor::SolveCompType v = Fastor::SolveCompType::SimpleInvPiv; };
template<> struct ST<2> { static constexpr Fastor::SolveCompType v = Fastor::SolveCompType::BlockLU; };
template<> struct ST<3> { static constexpr Fastor::SolveCompType v = Fastor::SolveCompType::BlockLUPiv; };
template<> struct ST<4> { static constexpr Fastor::SolveCompType v = Fastor::SolveCompType::SimpleLU; };
template<> struct ST<5> { static constexpr Fastor::SolveCompType v = Fastor::SolveCompType::SimpleLUPiv; };

template<class TA, class TB> static std::string mstr2(const TA& X, size_t r, size_t c) {
    std::string s; const Rat* d = X.data();
    for (size_t i = 0; i < r * c; ++i) { if (i) s += ','; s += d[i].str(); }
    return s;
}
static int pool_bits() { i128 hmax = 0; for (const vf::RatV& v : vf::ratpool.v) { if (vf::iabs(v.n) > hmax) hmax = vf::iabs(v.n); if (v.d > hmax) hmax = v.d; }
    int bits = 0; while (hmax > 0) { ++bits; hmax >>= 1; } return bits; }

// the right-hand side as the library sees it: Tensor<Rat,n> (C == 0) or Tensor<Rat,n,C>
template<size_t n, size_t C> struct RHS { typedef Fastor::Tensor<Rat, n, C> type; static constexpr size_t cols = C; };
template<size_t n> struct RHS<n, 0> { typedef Fastor::Tensor<Rat, n> type; static constexpr size_t cols = 1; };

// FORM 0: tensors; 1: A an expression; 2: B an expression; 3: both (the four AbstractTensor overloads of binary_solve_op.h);
// 4: solve(trans(At), B) with At the stored transpose of A (a unary expression as the matrix)
template<size_t n, size_t C, int STRAT, int FORM> void run_solve(unsigned seed, int fam) {
    using namespace Fastor;
    typedef typename RHS<n, C>::type TB; constexpr size_t c = RHS<n, C>::cols;
    vf::ratpool.reset();
    SMat SA; int tries = 0;
    char head[256];
    std::snprintf(head, sizeof head, "solve n=%zu c=%zu vec=%d strat=%s form=%d fam=%d seed=%u", n, c, C == 0 ? 1 : 0, SSTRAT_NAME[STRAT], FORM, fam, seed);
    if (!gen_input(seed, fam, n, (STRAT % 2) == 1, SA, tries)) { std::printf("note: %s no admissible input found\n", head); return; }
    Tensor<Rat, n, n> A; for (size_t i = 0; i < n * n; ++i) A.data()[i] = Rat::make(SA[i].n, SA[i].d);
    Rng r((uint64_t)seed * 31337ULL + n * 7 + c);
    TB B; for (size_t i = 0; i < n * c; ++i) B.data()[i] = Rat(r.upto(7) - 3);
    const Tensor<Rat, n, n> A0(A); const TB B0(B);
    Tensor<Rat, n, n> Z; Z.fill(Rat(0)); TB ZB; ZB.fill(Rat(0));
    const std::string inputs = "A=" + mstr(A0) + " B=" + mstr2<TB, TB>(B0, n, c);
    VF_TRAP_GUARD(head, inputs.c_str())
    TB X;
    if (FORM == 0) X = solve<ST<STRAT>::v>(A, B);
    else if (FORM == 1) X = solve<ST<STRAT>::v>(A + Z, B);
    else if (FORM == 2) X = solve<ST<STRAT>::v>(A, B + ZB);
    else if (FORM == 3) X = solve<ST<STRAT>::v>(A + Z, B + ZB);
    else { Tensor<Rat, n, n> At; for (size_t i = 0; i < n; ++i) for (size_t j = 0; j < n; ++j) At(j, i) = A(i, j); X = solve<ST<STRAT>::v>(trans(At), B); }
    std::string why;
    for (size_t i = 0; i < n * n && why.empty(); ++i) if (!(A.data()[i] == A0.data()[i])) why = "A-modified";
    for (size_t i = 0; i < n * c && why.empty(); ++i) if (!(B.data()[i] == B0.data()[i])) why = "B-modified";
    for (size_t i = 0; i < n && why.empty(); ++i) for (size_t j = 0; j < c; ++j) {
        Rat s(0); for (size_t k = 0; k < n; ++k) s = s + A0(i, k) * X.data()[k * c + j];
        if (!(s == B0.data()[i * c + j])) { why = "A*X!=B(" + std::to_string(i) + "," + std::to_string(j) + "):" + s.str() + "vs" + B0.data()[i * c + j].str(); break; }
    }
    int bits = pool_bits();
    g_trap_armed = 0;
    if (bits > 62) { std::printf("note: %s arithmetic height %d bits: case not judged\n", head, bits); return; }
    std::printf("%s %s | X=%s ORACLE=%s OOB=0 HBITS=%d\n", head, inputs.c_str(),
                mstr2<TB, TB>(X, n, c).c_str(), why.empty() ? "ok" : ("FAIL:" + why).c_str(), bits);
}

// the substitution helpers on their own: L unit lower / U upper with non-zero diagonal, sparse small integers with short chains
template<size_t n, size_t C> void run_subs(unsigned seed) {
    using namespace Fastor;
    typedef typename RHS<n, C>::type TB; constexpr size_t c = RHS<n, C>::cols;
    vf::ratpool.reset();
    Rng r((uint64_t)seed * 65537ULL + n * 13 + c);
    int den = (int)(n < 6 ? 6 : n);
    Tensor<Rat, n, n> L, U; L.fill(Rat(0)); U.fill(Rat(0));
    for (size_t i = 0; i < n; ++i) { L(i, i) = Rat(1); U(i, i) = Rat(r.sgn() * (1 + r.upto(2))); }
    for (size_t i = 0; i < n; ++i) for (size_t j = 0; j < i; ++j) if (i % 3 > j % 3 && r.chance(6, den)) L(i, j) = Rat(r.sgn() * (1 + r.upto(2)));
    for (size_t i = 0; i < n; ++i) for (size_t j = i + 1; j < n; ++j) if (i % 3 < j % 3 && r.chance(6, den)) U(i, j) = Rat(r.sgn() * (1 + r.upto(2)));
    TB B; for (size_t i = 0; i < n * c; ++i) B.data()[i] = Rat(r.upto(9) - 4);
    Tensor<size_t, n> p; for (size_t i = 0; i < n; ++i) p(i) = i;
    for (size_t i = n; i > 1; --i) std::swap(p(i - 1), p(r.upto((int)i)));
    std::string ps; for (size_t i = 0; i < n; ++i) { if (i) ps += ','; ps += std::to_string(p(i)); }
    auto check = [&](const Tensor<Rat, n, n>& M, const TB& X, bool perm) {
        for (size_t i = 0; i < n; ++i) for (size_t j = 0; j < c; ++j) {
            Rat s(0); for (size_t k = 0; k < n; ++k) s = s + M(i, k) * X.data()[k * c + j];
            const Rat& want = B.data()[(perm ? p(i) : i) * c + j];
            if (!(s == want)) return "FAIL:M*X!=B(" + std::to_string(i) + "," + std::to_string(j) + "):" + s.str() + "vs" + want.str();
        }
        return std::string("ok");
    };
    int vec = C == 0 ? 1 : 0;
    char head[160]; std::snprintf(head, sizeof head, "fsub n=%zu c=%zu vec=%d p=- seed=%u", n, c, vec, seed);
    const std::string inputs = "L=" + mstr(L) + " B=" + mstr2<TB, TB>(B, n, c);
    VF_TRAP_GUARD(head, inputs.c_str())
    TB X1 = internal::forward_subs(L, B);
    std::printf("fsub n=%zu c=%zu vec=%d p=- seed=%u L=%s B=%s | X=%s ORACLE=%s OOB=0\n", n, c, vec, seed, mstr(L).c_str(), mstr2<TB, TB>(B, n, c).c_str(), mstr2<TB, TB>(X1, n, c).c_str(), check(L, X1, false).c_str());
    TB X2 = internal::forward_subs(L, p, B);
    std::printf("fsub n=%zu c=%zu vec=%d p=%s seed=%u L=%s B=%s | X=%s ORACLE=%s OOB=0\n", n, c, vec, ps.c_str(), seed, mstr(L).c_str(), mstr2<TB, TB>(B, n, c).c_str(), mstr2<TB, TB>(X2, n, c).c_str(), check(L, X2, true).c_str());
    TB X3 = internal::backward_subs(U, B);
    std::printf("bsub n=%zu c=%zu vec=%d seed=%u U=%s B=%s | X=%s ORACLE=%s OOB=0\n", n, c, vec, seed, mstr(U).c_str(), mstr2<TB, TB>(B, n, c).c_str(), mstr2<TB, TB>(X3, n, c).c_str(), check(U, X3, false).c_str());
    g_trap_armed = 0;
}
} // namespace vsl
using vsl::run_solve; using vsl::run_subs;
#endif
