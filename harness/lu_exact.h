// C11 / C12 (K4, EXACT): lu<…>, reconstruct, determinant<LU> and solve<…> on float / double under the ISA of the translation unit,
// on inputs for which EVERY intermediate of every strategy is exactly representable, so the result must be BIT FOR BIT the exact one.
//   A = S (I+M)(D+N):  M strictly lower, entries ±1/4, ±1/2;  D = diag(±32, ±64);  N strictly upper, entries ±1, ±2, ±4 (all dyadic);
//   M and N restricted to index classes (i mod 3) so that chains of non-zeros have length <= 2 (inverses / Schur complements stay short);
//   S = disjoint 2-cycles and 3-cycles of rows (pivoted strategies), arranged (with a boosted entry of N) so that the library's static
//   pivot returns exactly S: this is verified on the input with an independent re-implementation of the pivot rule (candidates that fail
//   are redrawn).  Then L = I+M, U = D+N, p = S are the unique exact answer.
// This reaches the intrinsic paths the rational carrier never does: _lufact<float|double,N>, matmul / tmatmul / tinverse SIMD kernels
// inside the block LU, SIMD _inner in forward/backward substitution, the SIMD inverse kernels behind solve<SimpleInv[Piv]>.
// One line per case:  luexact|solveexact cfg= T= n= … seed= | ok …   or   | FAIL <first differing entry>
#ifndef VF_LU_EXACT_H
#define VF_LU_EXACT_H
#include <Fastor/Fastor.h>
#include <cstdio>
#include <cmath>
#include <vector>
#include <string>

namespace vex {
struct Rng { uint64_t s; explicit Rng(uint64_t seed) : s(seed * 0x9E3779B97F4A7C15ULL + 0x51ED270ULL) { next(); next(); }
    uint64_t next() { s ^= s << 13; s ^= s >> 7; s ^= s << 17; return s; }
    int upto(int m) { return (int)((next() >> 11) % (uint64_t)m); }
    int sgn() { return upto(2) ? 1 : -1; }
    bool chance(int num, int den) { return upto(den) < num; } };
template<class T> struct TN; template<> struct TN<float> { static const char* n() { return "float"; } }; template<> struct TN<double> { static const char* n() { return "double"; } };
static const char* STRAT_NAME[] = {"block", "simple", "blockpiv", "simplepiv"};
static const char* ENC_NAME[] = {"n", "v", "m"};
static const char* SSTRAT_NAME[] = {"inv", "invpiv", "block", "blockpiv", "simple", "simplepiv"};

struct Input { size_t n; std::vector<double> A, L, U; std::vector<size_t> p; int maxcycle; int tries; };

// the library's static pivot rule, re-implemented (first strict column maximum among rows >= j of the ORIGINAL matrix)
static std::vector<size_t> ref_perm(const std::vector<double>& A, size_t n, size_t* nswaps = nullptr) {
    std::vector<size_t> p(n); for (size_t i = 0; i < n; ++i) p[i] = i; size_t cnt = 0;
    for (size_t j = 0; j < n; ++j) { size_t mx = j;
        for (size_t i = j; i < n; ++i) if (std::fabs(A[i * n + j]) > std::fabs(A[mx * n + j])) mx = i;
        if (mx != j) { std::swap(p[j], p[mx]); ++cnt; } }
    if (nswaps) *nswaps = cnt;
    return p;
}
static bool gen(unsigned seed, size_t n, bool pivoted, Input& in) {
    Rng r((uint64_t)seed * 1000003ULL + n * 104729ULL + (pivoted ? 17 : 0));
    in.n = n;
    for (in.tries = 1; in.tries <= 400; ++in.tries) {
        std::vector<double> L(n * n, 0.0), U(n * n, 0.0), A(n * n, 0.0);
        int den = (int)(n < 8 ? 8 : n);
        for (size_t i = 0; i < n; ++i) { L[i * n + i] = 1; U[i * n + i] = r.sgn() * (r.upto(2) ? 32.0 : 64.0); }
        for (size_t i = 0; i < n; ++i) for (size_t j = 0; j < i; ++j) if (i % 3 > j % 3 && r.chance(9, den)) L[i * n + j] = r.sgn() * (r.upto(2) ? 0.5 : 0.25);
        for (size_t i = 0; i < n; ++i) for (size_t j = i + 1; j < n; ++j) if (i % 3 < j % 3 && r.chance(9, den)) U[i * n + j] = r.sgn() * (double)(1 << r.upto(3));
        // target[pos] = row of B = L*U that sits at position pos of A
        std::vector<size_t> target(n); for (size_t i = 0; i < n; ++i) target[i] = i;
        std::vector<size_t> want(n); for (size_t i = 0; i < n; ++i) want[i] = i;   // the permutation the library must return
        in.maxcycle = 1;
        if (pivoted && n >= 2) {
            std::vector<bool> used(n, false);
            size_t groups = 1 + n / 5;
            for (size_t t = 0; t < groups * 4 && groups > 0; ++t) {
                bool three = n >= 3 && r.upto(2);
                size_t a = r.upto((int)n), b = r.upto((int)n), c = r.upto((int)n);
                if (a > b) std::swap(a, b);
                if (three) { if (b > c) std::swap(b, c); if (a > b) std::swap(a, b); }
                if (a == b || used[a] || used[b]) continue;
                if (three && (b == c || used[c])) continue;
                if (!three) { // rows a<b exchanged: A[b] = B_a, A[a] = B_b ; want p[a]=b, p[b]=a
                    used[a] = used[b] = true; target[b] = a; target[a] = b; want[a] = b; want[b] = a;
                    U[a * n + b] = r.sgn() * 40.0; if (in.maxcycle < 2) in.maxcycle = 2;
                } else { // swaps (a,b) at column a and (b,c) at column b: p[a]=b, p[b]=c, p[c]=a ; A[b]=B_a, A[c]=B_b, A[a]=B_c
                    used[a] = used[b] = used[c] = true; target[b] = a; target[c] = b; target[a] = c; want[a] = b; want[b] = c; want[c] = a;
                    U[b * n + c] = r.sgn() * 40.0; in.maxcycle = 3;
                }
                --groups;
            }
        }
        std::vector<double> B(n * n);
        for (size_t i = 0; i < n; ++i) for (size_t j = 0; j < n; ++j) { double s = 0; for (size_t k = 0; k <= (i < j ? i : j); ++k) s += L[i * n + k] * U[k * n + j]; B[i * n + j] = s; }
        for (size_t pos = 0; pos < n; ++pos) for (size_t j = 0; j < n; ++j) A[pos * n + j] = B[target[pos] * n + j];
        if (pivoted) { std::vector<size_t> p = ref_perm(A, n); if (p != want) continue; }
        in.A = A; in.L = L; in.U = U; in.p = want;
        return true;
    }
    return false;
}
static int perm_sign(const std::vector<size_t>& p) { size_t n = p.size(); std::vector<bool> seen(n, false); int s = 1;
    for (size_t i = 0; i < n; ++i) if (!seen[i]) { size_t len = 0, k = i; while (!seen[k]) { seen[k] = true; k = p[k]; ++len; } if (len % 2 == 0) s = -s; } return s; }

// STRAT 0 block 1 simple 2 blockpiv 3 simplepiv ; ENC 0 none 1 vector 2 matrix ; FORM 0 tensor 1 expression (A1 + A2)
template<class T, size_t n, int STRAT, int ENC, int FORM> void run_luexact(unsigned seed) {
    using namespace Fastor;
    static_assert((STRAT < 2) == (ENC == 0), "pivoted strategies return a permutation");
    char head[220]; std::snprintf(head, sizeof head, "luexact cfg=%s T=%s n=%zu strat=%s enc=%s form=%d seed=%u", CFGNAME, TN<T>::n(), n, STRAT_NAME[STRAT], ENC_NAME[ENC], FORM, seed);
    Input in; if (!gen(seed, n, STRAT >= 2, in)) { std::printf("note: %s no admissible input\n", head); return; }
    Tensor<T, n, n> A, A1, A2;
    for (size_t i = 0; i < n * n; ++i) { A.data()[i] = (T)in.A[i]; double h = std::floor(in.A[i] / 2); A1.data()[i] = (T)h; A2.data()[i] = (T)(in.A[i] - h); }
    const Tensor<T, n, n> A0(A);
    Tensor<T, n, n> L, U, Pm, R; L.fill(T(7)); U.fill(T(-5)); Pm.fill(T(3));
    Tensor<size_t, n> Pv; Pv.fill(999);
    if (FORM == 0) {
        if (ENC == 0) { if (STRAT == 0) lu<LUCompType::BlockLU>(A, L, U); else lu<LUCompType::SimpleLU>(A, L, U); R = reconstruct(L, U); }
        else if (ENC == 1) { if (STRAT == 2) lu<LUCompType::BlockLUPiv>(A, L, U, Pv); else lu<LUCompType::SimpleLUPiv>(A, L, U, Pv); R = reconstruct(L, U, Pv); }
        else { if (STRAT == 2) lu<LUCompType::BlockLUPiv>(A, L, U, Pm); else lu<LUCompType::SimpleLUPiv>(A, L, U, Pm); R = reconstruct(L, U, Pm); }
    } else {
        if (ENC == 0) { if (STRAT == 0) lu<LUCompType::BlockLU>(A1 + A2, L, U); else lu<LUCompType::SimpleLU>(A1 + A2, L, U); R = reconstruct(L, U); }
        else if (ENC == 1) { if (STRAT == 2) lu<LUCompType::BlockLUPiv>(A1 + A2, L, U, Pv); else lu<LUCompType::SimpleLUPiv>(A1 + A2, L, U, Pv); R = reconstruct(L, U, Pv); }
        else { if (STRAT == 2) lu<LUCompType::BlockLUPiv>(A1 + A2, L, U, Pm); else lu<LUCompType::SimpleLUPiv>(A1 + A2, L, U, Pm); R = reconstruct(L, U, Pm); }
    }
    std::string why; char buf[200];
    for (size_t i = 0; i < n * n && why.empty(); ++i) if (!(A.data()[i] == A0.data()[i])) why = "input-modified";
    for (size_t i = 0; i < n && why.empty(); ++i) for (size_t j = 0; j < n; ++j) {
        if (!((double)L(i, j) == in.L[i * n + j])) { std::snprintf(buf, sizeof buf, "L(%zu,%zu)=%.17g exact %.17g", i, j, (double)L(i, j), in.L[i * n + j]); why = buf; break; }
        if (!((double)U(i, j) == in.U[i * n + j])) { std::snprintf(buf, sizeof buf, "U(%zu,%zu)=%.17g exact %.17g", i, j, (double)U(i, j), in.U[i * n + j]); why = buf; break; }
    }
    if (ENC == 1) for (size_t i = 0; i < n && why.empty(); ++i) if (Pv(i) != in.p[i]) { std::snprintf(buf, sizeof buf, "p(%zu)=%zu exact %zu", i, (size_t)Pv(i), in.p[i]); why = buf; }
    if (ENC == 2) for (size_t i = 0; i < n && why.empty(); ++i) for (size_t j = 0; j < n; ++j) if (!(Pm(i, j) == T(in.p[i] == j ? 1 : 0))) { std::snprintf(buf, sizeof buf, "P(%zu,%zu)=%g exact %d", i, j, (double)Pm(i, j), in.p[i] == j ? 1 : 0); why = buf; break; }
    for (size_t i = 0; i < n * n && why.empty(); ++i) if (!(R.data()[i] == A0.data()[i])) { std::snprintf(buf, sizeof buf, "reconstruct(%zu,%zu)=%.17g exact %.17g", i / n, i % n, (double)R.data()[i], (double)A0.data()[i]); why = buf; }
    if (why.empty()) std::printf("%s | ok cycle=%d tries=%d\n", head, in.maxcycle, in.tries);
    else std::printf("%s | FAIL %s\n", head, why.c_str());
}

// determinant<DetCompType::LU>(A) = parity(count_swaps) * prod(diag(U)) on the same inputs (always pivoted: BlockLUPiv inside);
// sizes small enough for the product of the pivots (each ±2^5 or ±2^6) to be exactly representable
template<class T, size_t n> void run_detexact(unsigned seed) {
    using namespace Fastor;
    char head[200]; std::snprintf(head, sizeof head, "detexact cfg=%s T=%s n=%zu seed=%u", CFGNAME, TN<T>::n(), n, seed);
    Input in; if (!gen(seed, n, true, in)) { std::printf("note: %s no admissible input\n", head); return; }
    Tensor<T, n, n> A; for (size_t i = 0; i < n * n; ++i) A.data()[i] = (T)in.A[i];
    T d = determinant<DetCompType::LU>(A);
    double exact = perm_sign(in.p); for (size_t i = 0; i < n; ++i) exact *= in.U[i * n + i];
    if ((double)d == exact) std::printf("%s | ok cycle=%d sign=%d\n", head, in.maxcycle, perm_sign(in.p));
    else std::printf("%s | FAIL determinant<LU>=%.17g exact %.17g (permutation sign %d)\n", head, (double)d, exact, perm_sign(in.p));
}

template<int S> struct ST;
template<> struct ST<0> { static constexpr Fastor::SolveCompType v = Fastor::SolveCompType::SimpleInv; };
template<> struct ST<1> { static constexpr Fastor::SolveCompType v = Fastor::SolveCompType::SimpleInvPiv; };
template<> struct ST<2> { static constexpr Fastor::SolveCompType v = Fastor::SolveCompType::BlockLU; };
template<> struct ST<3> { static constexpr Fastor::SolveCompType v = Fastor::SolveCompType::BlockLUPiv; };
template<> struct ST<4> { static constexpr Fastor::SolveCompType v = Fastor::SolveCompType::SimpleLU; };
template<> struct ST<5> { static constexpr Fastor::SolveCompType v = Fastor::SolveCompType::SimpleLUPiv; };
template<class T, size_t n, size_t C> struct RHS { typedef Fastor::Tensor<T, n, C> type; static constexpr size_t cols = C; };
template<class T, size_t n> struct RHS<T, n, 0> { typedef Fastor::Tensor<T, n> type; static constexpr size_t cols = 1; };

// integer solution X0, B = A*X0 (exact); FORM 0 tensors, 1 A expression, 2 B expression, 3 both, 4 solve(trans(At), B) with At = A^T
template<class T, size_t n, size_t C, int STRAT, int FORM> void run_solveexact(unsigned seed) {
    using namespace Fastor;
    typedef typename RHS<T, n, C>::type TB; constexpr size_t c = RHS<T, n, C>::cols;
    char head[220]; std::snprintf(head, sizeof head, "solveexact cfg=%s T=%s n=%zu c=%zu vec=%d strat=%s form=%d seed=%u", CFGNAME, TN<T>::n(), n, c, C == 0 ? 1 : 0, SSTRAT_NAME[STRAT], FORM, seed);
    Input in; if (!gen(seed, n, (STRAT % 2) == 1, in)) { std::printf("note: %s no admissible input\n", head); return; }
    Rng r((uint64_t)seed * 31337ULL + n * 7 + c);
    std::vector<double> X0(n * c), Bx(n * c, 0.0);
    for (size_t i = 0; i < n * c; ++i) X0[i] = r.upto(7) - 3;
    for (size_t i = 0; i < n; ++i) for (size_t j = 0; j < c; ++j) { double s = 0; for (size_t k = 0; k < n; ++k) s += in.A[i * n + k] * X0[k * c + j]; Bx[i * c + j] = s; }
    Tensor<T, n, n> A, A1, A2, At; TB B, B1, B2;
    for (size_t i = 0; i < n * n; ++i) { A.data()[i] = (T)in.A[i]; double h = std::floor(in.A[i] / 2); A1.data()[i] = (T)h; A2.data()[i] = (T)(in.A[i] - h); }
    for (size_t i = 0; i < n; ++i) for (size_t j = 0; j < n; ++j) At(j, i) = A(i, j);
    for (size_t i = 0; i < n * c; ++i) { B.data()[i] = (T)Bx[i]; double h = std::floor(Bx[i] / 2); B1.data()[i] = (T)h; B2.data()[i] = (T)(Bx[i] - h); }
    TB X;
    if (FORM == 0) X = solve<ST<STRAT>::v>(A, B);
    else if (FORM == 1) X = solve<ST<STRAT>::v>(A1 + A2, B);
    else if (FORM == 2) X = solve<ST<STRAT>::v>(A, B1 + B2);
    else if (FORM == 3) X = solve<ST<STRAT>::v>(A1 + A2, B1 + B2);
    else X = solve<ST<STRAT>::v>(trans(At), B);
    for (size_t i = 0; i < n * c; ++i) if (!((double)X.data()[i] == X0[i])) {
        std::printf("%s | FAIL X(%zu,%zu)=%.17g exact %.17g\n", head, i / c, i % c, (double)X.data()[i], X0[i]); return; }
    std::printf("%s | ok cycle=%d\n", head, in.maxcycle);
}
} // namespace vex
using vex::run_luexact; using vex::run_detexact; using vex::run_solveexact;
#endif
