// Symbolic correspondence harness for C14: permute<Index<p...>>, legacy permutation<Index<p...>>,
// _transpose / transpose / trans over the symbolic carrier (pure data movement: which source token
// lands at which destination, in which order the source is read / the destination stored, which
// cells are touched), and a dump of the compile-time metafunctions.
#include <Fastor/Fastor.h>
#include "simd_sym.h"
#include "hutil.h"
#include "tensor_arena.h"
#include <array>
using namespace vf;
#ifndef CFGNAME
#define CFGNAME "sse2"
#endif
static bool g_verbose = false;

#if FASTOR_CXX_VERSION >= 2017
#define VF_STD 17
#else
#define VF_STD 14
#endif
#define VF_XSTR(x) #x
#define VF_STR(x) VF_XSTR(x)
#ifdef CONTRACT_OPT
#define VF_CO VF_STR(CONTRACT_OPT)
#else
#define VF_CO "d"
#endif

namespace c14 {

template<size_t N> static std::string lst(const std::array<size_t,N>& a) {
    std::string s; for (size_t i = 0; i < N; ++i) { if (i) s += ","; s += std::to_string(a[i]); } return s;
}
template<size_t N> static size_t flat(const std::array<size_t,N>& dims, const std::array<size_t,N>& idx) {
    size_t f = 0; for (size_t k = 0; k < N; ++k) f = f * dims[k] + idx[k]; return f;
}
template<size_t N> static bool next(const std::array<size_t,N>& dims, std::array<size_t,N>& idx) {
    for (int k = (int)N - 1; k >= 0; --k) { if (++idx[k] < dims[k]) return true; idx[k] = 0; } return false;
}
// ordered reads of one window (scalar reads and vector loads lane by lane)
static void rseq_of(int win, uint64_t& h, long& n, std::set<long>& st) {
    h = 0; n = 0;
    for (auto& e : vf::trace.ev) {
        if (e.win != win) continue;
        if (e.kind == 'r') { h = hstep(h, (uint64_t)e.off); ++n; st.insert(e.off); }
        else if (e.kind == 'L' || e.kind == 'A' || e.kind == 'm')
            for (int l = 0; l < 64; ++l) if (e.aux >> l & 1) { h = hstep(h, (uint64_t)(e.off + l)); ++n; st.insert(e.off + l); }
    }
}
template<class R, size_t N> static std::array<size_t,N> dims_of() {
    std::array<size_t,N> d{};
    for (size_t k = 0; k < N; ++k) d[k] = Fastor::get_tensor_dimensions<R>::dims[k];
    return d;
}
// expected polynomial of source cell k
static inline Poly src_poly(int ex, size_t k) {
    Poly p = ptok(mktok(1, (uint32_t)k));
    if (ex) p = padd(p, ptok(mktok(2, (uint32_t)k)));
    return p;
}
// does `out` (extents od) hold A permuted by q:  out(i[q[0]],...,i[q[r-1]]) = A(i),  od[n] = d[q[n]] ?
template<typename T, size_t N>
static bool holds(const T* out, const std::array<size_t,N>& od, const std::array<size_t,N>& d,
                  const std::array<size_t,N>& q, int ex, long& bad) {
    for (size_t n = 0; n < N; ++n) if (od[n] != d[q[n]]) { bad = -2 - (long)n; return false; }
    std::array<size_t,N> i{};
    do {
        std::array<size_t,N> j{}; for (size_t n = 0; n < N; ++n) j[n] = i[q[n]];
        size_t o = flat(od, j);
        if (pool.v[out[o].h] != src_poly(ex, flat(d, i))) { bad = (long)o; return false; }
    } while (next(d, i));
    return true;
}

} // namespace c14

// KIND 0 = permute, 1 = legacy permutation;  EX 0 = tensor argument, 1 = unevaluated expression A+B
namespace c14 {
template<int KIND, int EX> struct Call;
template<> struct Call<0,0> { template<class Idx, class TA> static auto go(const TA& A, const TA&) { return Fastor::permute<Idx>(A); } };
template<> struct Call<0,1> { template<class Idx, class TA> static auto go(const TA& A, const TA& B) { return Fastor::permute<Idx>(A + B); } };
template<> struct Call<1,0> { template<class Idx, class TA> static auto go(const TA& A, const TA&) { return Fastor::permutation<Idx>(A); } };
template<> struct Call<1,1> { template<class Idx, class TA> static auto go(const TA& A, const TA& B) { return Fastor::permutation<Idx>(A + B); } };
}

template<typename T, int KIND, int EX, class Idx, size_t... D>
void run_perm() {
    using namespace Fastor;
    constexpr size_t N = sizeof...(D);
    std::array<size_t,N> d = {D...};
    std::array<size_t,N> p{}; for (size_t k = 0; k < N; ++k) p[k] = Idx::values[k];
    std::printf("permute cfg=%s std=%d co=%s kind=%s ex=%d sz=%d p=%s dims=%s", CFGNAME, VF_STD, VF_CO,
                KIND ? "legacy" : "new", EX, (int)sizeof(T), c14::lst(p).c_str(), c14::lst(d).c_str());
    std::fflush(stdout);
    vf::guarded([&]{
        arena.reset(); pool.reset();
        using TA = Tensor<T,D...>;
        TA* A = arena_tensor<TA>(1); TA* B = arena_tensor<TA>(2);
        vf::trace.clear(); vf::trace.on = true;
        auto R = c14::Call<KIND,EX>::template go<Idx>(*A, *B);
        vf::trace.on = false;
        using RT = decltype(R);
        std::array<size_t,N> od = c14::dims_of<RT,N>();
        uint64_t h1, h2; long n1, n2; std::set<long> s1, s2;
        c14::rseq_of(1, h1, n1, s1); c14::rseq_of(2, h2, n2, s2);
        std::array<size_t,N> q{}; for (size_t k = 0; k < N; ++k) q[p[k]] = k;   // inverse of p
        long bad = -1, bad2 = -1; bool ok;
        if (KIND == 0) ok = c14::holds(R.data(), od, d, p, EX, bad);
        else ok = c14::holds(R.data(), od, d, p, EX, bad) || c14::holds(R.data(), od, d, q, EX, bad2);
        std::printf(" | ODIMS=%s VAL=%s RSEQ=%s NR=%ld", c14::lst(od).c_str(), hex16(val_digest(R.data(), (size_t)R.size())).c_str(),
                    hex16(h1).c_str(), n1);
        if (EX) std::printf(" RSEQ2=%s", hex16(h2).c_str());
        std::printf(" OOB=%ld ORACLE=%s", vf::trace.oob, ok ? "ok" : "FAIL");
        if (!ok) std::printf(" bad=%ld bad_inv=%ld (>=0: first wrong cell of the result; <=-2: extent -2-n differs)", bad, bad2);
        std::printf("\n");
    });
}

// permute composed with the inverse permutation returns the original tensor, cell for cell (same tokens)
template<typename T, int KIND, int EX, class Idx, class InvIdx, size_t... D>
void run_roundtrip() {
    using namespace Fastor;
    constexpr size_t N = sizeof...(D);
    std::array<size_t,N> d = {D...};
    std::array<size_t,N> p{}; for (size_t k = 0; k < N; ++k) p[k] = Idx::values[k];
    std::printf("roundtrip cfg=%s std=%d co=%s kind=%s ex=%d sz=%d p=%s dims=%s", CFGNAME, VF_STD, VF_CO,
                KIND ? "legacy" : "new", EX, (int)sizeof(T), c14::lst(p).c_str(), c14::lst(d).c_str());
    std::fflush(stdout);
    vf::guarded([&]{
        arena.reset(); pool.reset();
        using TA = Tensor<T,D...>;
        TA* A = arena_tensor<TA>(1); TA* B = arena_tensor<TA>(2);
        auto R1 = c14::Call<KIND,EX>::template go<Idx>(*A, *B);
        // second leg: on the evaluated tensor (EX=0) or on an unevaluated expression of it (EX=1: R1 + 0-tensor)
        decltype(R1) Z; for (size_t k = 0; k < (size_t)Z.size(); ++k) Z.data()[k].h = 0;
        auto R2 = c14::Call<KIND,EX>::template go<InvIdx>(R1, Z);
        bool ok = (size_t)R2.size() == (size_t)A->size();
        std::array<size_t,N> od = c14::dims_of<decltype(R2),N>();
        for (size_t n = 0; n < N; ++n) ok = ok && od[n] == d[n];
        long bad = -1;
        for (size_t k = 0; ok && k < (size_t)A->size(); ++k)
            if (pool.v[R2.data()[k].h] != c14::src_poly(EX, k)) { ok = false; bad = (long)k; }
        std::printf(" | %s bad=%ld\n", ok ? "ok" : "FAIL first wrong cell", bad);
    });
}

// dump of the compile-time metafunctions for one permutation and shape
template<class Idx, size_t... D>
void run_pmeta() {
    using namespace Fastor; using namespace Fastor::internal;
    constexpr size_t N = sizeof...(D);
    using seq = typename std_ext::make_index_sequence<N>::type;
    using TT = Tensor<float,D...>;
    using NI = new_permute_impl<Idx,TT,seq>;
    using LI = permute_impl<Idx,TT,seq>;
    std::array<size_t,N> d = {D...};
    std::array<size_t,N> p{}; for (size_t k = 0; k < N; ++k) p[k] = Idx::values[k];
    std::array<size_t,N> nd = c14::dims_of<typename NI::resulting_tensor,N>();
    std::array<size_t,N> ld = c14::dims_of<typename LI::resulting_tensor,N>();
    std::array<size_t,N> ni{}, li{}, lm{}, pa{}, po{};
    for (size_t k = 0; k < N; ++k) {
        ni[k] = NI::resulting_index::values[k]; li[k] = LI::resulting_index::values[k]; lm[k] = LI::maxes_out_type::values[k];
        pa[k] = nprods<Index<D...>,seq>::values[k];
        po[k] = nprods<typename put_dims_in_Index<typename NI::resulting_tensor>::type,seq>::values[k];
    }
    std::printf("pmeta cfg=%s std=%d p=%s dims=%s | NDIMS=%s NIDX=%s NREQ=%d LIDX=%s LDIMS=%s LMAX=%s LREQ=%d PA=%s PO=%s", CFGNAME, VF_STD,
                c14::lst(p).c_str(), c14::lst(d).c_str(), c14::lst(nd).c_str(), c14::lst(ni).c_str(), (int)NI::requires_permutation,
                c14::lst(li).c_str(), c14::lst(ld).c_str(), c14::lst(lm).c_str(), (int)LI::requires_permutation,
                c14::lst(pa).c_str(), c14::lst(po).c_str());
#if FASTOR_CXX_VERSION >= 2017
    using RM = permute_mapped_index_t<Idx, make_index_t<N>>;
    std::array<size_t,N> rv{}; for (size_t k = 0; k < N; ++k) rv[k] = RM::values[k];
    std::printf(" REV=%s", c14::lst(rv).c_str());
#endif
    // the legacy result type must carry the extents the elements are laid out with
    std::printf(" ORACLE=%s\n", ld == lm ? "ok" : "FAIL");
}

#if FASTOR_CXX_VERSION >= 2017
// permute_mapped_index_t<Index<R...>, Index<O...>> on arbitrary (distinct, equal as sets) label packs
template<class IdxR, class IdxO>
void run_pmeta2() {
    using namespace Fastor; using namespace Fastor::internal;
    constexpr size_t N = IdxR::Size;
    using RM = permute_mapped_index_t<IdxR, IdxO>;
    std::array<size_t,N> r{}, o{}, rv{}, want{};
    for (size_t k = 0; k < N; ++k) { r[k] = IdxR::values[k]; o[k] = IdxO::values[k]; rv[k] = RM::values[k]; }
    for (size_t n = 0; n < N; ++n) for (size_t k = 0; k < N; ++k) if (r[k] == o[n]) want[n] = k;   // axis carrying label O[n]
    std::printf("pmeta2 cfg=%s std=%d R=%s O=%s | REV=%s ORACLE=%s\n", CFGNAME, VF_STD, c14::lst(r).c_str(), c14::lst(o).c_str(),
                c14::lst(rv).c_str(), rv == want ? "ok" : "FAIL");
}
#endif

#ifdef FASTOR_TRANS_OUTER_BLOCK_SIZE
#define VF_NR FASTOR_TRANS_OUTER_BLOCK_SIZE
#else
#define VF_NR 1
#endif
#ifdef FASTOR_TRANS_INNER_BLOCK_SIZE
#define VF_NC FASTOR_TRANS_INNER_BLOCK_SIZE
#else
#define VF_NC 1
#endif

namespace c14 {
template<typename T> static int vsize() {
#ifdef FASTOR_AVX_IMPL
    return (int)Fastor::SIMDVector<T,Fastor::DEFAULT_ABI>::Size;
#else
    return 1;
#endif
}
static void trans_head(const char* api, int sz, size_t M, size_t N, int ex) {
    std::printf("transpose cfg=%s std=%d sz=%d M=%zu N=%zu nr=%d nc=%d api=%s ex=%d", CFGNAME, VF_STD, sz, M, N, (int)VF_NR, (int)VF_NC, api, ex);
    std::fflush(stdout);
}
template<typename T> static bool trans_ok(const T* out, size_t M, size_t N, int ex, long& bad) {
    for (size_t i = 0; i < M; ++i) for (size_t j = 0; j < N; ++j)
        if (pool.v[out[j*M+i].h] != src_poly(ex, i*N+j)) { bad = (long)(j*M+i); return false; }
    return true;
}
}

// API 0: the backend `_transpose<T,M,N>(a, out)` on exactly sized buffers (stores, loads, out-of-window accesses traced)
template<typename T, size_t M, size_t N>
void run_trans_raw() {
    c14::trans_head("raw", (int)sizeof(T), M, N, 0);
    vf::guarded([&]{
        arena.reset(); pool.reset();
        T* out = sym_alloc<T>(0, M*N);
        T* a = sym_alloc<T>(1, M*N);
        vf::trace.clear(); vf::trace.on = true;
        Fastor::_transpose<T,M,N>(a, out);
        vf::trace.on = false;
        auto s = summarise(0, g_verbose);
        uint64_t h1; long n1; std::set<long> s1; c14::rseq_of(1, h1, n1, s1);
        long bad = -1; bool ok = c14::trans_ok(out, M, N, 0, bad);
        std::printf(" | V=%d VAL=%s WSEQ=%s NW=%ld RDA=%s RSEQ=%s OOB=%ld ORACLE=%s", c14::vsize<T>(), hex16(val_digest(out, M*N)).c_str(),
                    hex16(s.wseq).c_str(), s.nw, hex16(set_digest(s1)).c_str(), hex16(h1).c_str(), s.oob, ok ? "ok" : "FAIL");
        if (!ok) std::printf(" badcell=%ld got=%s", bad, pstr(pool.v[out[bad].h]).substr(0, 100).c_str());
        if (g_verbose) std::printf(" W=[%s]", s.wlist.c_str());
        std::printf("\n");
    });
}

// API 1: transpose(Tensor) ; API 2: TensorMap dst = trans(Tensor) (direct stores into dst) ;
// API 3: transpose(A+B) ; API 4: Tensor R = trans(A+B)
template<typename T, size_t M, size_t N, int API>
void run_trans_api() {
    using namespace Fastor;
    static const char* names[] = {"raw", "tensor", "mapassign", "exprfn", "exprnode"};
    constexpr int EX = API >= 3 ? 1 : 0;
    c14::trans_head(names[API], (int)sizeof(T), M, N, EX);
    vf::guarded([&]{
        arena.reset(); pool.reset();
        using TA = Tensor<T,M,N>;
        TA* A = arena_tensor<TA>(1); TA* B = arena_tensor<TA>(2);
        T* out = sym_alloc<T>(0, M*N);
        Tensor<T,N,M> R;
        vf::trace.clear(); vf::trace.on = true;
        if (API == 1) R = transpose(*A);
        else if (API == 2) { TensorMap<T,N,M> dst(out); dst = trans(*A); }
        else if (API == 3) R = transpose(*A + *B);
        else { Tensor<T,N,M> R2 = trans(*A + *B); R = R2; }
        vf::trace.on = false;
        const T* res = API == 2 ? out : R.data();
        long bad = -1; bool ok = c14::trans_ok(res, M, N, EX, bad);
        std::printf(" | V=%d VAL=%s", c14::vsize<T>(), hex16(val_digest(res, M*N)).c_str());
        if (API == 2) {
            auto s = summarise(0, g_verbose);
            uint64_t h1; long n1; std::set<long> s1; c14::rseq_of(1, h1, n1, s1);
            std::printf(" WSEQ=%s NW=%ld RDA=%s RSEQ=%s", hex16(s.wseq).c_str(), s.nw, hex16(set_digest(s1)).c_str(), hex16(h1).c_str());
        }
        std::printf(" OOB=%ld ORACLE=%s", vf::trace.oob, ok ? "ok" : "FAIL");
        if (!ok) std::printf(" badcell=%ld", bad);
        std::printf("\n");
    });
}
