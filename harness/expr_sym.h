// Symbolic correspondence harness for element-wise expression assignment (C02).
#include <Fastor/Fastor.h>
#include "simd_sym.h"
#include "hutil.h"
#include "tensor_arena.h"
using namespace vf;
#ifndef CFGNAME
#define CFGNAME "sse2"
#endif
static bool g_verbose = false;

// exact scalar used by the reference evaluation of the same expression text
struct PolyS { Poly p; PolyS() {} PolyS(const Poly& q) : p(q) {} explicit PolyS(int c) : p(pconst(c)) {} };
static inline PolyS operator+(const PolyS& a, const PolyS& b) { return PolyS(padd(a.p, b.p)); }
static inline PolyS operator-(const PolyS& a, const PolyS& b) { return PolyS(padd(a.p, b.p, -1)); }
static inline PolyS operator*(const PolyS& a, const PolyS& b) { return PolyS(pmul(a.p, b.p)); }
static inline PolyS operator-(const PolyS& a) { return PolyS(padd(Poly{}, a.p, -1)); }
// constant of the right scalar type for either evaluation
template<typename T, size_t N> static inline T kk(const Fastor::Tensor<T,N>&, int c) { return T(c); }
static inline PolyS kk(const PolyS&, int c) { return PolyS(c); }

template<typename T, size_t N, int OP, typename F>
void run_expr(const char* enc, F f) {
    vf::guarded([&]{
        using namespace Fastor;
        static const char* opn[] = {"set", "add", "sub", "mul"};
        std::printf("expr cfg=%s sz=%d n=%zu op=%s E=%s", CFGNAME, (int)sizeof(T), N, opn[OP], enc); std::fflush(stdout);
        arena.reset(); pool.reset();
        using TT = Tensor<T,N>;
        TT* D = arena_tensor<TT>(0); TT* A = arena_tensor<TT>(1); TT* B = arena_tensor<TT>(2); TT* C = arena_tensor<TT>(3);
        vf::trace.clear(); vf::trace.on = true;
        if (OP == 0) *D = f(*A, *B, *C);
        else if (OP == 1) *D += f(*A, *B, *C);
        else if (OP == 2) *D -= f(*A, *B, *C);
        else *D *= f(*A, *B, *C);
        vf::trace.on = false;
        auto s = summarise(0, g_verbose);
        bool ok = true; long bad = -1;
        for (size_t p = 0; p < N && ok; ++p) {
            PolyS r = f(PolyS(ptok(mktok(1, p))), PolyS(ptok(mktok(2, p))), PolyS(ptok(mktok(3, p))));
            PolyS d(ptok(mktok(0, p)));
            PolyS want = OP == 0 ? r : OP == 1 ? d + r : OP == 2 ? d - r : d * r;
            if (want.p != pool.v[D->data()[p].h]) { ok = false; bad = p; }
        }
        using V = typename TT::simd_vector_type;
        std::printf(" | V=%d VAL=%s WSEQ=%s NW=%ld ALN=%ld", (int)V::Size, hex16(val_digest(D->data(), N)).c_str(), hex16(s.wseq).c_str(), s.nw, s.aligned);
        for (int w = 1; w <= 3; ++w) if (s.reads.count(w)) std::printf(" RD%d=%s", w, hex16(set_digest(s.reads[w])).c_str());
        std::printf(" OOB=%ld ORACLE=%s", s.oob, ok ? "ok" : "FAIL");
        if (!ok) std::printf(" bad=%ld got=%s", bad, pstr(pool.v[D->data()[bad].h]).substr(0, 200).c_str());
        std::printf("\n");
    });
}
#define EXPR_CASE(T, N, OP, ENC, ...) run_expr<T, N, OP>(ENC, [](const auto& A, const auto& B, const auto& C) { (void)A; (void)B; (void)C; return __VA_ARGS__; })
