// Symbolic correspondence harness for lazy (evaluation-requiring) expressions (C09).
#include <Fastor/Fastor.h>
#include "simd_sym.h"
#include "hutil.h"
#include "tensor_arena.h"
using namespace vf;
#ifndef CFGNAME
#define CFGNAME "sse2"
#endif
static bool g_verbose = false;

// eager reference: n x n matrix of exact polynomials; `%` is the matrix product
template<size_t N> struct PolyM {
    std::vector<Poly> v; PolyM() : v(N * N) {}
};
template<size_t N> PolyM<N> operator+(const PolyM<N>& a, const PolyM<N>& b) { PolyM<N> r; for (size_t i = 0; i < N * N; ++i) r.v[i] = padd(a.v[i], b.v[i]); return r; }
template<size_t N> PolyM<N> operator-(const PolyM<N>& a, const PolyM<N>& b) { PolyM<N> r; for (size_t i = 0; i < N * N; ++i) r.v[i] = padd(a.v[i], b.v[i], -1); return r; }
template<size_t N> PolyM<N> operator*(const PolyM<N>& a, const PolyM<N>& b) { PolyM<N> r; for (size_t i = 0; i < N * N; ++i) r.v[i] = pmul(a.v[i], b.v[i]); return r; }
template<size_t N> PolyM<N> operator%(const PolyM<N>& a, const PolyM<N>& b) {
    PolyM<N> r; for (size_t i = 0; i < N; ++i) for (size_t j = 0; j < N; ++j) { Poly s; for (size_t k = 0; k < N; ++k) s = padd(s, pmul(a.v[i * N + k], b.v[k * N + j])); r.v[i * N + j] = s; } return r; }

template<typename T, size_t N, int OP, typename F>
void run_lazy(const char* enc, F f) {
    vf::guarded([&]{
        using namespace Fastor;
        static const char* opn[] = {"set", "add", "sub", "mul"};
        std::printf("lazy cfg=%s sz=%d n=%zu op=%s E=%s", CFGNAME, (int)sizeof(T), N, opn[OP], enc); std::fflush(stdout);
        arena.reset(); pool.reset();
        using TT = Tensor<T,N,N>;
        TT* D = arena_tensor<TT>(0); TT* A = arena_tensor<TT>(1); TT* B = arena_tensor<TT>(2); TT* C = arena_tensor<TT>(3);
        PolyM<N> pd, pa, pb, pc;
        for (size_t p = 0; p < N * N; ++p) { pd.v[p] = ptok(mktok(0, p)); pa.v[p] = ptok(mktok(1, p)); pb.v[p] = ptok(mktok(2, p)); pc.v[p] = ptok(mktok(3, p)); }
        vf::trace.clear(); vf::trace.on = true;
        if (OP == 0) *D = f(*A, *B, *C, *D);
        else if (OP == 1) *D += f(*A, *B, *C, *D);
        else if (OP == 2) *D -= f(*A, *B, *C, *D);
        else *D *= f(*A, *B, *C, *D);
        vf::trace.on = false;
        auto s = summarise(0, g_verbose);
        PolyM<N> r = f(pa, pb, pc, pd);
        PolyM<N> want = OP == 0 ? r : OP == 1 ? pd + r : OP == 2 ? pd - r : pd * r;
        bool ok = true; long bad = -1;
        for (size_t p = 0; p < N * N && ok; ++p) if (want.v[p] != pool.v[D->data()[p].h]) { ok = false; bad = p; }
        // operands must be untouched
        for (size_t p = 0; p < N * N && ok; ++p)
            if (pool.v[A->data()[p].h] != pa.v[p] || pool.v[B->data()[p].h] != pb.v[p] || pool.v[C->data()[p].h] != pc.v[p]) { ok = false; bad = -2; }
        std::printf(" | VAL=%s PASSES=%ld OOB=%ld ORACLE=%s", hex16(val_digest(D->data(), N * N)).c_str(), s.nw / (long)(N * N), s.oob, ok ? "ok" : "FAIL");
        if (!ok) std::printf(" bad=%ld", bad);
        std::printf("\n");
    });
}
#define LAZY_CASE(T, N, OP, ENC, ...) run_lazy<T, N, OP>(ENC, [](const auto& A, const auto& B, const auto& C, const auto& D) { (void)A; (void)B; (void)C; (void)D; return __VA_ARGS__; })
