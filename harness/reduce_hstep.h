// The per-ABI horizontal helpers of simd_vector/extintrin.h called directly (C16, mechanism 2):
// _mm_hmax/_hmin_ps/_pd, _mm256_hmax/_hmin_ps/_pd, _mm_sum/_prod_ps/_pd, _mm256_sum/_prod_ps/_pd.
// Every line goes through the Lean driver, which EXECUTES the definition that vlib/xlate_simd.py generated from the
// current source for this build configuration (Generated/Simd_<isa>.lean) on the same lanes.
// Data: integer-valued lanes; an extreme in EVERY lane on all-positive / all-negative / mixed backgrounds for min/max,
// distinct powers of two (+ random multiples of 2^16) for sums, small primes for products.
#include <Fastor/Fastor.h>
#include <cstdio>
#include <cstdint>
#include <string>
#include <cmath>
#ifndef CFGNAME
#define CFGNAME "sse2"
#endif
namespace rh {
static inline uint32_t rnd(uint32_t& s) { s = s * 1664525u + 1013904223u; return s >> 8; }
static inline std::string num(double v) { char b[64]; std::snprintf(b, sizeof b, "%.0f", v); return std::string(b) == "-0" ? "0" : b; }

// kind: 0 max, 1 min, 2 sum, 3 product
template<typename T, int L, class F>
void hstep(const char* fn, int kind, uint32_t ds, F f) {
    uint32_t s = ds * 40503u + (uint32_t)(L * 17 + kind);
    static const int primes[8] = {2, 3, 5, 7, 11, 13, 17, 19};
    int ncase = kind < 2 ? 3 * L * 2 : 4;
    for (int c = 0; c < ncase; ++c) {
        alignas(64) T x[16];
        if (kind < 2) {
            int bg = c % 3, l = (c / 3) % L, ext = c / (3 * L);
            for (int i = 0; i < L; ++i) { int m = 2 + (int)(rnd(s) % 900); x[i] = (T)(bg == 0 ? m : bg == 1 ? -m : ((rnd(s) & 1) ? m : -m)); }
            x[l] = (T)(ext == 0 ? (bg == 1 ? -1 : 5000) : (bg == 0 ? 1 : -5000));
        } else if (kind == 2) {
            for (int i = 0; i < L; ++i) x[i] = (T)((c == 1 ? -1 : 1) * (double)(1 << i) + (c >= 2 ? (double)(rnd(s) % 16) * 65536. : 0.));
        } else {
            for (int i = 0; i < L; ++i) x[i] = (T)((i + c) % L < (sizeof(T) == 4 ? 5 : 8) ? primes[(i + c) % L] : 1) * (i == c ? -1 : 1);
        }
        double want = (double)x[0];
        for (int i = 1; i < L; ++i) want = kind == 0 ? std::max(want, (double)x[i]) : kind == 1 ? std::min(want, (double)x[i]) : kind == 2 ? want + (double)x[i] : want * (double)x[i];
        T got = f(x);
        std::printf("hstep cfg=%s fn=%s ds=%u x=", CFGNAME, fn, ds);
        for (int i = 0; i < L; ++i) std::printf("%s%s", i ? "," : "", num((double)x[i]).c_str());
        std::printf(" | R=%s ORACLE=%s\n", num((double)got).c_str(), (double)got == want ? "ok" : "FAIL");
    }
}
#define HSTEP(T, L, FN, KIND, LOAD, CALL) \
    rh::hstep<T, L>(#FN, KIND, ds, [](const T* x) { auto a = LOAD(x); return CALL(a); })

} // namespace rh
// one call per helper
#define HS_ARGS uint32_t ds
static inline void hs_hmax_ps(HS_ARGS)  { HSTEP(float, 4, hmax_ps, 0, _mm_loadu_ps, Fastor::_mm_hmax_ps); }
static inline void hs_hmin_ps(HS_ARGS)  { HSTEP(float, 4, hmin_ps, 1, _mm_loadu_ps, Fastor::_mm_hmin_ps); }
static inline void hs_hmax_pd(HS_ARGS)  { HSTEP(double, 2, hmax_pd, 0, _mm_loadu_pd, Fastor::_mm_hmax_pd); }
static inline void hs_hmin_pd(HS_ARGS)  { HSTEP(double, 2, hmin_pd, 1, _mm_loadu_pd, Fastor::_mm_hmin_pd); }
static inline void hs_sum_ps(HS_ARGS)   { HSTEP(float, 4, sum_ps, 2, _mm_loadu_ps, Fastor::_mm_sum_ps); }
static inline void hs_prod_ps(HS_ARGS)  { HSTEP(float, 4, prod_ps, 3, _mm_loadu_ps, Fastor::_mm_prod_ps); }
static inline void hs_sum_pd(HS_ARGS)   { HSTEP(double, 2, sum_pd, 2, _mm_loadu_pd, Fastor::_mm_sum_pd); }
static inline void hs_prod_pd(HS_ARGS)  { HSTEP(double, 2, prod_pd, 3, _mm_loadu_pd, Fastor::_mm_prod_pd); }
#define VF_LOADI(x) _mm_loadu_si128((const __m128i*)(x))
static inline void hs_sum_epi32(HS_ARGS)  { HSTEP(int32_t, 4, sum_epi32, 2, VF_LOADI, Fastor::_mm_sum_epi32); }
static inline void hs_prod_epi32(HS_ARGS) { HSTEP(int32_t, 4, prod_epi32, 3, VF_LOADI, Fastor::_mm_prod_epi32); }
#ifdef FASTOR_AVX_IMPL
static inline void hs_hmax256_ps(HS_ARGS) { HSTEP(float, 8, hmax256_ps, 0, _mm256_loadu_ps, Fastor::_mm256_hmax_ps); }
static inline void hs_hmin256_ps(HS_ARGS) { HSTEP(float, 8, hmin256_ps, 1, _mm256_loadu_ps, Fastor::_mm256_hmin_ps); }
static inline void hs_hmax256_pd(HS_ARGS) { HSTEP(double, 4, hmax256_pd, 0, _mm256_loadu_pd, Fastor::_mm256_hmax_pd); }
static inline void hs_hmin256_pd(HS_ARGS) { HSTEP(double, 4, hmin256_pd, 1, _mm256_loadu_pd, Fastor::_mm256_hmin_pd); }
static inline void hs_sum256_ps(HS_ARGS)  { HSTEP(float, 8, sum256_ps, 2, _mm256_loadu_ps, Fastor::_mm256_sum_ps); }
static inline void hs_prod256_ps(HS_ARGS) { HSTEP(float, 8, prod256_ps, 3, _mm256_loadu_ps, Fastor::_mm256_prod_ps); }
static inline void hs_sum256_pd(HS_ARGS)  { HSTEP(double, 4, sum256_pd, 2, _mm256_loadu_pd, Fastor::_mm256_sum_pd); }
static inline void hs_prod256_pd(HS_ARGS) { HSTEP(double, 4, prod256_pd, 3, _mm256_loadu_pd, Fastor::_mm256_prod_pd); }
#endif
static bool g_verbose = false;
