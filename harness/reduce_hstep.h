// The per-ABI horizontal helpers of simd_vector/extintrin.h called directly (C16, mechanism 2):
// _mm_hmax/_hmin_ps/_pd, _mm256_hmax/_hmin_ps/_pd, _mm_sum/_prod_ps/_pd, _mm256_sum/_prod_ps/_pd.
// Every line goes through the Lean driver, which EXECUTES the definition that vlib/xlate_simd.py generated from the
// current source for this build configuration (Generated/Simd_<isa>.lean) on the same lanes.
// Data: integer-valued lanes; an extreme in EVERY lane on all-positive / all-negative / mixed backgrounds for min/max,
// distinct powers of two (+ random multiples of 2^16) for sums, small primes for products.
#include <Fastor/Fastor.h>
#include <cstdio>
#include <cstdint>
#include <string>
#include <cmath>
#ifndef CFGNAME
#define CFGNAME "sse2"
#endif
// compiled with -DFASTOR_USE_HADD the helpers have their second body: the driver then executes Generated/C16Hadd_<isa>.lean
#ifdef FASTOR_USE_HADD
#define VF_CFG CFGNAME "-hadd"
#else
#define VF_CFG CFGNAME
#endif
namespace rh {
static inline uint32_t rnd(uint32_t& s) { s = s * 1664525u + 1013904223u; return s >> 8; }
static inline std::string num(double v) { char b[64]; std::snprintf(b, sizeof b, "%.0f", v); return std::string(b) == "-0" ? "0" : b; }

// kind: 0 max, 1 min, 2 sum, 3 product
template<typename T, int L, class F>
void hstep(const char* fn, int kind, uint32_t ds, F f) {
    uint32_t s = ds * 40503u + (uint32_t)(L * 17 + kind);
    static const int primes[8] = {2, 3, 5, 7, 11, 13, 17, 19};
    int ncase = kind < 2 ? 3 * L * 2 : 4;
    for (int c = 0; c < ncase; ++c) {
        alignas(64) T x[16];
        if (kind < 2) {
            int bg = c % 3, l = (c / 3) % L, ext = c / (3 * L);
            for (int i = 0; i < L; ++i) { int m = 2 + (int)(rnd(s) % 900); x[i] = (T)(bg == 0 ? m : bg == 1 ? -m : ((rnd(s) & 1) ? m : -m)); }
            x[l] = (T)(ext == 0 ? (bg == 1 ? -1 : 5000) : (bg == 0 ? 1 : -5000));
        } else if (kind == 2) {
            for (int i = 0; i < L; ++i) x[i] = (T)((c == 1 ? -1 : 1) * (double)(1 << i) + (c >= 2 ? (double)(rnd(s) % 16) * 65536. : 0.));
        } else {
            for (int i = 0; i < L; ++i) x[i] = (T)((i + c) % L < (sizeof(T) == 4 ? 5 : 8) ? primes[(i + c) % L] : 1) * (i == c ? -1 : 1);
        }
        double want = (double)x[0];
        for (int i = 1; i < L; ++i) want = kind == 0 ? std::max(want, (double)x[i]) : kind == 1 ? std::min(want, (double)x[i]) : kind == 2 ? want + (double)x[i] : want * (double)x[i];
        T got = f(x);
        std::printf("hstep cfg=%s fn=%s ds=%u x=", VF_CFG, fn, ds);
        for (int i = 0; i < L; ++i) std::printf("%s%s", i ? "," : "", num((double)x[i]).c_str());
        std::printf(" | R=%s ORACLE=%s\n", num((double)got).c_str(), (double)got == want ? "ok" : "FAIL");
    }
}
#define HSTEP(T, L, FN, KIND, LOAD, CALL) \
    rh::hstep<T, L>(#FN, KIND, ds, [](const T* x) { auto a = LOAD(x); return CALL(a); })

} // namespace rh
// one call per helper
#define HS_ARGS uint32_t ds
static inline void hs_hmax_ps(HS_ARGS)  { HSTEP(float, 4, hmax_ps, 0, _mm_loadu_ps, Fastor::_mm_hmax_ps); }
static inline void hs_hmin_ps(HS_ARGS)  { HSTEP(float, 4, hmin_ps, 1, _mm_loadu_ps, Fastor::_mm_hmin_ps); }
static inline void hs_hmax_pd(HS_ARGS)  { HSTEP(double, 2, hmax_pd, 0, _mm_loadu_pd, Fastor::_mm_hmax_pd); }
static inline void hs_hmin_pd(HS_ARGS)  { HSTEP(double, 2, hmin_pd, 1, _mm_loadu_pd, Fastor::_mm_hmin_pd); }
static inline void hs_sum_ps(HS_ARGS)   { HSTEP(float, 4, sum_ps, 2, _mm_loadu_ps, Fastor::_mm_sum_ps); }
static inline void hs_prod_ps(HS_ARGS)  { HSTEP(float, 4, prod_ps, 3, _mm_loadu_ps, Fastor::_mm_prod_ps); }
static inline void hs_sum_pd(HS_ARGS)   { HSTEP(double, 2, sum_pd, 2, _mm_loadu_pd, Fastor::_mm_sum_pd); }
static inline void hs_prod_pd(HS_ARGS)  { HSTEP(double, 2, prod_pd, 3, _mm_loadu_pd, Fastor::_mm_prod_pd); }
#define VF_LOADI(x) _mm_loadu_si128((const __m128i*)(x))
static inline void hs_sum_epi32(HS_ARGS)  { HSTEP(int32_t, 4, sum_epi32, 2, VF_LOADI, Fastor::_mm_sum_epi32); }
static inline void hs_prod_epi32(HS_ARGS) { HSTEP(int32_t, 4, prod_epi32, 3, VF_LOADI, Fastor::_mm_prod_epi32); }
#ifdef FASTOR_AVX_IMPL
static inline void hs_hmax256_ps(HS_ARGS) { HSTEP(float, 8, hmax256_ps, 0, _mm256_loadu_ps, Fastor::_mm256_hmax_ps); }
static inline void hs_hmin256_ps(HS_ARGS) { HSTEP(float, 8, hmin256_ps, 1, _mm256_loadu_ps, Fastor::_mm256_hmin_ps); }
static inline void hs_hmax256_pd(HS_ARGS) { HSTEP(double, 4, hmax256_pd, 0, _mm256_loadu_pd, Fastor::_mm256_hmax_pd); }
static inline void hs_hmin256_pd(HS_ARGS) { HSTEP(double, 4, hmin256_pd, 1, _mm256_loadu_pd, Fastor::_mm256_hmin_pd); }
static inline void hs_sum256_ps(HS_ARGS)  { HSTEP(float, 8, sum256_ps, 2, _mm256_loadu_ps, Fastor::_mm256_sum_ps); }
static inline void hs_prod256_ps(HS_ARGS) { HSTEP(float, 8, prod256_ps, 3, _mm256_loadu_ps, Fastor::_mm256_prod_ps); }
static inline void hs_sum256_pd(HS_ARGS)  { HSTEP(double, 4, sum256_pd, 2, _mm256_loadu_pd, Fastor::_mm256_sum_pd); }
static inline void hs_prod256_pd(HS_ARGS) { HSTEP(double, 4, prod256_pd, 3, _mm256_loadu_pd, Fastor::_mm256_prod_pd); }
#endif

#ifdef FASTOR_AVX_IMPL
// ---------------------------------------------------------------------------------------------
// the intrinsic SPECIALISATIONS of the reduction back ends called directly: _norm<T,4|9>, _trace<T,2|3>, the AVX _det<T,2|3>,
// _doublecontract<T,2|3>; the driver executes the definitions generated by props/c16_xlate.py (Generated/C16Spec_<isa>.lean)
// on the same integer-valued elements.  `_norm`: the radicand round(r*r) is compared (sqrt is the identity in the driver).
namespace rh {
// what: 0 norm (radicand), 1 trace, 2 det, 3 doublecontract
template<typename T, int N, class F>
void hspec(const char* fn, int what, int M, uint32_t ds, F f) {
    uint32_t s = ds * 92821u + (uint32_t)(N * 7 + what);
    for (int c = 0; c < 6; ++c) {
        alignas(64) T x[16], y[16];
        for (int i = 0; i < 16; ++i) { x[i] = (T)((int)(rnd(s) % 15) - 7); y[i] = (T)((int)(rnd(s) % 9) - 4); }
        if (c == 1) for (int i = 0; i < N; ++i) x[i] = (T)(-1 - (int)(rnd(s) % 7));       // all negative
        double want = 0;
        if (what == 0) for (int i = 0; i < N; ++i) want += (double)x[i] * x[i];
        else if (what == 1) for (int i = 0; i < M; ++i) want += (double)x[i * M + i];
        else if (what == 2) want = M == 2 ? (double)x[0] * x[3] - (double)x[1] * x[2]
                                  : (double)x[0] * (x[4] * x[8] - x[5] * x[7]) - (double)x[1] * (x[3] * x[8] - x[5] * x[6]) + (double)x[2] * (x[3] * x[7] - x[4] * x[6]);
        else for (int i = 0; i < N; ++i) want += (double)x[i] * y[i];
        double got = (double)f(x, y);
        if (what == 0) got = std::round(got * got);
        std::printf("hspec cfg=%s fn=%s ds=%u x=", VF_CFG, fn, ds);
        for (int i = 0; i < N; ++i) std::printf("%s%s", i ? "," : "", num((double)x[i]).c_str());
        if (what == 3) { std::printf(" y="); for (int i = 0; i < N; ++i) std::printf("%s%s", i ? "," : "", num((double)y[i]).c_str()); }
        std::printf(" | R=%s ORACLE=%s\n", num(got).c_str(), got == want ? "ok" : "FAIL");
    }
}
}
#define HSPEC(T, N, FN, WHAT, M, CALL) rh::hspec<T, N>(#FN, WHAT, M, ds, [](const T* x, const T* y) { (void)y; return CALL; })
static inline void hp_norm_float_4(HS_ARGS)   { HSPEC(float, 4, norm_float_4, 0, 0, (Fastor::_norm<float,4>(x))); }
static inline void hp_norm_float_9(HS_ARGS)   { HSPEC(float, 9, norm_float_9, 0, 0, (Fastor::_norm<float,9>(x))); }
static inline void hp_norm_double_4(HS_ARGS)  { HSPEC(double, 4, norm_double_4, 0, 0, (Fastor::_norm<double,4>(x))); }
static inline void hp_norm_double_9(HS_ARGS)  { HSPEC(double, 9, norm_double_9, 0, 0, (Fastor::_norm<double,9>(x))); }
static inline void hp_trace_float_2x2(HS_ARGS)  { HSPEC(float, 4, trace_float_2x2, 1, 2, (Fastor::_trace<float,2,2>(x))); }
static inline void hp_trace_float_3x3(HS_ARGS)  { HSPEC(float, 9, trace_float_3x3, 1, 3, (Fastor::_trace<float,3,3>(x))); }
static inline void hp_trace_double_2x2(HS_ARGS) { HSPEC(double, 4, trace_double_2x2, 1, 2, (Fastor::_trace<double,2,2>(x))); }
static inline void hp_trace_double_3x3(HS_ARGS) { HSPEC(double, 9, trace_double_3x3, 1, 3, (Fastor::_trace<double,3,3>(x))); }
static inline void hp_det_float_2(HS_ARGS)   { HSPEC(float, 4, det_float_2, 2, 2, (Fastor::_det<float,2,2>(x))); }
static inline void hp_det_float_3(HS_ARGS)   { HSPEC(float, 9, det_float_3, 2, 3, (Fastor::_det<float,3,3>(x))); }
static inline void hp_det_double_2(HS_ARGS)  { HSPEC(double, 4, det_double_2, 2, 2, (Fastor::_det<double,2,2>(x))); }
static inline void hp_det_double_3(HS_ARGS)  { HSPEC(double, 9, det_double_3, 2, 3, (Fastor::_det<double,3,3>(x))); }
static inline void hp_doublecontract_float_2x2(HS_ARGS)  { HSPEC(float, 4, doublecontract_float_2x2, 3, 2, (Fastor::_doublecontract<float,2,2>(x, y))); }
static inline void hp_doublecontract_float_3x3(HS_ARGS)  { HSPEC(float, 9, doublecontract_float_3x3, 3, 3, (Fastor::_doublecontract<float,3,3>(x, y))); }
static inline void hp_doublecontract_double_2x2(HS_ARGS) { HSPEC(double, 4, doublecontract_double_2x2, 3, 2, (Fastor::_doublecontract<double,2,2>(x, y))); }
static inline void hp_doublecontract_double_3x3(HS_ARGS) { HSPEC(double, 9, doublecontract_double_3x3, 3, 3, (Fastor::_doublecontract<double,3,3>(x, y))); }
#endif
static bool g_verbose = false;
