// Symbolic correspondence harness for index-tensor views and boolean-mask views (C19).
//
// One line per case:   rview <inputs> | <observables>
//   inputs   cfg sz vea k (overload) r c (parent extents) m n (view extents) i0 i1 num f s (index data)
//            ity (index element type) act (read|write) op E (postfix tree of the other side) cst
//   observables  V VAL WSEQ NW RD1.. OOB ORACLE
// The index tensors / masks are run-time data, so one instantiation serves many index vectors.
// Windows: 0 = B (destination of reads), 1 = A (parent of the view), 2,3 = R,R2 (tensors of the
// view's shape), 4 = C (second parent, same type as A).
#include <Fastor/Fastor.h>
#include "simd_sym.h"
#include "hutil.h"
#include "tensor_arena.h"
#include <string>
#include <vector>
using namespace vf;
#ifndef CFGNAME
#define CFGNAME "sse2"
#endif
#ifdef FASTOR_USE_VECTORISED_EXPR_ASSIGN
#define RV_VEA 1
#else
#define RV_VEA 0
#endif
static bool g_verbose = false;

namespace rv {
static const char* OPN[] = {"set", "add", "sub", "mul"};
template<typename I> struct ityn;
template<> struct ityn<int> { static const char* n() { return "i32"; } };
template<> struct ityn<long> { static const char* n() { return "i64"; } };
template<> struct ityn<long long> { static const char* n() { return "ll"; } };
template<> struct ityn<unsigned long> { static const char* n() { return "u64"; } };
template<> struct ityn<unsigned> { static const char* n() { return "u32"; } };
template<> struct ityn<short> { static const char* n() { return "i16"; } };

static inline std::vector<long> parse(const char* s) {
    std::vector<long> v; if (!s || !*s || *s == '-') return v;
    const char* p = s;
    while (*p) { char* e; long x = std::strtol(p, &e, 10); v.push_back(x); p = e; if (*p == '.') ++p; }
    return v;
}
static inline std::string join(const std::vector<long>& v) {
    if (v.empty()) return "-";
    std::string s; for (size_t i = 0; i < v.size(); ++i) { if (i) s += "."; s += std::to_string(v[i]); } return s;
}
template<typename TensorI> static inline void fill_idx(TensorI& t, const std::vector<long>& v) {
    for (size_t i = 0; i < v.size(); ++i) t.data()[i] = (typename TensorI::scalar_type)v[i];
}

// exact reference values --------------------------------------------------------------------------
static inline Poly tokp(int w, long k) { return ptok(mktok(w, (uint32_t)k)); }
static inline Poly apply(int op, const Poly& a, const Poly& b) {
    return op == 0 ? b : op == 1 ? padd(a, b) : op == 2 ? padd(a, b, -1) : pmul(a, b);
}
template<int K> struct tag {};
template<int K> static inline std::integral_constant<int,K> vi_of(tag<K>) { return {}; }
template<typename X, typename Y> static inline void asg(tag<0>, X&& dst, const Y& src) { dst = src; }
template<typename X, typename Y> static inline void asg(tag<1>, X&& dst, const Y& src) { dst += src; }
template<typename X, typename Y> static inline void asg(tag<2>, X&& dst, const Y& src) { dst -= src; }
template<typename X, typename Y> static inline void asg(tag<3>, X&& dst, const Y& src) { dst *= src; }

// variants: (act 0 read | 1 write, op, tree id, view made from a const parent); only these are instantiated
struct Var { int act, op, tree, cst; };
static const char* TREES[] = {"v1", "v1_v4_add", "v1_t2_mul", "c3_v1_mul_v4_sub", "c7", "t2", "t2_t3_add", "t2_t3_mul", "v4"};
static constexpr Var VARS[] = {
    {0,0,0,0}, {1,0,5,0}, {1,1,4,0}, {0,1,1,1}, {1,2,6,0}, {1,0,8,0}, {1,3,7,0}, {0,2,2,0},
    {1,0,4,0}, {1,1,5,0}, {0,3,3,0}, {1,2,8,1}, {1,3,5,0}, {0,0,0,1}, {1,0,6,0}, {1,2,4,0},
    {1,1,7,0}, {0,0,1,0}, {1,3,4,0}, {1,2,5,0}, {1,1,8,0}, {0,1,0,0}, {1,3,8,0}, {0,3,0,1},
};
static constexpr int NVARS = sizeof(VARS) / sizeof(VARS[0]);
static inline int var_of(int act, int op, const std::string& E, int cst) {
    for (int i = 0; i < NVARS; ++i) if (VARS[i].act == act && VARS[i].op == op && E == TREES[VARS[i].tree] && VARS[i].cst == cst) return i;
    return -1;
}
// the statement of a variant; S holds the operands (B A R R2 C) and the view maker
template<int OP, typename S> static inline void stmt(tag<0>, tag<0>, tag<0>, S& s) { asg(tag<OP>(), *s.B, s.mk(*s.A)); }
template<int OP, typename S> static inline void stmt(tag<0>, tag<0>, tag<1>, S& s) { asg(tag<OP>(), *s.B, s.mk(s.cA())); }
template<int OP, typename S> static inline void stmt(tag<0>, tag<1>, tag<0>, S& s) { asg(tag<OP>(), *s.B, s.mk(*s.A) + s.mk(*s.C)); }
template<int OP, typename S> static inline void stmt(tag<0>, tag<1>, tag<1>, S& s) { asg(tag<OP>(), *s.B, s.mk(s.cA()) + s.mk(s.cC())); }
template<int OP, typename S> static inline void stmt(tag<0>, tag<2>, tag<0>, S& s) { asg(tag<OP>(), *s.B, s.mk(*s.A) * (*s.R)); }
template<int OP, typename S> static inline void stmt(tag<0>, tag<2>, tag<1>, S& s) { asg(tag<OP>(), *s.B, s.mk(s.cA()) * (*s.R)); }
template<int OP, typename S> static inline void stmt(tag<0>, tag<3>, tag<0>, S& s) { asg(tag<OP>(), *s.B, typename S::scalar(3) * s.mk(*s.A) - s.mk(*s.C)); }
template<int OP, typename S> static inline void stmt(tag<0>, tag<3>, tag<1>, S& s) { asg(tag<OP>(), *s.B, typename S::scalar(3) * s.mk(s.cA()) - s.mk(s.cC())); }
template<int OP, typename S, int CST> static inline void stmt(tag<1>, tag<4>, tag<CST>, S& s) { asg(tag<OP>(), s.mk(*s.A), typename S::scalar(7)); }
template<int OP, typename S, int CST> static inline void stmt(tag<1>, tag<5>, tag<CST>, S& s) { asg(tag<OP>(), s.mk(*s.A), *s.R); }
template<int OP, typename S, int CST> static inline void stmt(tag<1>, tag<6>, tag<CST>, S& s) { asg(tag<OP>(), s.mk(*s.A), (*s.R) + (*s.R2)); }
template<int OP, typename S, int CST> static inline void stmt(tag<1>, tag<7>, tag<CST>, S& s) { asg(tag<OP>(), s.mk(*s.A), (*s.R) * (*s.R2)); }
template<int OP, typename S> static inline void stmt(tag<1>, tag<8>, tag<0>, S& s) { asg(tag<OP>(), s.mk(*s.A), s.mk(*s.C)); }
template<int OP, typename S> static inline void stmt(tag<1>, tag<8>, tag<1>, S& s) { asg(tag<OP>(), s.mk(*s.A), s.mk(s.cC())); }
template<typename T, typename PT, typename RT, typename MK> struct Ops {
    using scalar = T; RT* B; PT* A; RT* R; RT* R2; PT* C; MK& mk;
    const PT& cA() const { return *A; } const PT& cC() const { return *C; }
};

static inline bool dupfree(const std::vector<long>& f) {
    std::vector<long> g = f; std::sort(g.begin(), g.end());
    return std::adjacent_find(g.begin(), g.end()) == g.end();
}

// everything of a case that does not depend on the tensor / view types (kept out of the per-variant templates)
template<typename T> struct Case {
    long PS, VS; int act, op, V; std::string E;
    const T *B, *A, *R, *R2, *C;
    static void begin() { arena.reset(); pool.reset(); }
    void finish(const std::vector<long>& flat, const char* mask) const {
        auto s = summarise(act == 0 ? 0 : 1, g_verbose);
        auto P = [](const T* d, long k) -> const Poly& { return pool.v[d[k].h]; };
        bool ok = true; long bad = -1; bool df = mask ? true : dupfree(flat);
        if (!mask && (long)flat.size() != VS) { ok = false; bad = -9; }
        // value of a view leaf of parent window w at view position j
        auto leaf = [&](int w, long j) -> Poly { return mask ? (mask[j] == '1' ? tokp(w, j) : Poly{}) : tokp(w, flat[j]); };
        auto tv = [&](long j) -> Poly {
            if (E == "v1") return leaf(1, j);
            if (E == "v1_v4_add") return padd(leaf(1, j), leaf(4, j));
            if (E == "v1_t2_mul") return pmul(leaf(1, j), tokp(2, j));
            if (E == "c3_v1_mul_v4_sub") return padd(pmul(pconst(3), leaf(1, j)), leaf(4, j), -1);
            if (E == "c7") return pconst(7);
            if (E == "t2") return tokp(2, j);
            if (E == "t2_t3_add") return padd(tokp(2, j), tokp(3, j));
            if (E == "t2_t3_mul") return pmul(tokp(2, j), tokp(3, j));
            if (E == "v4") return leaf(4, j);
            std::fprintf(stderr, "unknown tree %s\n", E.c_str()); std::abort();
        };
        if (ok && act == 0) {
            // reading: B[j] = op(B[j], tree(j)); the parent is untouched
            for (long j = 0; j < VS && ok; ++j) if (apply(op, tokp(0, j), tv(j)) != P(B, j)) { ok = false; bad = j; }
            for (long p = 0; p < PS && ok; ++p) if (P(A, p) != tokp(1, p)) { ok = false; bad = -2; }
        } else if (ok && df) {
            // writing through duplicate-free indices / a mask: exactly the selected positions change
            std::vector<long> who(PS, -1);
            if (mask) { for (long p = 0; p < PS; ++p) if (mask[p] == '1') who[p] = p; }
            else for (long j = 0; j < VS; ++j) if (flat[j] >= 0 && flat[j] < PS) who[flat[j]] = j;
            for (long p = 0; p < PS && ok; ++p) {
                Poly want = who[p] < 0 ? tokp(1, p) : apply(op, tokp(1, p), tv(who[p]));
                if (want != P(A, p)) { ok = false; bad = p; }
            }
            for (long j = 0; j < VS && ok; ++j) if (P(B, j) != tokp(0, j)) { ok = false; bad = -3; }
        }
        for (long j = 0; j < VS && ok; ++j) if (P(R, j) != tokp(2, j) || P(R2, j) != tokp(3, j)) { ok = false; bad = -4; }
        for (long p = 0; p < PS && ok; ++p) if (P(C, p) != tokp(4, p)) { ok = false; bad = -5; }
        std::printf(" | V=%d VAL=%s WSEQ=%s NW=%ld", V, hex16(val_digest(act == 0 ? B : A, act == 0 ? VS : PS)).c_str(), hex16(s.wseq).c_str(), s.nw);
        for (int w = 0; w <= 4; ++w) std::printf(" RD%d=%s", w, hex16(s.reads.count(w) ? set_digest(s.reads[w]) : 0).c_str());
        std::printf(" dup=%d OOB=%ld ORACLE=%s", df ? 0 : 1, s.oob, ok ? "ok" : "FAIL");
        if (!ok) std::printf(" bad=%ld", bad);
        if (g_verbose) std::printf(" W=[%s]", s.wlist.c_str());
        std::printf("\n");
    }
};

// the generic case: PT parent tensor type, RT tensor type with the view's shape, mk(A) builds the view
template<typename T, typename PT, typename RT, int VI, typename MK>
static inline void core(const std::string& prefix, const std::vector<long>& flat, MK mk) {
    constexpr int act = VARS[VI].act, op = VARS[VI].op, cst = VARS[VI].cst, tree = VARS[VI].tree;
    std::printf("rview cfg=%s sz=%d vea=%d %s act=%s op=%s E=%s cst=%d", CFGNAME, (int)sizeof(T), RV_VEA, prefix.c_str(),
                act == 0 ? "read" : "write", OPN[op], TREES[tree], cst);
    std::fflush(stdout);
    Case<T>::begin();
    RT* B = arena_tensor<RT>(0); PT* A = arena_tensor<PT>(1); RT* R = arena_tensor<RT>(2); RT* R2 = arena_tensor<RT>(3); PT* C = arena_tensor<PT>(4);
    vf::trace.clear(); vf::trace.on = true;
    { Ops<T,PT,RT,MK> ops{B, A, R, R2, C, mk}; stmt<op>(tag<act>(), tag<tree>(), tag<cst>(), ops); }
    vf::trace.on = false;
    Case<T> c{(long)PT::size(), (long)RT::size(), act, op, (int)PT::simd_vector_type::Size, TREES[tree], B->data(), A->data(), R->data(), R2->data(), C->data()};
    c.finish(flat, nullptr);
}

// ---------------------------------------------------------------------------------------------
// run-time selection of a (compile-time) variant out of the set given by the bit mask SET
template<int VI, unsigned long SET> struct Disp {
    template<typename F> static void go(int vi, F& f) { if (vi == VI) sel(f, tag<(SET >> VI) & 1>()); else Disp<VI - 1, SET>::go(vi, f); }
    template<typename F> static void sel(F& f, tag<1>) { f(tag<VI>()); }
    template<typename F> static void sel(F&, tag<0>) {}
};
template<unsigned long SET> struct Disp<-1, SET> { template<typename F> static void go(int, F&) {} };
static constexpr unsigned long ALLV = (1ul << NVARS) - 1;
// the next variant of SET at or after position g_var (cyclic)
static unsigned g_var = 0;
static inline int next_var(unsigned long set) { for (;;) { int v = g_var++ % NVARS; if (set >> v & 1) return v; } }

// one flat index tensor on a 1-D parent
template<typename T, typename Int, size_t N, size_t M, int VI>
static inline void flat1(const char* i0s) {
    using namespace Fastor;
    std::vector<long> i0 = parse(i0s);
    Tensor<Int,M> it; fill_idx(it, i0);
    std::string pre = "k=flat1 r=1 c=" + std::to_string(N) + " m=1 n=" + std::to_string(M) + " i0=" + join(i0) + " i1=- num=0 f=0 s=0 ity=" + ityn<Int>::n();
    core<T, Tensor<T,N>, Tensor<T,M>, VI>(pre, i0, [&](auto& A) { return A(it); });
}
// one index tensor of flat positions with the parent's rank (2-D)
template<typename T, typename Int, size_t R, size_t C, size_t P, size_t Q, int VI>
static inline void flat2(const char* i0s) {
    using namespace Fastor;
    std::vector<long> i0 = parse(i0s);
    Tensor<Int,P,Q> it; fill_idx(it, i0);
    std::string pre = "k=flat2 r=" + std::to_string(R) + " c=" + std::to_string(C) + " m=" + std::to_string(P) + " n=" + std::to_string(Q) + " i0=" + join(i0) + " i1=- num=0 f=0 s=0 ity=" + ityn<Int>::n();
    core<T, Tensor<T,R,C>, Tensor<T,P,Q>, VI>(pre, i0, [&](auto& A) { return A(it); });
}
// index tensor x index tensor
template<typename T, typename Int0, typename Int1, size_t R, size_t C, size_t M, size_t N, int VI>
static inline void ii(const char* i0s, const char* i1s) {
    using namespace Fastor;
    std::vector<long> i0 = parse(i0s), i1 = parse(i1s);
    Tensor<Int0,M> it0; fill_idx(it0, i0); Tensor<Int1,N> it1; fill_idx(it1, i1);
    std::vector<long> flat; for (size_t a = 0; a < M; ++a) for (size_t b = 0; b < N; ++b) flat.push_back(i0[a] * (long)C + i1[b]);
    std::string pre = "k=ii r=" + std::to_string(R) + " c=" + std::to_string(C) + " m=" + std::to_string(M) + " n=" + std::to_string(N) + " i0=" + join(i0) + " i1=" + join(i1) + " num=0 f=0 s=0 ity=" + ityn<Int0>::n() + "/" + ityn<Int1>::n();
    core<T, Tensor<T,R,C>, Tensor<T,M,N>, VI>(pre, flat, [&](auto& A) { return A(it0, it1); });
}
// index tensor x integer (SWAP = 0), integer x index tensor (SWAP = 1)
template<typename PT, typename IT, typename Int1> static inline auto mk_in(tag<0>, PT& A, const IT& it0, Int1 num) { return A(it0, num); }
template<typename PT, typename IT, typename Int1> static inline auto mk_in(tag<1>, PT& A, const IT& it0, Int1 num) { return A(num, it0); }
template<typename T, typename Int0, typename Int1, size_t R, size_t C, size_t M, int SWAP, int VI>
static inline void in_(const char* i0s, long num) {
    using namespace Fastor;
    std::vector<long> i0 = parse(i0s);
    Tensor<Int0,M> it0; fill_idx(it0, i0);
    std::vector<long> flat; for (size_t a = 0; a < M; ++a) flat.push_back(SWAP ? num * (long)C + i0[a] : i0[a] * (long)C + num);
    std::string pre = std::string("k=") + (SWAP ? "ni" : "in") + " r=" + std::to_string(R) + " c=" + std::to_string(C) + " m=" + std::to_string(M) + " n=1 i0=" + join(i0) + " i1=- num=" + std::to_string(num) + " f=0 s=0 ity=" + ityn<Int0>::n() + "/" + ityn<Int1>::n();
    core<T, Tensor<T,R,C>, Tensor<T,M,1>, VI>(pre, flat, [&](auto& A) { return mk_in(tag<SWAP>(), A, it0, (Int1)num); });
}
// resolved extent of fseq<F,L,S> on an axis of extent D (negative values count from the end: -1 = D)
static constexpr long fs_last(long L, long D) { return L < 0 ? D + L + 1 : L; }
static constexpr long fs_first(long F, long D) { return F < 0 ? D + F + 1 : F; }
static constexpr long fs_size(long F, long L, long S, long D) { return (fs_last(L, D) - fs_first(F, D) + S - 1) / S; }
// index tensor x fseq
template<typename T, typename Int, size_t R, size_t C, size_t M, int F, int L, int S, int VI>
static inline void if_(const char* i0s) {
    using namespace Fastor;
    constexpr size_t CS = (size_t)fs_size(F, L, S, C);
    std::vector<long> i0 = parse(i0s);
    Tensor<Int,M> it0; fill_idx(it0, i0);
    std::vector<long> flat; for (size_t a = 0; a < M; ++a) for (size_t b = 0; b < CS; ++b) flat.push_back(i0[a] * (long)C + fs_first(F, C) + (long)S * (long)b);
    std::string pre = "k=if r=" + std::to_string(R) + " c=" + std::to_string(C) + " m=" + std::to_string(M) + " n=" + std::to_string(CS) + " i0=" + join(i0) + " i1=- num=0 f=" + std::to_string(fs_first(F, C)) + " s=" + std::to_string(S) + " ity=" + ityn<Int>::n()
                      + " fseq=" + std::to_string(F) + ":" + std::to_string(L) + ":" + std::to_string(S);
    core<T, Tensor<T,R,C>, Tensor<T,M,CS>, VI>(pre, flat, [&](auto& A) { return A(it0, fseq<F,L,S>()); });
}
// fseq x index tensor
template<typename T, typename Int, size_t R, size_t C, size_t N, int F, int L, int S, int VI>
static inline void fi(const char* i0s) {
    using namespace Fastor;
    constexpr size_t RS = (size_t)fs_size(F, L, S, R);
    std::vector<long> i0 = parse(i0s);
    Tensor<Int,N> it0; fill_idx(it0, i0);
    std::vector<long> flat; for (size_t a = 0; a < RS; ++a) for (size_t b = 0; b < N; ++b) flat.push_back((fs_first(F, R) + (long)S * (long)a) * (long)C + i0[b]);
    std::string pre = "k=fi r=" + std::to_string(R) + " c=" + std::to_string(C) + " m=" + std::to_string(RS) + " n=" + std::to_string(N) + " i0=" + join(i0) + " i1=- num=0 f=" + std::to_string(fs_first(F, R)) + " s=" + std::to_string(S) + " ity=" + ityn<Int>::n()
                      + " fseq=" + std::to_string(F) + ":" + std::to_string(L) + ":" + std::to_string(S);
    core<T, Tensor<T,R,C>, Tensor<T,RS,N>, VI>(pre, flat, [&](auto& A) { return A(fseq<F,L,S>(), it0); });
}

// ---------------------------------------------------------------------------------------------
// every index vector of length M over a parent of N elements, `per` variants (out of SET) each
template<typename T, typename Int, size_t N, size_t M, unsigned long SET>
static inline void flat1_all(int per, unsigned start) {
    vf::guarded([&]{
        g_var = start;
        std::vector<long> idx(M, 0);
        while (true) {
            std::string s = join(idx);
            auto f = [&](auto t) { flat1<T,Int,N,M,decltype(vi_of(t))::value>(s.c_str()); };
            for (int q = 0; q < per; ++q) Disp<NVARS - 1, SET>::go(next_var(SET), f);
            size_t k = 0; while (k < M && ++idx[k] == (long)N) { idx[k] = 0; ++k; }
            if (k == M) break;
        }
    });
}
// every pair of index vectors (lengths M, N) over an R x C parent
template<typename T, typename Int0, typename Int1, size_t R, size_t C, size_t M, size_t N, unsigned long SET>
static inline void ii_all(int per, unsigned start) {
    vf::guarded([&]{
        g_var = start;
        std::vector<long> a(M, 0);
        while (true) {
            std::vector<long> b(N, 0);
            while (true) {
                std::string sa = join(a), sb = join(b);
                auto f = [&](auto t) { ii<T,Int0,Int1,R,C,M,N,decltype(vi_of(t))::value>(sa.c_str(), sb.c_str()); };
                for (int q = 0; q < per; ++q) Disp<NVARS - 1, SET>::go(next_var(SET), f);
                size_t k = 0; while (k < N && ++b[k] == (long)C) { b[k] = 0; ++k; }
                if (k == N) break;
            }
            size_t k = 0; while (k < M && ++a[k] == (long)R) { a[k] = 0; ++k; }
            if (k == M) break;
        }
    });
}

// ---------------------------------------------------------------------------------------------
// boolean-mask views.  Windows as above; the mask is a string of 0/1, one per flat position.
template<typename T, typename PT, typename FT> struct FOps {
    using scalar = T; PT* B; PT* A; PT* R; PT* R2; PT* C; const FT& fl;
    struct Mk { const FT& fl; template<typename X> auto operator()(X& a) const { return a(fl); } } mk{fl};
    PT& cA() const { return *A; } PT& cC() const { return *C; }     // there is no filter view of a const tensor
};
template<typename T, int VI, size_t... Dims>
static inline void filt(const char* mask) {
    using namespace Fastor;
    using PT = Tensor<T,Dims...>;
    constexpr int act = VARS[VI].act, op = VARS[VI].op, tree = VARS[VI].tree;
    std::string E = TREES[tree];
    const long PS = (long)PT::size();
    std::printf("fview cfg=%s sz=%d n=%ld rank=%d mask=%s act=%s op=%s E=%s", CFGNAME, (int)sizeof(T), PS, (int)sizeof...(Dims), mask, act == 0 ? "read" : "write", OPN[op], E.c_str());
    std::fflush(stdout);
    Case<T>::begin();
    PT* B = arena_tensor<PT>(0); PT* A = arena_tensor<PT>(1); PT* R = arena_tensor<PT>(2); PT* R2 = arena_tensor<PT>(3); PT* C = arena_tensor<PT>(4);
    Tensor<bool,Dims...> fl; for (long p = 0; p < PS; ++p) fl.data()[p] = mask[p] == '1';
    vf::trace.clear(); vf::trace.on = true;
    { FOps<T,PT,Tensor<bool,Dims...>> ops{B, A, R, R2, C, fl}; stmt<op>(tag<act>(), tag<tree>(), tag<0>(), ops); }
    vf::trace.on = false;
    Case<T> c{PS, PS, act, op, (int)PT::simd_vector_type::Size, E, B->data(), A->data(), R->data(), R2->data(), C->data()};
    c.finish(std::vector<long>(), mask);
}
// variants of the filter view: `cst` is meaningless, so only variants with cst = 0
static constexpr unsigned long nocst_set() { unsigned long m = 0; for (int i = 0; i < NVARS; ++i) if (!VARS[i].cst) m |= 1ul << i; return m; }
// all 2^n masks (or `count` seeded ones when count > 0), `per` variants each
template<typename T, unsigned long SET, size_t... Dims>
static inline void filt_all(int per, unsigned start, long count, unsigned seed) {
    vf::guarded([&]{
        const long PS = (long)Fastor::Tensor<T,Dims...>::size();
        g_var = start;
        unsigned long total = count > 0 ? (unsigned long)count : (1ul << PS);
        uint64_t st = seed * 2654435761u + 12345;
        for (unsigned long q = 0; q < total; ++q) {
            std::string m(PS, '0');
            if (count > 0) { for (long p = 0; p < PS; ++p) { st = mix64(st); m[p] = (st >> 13 & 1) ? '1' : '0'; } }
            else for (long p = 0; p < PS; ++p) m[p] = (q >> p & 1) ? '1' : '0';
            auto f = [&](auto t) { filt<T,decltype(vi_of(t))::value,Dims...>(m.c_str()); };
            for (int k = 0; k < per; ++k) Disp<NVARS - 1, SET>::go(next_var(SET), f);
        }
    });
}

// ---------------------------------------------------------------------------------------------
// the view as the SOURCE of an assignment to a 2-D / 3-D range view of a larger tensor: the consumer
// asks the view for element (i,k) [eval_s(i,k), eval(i,k)] or for a multi-index [teval_s(as), teval(as)].
// Window 0 = B (larger than the view by a margin), 1 = A.  Also calls these members directly and
// digests what they return: E2S / TES scalar forms over all positions, E2V / TEV every lane of the
// vector forms at the positions a consumer may ask for.
template<typename T> static inline uint64_t dg(uint64_t h, const T& x) { h = hstep(h, peval(pool.v[x.h], 0)); return hstep(h, peval(pool.v[x.h], 1)); }
template<typename T, typename Int0, typename Int1, size_t R, size_t C, size_t M, size_t N, int DYN, int CST>
static inline void to2d(const char* i0s, const char* i1s) {
    using namespace Fastor;
    std::vector<long> i0 = parse(i0s), i1 = parse(i1s);
    Tensor<Int0,M> it0; fill_idx(it0, i0); Tensor<Int1,N> it1; fill_idx(it1, i1);
    std::printf("rview2 cfg=%s sz=%d vea=%d r=%zu c=%zu m=%zu n=%zu i0=%s i1=%s ity=%s/%s dyn=%d cst=%d", CFGNAME, (int)sizeof(T), RV_VEA, R, C, M, N, join(i0).c_str(), join(i1).c_str(),
                ityn<Int0>::n(), ityn<Int1>::n(), DYN, CST);
    std::fflush(stdout);
    Case<T>::begin();
    using BT = Tensor<T,M+1,N+2>; using PT = Tensor<T,R,C>;
    BT* B = arena_tensor<BT>(0); PT* A = arena_tensor<PT>(1);
    typename std::conditional<CST, const PT&, PT&>::type a = *A;
    vf::trace.clear(); vf::trace.on = true;
    if (DYN) (*B)(seq(0, (int)M), seq(0, (int)N)) = a(it0, it1);
    else (*B)(fseq<0,(int)M>(), fseq<0,(int)N>()) = a(it0, it1);
    vf::trace.on = false;
    auto s = summarise(0, g_verbose);
    bool ok = true; long bad = -1;
    for (size_t i = 0; i < M + 1 && ok; ++i) for (size_t k = 0; k < N + 2 && ok; ++k) {
        Poly want = (i < M && k < N) ? tokp(1, i0[i] * (long)C + i1[k]) : tokp(0, i * (N + 2) + k);
        if (want != pool.v[B->data()[i * (N + 2) + k].h]) { ok = false; bad = i * (N + 2) + k; }
    }
    auto vw = a(it0, it1);
    constexpr size_t V = PT::simd_vector_type::Size;
    uint64_t e2s = 0, e2v = 0;
    for (size_t i = 0; i < M; ++i) for (size_t k = 0; k < N; ++k) {
        e2s = dg(e2s, vw.template eval_s<T>(i, k));
        if (k + V <= N) { auto vec = vw.template eval<T>(i, k); for (size_t l = 0; l < V; ++l) e2v = dg(e2v, vec[l]); }
    }
    std::printf(" | V=%d VAL=%s WSEQ=%s NW=%ld E2S=%s E2V=%s OOB=%ld ORACLE=%s", (int)V, hex16(val_digest(B->data(), (M + 1) * (N + 2))).c_str(), hex16(s.wseq).c_str(), s.nw,
                hex16(e2s).c_str(), hex16(e2v).c_str(), s.oob, ok ? "ok" : "FAIL");
    if (!ok) std::printf(" bad=%ld", bad);
    std::printf("\n");
}
template<typename T, typename Int, size_t D0, size_t D1, size_t D2, size_t P0, size_t P1, size_t P2, int DYN, int CST>
static inline void to3d(const char* i0s) {
    using namespace Fastor;
    std::vector<long> i0 = parse(i0s);
    Tensor<Int,P0,P1,P2> it; fill_idx(it, i0);
    std::printf("rview3 cfg=%s sz=%d d0=%zu d1=%zu d2=%zu p0=%zu p1=%zu p2=%zu i0=%s ity=%s dyn=%d cst=%d", CFGNAME, (int)sizeof(T), D0, D1, D2, P0, P1, P2, join(i0).c_str(), ityn<Int>::n(), DYN, CST);
    std::fflush(stdout);
    Case<T>::begin();
    using BT = Tensor<T,P0+1,P1+1,P2+2>; using PT = Tensor<T,D0,D1,D2>;
    BT* B = arena_tensor<BT>(0); PT* A = arena_tensor<PT>(1);
    typename std::conditional<CST, const PT&, PT&>::type a = *A;
    vf::trace.clear(); vf::trace.on = true;
    if (DYN) (*B)(seq(0, (int)P0), seq(0, (int)P1), seq(0, (int)P2)) = a(it);
    else (*B)(fseq<0,(int)P0>(), fseq<0,(int)P1>(), fseq<0,(int)P2>()) = a(it);
    vf::trace.on = false;
    auto s = summarise(0, g_verbose);
    bool ok = true; long bad = -1;
    for (size_t x = 0; x < P0 + 1 && ok; ++x) for (size_t y = 0; y < P1 + 1 && ok; ++y) for (size_t z = 0; z < P2 + 2 && ok; ++z) {
        size_t q = (x * (P1 + 1) + y) * (P2 + 2) + z;
        Poly want = (x < P0 && y < P1 && z < P2) ? tokp(1, i0[(x * P1 + y) * P2 + z]) : tokp(0, q);
        if (want != pool.v[B->data()[q].h]) { ok = false; bad = q; }
    }
    auto vw = a(it);
    constexpr size_t V = PT::simd_vector_type::Size;
    uint64_t tes = 0, tev = 0;
    for (size_t x = 0; x < P0; ++x) for (size_t y = 0; y < P1; ++y) for (size_t z = 0; z < P2; ++z) {
        std::array<int,3> as = {(int)x, (int)y, (int)z};
        tes = dg(tes, vw.template teval_s<T>(as));
        if (z + V <= P2) { auto vec = vw.template teval<T>(as); for (size_t l = 0; l < V; ++l) tev = dg(tev, vec[l]); }
    }
    std::printf(" | V=%d VAL=%s NW=%ld TES=%s TEV=%s OOB=%ld ORACLE=%s", (int)V, hex16(val_digest(B->data(), (P0 + 1) * (P1 + 1) * (P2 + 2))).c_str(), s.nw,
                hex16(tes).c_str(), hex16(tev).c_str(), s.oob, ok ? "ok" : "FAIL");
    if (!ok) std::printf(" bad=%ld", bad);
    std::printf("\n");
}

// a mask view as the source of a 3-D range view of a larger tensor (teval_s / teval of TensorFilterViewExpr)
template<typename T, size_t D0, size_t D1, size_t D2, int DYN>
static inline void filt3(const char* mask) {
    using namespace Fastor;
    std::printf("fview3 cfg=%s sz=%d d0=%zu d1=%zu d2=%zu mask=%s dyn=%d", CFGNAME, (int)sizeof(T), D0, D1, D2, mask, DYN);
    std::fflush(stdout);
    Case<T>::begin();
    using BT = Tensor<T,D0+1,D1+1,D2+2>; using PT = Tensor<T,D0,D1,D2>;
    BT* B = arena_tensor<BT>(0); PT* A = arena_tensor<PT>(1);
    Tensor<bool,D0,D1,D2> fl; for (size_t p = 0; p < D0 * D1 * D2; ++p) fl.data()[p] = mask[p] == '1';
    vf::trace.clear(); vf::trace.on = true;
    if (DYN) (*B)(seq(0, (int)D0), seq(0, (int)D1), seq(0, (int)D2)) = (*A)(fl);
    else (*B)(fseq<0,(int)D0>(), fseq<0,(int)D1>(), fseq<0,(int)D2>()) = (*A)(fl);
    vf::trace.on = false;
    auto s = summarise(0, g_verbose);
    bool ok = true; long bad = -1;
    for (size_t x = 0; x < D0 + 1 && ok; ++x) for (size_t y = 0; y < D1 + 1 && ok; ++y) for (size_t z = 0; z < D2 + 2 && ok; ++z) {
        size_t q = (x * (D1 + 1) + y) * (D2 + 2) + z, p = (x * D1 + y) * D2 + z;
        Poly want = (x < D0 && y < D1 && z < D2) ? (mask[p] == '1' ? tokp(1, p) : Poly{}) : tokp(0, q);
        if (want != pool.v[B->data()[q].h]) { ok = false; bad = q; }
    }
    auto vw = (*A)(fl);
    constexpr size_t V = PT::simd_vector_type::Size;
    uint64_t tes = 0, tev = 0;
    for (size_t x = 0; x < D0; ++x) for (size_t y = 0; y < D1; ++y) for (size_t z = 0; z < D2; ++z) {
        std::array<int,3> as = {(int)x, (int)y, (int)z};
        tes = dg(tes, vw.template teval_s<T>(as));
        if (z + V <= D2) { auto vec = vw.template teval<T>(as); for (size_t l = 0; l < V; ++l) tev = dg(tev, vec[l]); }
    }
    std::printf(" | V=%d VAL=%s NW=%ld TES=%s TEV=%s OOB=%ld ORACLE=%s", (int)V, hex16(val_digest(B->data(), (D0 + 1) * (D1 + 1) * (D2 + 2))).c_str(), s.nw,
                hex16(tes).c_str(), hex16(tev).c_str(), s.oob, ok ? "ok" : "FAIL");
    if (!ok) std::printf(" bad=%ld", bad);
    std::printf("\n");
}
template<typename T, size_t D0, size_t D1, size_t D2, int DYN>
static inline void filt3_seeded(int count, unsigned seed) {
    uint64_t st = seed * 2654435761u + 99;
    for (int q = 0; q < count; ++q) {
        std::string m(D0 * D1 * D2, '0');
        for (auto& ch : m) { st = mix64(st); ch = (q == 0 || (st >> 13 & 3)) ? '1' : '0'; }
        filt3<T,D0,D1,D2,DYN>(m.c_str());
    }
}
// ---------------------------------------------------------------------------------------------
// joint cases with the range views (C04 / C05).  Window 0 = X (result), 1 = A (parent of the index / mask view),
// 2 = S (parent of the range view).
static inline void tail_line(int V, const void* od_, size_t n, int sz, const TraceSummary& s, bool ok, long bad) {
    uint64_t val = sz == 4 ? val_digest((const Sym4*)od_, n) : val_digest((const Sym8*)od_, n);
    std::printf(" | V=%d VAL=%s WSEQ=%s NW=%ld", V, hex16(val).c_str(), hex16(s.wseq).c_str(), s.nw);
    for (int w = 1; w <= 2; ++w) std::printf(" RD%d=%s", w, hex16(s.reads.count(w) ? set_digest(s.reads.at(w)) : 0).c_str());
    std::printf(" OOB=%ld ORACLE=%s", s.oob, ok ? "ok" : "FAIL");
    if (!ok) std::printf(" bad=%ld", bad);
    if (g_verbose) std::printf(" W=[%s]", s.wlist.c_str());
    std::printf("\n");
}
// Tensor<T,M,N> X = A(it0,it1) + S(r0, r1): a 2-D expression with a range view is evaluated by the two-index constructor loop
template<typename T, typename Int0, typename Int1, size_t R, size_t C, size_t M, size_t N, size_t SR, size_t SC, int F0, int S0, int F1, int S1, int DYN>
static inline void ctor2(const char* i0s, const char* i1s) {
    using namespace Fastor;
    std::vector<long> i0 = parse(i0s), i1 = parse(i1s);
    Tensor<Int0,M> it0; fill_idx(it0, i0); Tensor<Int1,N> it1; fill_idx(it1, i1);
    std::printf("rctor2 cfg=%s sz=%d r=%zu c=%zu m=%zu n=%zu i0=%s i1=%s ity=%s/%s sr=%zu sc=%zu f0=%d s0=%d f1=%d s1=%d dyn=%d", CFGNAME, (int)sizeof(T), R, C, M, N,
                join(i0).c_str(), join(i1).c_str(), ityn<Int0>::n(), ityn<Int1>::n(), SR, SC, F0, S0, F1, S1, DYN);
    std::fflush(stdout);
    Case<T>::begin();
    using XT = Tensor<T,M,N>; using PT = Tensor<T,R,C>; using ST = Tensor<T,SR,SC>;
    PT* A = arena_tensor<PT>(1); ST* S = arena_tensor<ST>(2);
    void* slot = arena_result_slot<XT>(0);
    constexpr int L0 = F0 + ((int)M - 1) * S0 + 1, L1 = F1 + ((int)N - 1) * S1 + 1;
    vf::trace.clear(); vf::trace.on = true;
    XT* X = DYN ? new (slot) XT((*A)(it0, it1) + (*S)(seq(F0, L0, S0), seq(F1, L1, S1)))
                : new (slot) XT((*A)(it0, it1) + (*S)(fseq<F0,L0,S0>(), fseq<F1,L1,S1>()));
    vf::trace.on = false;
    auto s = summarise(0, g_verbose);
    bool ok = true; long bad = -1;
    for (size_t i = 0; i < M && ok; ++i) for (size_t k = 0; k < N && ok; ++k)
        if (padd(tokp(1, i0[i] * (long)C + i1[k]), tokp(2, (F0 + (long)i * S0) * (long)SC + F1 + (long)k * S1)) != pool.v[X->data()[i * N + k].h]) { ok = false; bad = i * N + k; }
    tail_line((int)PT::simd_vector_type::Size, X->data(), M * N, sizeof(T), s, ok, bad);
}
// A(it) op= S(range) on 1-D tensors
template<typename T, typename Int, size_t N, size_t M, size_t SN, int F, int St, int OP, int DYN>
static inline void vsrc(const char* i0s) {
    using namespace Fastor;
    std::vector<long> i0 = parse(i0s);
    Tensor<Int,M> it; fill_idx(it, i0);
    std::printf("rvsrc cfg=%s sz=%d vea=%d c=%zu n=%zu i0=%s ity=%s sn=%zu f=%d s=%d op=%s dyn=%d", CFGNAME, (int)sizeof(T), RV_VEA, N, M, join(i0).c_str(), ityn<Int>::n(), SN, F, St, OPN[OP], DYN);
    std::fflush(stdout);
    Case<T>::begin();
    using PT = Tensor<T,N>; using ST = Tensor<T,SN>;
    PT* A = arena_tensor<PT>(1); ST* S = arena_tensor<ST>(2);
    constexpr int L = F + ((int)M - 1) * St + 1;
    vf::trace.clear(); vf::trace.on = true;
    if (DYN) asg(tag<OP>(), (*A)(it), (*S)(seq(F, L, St))); else asg(tag<OP>(), (*A)(it), (*S)(fseq<F,L,St>()));
    vf::trace.on = false;
    auto s = summarise(1, g_verbose);
    bool ok = true; long bad = -1;
    if (dupfree(i0)) {
        std::vector<long> who(N, -1); for (size_t j = 0; j < M; ++j) who[i0[j]] = j;
        for (size_t p = 0; p < N && ok; ++p) {
            Poly want = who[p] < 0 ? tokp(1, p) : apply(OP, tokp(1, p), tokp(2, F + who[p] * (long)St));
            if (want != pool.v[A->data()[p].h]) { ok = false; bad = p; }
        }
    }
    for (size_t q = 0; q < SN && ok; ++q) if (pool.v[S->data()[q].h] != tokp(2, q)) { ok = false; bad = -2; }
    tail_line((int)PT::simd_vector_type::Size, A->data(), N, sizeof(T), s, ok, bad);
}
// A(mask) op= S(range) on 1-D tensors
template<typename T, size_t N, size_t SN, int F, int St, int OP, int DYN>
static inline void fsrc(const char* mask) {
    using namespace Fastor;
    std::printf("fvsrc cfg=%s sz=%d n=%zu mask=%s sn=%zu f=%d s=%d op=%s dyn=%d", CFGNAME, (int)sizeof(T), N, mask, SN, F, St, OPN[OP], DYN);
    std::fflush(stdout);
    Case<T>::begin();
    using PT = Tensor<T,N>; using ST = Tensor<T,SN>;
    PT* A = arena_tensor<PT>(1); ST* S = arena_tensor<ST>(2);
    Tensor<bool,N> fl; for (size_t p = 0; p < N; ++p) fl.data()[p] = mask[p] == '1';
    constexpr int L = F + ((int)N - 1) * St + 1;
    vf::trace.clear(); vf::trace.on = true;
    if (DYN) asg(tag<OP>(), (*A)(fl), (*S)(seq(F, L, St))); else asg(tag<OP>(), (*A)(fl), (*S)(fseq<F,L,St>()));
    vf::trace.on = false;
    auto s = summarise(1, g_verbose);
    bool ok = true; long bad = -1;
    for (size_t p = 0; p < N && ok; ++p) {
        Poly want = mask[p] == '1' ? apply(OP, tokp(1, p), tokp(2, F + (long)p * St)) : tokp(1, p);
        if (want != pool.v[A->data()[p].h]) { ok = false; bad = p; }
    }
    for (size_t q = 0; q < SN && ok; ++q) if (pool.v[S->data()[q].h] != tokp(2, q)) { ok = false; bad = -2; }
    tail_line((int)PT::simd_vector_type::Size, A->data(), N, sizeof(T), s, ok, bad);
}
template<typename T, size_t N, size_t SN, int F, int St, int OP, int DYN>
static inline void fsrc_seeded(int count, unsigned seed) {
    uint64_t st = seed * 2654435761u + 7;
    for (int q = 0; q < count; ++q) {
        std::string m(N, '0');
        for (auto& ch : m) { st = mix64(st); ch = (q != 1 && (q == 0 || (st >> 13 & 1))) ? '1' : '0'; }
        fsrc<T,N,SN,F,St,OP,DYN>(m.c_str());
    }
}
// ---------------------------------------------------------------------------------------------
// right-hand sides that Fastor evaluates into a temporary first (requires_evaluation), then assigns element-wise.
// Windows: 1 = A (parent), 2 = P (or B for the aliasing kind), 3 = Q / q / C, 4 = D.
//   KIND 0: P % Q      1: trans(C)      2: P % Q + D      3: a product that reads the parent A itself
// 1-D index view (the n-D index view class has no evaluating overload: such statements do not compile)
template<typename T, typename Int, size_t N, size_t M, int OP, int KIND>
static inline void staged1(const char* i0s) {
    using namespace Fastor;
    std::vector<long> i0 = parse(i0s);
    Tensor<Int,M> it; fill_idx(it, i0);
    std::printf("rstaged cfg=%s sz=%d vea=%d c=%zu n=%zu i0=%s ity=%s op=%s kind=%d", CFGNAME, (int)sizeof(T), RV_VEA, N, M, join(i0).c_str(), ityn<Int>::n(), OPN[OP], KIND);
    std::fflush(stdout);
    Case<T>::begin();
    using PT = Tensor<T,N>;
    PT* A = arena_tensor<PT>(1); Tensor<T,M,2>* P = arena_tensor<Tensor<T,M,2>>(2); Tensor<T,2>* q = arena_tensor<Tensor<T,2>>(3); Tensor<T,M>* D = arena_tensor<Tensor<T,M>>(4);
    Tensor<T,M,N>* B = arena_tensor<Tensor<T,M,N>>(5);
    vf::trace.clear(); vf::trace.on = true;
    if (KIND == 0) asg(tag<OP>(), (*A)(it), (*P) % (*q));
    else if (KIND == 2) asg(tag<OP>(), (*A)(it), (*P) % (*q) + (*D));
    else asg(tag<OP>(), (*A)(it), (*B) % (*A));
    vf::trace.on = false;
    auto s = summarise(1, g_verbose);
    bool ok = true; long bad = -1;
    if (dupfree(i0)) {
        std::vector<long> who(N, -1); for (size_t j = 0; j < M; ++j) who[i0[j]] = j;
        for (size_t p = 0; p < N && ok; ++p) {
            Poly want = tokp(1, p);
            if (who[p] >= 0) {
                long j = who[p]; Poly t;
                if (KIND == 3) { for (size_t k = 0; k < N; ++k) t = padd(t, pmul(tokp(5, j * N + k), tokp(1, k))); }
                else { t = padd(pmul(tokp(2, 2 * j), tokp(3, 0)), pmul(tokp(2, 2 * j + 1), tokp(3, 1))); if (KIND == 2) t = padd(t, tokp(4, j)); }
                want = apply(OP, tokp(1, p), t);
            }
            if (want != pool.v[A->data()[p].h]) { ok = false; bad = p; }
        }
    }
    tail_line((int)PT::simd_vector_type::Size, A->data(), N, sizeof(T), s, ok, bad);
}
// mask view of a 2-D tensor
template<typename T, size_t M, size_t N, int OP, int KIND>
static inline void fstaged(const char* mask) {
    using namespace Fastor;
    std::printf("fstaged cfg=%s sz=%d m=%zu n=%zu mask=%s op=%s kind=%d", CFGNAME, (int)sizeof(T), M, N, mask, OPN[OP], KIND);
    std::fflush(stdout);
    Case<T>::begin();
    using PT = Tensor<T,M,N>;
    PT* A = arena_tensor<PT>(1); Tensor<T,M,2>* P = arena_tensor<Tensor<T,M,2>>(2); Tensor<T,2,N>* Q = arena_tensor<Tensor<T,2,N>>(3); PT* D = arena_tensor<PT>(4);
    Tensor<T,N,N>* B = arena_tensor<Tensor<T,N,N>>(5); Tensor<T,N,M>* C = arena_tensor<Tensor<T,N,M>>(6);
    Tensor<bool,M,N> fl; for (size_t p = 0; p < M * N; ++p) fl.data()[p] = mask[p] == '1';
    vf::trace.clear(); vf::trace.on = true;
    if (KIND == 0) asg(tag<OP>(), (*A)(fl), (*P) % (*Q));
    else if (KIND == 1) asg(tag<OP>(), (*A)(fl), trans(*C));
    else if (KIND == 2) asg(tag<OP>(), (*A)(fl), (*P) % (*Q) + (*D));
    else asg(tag<OP>(), (*A)(fl), (*A) % (*B));
    vf::trace.on = false;
    auto s = summarise(1, g_verbose);
    bool ok = true; long bad = -1;
    for (size_t i = 0; i < M && ok; ++i) for (size_t j = 0; j < N && ok; ++j) {
        size_t p = i * N + j; Poly t;
        if (KIND == 1) t = tokp(6, j * M + i);
        else if (KIND == 3) { for (size_t k = 0; k < N; ++k) t = padd(t, pmul(tokp(1, i * N + k), tokp(5, k * N + j))); }
        else { t = padd(pmul(tokp(2, 2 * i), tokp(3, j)), pmul(tokp(2, 2 * i + 1), tokp(3, N + j))); if (KIND == 2) t = padd(t, tokp(4, p)); }
        Poly want = mask[p] == '1' ? apply(OP, tokp(1, p), t) : tokp(1, p);
        if (want != pool.v[A->data()[p].h]) { ok = false; bad = p; }
    }
    tail_line((int)PT::simd_vector_type::Size, A->data(), M * N, sizeof(T), s, ok, bad);
}
template<typename T, size_t M, size_t N, int OP, int KIND>
static inline void fstaged_seeded(int count, unsigned seed) {
    uint64_t st = seed * 2654435761u + 11;
    for (int q = 0; q < count; ++q) {
        std::string m(M * N, '0');
        for (auto& ch : m) { st = mix64(st); ch = (q != 1 && (q == 0 || (st >> 13 & 1))) ? '1' : '0'; }
        fstaged<T,M,N,OP,KIND>(m.c_str());
    }
}
} // namespace rv
