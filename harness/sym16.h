// A 16-byte symbolic carrier (the size of std::complex<double>) for C04: the gather helpers of
// simd_vector_common.h are dispatched on sizeof(T) and the register width, and their 16-byte overloads serve the
// complex<double> vectors, whose set(...) takes the lanes in MEMORY order (first argument = lane 0) — unlike the real
// vector types (_mm_set_* order).  The ideal vector below has the lane count of SIMDVector<complex<double>,ABI>
// (register bits / 64) and that set() convention, so a 16-byte overload that hands the lanes over in the wrong
// order shows up symbolically.  (That the real complex vectors' set() is memory-ordered is checked by the
// complex<double> value runs.)  Include after simd_sym.h.
#ifndef VF_SYM16_H
#define VF_SYM16_H
#include "simd_sym.h"
namespace vf {
template<> struct HandleT<16> { using type = unsigned __int128; };
using Sym16 = Sym<16>;
static_assert(sizeof(Sym16) == 16, "carrier size");
}
namespace Fastor {
namespace internal {
template<template<typename, typename> class __svec, typename ABI>
struct get_simd_vector_size<__svec<vf::Sym16, ABI>> {
    static constexpr size_t bitsize = std::is_same<ABI,simd_abi::avx512>::value ? FASTOR_AVX512_BITSIZE
        : (std::is_same<ABI,simd_abi::avx>::value ? FASTOR_AVX_BITSIZE : (std::is_same<ABI,simd_abi::sse>::value ? FASTOR_SSE_BITSIZE : 64));
    static constexpr size_t value = (bitsize / 64) != 0 ? (bitsize / 64) : 1;
};
}
#define VF_IDEAL16(ABI_) \
template<> struct SIMDVector<vf::Sym16, simd_abi::ABI_> \
    : vfdetail::IdealVec<vf::Sym16, simd_abi::ABI_, internal::get_simd_vector_size<SIMDVector<vf::Sym16,simd_abi::ABI_>>::value> { \
    using Base = vfdetail::IdealVec<vf::Sym16, simd_abi::ABI_, internal::get_simd_vector_size<SIMDVector<vf::Sym16,simd_abi::ABI_>>::value>; \
    using T = vf::Sym16; \
    SIMDVector() : Base() {} \
    SIMDVector(T num) : Base(num) {} \
    SIMDVector(const SIMDVector& a) : Base(a) {} \
    SIMDVector(const T* data, bool Aligned = true) : Base(data, Aligned) {} \
    SIMDVector& operator=(const SIMDVector& a) { Base::operator=(a); return *this; } \
    SIMDVector& operator=(T num) { this->set(num); return *this; } \
    void set(T num) { for (size_t i = 0; i < Base::Size; ++i) this->value[i].h = num.h; } \
    /* memory order, as SIMDVector<std::complex<double>,ABI>::set */ \
    template<typename... Args> void set(T first, T second, Args... args) { \
        static_assert(sizeof...(args) + 2 == Base::Size, "set: wrong number of values"); \
        T arr[Base::Size] = {first, second, T(args)...}; \
        for (size_t i = 0; i < Base::Size; ++i) this->value[i].h = arr[i].h; \
    } \
};
VF_IDEAL16(sse)
VF_IDEAL16(avx)
VF_IDEAL16(avx512)
#undef VF_IDEAL16
}
#endif
