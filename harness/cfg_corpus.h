// C06 corpus: small "programs using the library", each printing ONE line
//     cfgcase id=<case id> | KIND=exact D=<hex digest of the result bytes> ORACLE=ok|FAIL
// or  cfgcase id=<case id> | KIND=approx N=<n> V=<hex doubles...> SCALE=<hex double>
// The same translation unit is compiled under every build configuration; the python side compares
// the lines of one case across configurations (bit-identical for KIND=exact, within the rounding
// bound for KIND=approx).  Exact cases use integer-valued data small enough that every intermediate
// is exactly representable in the element type, so floating-point results are bit-identical too
// (FMA contraction, summation order and vector width cannot change an exact result).
// ORACLE compares with a plain-loop reference inside this file (independent of the library).
#include <Fastor/Fastor.h>
#include <cstdio>
#include <cstdint>
#include <cstring>
#include <cmath>
#include <string>
using namespace Fastor;

static inline uint64_t hstep64(uint64_t h, uint64_t x) { h ^= x + 0x9e3779b97f4a7c15ULL + (h << 6) + (h >> 2); return h * 0xff51afd7ed558ccdULL; }
template<typename T> static inline uint64_t bits_of(T x) { uint64_t u = 0; std::memcpy(&u, &x, sizeof(T) < 8 ? sizeof(T) : 8); return u; }
template<> inline uint64_t bits_of<bool>(bool x) { return x ? 1 : 0; }
// -0.0 and +0.0 are the same value for the property (bit patterns of zero may differ between an FMA and a mul+add)
template<> inline uint64_t bits_of<float>(float x) { if (x == 0.f) x = 0.f; uint32_t u; std::memcpy(&u, &x, 4); return u; }
template<> inline uint64_t bits_of<double>(double x) { if (x == 0.) x = 0.; uint64_t u; std::memcpy(&u, &x, 8); return u; }
template<typename T> static inline uint64_t digest(const T* p, size_t n) { uint64_t h = 0x1234; for (size_t i = 0; i < n; ++i) h = hstep64(h, bits_of<T>(p[i])); return h; }

template<typename T> struct tn;
template<> struct tn<float> { static const char* n() { return "f32"; } };
template<> struct tn<double> { static const char* n() { return "f64"; } };
template<> struct tn<int32_t> { static const char* n() { return "i32"; } };
template<> struct tn<int64_t> { static const char* n() { return "i64"; } };
template<> struct tn<bool> { static const char* n() { return "bool"; } };
template<> struct tn<short> { static const char* n() { return "i16"; } };
template<> struct tn<unsigned> { static const char* n() { return "u32"; } };
template<> struct tn<long double> { static const char* n() { return "f80"; } };
template<> inline uint64_t bits_of<long double>(long double x) { double d = (double)x; if (d == 0.) d = 0.; uint64_t u; std::memcpy(&u, &d, 8); return u; }

static unsigned g_seed = 0;
static inline int small(unsigned x, int m = 9) { x = x * 2654435761u + 12345u; return (int)((x >> 16) % m) - m / 2; }
template<typename TensorT> static inline void fill(TensorT& A, unsigned seed, int m = 9) {
    using T = typename TensorT::scalar_type;
    for (size_t i = 0; i < (size_t)A.size(); ++i) A.data()[i] = (T)small(seed + 31 * (unsigned)i, m);
}
template<typename TensorT> static inline void fillpos(TensorT& A, unsigned seed, int m = 7) {
    using T = typename TensorT::scalar_type;
    for (size_t i = 0; i < (size_t)A.size(); ++i) A.data()[i] = (T)(1 + (small(seed + 31 * (unsigned)i, 2 * m) + m) % m);
}
template<typename T> static inline void emit_exact(const std::string& id, const T* got, const T* ref, size_t n) {
    bool ok = true; long bad = -1;
    if (ref) for (size_t i = 0; i < n; ++i) if (bits_of<T>(got[i]) != bits_of<T>(ref[i])) { ok = false; bad = (long)i; break; }
    std::printf("cfgcase id=%s | KIND=exact D=%016llx ORACLE=%s", id.c_str(), (unsigned long long)digest(got, n), ok ? "ok" : "FAIL");
    if (!ok) std::printf(" bad=%ld", bad);
    std::printf("\n");
}
template<typename T> static inline void emit_approx(const std::string& id, const T* got, size_t n, double scale) {
    std::printf("cfgcase id=%s | KIND=approx EPS=%s N=%zu SCALE=%a V=", id.c_str(), sizeof(T) == 4 ? "f32" : "f64", n, scale);
    for (size_t i = 0; i < n; ++i) std::printf("%s%a", i ? "," : "", (double)got[i]);
    std::printf("\n");
}
template<typename T, bool F = std::is_floating_point<T>::value> struct S { static std::string id(const char* op, std::initializer_list<long> ps) {
    std::string s = std::string(op) + "/" + tn<T>::n(); for (long p : ps) s += "/" + std::to_string(p); s += "/s" + std::to_string(g_seed); return s; } };

// ---------------------------------------------------------------------------------------------- matmul
template<typename T, size_t M, size_t K, size_t N> void c_mm(unsigned seed) { g_seed = seed;
    Tensor<T,M,K> A; Tensor<T,K,N> B; fill(A, seed); fill(B, seed + 7);
    T ref[M*N];
    for (size_t i=0;i<M;++i) for (size_t j=0;j<N;++j) { T s = 0; for (size_t k=0;k<K;++k) s += A(i,k)*B(k,j); ref[i*N+j] = s; }
    Tensor<T,M,N> C = matmul(A,B);
    emit_exact(S<T>::id("mm", {(long)M,(long)K,(long)N}), C.data(), ref, M*N);
    Tensor<T,M,N> D; fill(D, seed + 3); T ref2[M*N]; for (size_t i=0;i<M*N;++i) ref2[i] = D.data()[i] - ref[i];
    D -= A % B;
    emit_exact(S<T>::id("mmlazy-=", {(long)M,(long)K,(long)N}), D.data(), ref2, M*N);
}
template<typename T, size_t M, size_t K, size_t N, typename L, typename R> void c_tmm(unsigned seed, const char* tag) { g_seed = seed;
    Tensor<T,M,K> A; Tensor<T,K,N> B; fill(A, seed); fill(B, seed + 7);
    for (size_t i=0;i<M;++i) for (size_t k=0;k<K;++k) {
        if (std::is_same<L,UpLoType::Lower>::value && k > i) A(i,k) = 0;
        if (std::is_same<L,UpLoType::Upper>::value && k < i) A(i,k) = 0; }
    for (size_t k=0;k<K;++k) for (size_t j=0;j<N;++j) {
        if (std::is_same<R,UpLoType::Lower>::value && j > k) B(k,j) = 0;
        if (std::is_same<R,UpLoType::Upper>::value && j < k) B(k,j) = 0; }
    T ref[M*N];
    for (size_t i=0;i<M;++i) for (size_t j=0;j<N;++j) { T s = 0; for (size_t k=0;k<K;++k) s += A(i,k)*B(k,j); ref[i*N+j] = s; }
    Tensor<T,M,N> C = tmatmul<L,R>(A,B);
    emit_exact(S<T>::id((std::string("tmm-") + tag).c_str(), {(long)M,(long)K,(long)N}), C.data(), ref, M*N);
}
// ---------------------------------------------------------------------------------------------- element-wise expressions
template<typename T, size_t N> void c_ew(unsigned seed) { g_seed = seed;
    Tensor<T,N> A, B, C; fill(A, seed); fillpos(B, seed + 5); fill(C, seed + 9);
    T a[N], b[N], c[N]; for (size_t i=0;i<N;++i) { a[i]=A.data()[i]; b[i]=B.data()[i]; c[i]=C.data()[i]; }
    Tensor<T,N> R1 = A + B*A - 3;                 T r1[N]; for (size_t i=0;i<N;++i) r1[i] = a[i] + b[i]*a[i] - 3;
    emit_exact(S<T>::id("ew1", {(long)N}), R1.data(), r1, N);
    Tensor<T,N> R2 = C; R2 += -A*B;               T r2[N]; for (size_t i=0;i<N;++i) r2[i] = c[i] + (-a[i])*b[i];
    emit_exact(S<T>::id("ew2+=", {(long)N}), R2.data(), r2, N);
    Tensor<T,N> R3 = C; R3 -= A - 2*B;            T r3[N]; for (size_t i=0;i<N;++i) r3[i] = c[i] - (a[i] - 2*b[i]);
    emit_exact(S<T>::id("ew3-=", {(long)N}), R3.data(), r3, N);
    Tensor<T,N> R4 = C; R4 *= A + 2;              T r4[N]; for (size_t i=0;i<N;++i) r4[i] = c[i] * (a[i] + 2);
    emit_exact(S<T>::id("ew4*=", {(long)N}), R4.data(), r4, N);
    Tensor<T,N> R5 = (A*12) / B;                  T r5[N]; for (size_t i=0;i<N;++i) r5[i] = (a[i]*12) / b[i];
    emit_exact(S<T>::id("ew5div", {(long)N}), R5.data(), r5, N);
    Tensor<T,N> R6 = C*B; R6 /= B;                T r6[N]; for (size_t i=0;i<N;++i) r6[i] = (c[i]*b[i]) / b[i];
    emit_exact(S<T>::id("ew6/=", {(long)N}), R6.data(), r6, N);
    Tensor<T,N> R7 = abs(A) + abs(C - B);         T r7[N]; for (size_t i=0;i<N;++i) r7[i] = (T)std::abs((double)a[i]) + (T)std::abs((double)(c[i]-b[i]));
    emit_exact(S<T>::id("ew7abs", {(long)N}), R7.data(), r7, N);
}
template<typename T, size_t N> void c_ewf(unsigned seed) { g_seed = seed;   // floating point only: sqrt is correctly rounded everywhere; scalar division may use a reciprocal
    Tensor<T,N> A, B; fillpos(A, seed, 40); fillpos(B, seed + 5);
    Tensor<T,N> R1 = sqrt(A) * B + sqrt(B);       // inexact intermediates: a*b+c may or may not be contracted to an FMA
    emit_approx(S<T>::id("ewsqrt", {(long)N}), R1.data(), N, 60.0);
    Tensor<T,N> R0 = sqrt(A*A);                    T r0[N]; for (size_t i=0;i<N;++i) r0[i] = A.data()[i];
    emit_exact(S<T>::id("ewsqrt-exact", {(long)N}), R0.data(), r0, N);   // sqrt is correctly rounded: exact on perfect squares
    Tensor<T,N> R2 = A / T(3);
    emit_approx(S<T>::id("ewdivscalar", {(long)N}), R2.data(), N, 40.0);
}
template<typename T, size_t M, size_t N> void c_cmp(unsigned seed) { g_seed = seed;
    Tensor<T,M,N> A, B; fill(A, seed, 5); fill(B, seed + 3, 5);
    Tensor<bool,M,N> L = A < B; Tensor<bool,M,N> E = A == B; Tensor<bool,M,N> G = (A >= B) && (A != 0);
    bool rl[M*N], re[M*N], rg[M*N];
    for (size_t i=0;i<M*N;++i) { T a=A.data()[i], b=B.data()[i]; rl[i]=a<b; re[i]=a==b; rg[i]=(a>=b)&&(a!=0); }
    emit_exact(S<T>::id("cmp<", {(long)M,(long)N}), L.data(), rl, M*N);
    emit_exact(S<T>::id("cmp==", {(long)M,(long)N}), E.data(), re, M*N);
    emit_exact(S<T>::id("cmp>=&&", {(long)M,(long)N}), G.data(), rg, M*N);
    bool p[4] = { all_of(A < B), any_of(A < B), all_of(A == A), isequal(A, A) };
    bool pr[4]; bool al=true, an=false; for (size_t i=0;i<M*N;++i) { al = al && rl[i]; an = an || rl[i]; } pr[0]=al; pr[1]=an; pr[2]=true; pr[3]=true;
    emit_exact(S<T>::id("preds", {(long)M,(long)N}), p, pr, 4);
}
// ---------------------------------------------------------------------------------------------- reductions
template<typename T, size_t N> void c_red(unsigned seed) { g_seed = seed;
    Tensor<T,N> A; fill(A, seed, 13);
    T s = 0, mn = A.data()[0], mx = A.data()[0]; for (size_t i=0;i<N;++i) { T x = A.data()[i]; s += x; if (x<mn) mn=x; if (x>mx) mx=x; }
    T got[5] = { sum(A), min(A), max(A), sum(A + A), inner(A, A) };
    T ss = 0; for (size_t i=0;i<N;++i) ss += A.data()[i]*A.data()[i];
    T ref[5] = { s, mn, mx, (T)(2*s), ss };
    emit_exact(S<T>::id("red", {(long)N}), got, ref, 5);
    Tensor<T,N> Bn; for (size_t i=0;i<N;++i) Bn.data()[i] = (T)(-(T)1 - (T)(small(seed + (unsigned)i, 7) + 3));   // all negative
    T mn2 = Bn.data()[0], mx2 = Bn.data()[0]; for (size_t i=0;i<N;++i) { T x = Bn.data()[i]; if (x<mn2) mn2=x; if (x>mx2) mx2=x; }
    T got2[2] = { min(Bn), max(Bn) }; T ref2[2] = { mn2, mx2 };
    emit_exact(S<T>::id("redneg", {(long)N}), got2, ref2, 2);
    Tensor<T,N> P; for (size_t i=0;i<N;++i) P.data()[i] = (T)((i % 5 == 0) ? 2 : ((i % 7 == 3) ? -1 : 1));
    T pr = 1; for (size_t i=0;i<N;++i) pr *= P.data()[i];
    T got3[1] = { product(P) }; T ref3[1] = { pr };
    emit_exact(S<T>::id("prod", {(long)N}), got3, ref3, 1);
}
template<typename T, size_t N> void c_redf(unsigned seed) { g_seed = seed;
    Tensor<T,N> A; fill(A, seed, 13);
    T got[1] = { norm(A) };
    emit_approx(S<T>::id("norm", {(long)N}), got, 1, 7.0 * std::sqrt((double)N));
    Tensor<T,N,N> B; fill(B, seed + 1);
    T tr[1] = { trace(B) }; T r = 0; for (size_t i=0;i<N;++i) r += B(i,i); T rr[1] = { r };
    emit_exact(S<T>::id("trace", {(long)N}), tr, rr, 1);
}
// ---------------------------------------------------------------------------------------------- einsum
enum { I_=0, J_, K_, L_, M_, N_ };
template<typename T, size_t A0, size_t A1, size_t A2> void c_es(unsigned seed) { g_seed = seed;
    { Tensor<T,A0,A1> A; Tensor<T,A1,A2> B; fill(A, seed); fill(B, seed+1);
      auto C = einsum<Index<I_,J_>,Index<J_,K_>>(A,B); T ref[A0*A2];
      for (size_t i=0;i<A0;++i) for (size_t k=0;k<A2;++k) { T s=0; for (size_t j=0;j<A1;++j) s += A(i,j)*B(j,k); ref[i*A2+k]=s; }
      emit_exact(S<T>::id("es-ij,jk", {(long)A0,(long)A1,(long)A2}), C.data(), ref, A0*A2); }
    { Tensor<T,A0,A1,A2> A; Tensor<T,A2,A1> B; fill(A, seed+2); fill(B, seed+3);
      auto C = einsum<Index<I_,J_,K_>,Index<K_,J_>>(A,B); T ref[A0];
      for (size_t i=0;i<A0;++i) { T s=0; for (size_t j=0;j<A1;++j) for (size_t k=0;k<A2;++k) s += A(i,j,k)*B(k,j); ref[i]=s; }
      emit_exact(S<T>::id("es-ijk,kj", {(long)A0,(long)A1,(long)A2}), C.data(), ref, A0); }
    { Tensor<T,A0,A1> A; Tensor<T,A2> B; fill(A, seed+4); fill(B, seed+5);
      auto C = einsum<Index<I_,J_>,Index<K_>>(A,B); T ref[A0*A1*A2];
      for (size_t i=0;i<A0;++i) for (size_t j=0;j<A1;++j) for (size_t k=0;k<A2;++k) ref[(i*A1+j)*A2+k] = A(i,j)*B(k);
      emit_exact(S<T>::id("es-ij,k", {(long)A0,(long)A1,(long)A2}), C.data(), ref, A0*A1*A2); }
    { Tensor<T,A0,A1,A2> A; Tensor<T,A1,A0> B; fill(A, seed+6); fill(B, seed+7);
      auto C = einsum<Index<I_,J_,K_>,Index<J_,I_>>(A,B); T ref[A2];
      for (size_t k=0;k<A2;++k) { T s=0; for (size_t i=0;i<A0;++i) for (size_t j=0;j<A1;++j) s += A(i,j,k)*B(j,i); ref[k]=s; }
      emit_exact(S<T>::id("es-ijk,ji", {(long)A0,(long)A1,(long)A2}), C.data(), ref, A2); }
    { // chain A(i,j) B(j,k) C(k,l): adjacent pairs only, so every variant of the cost model keeps the declared order
      Tensor<T,A0,A1> A; Tensor<T,A1,A2> B; Tensor<T,A2,A0> C3; fill(A, seed+8, 5); fill(B, seed+9, 5); fill(C3, seed+10, 5);
      auto C = einsum<Index<I_,J_>,Index<J_,K_>,Index<K_,L_>>(A,B,C3); T ref[A0*A0];
      for (size_t i=0;i<A0;++i) for (size_t l=0;l<A0;++l) { T s=0; for (size_t j=0;j<A1;++j) for (size_t k=0;k<A2;++k) s += A(i,j)*B(j,k)*C3(k,l); ref[i*A0+l]=s; }
      emit_exact(S<T>::id("es3-ij,jk,kl", {(long)A0,(long)A1,(long)A2}), C.data(), ref, A0*A0); }
}
// four operands of different ranks: ij,jk,klm,mn -> iln (with FASTOR_DONT_PERFORM_OP_MIN this is the single-loop evaluation of
// network_contraction_no_opmin.h, whose per-operand offset computations only differ when the ranks differ)
template<typename T, size_t A0, size_t A1, size_t A2> void c_es4(unsigned seed) { g_seed = seed;
    Tensor<T,A0,A1> A; Tensor<T,A1,A2> B; Tensor<T,A2,A1,A0> C; Tensor<T,A0,A2> D;
    fill(A, seed, 5); fill(B, seed+1, 5); fill(C, seed+2, 5); fill(D, seed+3, 5);
    auto R = einsum<Index<I_,J_>,Index<J_,K_>,Index<K_,L_,M_>,Index<M_,N_>>(A,B,C,D);   // (i,l,n): A0 x A1 x A2
    T ref[A0*A1*A2];
    for (size_t i=0;i<A0;++i) for (size_t l=0;l<A1;++l) for (size_t n=0;n<A2;++n) { T s=0;
        for (size_t j=0;j<A1;++j) for (size_t k=0;k<A2;++k) for (size_t m=0;m<A0;++m) s += A(i,j)*B(j,k)*C(k,l,m)*D(m,n);
        ref[(i*A1+l)*A2+n]=s; }
    emit_exact(S<T>::id("es4-ij,jk,klm,mn", {(long)A0,(long)A1,(long)A2}), R.data(), ref, A0*A1*A2);
}
// five-operand chain with non-uniform extents (the cost model then has distinct costs per variant)
template<typename T, size_t A0, size_t A1, size_t A2> void c_es5(unsigned seed) { g_seed = seed;
    Tensor<T,A0,A1> A; Tensor<T,A1,A2> B; Tensor<T,A2,A0> C; Tensor<T,A0,A2> D; Tensor<T,A2,A1> E;
    fill(A, seed, 5); fill(B, seed+1, 5); fill(C, seed+2, 5); fill(D, seed+3, 5); fill(E, seed+4, 5);
    auto R = einsum<Index<I_,J_>,Index<J_,K_>,Index<K_,L_>,Index<L_,M_>,Index<M_,N_>>(A,B,C,D,E);   // (i,n): A0 x A1
    T ref[A0*A1];
    for (size_t i=0;i<A0;++i) for (size_t n=0;n<A1;++n) { T s=0;
        for (size_t j=0;j<A1;++j) for (size_t k=0;k<A2;++k) for (size_t l=0;l<A0;++l) for (size_t m=0;m<A2;++m) s += A(i,j)*B(j,k)*C(k,l)*D(l,m)*E(m,n);
        ref[i*A1+n]=s; }
    emit_exact(S<T>::id("es5-ij,jk,kl,lm,mn", {(long)A0,(long)A1,(long)A2}), R.data(), ref, A0*A1);
}
// ---------------------------------------------------------------------------------------------- permute / transpose
template<typename T, size_t A0, size_t A1, size_t A2> void c_perm(unsigned seed) { g_seed = seed;
    Tensor<T,A0,A1,A2> A; fill(A, seed, 100);
    { auto P = permute<Index<2,0,1>>(A); T ref[A0*A1*A2];   // out(i,j,k)[p-permuted]
      Tensor<T,A0,A1,A2> Bk = permute<Index<1,2,0>>(P);      // inverse permutation: round trip
      (void)ref; emit_exact(S<T>::id("perm201", {(long)A0,(long)A1,(long)A2}), P.data(), (const T*)nullptr, A0*A1*A2);
      emit_exact(S<T>::id("perm201-roundtrip", {(long)A0,(long)A1,(long)A2}), Bk.data(), A.data(), A0*A1*A2); }
    { auto P = permute<Index<1,0,2>>(A); T ref[A0*A1*A2];
      for (size_t i=0;i<A0;++i) for (size_t j=0;j<A1;++j) for (size_t k=0;k<A2;++k) ref[(j*A0+i)*A2+k] = A(i,j,k);
      emit_exact(S<T>::id("perm102", {(long)A0,(long)A1,(long)A2}), P.data(), ref, A0*A1*A2); }
    { Tensor<T,A0*A1,A2> Mx; fill(Mx, seed+1, 100); Tensor<T,A2,A0*A1> Tr = transpose(Mx); T ref[A0*A1*A2];
      for (size_t i=0;i<A0*A1;++i) for (size_t j=0;j<A2;++j) ref[j*(A0*A1)+i] = Mx(i,j);
      emit_exact(S<T>::id("transpose", {(long)(A0*A1),(long)A2}), Tr.data(), ref, A0*A1*A2);
      Tensor<T,A2,A0*A1> Tl = trans(Mx) + 0;
      emit_exact(S<T>::id("translazy", {(long)(A0*A1),(long)A2}), Tl.data(), ref, A0*A1*A2); }
}
// ---------------------------------------------------------------------------------------------- views
template<typename T, size_t M, size_t N> void c_views(unsigned seed) { g_seed = seed;
    Tensor<T,M,N> A; fill(A, seed, 50);
    { Tensor<T,(M+1)/2,N-1> B = A(seq(0,last,2), seq(1,last)); T ref[((M+1)/2)*(N-1)];
      for (size_t i=0;i<(M+1)/2;++i) for (size_t j=0;j<N-1;++j) ref[i*(N-1)+j] = A(2*i, j+1);
      emit_exact(S<T>::id("view-read", {(long)M,(long)N}), B.data(), ref, ((M+1)/2)*(N-1)); }
    { Tensor<T,M,N> C = A; Tensor<T,M,N> ref = A; Tensor<T,M-1,N> B; fill(B, seed+1);
      C(seq(1,last), all) += 2*B; for (size_t i=1;i<M;++i) for (size_t j=0;j<N;++j) ref(i,j) += 2*B(i-1,j);
      C(all, seq(0,last,3)) = 7; for (size_t i=0;i<M;++i) for (size_t j=0;j<N;j+=3) ref(i,j) = 7;
      C(fseq<0,M-1>(), fseq<1,N>()) -= A(fseq<1,M>(), fseq<0,N-1>());
      for (size_t i=0;i<M-1;++i) for (size_t j=1;j<N;++j) ref(i,j) -= A(i+1,j-1);
      emit_exact(S<T>::id("view-write", {(long)M,(long)N}), C.data(), ref.data(), M*N); }
    { Tensor<T,M*N> F; fill(F, seed+2, 50); Tensor<T,M*N> ref = F; Tensor<int,3> it; it(0)=(int)(M*N-1); it(1)=0; it(2)=(int)(M*N/2);
      Tensor<T,3> G = F(it); T rg[3] = { F.data()[M*N-1], F.data()[0], F.data()[M*N/2] };
      emit_exact(S<T>::id("rview-read", {(long)M,(long)N}), G.data(), rg, 3);
      F(it) += 5; ref.data()[M*N-1]+=5; ref.data()[0]+=5; ref.data()[M*N/2]+=5;
      F(seq(1,last,2)) *= 2; for (size_t i=1;i<M*N;i+=2) ref.data()[i] *= 2;
      emit_exact(S<T>::id("view1d-write", {(long)M,(long)N}), F.data(), ref.data(), M*N); }
}
// ---------------------------------------------------------------------------------------------- dense linear algebra (rounded)
template<typename T, size_t N> static inline Tensor<T,N,N> ddom(unsigned seed) {
    Tensor<T,N,N> A; fill(A, seed, 7); for (size_t i=0;i<N;++i) A(i,i) = (T)(4*N + (i%3)); return A;
}
template<typename T, size_t N> void c_linalg(unsigned seed) { g_seed = seed;
    Tensor<T,N,N> A = ddom<T,N>(seed); Tensor<T,N> b; fill(b, seed+1);
    const double sc = 1.0;
    { Tensor<T,N,N> X = inverse(A); Tensor<T,N,N> R = matmul(A, X); emit_approx(S<T>::id("inv-resid", {(long)N}), R.data(), N*N, sc); }
    { Tensor<T,N> x = solve(A, b); Tensor<T,N> r = matmul(A, x); emit_approx(S<T>::id("solve-resid", {(long)N}), r.data(), N, 8.0); }
    { Tensor<T,N,N> L, U; lu(A, L, U); Tensor<T,N,N> R = matmul(L, U); emit_approx(S<T>::id("lu-recon", {(long)N}), R.data(), N*N, 5.0*N);
      bool st[2] = { true, true };
      for (size_t i=0;i<N;++i) for (size_t j=0;j<N;++j) { if (j>i && L(i,j)!=0) st[0]=false; if (j<i && U(i,j)!=0) st[1]=false; if (i==j && L(i,j)!=1) st[0]=false; }
      bool rs[2] = { true, true }; emit_exact(S<T>::id("lu-structure", {(long)N}), st, rs, 2); }
    { Tensor<T,N,N> Q, R; qr(A, Q, R); Tensor<T,N,N> QR = matmul(Q, R); emit_approx(S<T>::id("qr-recon", {(long)N}), QR.data(), N*N, 5.0*N);
      Tensor<T,N,N> QtQ = matmul(transpose(Q), Q); emit_approx(S<T>::id("qr-orth", {(long)N}), QtQ.data(), N*N, 1.0); }
    { T d[1] = { determinant(A) }; double s = 1; for (size_t i=0;i<N;++i) s *= (double)A(i,i); emit_approx(S<T>::id("det", {(long)N}), d, 1, s); }
}
// ---------------------------------------------------------------------------------------------- layout, cast, reshape
template<typename T, size_t A0, size_t A1, size_t A2> void c_misc(unsigned seed) { g_seed = seed;
    Tensor<T,A0,A1,A2> A; fill(A, seed, 100);
    { auto C = tocolumnmajor(A); auto Rm = torowmajor(C);
      T ref[A0*A1*A2]; for (size_t i=0;i<A0;++i) for (size_t j=0;j<A1;++j) for (size_t k=0;k<A2;++k) ref[i + A0*(j + A1*k)] = A(i,j,k);
      (void)ref;   // which direction the conversion goes is C20's subject; here only the digest is compared across configurations
      emit_exact(S<T>::id("colmajor", {(long)A0,(long)A1,(long)A2}), C.data(), (const T*)nullptr, A0*A1*A2);
      emit_exact(S<T>::id("colmajor-roundtrip", {(long)A0,(long)A1,(long)A2}), Rm.data(), A.data(), A0*A1*A2); }
    { Tensor<T,A0,A1,A2> B = A; auto Mp = reshape<A0*A1,A2>(B); Mp(0,1) = 99; Mp += 1;
      T ref[A0*A1*A2]; for (size_t i=0;i<A0*A1*A2;++i) ref[i] = A.data()[i]; ref[1] = 99; for (size_t i=0;i<A0*A1*A2;++i) ref[i] += 1;
      emit_exact(S<T>::id("reshape-alias", {(long)A0,(long)A1,(long)A2}), B.data(), ref, A0*A1*A2); }
    { T buf[A0*A1*A2+3]; for (size_t i=0;i<A0*A1*A2+3;++i) buf[i] = (T)small(seed + (unsigned)i, 50);
      TensorMap<T,A0*A1,A2> Mp(buf+1); Mp *= 2; Mp(seq(0,last,2), all) += 1;
      T ref[A0*A1*A2+3]; for (size_t i=0;i<A0*A1*A2+3;++i) ref[i] = (T)small(seed + (unsigned)i, 50);
      for (size_t i=0;i<A0*A1*A2;++i) ref[1+i] *= 2; for (size_t i=0;i<A0*A1;i+=2) for (size_t j=0;j<A2;++j) ref[1+i*A2+j] += 1;
      emit_exact(S<T>::id("map-unaligned", {(long)A0,(long)A1,(long)A2}), buf, ref, A0*A1*A2+3); }
}

// ---------------------------------------------------------------------------------------------- element types the library does not vectorise
template<typename T, size_t M, size_t K, size_t N> void c_nonprim1(unsigned seed) {
    Tensor<T,M,K> A; Tensor<T,K,N> B; fillpos(A, seed, 4); fillpos(B, seed + 7, 4);
    T ref[M*N];
    for (size_t i=0;i<M;++i) for (size_t j=0;j<N;++j) { T s = 0; for (size_t k=0;k<K;++k) s += A(i,k)*B(k,j); ref[i*N+j] = s; }
    Tensor<T,M,N> C = matmul(A,B);
    emit_exact(S<T>::id("mm", {(long)M,(long)K,(long)N}), C.data(), ref, M*N);
    Tensor<T,M,N> D = A % B; Tensor<T,M,K> E = A + A * A - A; T re[M*K]; for (size_t i=0;i<M*K;++i) re[i] = A.data()[i] + A.data()[i]*A.data()[i] - A.data()[i];
    emit_exact(S<T>::id("mmlazy", {(long)M,(long)K,(long)N}), D.data(), ref, M*N);
    emit_exact(S<T>::id("ew", {(long)M,(long)K}), E.data(), re, M*K);
}
template<size_t M, size_t K, size_t N> void c_nonprim(unsigned seed) { g_seed = seed;
    c_nonprim1<short,M,K,N>(seed); c_nonprim1<unsigned,M,K,N>(seed + 1); c_nonprim1<long double,M,K,N>(seed + 2);
}
