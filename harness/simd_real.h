// C08 harness: every SIMDVector<T,ABI> operation against plain scalar code, lane by lane, bit patterns compared.
// One output line per (T, ABI, operation):   simd cfg=.. opt=.. T=.. abi=.. cls=spec|generic N=.. op=.. seed=.. | ok n=<lane evaluations>
//                                       or:  ... | FAIL n=.. bad=.. first: <inputs / got / want as hex lanes>
// The scalar reference is written here, independently of the library (unsigned wrap-around arithmetic for the
// integer types, the C++ operator for floating point, the naive (re,im) formulas for complex).
#pragma once
#include <Fastor/Fastor.h>
#include <cstring>
#include <cstdint>
#include <cstdio>
#include <cmath>
#include <complex>
#include <limits>
#include <string>
#include <vector>
#include <utility>
#include <type_traits>
#include <sys/mman.h>
#include <unistd.h>
#include <signal.h>
#include <setjmp.h>

#ifndef CFGNAME
#define CFGNAME "?"
#endif
#ifndef OPTNAME
#define OPTNAME "?"
#endif

static bool g_verbose = false;

namespace sr {
using Fastor::SIMDVector;
namespace abi = Fastor::simd_abi;

// ------------------------------------------------------------------------------------------------ type info
template<class T> struct ti;
template<> struct ti<float>   { static const char* name() { return "float"; }  using bits_t = uint32_t; static constexpr bool is_int = false, is_cplx = false; using real_t = float; };
template<> struct ti<double>  { static const char* name() { return "double"; } using bits_t = uint64_t; static constexpr bool is_int = false, is_cplx = false; using real_t = double; };
template<> struct ti<int32_t> { static const char* name() { return "int32_t"; } using bits_t = uint32_t; static constexpr bool is_int = true,  is_cplx = false; using real_t = int32_t; };
template<> struct ti<int64_t> { static const char* name() { return "int64_t"; } using bits_t = uint64_t; static constexpr bool is_int = true,  is_cplx = false; using real_t = int64_t; };
template<> struct ti<std::complex<float>>  { static const char* name() { return "cfloat"; }  static constexpr bool is_int = false, is_cplx = true; using real_t = float; };
template<> struct ti<std::complex<double>> { static const char* name() { return "cdouble"; } static constexpr bool is_int = false, is_cplx = true; using real_t = double; };
template<class A> struct ai;
template<> struct ai<abi::scalar> { static const char* name() { return "scalar"; } };
template<> struct ai<abi::sse>    { static const char* name() { return "sse"; } };
template<> struct ai<abi::avx>    { static const char* name() { return "avx"; } };
template<> struct ai<abi::avx512> { static const char* name() { return "avx512"; } };

template<class T> typename ti<T>::bits_t bits(T x) { typename ti<T>::bits_t b; std::memcpy(&b, &x, sizeof b); return b; }
template<class T> T frombits(typename ti<T>::bits_t b) { T x; std::memcpy(&x, &b, sizeof x); return x; }

inline bool isnan_(float x) { return x != x; }
inline bool isnan_(double x) { return x != x; }
inline bool isnan_(int32_t) { return false; }
inline bool isnan_(int64_t) { return false; }

// equal bit patterns, or both NaN (payload is not compared)
template<class T> bool same(T a, T b) { return bits(a) == bits(b) || (isnan_(a) && isnan_(b)); }
template<class R> bool same(std::complex<R> a, std::complex<R> b) { return same(a.real(), b.real()) && same(a.imag(), b.imag()); }
inline bool same(bool a, bool b) { return a == b; }
// arithmetic results: for complex lanes the sign of an exact zero component depends on the (equally valid) formula used
template<class T> bool sameval(T a, T b) { return same(a, b); }
template<class R> bool sameval(std::complex<R> a, std::complex<R> b) { return same(a, b) || a == b; }

template<class T> std::string hex(T x) { char buf[40]; std::snprintf(buf, sizeof buf, "%llx", (unsigned long long)bits(x)); return buf; }
template<class R> std::string hex(std::complex<R> x) { return hex(x.real()) + "+i" + hex(x.imag()); }
inline std::string hex(bool x) { return x ? "1" : "0"; }
template<class T> std::string hexv(const T* p, size_t n) { std::string s = "["; for (size_t i = 0; i < n; ++i) { if (i) s += ","; s += hex(p[i]); } return s + "]"; }

// ------------------------------------------------------------------------------------------------ random
struct Rng { uint64_t s; explicit Rng(uint64_t seed) : s(seed * 0x9E3779B97F4A7C15ull + 0x1234567ull) {}
    uint64_t next() { s ^= s << 13; s ^= s >> 7; s ^= s << 17; return s * 0x2545F4914F6CDD1Dull; }
    uint64_t below(uint64_t n) { return (next() >> 11) % n; } };

// ------------------------------------------------------------------------------------------------ value pools
template<class T> struct pool;
template<> struct pool<float> { static std::vector<float> get() { using L = std::numeric_limits<float>;
    return {0.f, -0.f, 1.f, -1.f, 2.f, 0.5f, 3.f, -3.f, 1.5f, 0.1f, 255.f, 16777216.f, 16777215.f, 1e10f, -1e-20f, 1e20f, L::max(), -L::max(), L::min(),
            L::denorm_min(), -L::denorm_min(), L::infinity(), -L::infinity(), L::quiet_NaN(), 7.f, -0.75f}; } };
template<> struct pool<double> { static std::vector<double> get() { using L = std::numeric_limits<double>;
    return {0., -0., 1., -1., 2., 0.5, 3., -3., 1.5, 0.1, 255., 9007199254740992., 9007199254740991., 1e100, -1e-200, 1e200, L::max(), -L::max(), L::min(),
            L::denorm_min(), -L::denorm_min(), L::infinity(), -L::infinity(), L::quiet_NaN(), 7., -0.75}; } };
template<> struct pool<int32_t> { static std::vector<int32_t> get() { using L = std::numeric_limits<int32_t>;
    return {0, 1, -1, 2, -2, 3, 7, -7, L::max(), L::min(), L::max() - 1, L::min() + 1, 0x7fff, 0x10000, 0xffff, 46341, -46341, 65536, -65536, 0x55555555,
            (int32_t)0xAAAAAAAA, 0x40000000, 12345, -100}; } };
template<> struct pool<int64_t> { static std::vector<int64_t> get() { using L = std::numeric_limits<int64_t>;
    return {0, 1, -1, 2, -2, 3, 7, -7, L::max(), L::min(), L::max() - 1, L::min() + 1, 0x7fffffffLL, 0x80000000LL, 0xffffffffLL, 0x100000000LL, -0x100000000LL,
            3037000500LL, -3037000500LL, 0x5555555555555555LL, (int64_t)0xAAAAAAAAAAAAAAAAULL, 0x4000000000000000LL, 1234567890123LL, -100}; } };
template<class R> struct pool<std::complex<R>> { static std::vector<std::complex<R>> get() {
    // small integers and powers of two: every product / quotient used below is exact, so the naive formulas with or
    // without fused multiply-add agree bit for bit
    std::vector<std::complex<R>> v; const R c[] = {0, 1, -1, 2, -2, 3, -5, 4, 0.5, 8};
    for (R a : c) for (R b : c) v.push_back(std::complex<R>(a, b));
    return v; } };

template<class T, bool I = ti<T>::is_int> struct rnd;
template<class T> struct rnd<T, true>  { static T draw(Rng& r, int kind) { uint64_t x = r.next(); if (kind == 1) return (T)((int64_t)(x % 2001) - 1000); return (T)x; } };
template<class T> struct rnd<T, false> { static T draw(Rng& r, int kind) {
    if (kind == 1) return (T)((int64_t)(r.next() % 4001) - 2000) / (T)16;     // moderate, exactly representable
    return frombits<T>((typename ti<T>::bits_t)r.next()); } };                  // any bit pattern (NaN, denormals, ...)
template<class R> struct rnd<std::complex<R>, false> { static std::complex<R> draw(Rng& r, int) {
    return std::complex<R>((R)((int64_t)(r.next() % 33) - 16), (R)((int64_t)(r.next() % 33) - 16)); } };

// ------------------------------------------------------------------------------------------------ reporting
template<class V> struct is_generic : std::integral_constant<bool, std::is_array<typename V::value_type>::value> {};
template<class T> struct is_generic<SIMDVector<T, abi::scalar>> : std::true_type {};

struct Rep {
    std::string head; unsigned seed;
    std::string op; long n = 0, bad = 0; std::string first;
    void begin(const char* o) { op = o; n = 0; bad = 0; first.clear(); }
    void fail(const std::string& what) { ++bad; if (first.empty()) first = what; }
    void end() {
        if (n == 0 && bad == 0) return;
        if (bad == 0) std::printf("%s op=%s seed=%u | ok n=%ld\n", head.c_str(), op.c_str(), seed, n);
        else std::printf("%s op=%s seed=%u | FAIL n=%ld bad=%ld first: %s\n", head.c_str(), op.c_str(), seed, n, bad, first.c_str());
        std::fflush(stdout);
    }
};

// aligned storage with room for canaries
template<class T> struct Buf {
    static constexpr size_t PAD = 32;
    alignas(64) T raw[PAD + 64 + PAD];
    T* at(size_t off) { return raw + PAD + off; }
};

template<class V> struct VT { using T = typename V::scalar_value_type; static constexpr size_t N = V::Size; };

template<class V> V mk(const typename V::scalar_value_type* lanes) {
    // build a vector from N lanes through an unaligned load (load/store are checked on their own)
    alignas(64) typename V::scalar_value_type tmp[V::Size + 1];
    for (size_t i = 0; i < V::Size; ++i) tmp[i] = lanes[i];
    V v; v.load(tmp, false); return v;
}
template<class V> void un(const V& v, typename V::scalar_value_type* lanes) {
    alignas(64) typename V::scalar_value_type tmp[V::Size + 1];
    v.store(tmp, false);
    for (size_t i = 0; i < V::Size; ++i) lanes[i] = tmp[i];
}

// case generator: N-lane operand triples; lane i of case k walks the cross product of the pool with a per-lane phase so
// that every lane sees every pair of boundary values; then seeded random draws
template<class V> struct Cases {
    using T = typename V::scalar_value_type; static constexpr size_t N = V::Size;
    std::vector<T> P; Rng rng; size_t nb, nr, k = 0;
    T a[N], b[N], c[N];
    Cases(unsigned seed, size_t nrand, bool pairs = true) : P(pool<T>::get()), rng(seed), nb(pairs ? P.size() * P.size() : P.size()), nr(nrand) {}
    bool next() {
        if (k >= nb + nr) return false;
        size_t n = P.size();
        if (k < nb) for (size_t i = 0; i < N; ++i) { size_t q = k + i * (n + 1) * 5; a[i] = P[q % n]; b[i] = P[(q / n + i * 3) % n]; c[i] = P[(q * 7 + 3 + i) % n]; }
        else { int kind = (k - nb) % 2; for (size_t i = 0; i < N; ++i) { a[i] = rnd<T>::draw(rng, kind); b[i] = rnd<T>::draw(rng, kind); c[i] = rnd<T>::draw(rng, kind); } }
        ++k; return true;
    }
};

// ------------------------------------------------------------------------------------------------ scalar references
// integers: exact result in __int128, wrapped; `fits` tells whether the C++ scalar operation is defined (no overflow)
template<class T> struct IRef {
    using U = typename std::make_unsigned<T>::type;
    static bool fits(__int128 x) { return x >= (__int128)std::numeric_limits<T>::min() && x <= (__int128)std::numeric_limits<T>::max(); }
    static T wrap(__int128 x) { return (T)(U)(unsigned __int128)x; }
};

enum Bin { ADD, SUB, MUL, DIV, MIN, MAX };
enum Ter { FMADD, FMSUB, FNMADD };

// returns false when the case must be skipped (undefined scalar operation)
template<class T, typename std::enable_if<ti<T>::is_int, int>::type = 0>
bool refbin(Bin o, T a, T b, bool generic, T& r, T& alt) {
    __int128 x = 0;
    switch (o) {
        case ADD: x = (__int128)a + b; break; case SUB: x = (__int128)a - b; break; case MUL: x = (__int128)a * b; break;
        case DIV: if (b == 0 || (a == std::numeric_limits<T>::min() && b == -1)) return false; x = a / b; break;
        case MIN: x = a < b ? a : b; break; case MAX: x = a > b ? a : b; break; }
    if (generic && !IRef<T>::fits(x)) return false;      // signed overflow: the scalar operation itself is undefined
    r = alt = IRef<T>::wrap(x); return true;
}
template<class T, typename std::enable_if<!ti<T>::is_int && !ti<T>::is_cplx, int>::type = 0>
bool refbin(Bin o, T a, T b, bool, T& r, T& alt) {
    volatile T va = a, vb = b; T x = va, y = vb;
    switch (o) {
        case ADD: r = alt = x + y; break; case SUB: r = alt = x - y; break; case MUL: r = alt = x * y; break; case DIV: r = alt = x / y; break;
        // min/max: which operand is returned for NaN operands and for (+0,-0) follows the instruction; either is accepted there
        case MIN: if (isnan_(x) || isnan_(y) || (x == 0 && y == 0)) { r = x; alt = y; } else r = alt = (y < x ? y : x); break;
        case MAX: if (isnan_(x) || isnan_(y) || (x == 0 && y == 0)) { r = x; alt = y; } else r = alt = (y > x ? y : x); break; }
    return true;
}
template<class T, typename std::enable_if<ti<T>::is_cplx, int>::type = 0>
bool refbin(Bin o, T a, T b, bool, T& r, T& alt) {
    using R = typename T::value_type;
    R ar = a.real(), ai = a.imag(), br = b.real(), bi = b.imag();
    switch (o) {
        case ADD: r = T(ar + br, ai + bi); break; case SUB: r = T(ar - br, ai - bi); break;
        case MUL: r = T(ar * br - ai * bi, ar * bi + ai * br); break;
        case DIV: { R den = br * br + bi * bi; if (den == 0) return false;
                    // only denominators that are powers of two keep the quotient exact whatever the rounding of intermediates
                    int e; R m = std::frexp(den, &e); if (m != (R)0.5) return false;
                    r = T((ar * br + ai * bi) / den, (ai * br - ar * bi) / den); break; }
        default: return false; }
    alt = r; return true;
}

template<class T, typename std::enable_if<ti<T>::is_int, int>::type = 0>
bool refter(Ter o, T a, T b, T c, bool generic, T& r, T& alt) {
    __int128 p = (__int128)a * b; if (generic && !IRef<T>::fits(p)) return false;
    __int128 x = o == FMADD ? p + c : o == FMSUB ? p - c : (__int128)c - p;
    if (generic && !IRef<T>::fits(x)) return false;
    r = alt = IRef<T>::wrap(x); return true;
}
template<class T, typename std::enable_if<!ti<T>::is_int && !ti<T>::is_cplx, int>::type = 0>
bool refter(Ter o, T a, T b, T c, bool, T& r, T& alt) {
    volatile T va = a, vb = b, vc = c; T x = va, y = vb, z = vc;
    // "the scalar operation" of a fused multiply-add is the single-rounding fma or the two-rounding a*b+c, depending on the
    // instruction set; both are accepted
    volatile T p = x * y; T pp = p;
    switch (o) { case FMADD: r = std::fma(x, y, z); alt = pp + z; break; case FMSUB: r = std::fma(x, y, -z); alt = pp - z; break;
                 case FNMADD: r = std::fma(-x, y, z); alt = z - pp; break; }
    return true;
}
template<class T, typename std::enable_if<ti<T>::is_cplx, int>::type = 0>
bool refter(Ter o, T a, T b, T c, bool g, T& r, T& alt) {
    T p, q; refbin(MUL, a, b, g, p, q);
    switch (o) { case FMADD: r = T(p.real() + c.real(), p.imag() + c.imag()); break; case FMSUB: r = T(p.real() - c.real(), p.imag() - c.imag()); break;
                 case FNMADD: r = T(c.real() - p.real(), c.imag() - p.imag()); break; }
    alt = r; return true;
}

template<class T, typename std::enable_if<ti<T>::is_int, int>::type = 0> bool refneg(T a, bool generic, T& r) {
    if (generic && a == std::numeric_limits<T>::min()) return false; r = IRef<T>::wrap(-(__int128)a); return true; }
template<class T, typename std::enable_if<!ti<T>::is_int && !ti<T>::is_cplx, int>::type = 0> bool refneg(T a, bool, T& r) {
    // IEEE negate = flip the sign bit (also of NaN, of zero)
    using B = typename ti<T>::bits_t; r = frombits<T>(bits(a) ^ ((B)1 << (sizeof(B) * 8 - 1))); return true; }
template<class T, typename std::enable_if<ti<T>::is_cplx, int>::type = 0> bool refneg(T a, bool, T& r) {
    typename T::value_type x, y; refneg(a.real(), false, x); refneg(a.imag(), false, y); r = T(x, y); return true; }

template<class T, typename std::enable_if<ti<T>::is_int, int>::type = 0> bool refabs(T a, bool generic, T& r) {
    if (generic && a == std::numeric_limits<T>::min()) return false; r = a < 0 ? IRef<T>::wrap(-(__int128)a) : a; return true; }
template<class T, typename std::enable_if<!ti<T>::is_int && !ti<T>::is_cplx, int>::type = 0> bool refabs(T a, bool, T& r) {
    using B = typename ti<T>::bits_t; r = frombits<T>(bits(a) & ~((B)1 << (sizeof(B) * 8 - 1))); return true; }

// ------------------------------------------------------------------------------------------------ checks
template<class V> struct Chk {
    using T = typename V::scalar_value_type; static constexpr size_t N = V::Size;
    static constexpr bool G = is_generic<V>::value;
    Rep& R; unsigned seed; size_t nrand;
    Chk(Rep& r, unsigned s, size_t nr) : R(r), seed(s), nrand(nr) {}

    std::string ctx(const T* a, const T* b, const T* c, const T* got, const T* want, size_t lane) {
        std::string s = "lane=" + std::to_string(lane) + " a=" + hexv(a, N);
        if (b) s += " b=" + hexv(b, N); if (c) s += " c=" + hexv(c, N);
        return s + " got=" + hexv(got, N) + " want_lane=" + hex(want[lane]);
    }

    template<class F> void binary(const char* name, Bin o, int form, F f) {
        // form 0: f(va, vb)   1: f(va, scalar b0)   2: f(scalar a0, vb)
        R.begin(name);
        Cases<V> cs(seed, nrand);
        while (cs.next()) {
            T a[N], b[N], want[N], alt[N], got[N]; bool skip = false;
            for (size_t i = 0; i < N; ++i) { a[i] = form == 2 ? cs.a[0] : cs.a[i]; b[i] = form == 1 ? cs.b[0] : cs.b[i]; }
            for (size_t i = 0; i < N; ++i) if (!refbin(o, a[i], b[i], G, want[i], alt[i])) skip = true;
            if (skip) continue;
            V r = f(mk<V>(a), mk<V>(b), a[0], b[0]); un(r, got);
            for (size_t i = 0; i < N; ++i) { ++R.n; if (!sameval(got[i], want[i]) && !sameval(got[i], alt[i])) { R.fail(ctx(a, b, nullptr, got, want, i)); break; } }
        }
        R.end();
    }
    template<class F> void ternary(const char* name, Ter o, F f) {
        R.begin(name);
        Cases<V> cs(seed, nrand);
        while (cs.next()) {
            T want[N], alt[N], got[N]; bool skip = false;
            for (size_t i = 0; i < N; ++i) if (!refter(o, cs.a[i], cs.b[i], cs.c[i], G, want[i], alt[i])) skip = true;
            if (skip) continue;
            V r = f(mk<V>(cs.a), mk<V>(cs.b), mk<V>(cs.c)); un(r, got);
            for (size_t i = 0; i < N; ++i) { ++R.n; if (!sameval(got[i], want[i]) && !sameval(got[i], alt[i])) { R.fail(ctx(cs.a, cs.b, cs.c, got, want, i)); break; } }
        }
        R.end();
    }
    template<class F, class Ref> void unary(const char* name, F f, Ref ref, bool fullpool = true) {
        R.begin(name);
        Cases<V> cs(seed, nrand, fullpool);
        while (cs.next()) {
            T want[N], got[N]; bool skip = false;
            for (size_t i = 0; i < N; ++i) if (!ref(cs.a[i], want[i])) skip = true;
            if (skip) continue;
            V r = f(mk<V>(cs.a)); un(r, got);
            for (size_t i = 0; i < N; ++i) { ++R.n; if (!same(got[i], want[i])) { R.fail(ctx(cs.a, nullptr, nullptr, got, want, i)); break; } }
        }
        R.end();
    }
    template<class F, class Ref> void compare(const char* name, int form, F f, Ref ref) {
        R.begin(name);
        Cases<V> cs(seed, nrand);
        while (cs.next()) {
            T a[N], b[N];
            for (size_t i = 0; i < N; ++i) { a[i] = form == 2 ? cs.a[0] : cs.a[i]; b[i] = form == 1 ? cs.b[0] : cs.b[i]; }
            auto r = f(mk<V>(a), mk<V>(b), a[0], b[0]);
            for (size_t i = 0; i < N; ++i) { ++R.n; bool w = ref(a[i], b[i]); if ((bool)r[i] != w) {
                R.fail("lane=" + std::to_string(i) + " a=" + hexv(a, N) + " b=" + hexv(b, N) + " got=" + hex((bool)r[i]) + " want=" + hex(w)); break; } }
        }
        R.end();
    }
};

// ---- construction / set / access -------------------------------------------------------------------------------
template<class V, size_t... I> void call_set(V& v, const typename V::scalar_value_type* x, std::index_sequence<I...>) { v.set(x[I]...); }

template<class V, class = void> struct has_broadcast : std::false_type {};
template<class V> struct has_broadcast<V, decltype(std::declval<V&>().broadcast((const typename V::scalar_value_type*)nullptr))> : std::true_type {};
template<class V> typename std::enable_if<has_broadcast<V>::value>::type do_broadcast(V& v, const typename V::scalar_value_type* p, bool& done) { v.broadcast(p); done = true; }
template<class V> typename std::enable_if<!has_broadcast<V>::value>::type do_broadcast(V&, const typename V::scalar_value_type*, bool& done) { done = false; }

template<class T> T seqadd(T x, size_t i, std::true_type) { return IRef<T>::wrap((__int128)x + (__int128)i); }
template<class T> T seqadd(T x, size_t i, std::false_type) { volatile T v = x; return v + (T)i; }

template<class V> void check_construct(Rep& R, unsigned seed, size_t nrand) {
    using T = typename V::scalar_value_type; constexpr size_t N = V::Size; constexpr bool G = is_generic<V>::value;
    T got[N];
    R.begin("ctor_default"); { V v; un(v, got); for (size_t i = 0; i < N; ++i) { ++R.n; if (!same(got[i], T(0))) R.fail("lane=" + std::to_string(i) + " got=" + hexv(got, N)); } } R.end();
    auto P = pool<T>::get(); Rng rng(seed * 31 + 5);
    for (size_t k = 0; k < nrand / 4 + 8; ++k) P.push_back(rnd<T>::draw(rng, k % 2));
    R.begin("ctor_scalar"); for (T x : P) { V v(x); un(v, got); for (size_t i = 0; i < N; ++i) { ++R.n; if (!same(got[i], x)) { R.fail("x=" + hex(x) + " lane=" + std::to_string(i) + " got=" + hexv(got, N)); break; } } } R.end();
    R.begin("assign_scalar"); for (T x : P) { V v; v = x; un(v, got); for (size_t i = 0; i < N; ++i) { ++R.n; if (!same(got[i], x)) { R.fail("x=" + hex(x) + " lane=" + std::to_string(i) + " got=" + hexv(got, N)); break; } } } R.end();
    R.begin("set_scalar"); for (T x : P) { V v; v.set(x); un(v, got); for (size_t i = 0; i < N; ++i) { ++R.n; if (!same(got[i], x)) { R.fail("x=" + hex(x) + " lane=" + std::to_string(i) + " got=" + hexv(got, N)); break; } } } R.end();
    R.begin("broadcast"); for (T x : P) { V v; bool done; do_broadcast(v, &x, done); if (!done) break; un(v, got);
        for (size_t i = 0; i < N; ++i) { ++R.n; if (!same(got[i], x)) { R.fail("x=" + hex(x) + " lane=" + std::to_string(i) + " got=" + hexv(got, N)); break; } } } R.end();
    // set(x0,...,xN-1): argument k goes to lane N-1-k (the order of _mm_set_*)
    R.begin("set_lanes");
    if (N > 1) for (size_t k = 0; k < P.size(); ++k) { T x[N]; for (size_t i = 0; i < N; ++i) x[i] = P[(k + i * 5) % P.size()];
        V v; call_set(v, x, std::make_index_sequence<N>()); un(v, got);
        for (size_t i = 0; i < N; ++i) { ++R.n; if (!same(got[i], x[N - 1 - i])) { R.fail("args=" + hexv(x, N) + " lane=" + std::to_string(i) + " got=" + hexv(got, N)); break; } } }
    R.end();
    // operator[] / operator()
    R.begin("index");
    for (size_t k = 0; k < P.size(); ++k) { T x[N]; for (size_t i = 0; i < N; ++i) x[i] = P[(k + i * 7) % P.size()];
        V v = mk<V>(x);
        for (size_t i = 0; i < N; ++i) { ++R.n; T y = v[i]; if (!same(y, x[i])) { R.fail("lanes=" + hexv(x, N) + " i=" + std::to_string(i) + " got=" + hex(y)); break; } } }
    R.end();
}

template<class V> typename std::enable_if<!ti<typename V::scalar_value_type>::is_cplx>::type check_sequential(Rep& R, unsigned seed, size_t nrand) {
    using T = typename V::scalar_value_type; constexpr size_t N = V::Size; constexpr bool G = is_generic<V>::value;
    T got[N];
    R.begin("set_sequential");
    std::vector<T> P = {T(0), T(1), T(-1), T(5), T(-7), T(100), T(1000000)};
    if (ti<T>::is_int && !G) { P.push_back(std::numeric_limits<T>::max()); P.push_back(std::numeric_limits<T>::max() - 2); P.push_back(std::numeric_limits<T>::min()); }
    if (!ti<T>::is_int) { P.push_back((T)0.5); P.push_back((T)-2.25); P.push_back((T)16777216); P.push_back((T)1e30); }
    Rng rng(seed * 77 + 1); for (size_t k = 0; k < nrand / 4 + 4; ++k) P.push_back(rnd<T>::draw(rng, 1));
    for (T x : P) { V v; v.set_sequential(x); un(v, got);
        for (size_t i = 0; i < N; ++i) { ++R.n; T w = seqadd(x, i, std::integral_constant<bool, ti<T>::is_int>());
            if (!same(got[i], w)) { R.fail("x=" + hex(x) + " lane=" + std::to_string(i) + " got=" + hexv(got, N)); break; } } }
    R.end();
}
template<class V> typename std::enable_if<ti<typename V::scalar_value_type>::is_cplx>::type check_sequential(Rep&, unsigned, size_t) {}

template<class V, class = void> struct has_aligned : std::false_type {};
template<class V> struct has_aligned<V, decltype(std::declval<V&>().aligned_load((const typename V::scalar_value_type*)nullptr))> : std::true_type {};
template<class V> typename std::enable_if<has_aligned<V>::value>::type do_aligned_load(V& v, const typename V::scalar_value_type* p) { v.aligned_load(p); }
template<class V> typename std::enable_if<!has_aligned<V>::value>::type do_aligned_load(V& v, const typename V::scalar_value_type* p) { v.load(p, true); }
template<class V> typename std::enable_if<has_aligned<V>::value>::type do_aligned_store(const V& v, typename V::scalar_value_type* p) { v.aligned_store(p); }
template<class V> typename std::enable_if<!has_aligned<V>::value>::type do_aligned_store(const V& v, typename V::scalar_value_type* p) { v.store(p, true); }

inline sigjmp_buf& guard_env() { static sigjmp_buf e; return e; }
inline std::string& g_where() { static std::string w; return w; }   // the access being executed (reported when it faults)
inline void guard_handler(int) { siglongjmp(guard_env(), 1); }

// ---- load / store / masks with canaries --------------------------------------------------------------------------
template<class T> T canary(size_t i) { return T((typename ti<T>::real_t)(1000 + (int)i)); }

template<class V> void check_memory(Rep& R, unsigned seed, size_t nrand) {
    using T = typename V::scalar_value_type; constexpr size_t N = V::Size;
    auto P = pool<T>::get(); Rng rng(seed * 13 + 7);
    static Buf<T> src, dst;
    struct sigaction sa0, old0; std::memset(&sa0, 0, sizeof sa0); sa0.sa_handler = guard_handler; sigemptyset(&sa0.sa_mask); sa0.sa_flags = SA_NODEFER;
    sigaction(SIGSEGV, &sa0, &old0); sigaction(SIGBUS, &sa0, nullptr);
    constexpr size_t TOT = Buf<T>::PAD * 2 + 64;
    auto fill_src = [&](size_t k) { for (size_t i = 0; i < TOT; ++i) src.raw[i] = P[(k * 3 + i * 5) % P.size()]; };
    auto fill_dst = [&]() { for (size_t i = 0; i < TOT; ++i) dst.raw[i] = canary<T>(i); };
    auto canaries_ok = [&](size_t off, std::string& why) { for (size_t i = 0; i < TOT; ++i) { if (i >= Buf<T>::PAD + off && i < Buf<T>::PAD + off + N) continue;
        if (!same(dst.raw[i], canary<T>(i))) { why = "memory outside the vector written at element offset " + std::to_string((long)i - (long)(Buf<T>::PAD + off)); return false; } } return true; };
    const size_t offs_al[] = {0, 64 / sizeof(T) >= N ? N : 0};   // aligned positions (buffer is 64-byte aligned, vectors are <= 64 bytes)
    // load(aligned) / load(unaligned) / aligned_load / ctor(ptr)
    for (int form = 0; form < 5; ++form) {
        static const char* names[] = {"load_aligned", "load_unaligned", "aligned_load", "ctor_ptr_aligned", "ctor_ptr_unaligned"};
        R.begin(names[form]);
        if (sigsetjmp(guard_env(), 1) == 0) {
        bool al = (form == 0 || form == 2 || form == 3);
        for (size_t k = 0; k < 12; ++k) { fill_src(k);
            for (size_t off = 0; off < (al ? 2 : 5); ++off) {
                size_t o = al ? offs_al[off] : off; if (al && off == 1 && o == 0) continue;
                const T* p = src.at(o); T got[N]; g_where() = "load at element offset " + std::to_string(o) + " of a 64-byte aligned buffer";
                if (form == 0) { V v; v.load(p, true); un(v, got); } else if (form == 1) { V v; v.load(p, false); un(v, got); }
                else if (form == 2) { V v; do_aligned_load(v, p); un(v, got); } else if (form == 3) { V v(p, true); un(v, got); } else { V v(p, false); un(v, got); }
                for (size_t i = 0; i < N; ++i) { ++R.n; if (!same(got[i], p[i])) { R.fail("offset=" + std::to_string(o) + " lane=" + std::to_string(i) + " mem=" + hexv(p, N) + " got=" + hexv(got, N)); break; } } } }
        } else R.fail("fault (SIGSEGV) at " + g_where() + " (e.g. an aligned-access instruction on an unaligned address, or an access outside the vector)");
        R.end();
    }
    for (int form = 0; form < 3; ++form) {
        static const char* names[] = {"store_aligned", "store_unaligned", "aligned_store"};
        R.begin(names[form]);
        if (sigsetjmp(guard_env(), 1) == 0) {
        bool al = form != 1;
        for (size_t k = 0; k < 12; ++k) { fill_src(k); V v = mk<V>(src.at(0));
            for (size_t off = 0; off < (al ? 2 : 5); ++off) {
                size_t o = al ? offs_al[off] : off; if (al && off == 1 && o == 0) continue;
                fill_dst(); T* p = dst.at(o); g_where() = "store at element offset " + std::to_string(o) + " of a 64-byte aligned buffer";
                if (form == 0) v.store(p, true); else if (form == 1) v.store(p, false); else do_aligned_store(v, p);
                std::string why;
                for (size_t i = 0; i < N; ++i) { ++R.n; if (!same(p[i], src.at(0)[i])) { R.fail("offset=" + std::to_string(o) + " lane=" + std::to_string(i) + " want=" + hexv(src.at(0), N) + " mem=" + hexv(p, N)); break; } }
                if (!canaries_ok(o, why)) R.fail(why); } }
        } else R.fail("fault (SIGSEGV) at " + g_where() + " (e.g. an aligned-access instruction on an unaligned address, or an access outside the vector)");
        R.end();
    }
    // masks: bit j of the mask enables lane j.  All masks when N <= 8, otherwise walking / boundary / seeded masks.
    std::vector<uint32_t> masks;
    if (N <= 8) for (uint32_t m = 0; m < (1u << N); ++m) masks.push_back(m);
    else { for (size_t j = 0; j <= N; ++j) { masks.push_back((uint32_t)((1ull << j) - 1)); masks.push_back((uint32_t)(((1ull << N) - 1) & ~((1ull << j) - 1))); if (j < N) masks.push_back(1u << j); }
           masks.push_back(0x5555u); masks.push_back(0xAAAAu); masks.push_back(0x00FFu); masks.push_back(0xFF00u); masks.push_back(0x0100u); masks.push_back(0x8001u);
           for (size_t k = 0; k < 40 + nrand; ++k) masks.push_back((uint32_t)(rng.next() & ((1ull << N) - 1))); }
    for (int al = 0; al < 2; ++al) {
        R.begin(al ? "mask_store_aligned" : "mask_store_unaligned");
        size_t k = 0;
        if (sigsetjmp(guard_env(), 1) == 0) {
        for (uint32_t m : masks) { fill_src(k++); V v = mk<V>(src.at(0)); fill_dst();
            size_t o = al ? 0 : (k % 3); T* p = dst.at(o); g_where() = "mask_store mask=0x" + hex((int32_t)m) + " at element offset " + std::to_string(o) + " of a 64-byte aligned buffer";
            v.mask_store(p, m, al != 0);
            std::string why;
            for (size_t i = 0; i < N; ++i) { ++R.n; T w = ((m >> i) & 1) ? src.at(0)[i] : canary<T>(Buf<T>::PAD + o + i);
                if (!same(p[i], w)) { R.fail("mask=0x" + hex((int32_t)m) + " lane=" + std::to_string(i) + (((m >> i) & 1) ? " (enabled)" : " (disabled lane written)") + " vec=" + hexv(src.at(0), N) + " mem=" + hexv(p, N) + " before=" + hex(canary<T>(Buf<T>::PAD + o + i))); break; } }
            if (!canaries_ok(o, why)) R.fail("mask=0x" + hex((int32_t)m) + " " + why); }
        } else R.fail("fault (SIGSEGV) at " + g_where() + " (e.g. an aligned-access instruction on an unaligned address, or an access outside the vector)");
        R.end();
        R.begin(al ? "mask_load_aligned" : "mask_load_unaligned");
        if (sigsetjmp(guard_env(), 1) == 0) {
        k = 0;
        for (uint32_t m : masks) { fill_src(k++); size_t o = al ? 0 : (k % 3); const T* p = src.at(o); g_where() = "mask_load mask=0x" + hex((int32_t)m) + " at element offset " + std::to_string(o) + " of a 64-byte aligned buffer";
            V v; v.mask_load(p, m, al != 0); T got[N]; un(v, got);
            for (size_t i = 0; i < N; ++i) { if (!((m >> i) & 1)) continue; ++R.n;
                if (!same(got[i], p[i])) { R.fail("mask=0x" + hex((int32_t)m) + " lane=" + std::to_string(i) + " mem=" + hexv(p, N) + " got=" + hexv(got, N)); break; } } }
        } else R.fail("fault (SIGSEGV) at " + g_where() + " (e.g. an aligned-access instruction on an unaligned address, or an access outside the vector)");
        R.end();
    }
    // (a fault is caught and reported as a failure of this operation)
    // masked accesses next to an unmapped page: lanes j >= q lie in a PROT_NONE page and are disabled; a touch faults
    R.begin("mask_guard_page");
    {
        long pg = sysconf(_SC_PAGESIZE);
        char* base = (char*)mmap(nullptr, 2 * pg, PROT_READ | PROT_WRITE, MAP_PRIVATE | MAP_ANONYMOUS, -1, 0);
        if (base != (char*)MAP_FAILED) {
            mprotect(base + pg, pg, PROT_NONE);
            struct sigaction sa, old_sa; std::memset(&sa, 0, sizeof sa); sa.sa_handler = guard_handler; sigemptyset(&sa.sa_mask); sa.sa_flags = SA_NODEFER;
            sigaction(SIGSEGV, &sa, &old_sa);
            for (size_t q = 1; q < N; ++q) {
                if (sigsetjmp(guard_env(), 1)) { R.fail("fault: a masked access with lanes 0.." + std::to_string(q - 1) + " enabled touched lane >= " + std::to_string(q) + " (unmapped page)"); continue; }
                T* p = (T*)(base + pg) - q;            // lanes 0..q-1 mapped, lanes q.. unmapped
                for (size_t i = 0; i < q; ++i) p[i] = P[(q + i * 3) % P.size()];
                uint32_t m = (uint32_t)((1ull << q) - 1);
                V v; v.mask_load(p, m, false); T got[N]; un(v, got);
                for (size_t i = 0; i < q; ++i) { ++R.n; if (!same(got[i], p[i])) R.fail("guard q=" + std::to_string(q) + " lane=" + std::to_string(i)); }
                T want[N]; for (size_t i = 0; i < N; ++i) want[i] = P[(q * 5 + i) % P.size()];
                V w = mk<V>(want); w.mask_store(p, m, false);
                for (size_t i = 0; i < q; ++i) { ++R.n; if (!same(p[i], want[i])) R.fail("guard store q=" + std::to_string(q) + " lane=" + std::to_string(i)); }
            }
            sigaction(SIGSEGV, &old_sa, nullptr);
            munmap(base, 2 * pg);
        }
    }
    R.end();
    sigaction(SIGSEGV, &old0, nullptr); signal(SIGBUS, SIG_DFL);
}

// ---- reverse, horizontal operations -----------------------------------------------------------------------------------
template<class T, bool C = ti<T>::is_cplx, bool I = ti<T>::is_int> struct HVals;
// floating point: values for which every association of the fold is exact (small integers / powers of two)
template<class T> struct HVals<T, false, false> {
    static T sumv(Rng& r) { return (T)((int64_t)(r.next() % 129) - 64); }
    static T prodv(Rng& r) { static const T c[] = {1, -1, 2, -2, 0.5, -0.5, 4, 0.25, 1, 1}; return c[r.below(10)]; } };
template<class T> struct HVals<T, false, true> {
    static T sumv(Rng& r) { return (T)r.next(); }
    static T prodv(Rng& r) { return (T)r.next(); } };
template<class T> struct HVals<T, true, false> { using R = typename T::value_type;
    static T sumv(Rng& r) { return T((R)((int64_t)(r.next() % 65) - 32), (R)((int64_t)(r.next() % 65) - 32)); }
    static T prodv(Rng& r) { static const R c[] = {1, -1, 2, 0, 0.5, -2}; T z(c[r.below(6)], c[r.below(6)]); if (z == T(0, 0)) z = T(1, 0); return z; } };


// operands and exact fold of the horizontal operations (which: 0 sum, 1 product, 2 dot)
template<class T, bool I = ti<T>::is_int> struct HFold;
template<class T> struct HFold<T, true> { using U = typename std::make_unsigned<T>::type;
    static void draw(T* a, T* b, size_t N, int which, size_t k, bool G, const std::vector<T>& P, Rng& rng) {
        for (size_t i = 0; i < N; ++i) {
            if (!G && k < P.size() * 3) { a[i] = P[(k + i * 5) % P.size()]; b[i] = P[(k * 3 + i * 7 + 1) % P.size()]; }
            else if (!G) { a[i] = (T)rng.next(); b[i] = (T)rng.next(); if (which == 1 && (k & 1)) a[i] = (T)(a[i] | 1); }
            else { a[i] = (T)((int64_t)(rng.next() % (which == 1 ? 7 : 2001)) - (which == 1 ? 3 : 1000)); b[i] = (T)((int64_t)(rng.next() % 2001) - 1000); if (which == 1 && a[i] == 0 && (k & 1)) a[i] = 2; } } }
    static T fold(const T* a, const T* b, size_t N, int which) { U u = which == 1 ? 1 : 0;
        for (size_t i = 0; i < N; ++i) { if (which == 0) u = (U)(u + (U)a[i]); else if (which == 1) u = (U)(u * (U)a[i]); else u = (U)(u + (U)((U)a[i] * (U)b[i])); }
        return (T)u; } };
template<class T> struct HFold<T, false> {
    static void draw(T* a, T* b, size_t N, int which, size_t, bool, const std::vector<T>&, Rng& rng) {
        for (size_t i = 0; i < N; ++i) { a[i] = which == 1 ? HVals<T>::prodv(rng) : HVals<T>::sumv(rng); b[i] = HVals<T>::sumv(rng); } }
    static T fold(const T* a, const T* b, size_t N, int which) { volatile T acc = which == 1 ? 1 : 0;
        for (size_t i = 0; i < N; ++i) { if (which == 0) acc = acc + a[i]; else if (which == 1) acc = acc * a[i]; else acc = acc + a[i] * b[i]; } return acc; } };

template<class V> typename std::enable_if<!ti<typename V::scalar_value_type>::is_cplx>::type check_horizontal(Rep& R, unsigned seed, size_t nrand) {
    using T = typename V::scalar_value_type; constexpr size_t N = V::Size; constexpr bool G = is_generic<V>::value; constexpr bool I = ti<T>::is_int;
    auto P = pool<T>::get(); Rng rng(seed * 101 + 3);
    size_t ncase = P.size() * 3 + nrand * 4;
    R.begin("reverse");
    for (size_t k = 0; k < ncase; ++k) { T a[N], got[N]; for (size_t i = 0; i < N; ++i) a[i] = k < P.size() * 3 ? P[(k + i * 5) % P.size()] : rnd<T>::draw(rng, 0);
        V v = mk<V>(a); V r = v.reverse(); un(r, got);
        for (size_t i = 0; i < N; ++i) { ++R.n; if (!same(got[i], a[N - 1 - i])) { R.fail("lane=" + std::to_string(i) + " a=" + hexv(a, N) + " got=" + hexv(got, N)); break; } } }
    R.end();
    // sum / product / dot: exact folds (integers: wrap-around for the intrinsic classes, non-overflowing values for the T[N] class)
    for (int which = 0; which < 3; ++which) {
        static const char* names[] = {"sum", "product", "dot"};
        R.begin(names[which]);
        for (size_t k = 0; k < ncase; ++k) {
            T a[N], b[N];
            HFold<T>::draw(a, b, N, which, k, G, P, rng);
            T want = HFold<T>::fold(a, b, N, which);
            V va = mk<V>(a), vb = mk<V>(b);
            T got = which == 0 ? va.sum() : which == 1 ? va.product() : va.dot(vb);
            ++R.n; if (!same(got, want) && !(!I && got == want)) R.fail("a=" + hexv(a, N) + (which == 2 ? " b=" + hexv(b, N) : std::string()) + " got=" + hex(got) + " want=" + hex(want));
        }
        R.end();
    }
    for (int which = 0; which < 2; ++which) {
        R.begin(which ? "maximum" : "minimum");
        for (size_t k = 0; k < ncase; ++k) { T a[N]; bool nan = false;
            for (size_t i = 0; i < N; ++i) { a[i] = k < P.size() * 3 ? P[(k + i * (k % 5 + 1)) % P.size()] : rnd<T>::draw(rng, k % 2); if (isnan_(a[i])) nan = true; }
            if (nan) continue;                 // ordering with NaN lanes is not defined for the scalar fold either
            T want = a[0]; for (size_t i = 1; i < N; ++i) if (which ? a[i] > want : a[i] < want) want = a[i];
            V v = mk<V>(a); T got = which ? v.maximum() : v.minimum();
            ++R.n; bool ok = same(got, want) || (!I && got == want);   // +0 / -0 are the same extremum
            if (!ok) R.fail("a=" + hexv(a, N) + " got=" + hex(got) + " want=" + hex(want)); }
        R.end();
    }
}

template<class V, class PV> void cplx_minmax(Rep&, const PV&, size_t, std::true_type);
template<class V, class PV> void cplx_minmax(Rep& R, const PV& P, size_t ncase, std::false_type);
template<class V> typename std::enable_if<ti<typename V::scalar_value_type>::is_cplx>::type check_horizontal(Rep& R, unsigned seed, size_t nrand) {
    using T = typename V::scalar_value_type; constexpr size_t N = V::Size; using Re = typename T::value_type;
    auto P = pool<T>::get(); Rng rng(seed * 101 + 3);
    size_t ncase = 60 + nrand * 4;
    R.begin("reverse");
    for (size_t k = 0; k < ncase; ++k) { T a[N], got[N]; for (size_t i = 0; i < N; ++i) a[i] = P[(k * 7 + i * 11) % P.size()];
        V v = mk<V>(a); V r = v.reverse(); un(r, got);
        for (size_t i = 0; i < N; ++i) { ++R.n; if (!same(got[i], a[N - 1 - i])) { R.fail("lane=" + std::to_string(i) + " a=" + hexv(a, N) + " got=" + hexv(got, N)); break; } } }
    R.end();
    for (int which = 0; which < 3; ++which) {
        static const char* names[] = {"sum", "product", "dot"};
        R.begin(names[which]);
        for (size_t k = 0; k < ncase; ++k) { T a[N], b[N];
            for (size_t i = 0; i < N; ++i) { a[i] = which == 1 ? HVals<T>::prodv(rng) : HVals<T>::sumv(rng); b[i] = HVals<T>::sumv(rng); }
            T acc = which == 1 ? T(1, 0) : T(0, 0);
            for (size_t i = 0; i < N; ++i) { T t, u; if (which == 0) acc = T(acc.real() + a[i].real(), acc.imag() + a[i].imag());
                else if (which == 1) { refbin(MUL, acc, a[i], false, t, u); acc = t; } else { refbin(MUL, a[i], b[i], false, t, u); acc = T(acc.real() + t.real(), acc.imag() + t.imag()); } }
            V va = mk<V>(a), vb = mk<V>(b);
            T got = which == 0 ? va.sum() : which == 1 ? va.product() : va.dot(vb);
            ++R.n; if (!(got == acc)) R.fail("a=" + hexv(a, N) + (which == 2 ? " b=" + hexv(b, N) : std::string()) + " got=" + hex(got) + " want=" + hex(acc)); }
        R.end();
    }
    // rcp(z) = conj(z)/|z|^2, exact on operands whose squared magnitude is a power of two
    R.begin("rcp_complex");
    std::vector<T> Q; for (T z : P) { Re d = z.real() * z.real() + z.imag() * z.imag(); int e; if (d != 0 && std::frexp(d, &e) == (Re)0.5) Q.push_back(z); }
    for (size_t k = 0; k < ncase; ++k) { T a[N], got[N]; bool skip = false; T want[N];
        for (size_t i = 0; i < N; ++i) { a[i] = Q[(k * 13 + i * 7) % Q.size()]; Re den = a[i].real() * a[i].real() + a[i].imag() * a[i].imag();
            int e; if (den == 0 || std::frexp(den, &e) != (Re)0.5) skip = true; else want[i] = T(a[i].real() / den, -(a[i].imag() / den)); }
        if (skip) continue;
        V r = rcp(mk<V>(a)); un(r, got);
        for (size_t i = 0; i < N; ++i) { ++R.n; if (!(got[i] == want[i])) { R.fail("lane=" + std::to_string(i) + " a=" + hexv(a, N) + " got=" + hexv(got, N) + " want_lane=" + hex(want[i])); break; } } }
    R.end();
    // real() / imag() / norm(): vertical
    R.begin("real_imag_norm");
    for (size_t k = 0; k < ncase; ++k) { T a[N]; for (size_t i = 0; i < N; ++i) a[i] = P[(k * 3 + i * 7) % P.size()];
        V v = mk<V>(a); auto re = v.real(); auto im = v.imag(); auto nn = v.norm();
        for (size_t i = 0; i < N; ++i) { ++R.n; Re w = a[i].real() * a[i].real() + a[i].imag() * a[i].imag();
            if (!same((Re)re[i], a[i].real()) || !same((Re)im[i], a[i].imag()) || !((Re)nn[i] == w)) { R.fail("lane=" + std::to_string(i) + " a=" + hexv(a, N)); break; } } }
    R.end();
    // (minimum()/maximum() are defined for SIMDVector<complex<double>,sse> only; the other complex specialisations declare them without a body)
    cplx_minmax<V>(R, P, ncase, std::integral_constant<bool, !std::is_same<V, SIMDVector<std::complex<double>, abi::sse>>::value || is_generic<V>::value>());
}
template<class V, class PV> void cplx_minmax(Rep&, const PV&, size_t, std::true_type) {}   // T[N] class: std::complex has no ordering, minimum() does not exist
template<class V, class PV> void cplx_minmax(Rep& R, const PV& P, size_t ncase, std::false_type) {
    using T = typename V::scalar_value_type; constexpr size_t N = V::Size; using Re = typename T::value_type;
    // minimum / maximum: by squared magnitude; ties may return any lane with that magnitude
    for (int which = 0; which < 2; ++which) {
        R.begin(which ? "maximum" : "minimum");
        for (size_t k = 0; k < ncase; ++k) { T a[N]; for (size_t i = 0; i < N; ++i) a[i] = P[(k * 5 + i * (k % 7 + 1) * 3) % P.size()];
            Re best = std::norm(a[0]); for (size_t i = 1; i < N; ++i) { Re q = a[i].real() * a[i].real() + a[i].imag() * a[i].imag(); if (which ? q > best : q < best) best = q; }
            V v = mk<V>(a); T got = which ? v.maximum() : v.minimum(); ++R.n;
            bool member = false; for (size_t i = 0; i < N; ++i) if (same(got, a[i])) member = true;
            Re g = got.real() * got.real() + got.imag() * got.imag();
            if (!member || g != best) R.fail("a=" + hexv(a, N) + " got=" + hex(got) + " extremal |z|^2=" + hex(best)); }
        R.end();
    }
}

// ---- arithmetic -------------------------------------------------------------------------------------------------
template<class V> void check_arith(Rep& R, unsigned seed, size_t nrand) {
    using T = typename V::scalar_value_type; constexpr bool G = is_generic<V>::value;
    Chk<V> C(R, seed, nrand);
    C.unary("neg", [](V a) { return -a; }, [](T a, T& r) { return refneg(a, G, r); });
    C.unary("pos", [](V a) { return +a; }, [](T a, T& r) { r = a; return true; });
    C.binary("add_vv", ADD, 0, [](V a, V b, T, T) { return a + b; });
    C.binary("add_vs", ADD, 1, [](V a, V, T, T s) { return a + s; });
    C.binary("add_sv", ADD, 2, [](V, V b, T s, T) { return s + b; });
    C.binary("iadd_v", ADD, 0, [](V a, V b, T, T) { a += b; return a; });
    C.binary("iadd_s", ADD, 1, [](V a, V, T, T s) { a += s; return a; });
    C.binary("sub_vv", SUB, 0, [](V a, V b, T, T) { return a - b; });
    C.binary("sub_vs", SUB, 1, [](V a, V, T, T s) { return a - s; });
    C.binary("sub_sv", SUB, 2, [](V, V b, T s, T) { return s - b; });
    C.binary("isub_v", SUB, 0, [](V a, V b, T, T) { a -= b; return a; });
    C.binary("isub_s", SUB, 1, [](V a, V, T, T s) { a -= s; return a; });
    C.binary("mul_vv", MUL, 0, [](V a, V b, T, T) { return a * b; });
    C.binary("mul_vs", MUL, 1, [](V a, V, T, T s) { return a * s; });
    C.binary("mul_sv", MUL, 2, [](V, V b, T s, T) { return s * b; });
    C.binary("imul_v", MUL, 0, [](V a, V b, T, T) { a *= b; return a; });
    C.binary("imul_s", MUL, 1, [](V a, V, T, T s) { a *= s; return a; });
    C.binary("div_vv", DIV, 0, [](V a, V b, T, T) { return a / b; });
    C.binary("div_vs", DIV, 1, [](V a, V, T, T s) { return a / s; });
    C.binary("div_sv", DIV, 2, [](V, V b, T s, T) { return s / b; });
    C.binary("idiv_v", DIV, 0, [](V a, V b, T, T) { a /= b; return a; });
    C.binary("idiv_s", DIV, 1, [](V a, V, T, T s) { a /= s; return a; });
    C.ternary("fmadd", FMADD, [](V a, V b, V c) { return Fastor::fmadd(a, b, c); });
    C.ternary("fmsub", FMSUB, [](V a, V b, V c) { return Fastor::fmsub(a, b, c); });
    C.ternary("fnmadd", FNMADD, [](V a, V b, V c) { return Fastor::fnmadd(a, b, c); });
}

template<class V> typename std::enable_if<!ti<typename V::scalar_value_type>::is_cplx>::type check_real_only(Rep& R, unsigned seed, size_t nrand) {
    using T = typename V::scalar_value_type; constexpr bool G = is_generic<V>::value; constexpr size_t N = V::Size;
    Chk<V> C(R, seed, nrand);
    C.unary("abs", [](V a) { return abs(a); }, [](T a, T& r) { return refabs(a, G, r); });
    C.binary("min_vv", MIN, 0, [](V a, V b, T, T) { return Fastor::min(a, b); });
    C.binary("min_vs", MIN, 1, [](V a, V, T, T s) { return Fastor::min(a, s); });
    C.binary("min_sv", MIN, 2, [](V, V b, T s, T) { return Fastor::min(s, b); });
    C.binary("max_vv", MAX, 0, [](V a, V b, T, T) { return Fastor::max(a, b); });
    C.binary("max_vs", MAX, 1, [](V a, V, T, T s) { return Fastor::max(a, s); });
    C.binary("max_sv", MAX, 2, [](V, V b, T s, T) { return Fastor::max(s, b); });
    C.compare("eq_vv", 0, [](V a, V b, T, T) { return a == b; }, [](T a, T b) { return a == b; });
    C.compare("ne_vv", 0, [](V a, V b, T, T) { return a != b; }, [](T a, T b) { return a != b; });
    C.compare("lt_vv", 0, [](V a, V b, T, T) { return a < b; }, [](T a, T b) { return a < b; });
    C.compare("gt_vv", 0, [](V a, V b, T, T) { return a > b; }, [](T a, T b) { return a > b; });
    C.compare("le_vv", 0, [](V a, V b, T, T) { return a <= b; }, [](T a, T b) { return a <= b; });
    C.compare("ge_vv", 0, [](V a, V b, T, T) { return a >= b; }, [](T a, T b) { return a >= b; });
    C.compare("lt_vs", 1, [](V a, V, T, T s) { return a < s; }, [](T a, T b) { return a < b; });
    C.compare("ge_sv", 2, [](V, V b, T s, T) { return s >= b; }, [](T a, T b) { return a >= b; });
    C.compare("eq_vs", 1, [](V a, V, T, T s) { return a == s; }, [](T a, T b) { return a == b; });
}
template<class V> typename std::enable_if<ti<typename V::scalar_value_type>::is_cplx>::type check_real_only(Rep&, unsigned, size_t) {}

// sqrt exact (IEEE), rcp / rsqrt within the documented relative error of the approximate instructions (a TEST, labelled):
// 1.5 * 2^-12 for the SSE/AVX approximations, 2^-14 for AVX-512 rcp14/rsqrt14; exact division for double and the T[N] class
template<class V> typename std::enable_if<!ti<typename V::scalar_value_type>::is_cplx && !ti<typename V::scalar_value_type>::is_int>::type
check_float_only(Rep& R, unsigned seed, size_t nrand) {
    using T = typename V::scalar_value_type; constexpr size_t N = V::Size;
    Chk<V> C(R, seed, nrand);
    C.unary("sqrt", [](V a) { return sqrt(a); }, [](T a, T& r) { volatile T v = a; r = std::sqrt((T)v); return true; });
    for (int which = 0; which < 2; ++which) {
        R.begin(which ? "rsqrt_approx" : "rcp_approx");
        Rng rng(seed * 7 + which);
        const double tol = 1.5 / 4096.0;
        for (size_t k = 0; k < 200 + nrand * 8; ++k) { T a[N], got[N];
            for (size_t i = 0; i < N; ++i) { double m = 1.0 + (double)(rng.next() % 1000000) / 1000000.0; int e = (int)(rng.next() % 61) - 30; a[i] = (T)std::ldexp(m, e); if (!which && (rng.next() & 1)) a[i] = -a[i]; }
            V r = which ? rsqrt(mk<V>(a)) : rcp(mk<V>(a)); un(r, got);
            for (size_t i = 0; i < N; ++i) { ++R.n; double w = which ? 1.0 / std::sqrt((double)a[i]) : 1.0 / (double)a[i];
                double rel = std::fabs(((double)got[i] - w) / w);
                if (!(rel <= tol)) { R.fail("lane=" + std::to_string(i) + " a=" + hexv(a, N) + " got=" + hexv(got, N) + " relerr=" + std::to_string(rel)); break; } } }
        R.end();
    }
}
template<class V> typename std::enable_if<ti<typename V::scalar_value_type>::is_cplx || ti<typename V::scalar_value_type>::is_int>::type
check_float_only(Rep&, unsigned, size_t) {}

// cast<U>() exists on the T[N] class only
template<class V, class U, class = void> struct has_cast : std::false_type {};
template<class V, class U> struct has_cast<V, U, decltype((void)std::declval<V&>().template cast<U>())> : std::true_type {};
template<class V, class U> typename std::enable_if<has_cast<V, U>::value>::type check_cast(Rep& R, const char* name, unsigned seed) {
    using T = typename V::scalar_value_type; constexpr size_t N = V::Size;
    R.begin(name); Rng rng(seed * 3 + 11);
    for (size_t k = 0; k < 64; ++k) { T a[N]; for (size_t i = 0; i < N; ++i) a[i] = (T)((int64_t)(rng.next() % 200001) - 100000) / (ti<T>::is_int ? (T)1 : (T)8);
        V v = mk<V>(a); auto r = v.template cast<U>();
        constexpr size_t NU = decltype(r)::Size;      // a wider U has fewer lanes: the common lanes are converted
        for (size_t i = 0; i < (N < NU ? N : NU); ++i) { ++R.n; U w = static_cast<U>(a[i]); if (!same((U)r[i], w)) { R.fail("lane=" + std::to_string(i) + " a=" + hexv(a, N)); break; } } }
    R.end();
}
template<class V, class U> typename std::enable_if<!has_cast<V, U>::value>::type check_cast(Rep&, const char*, unsigned) {}
template<class V> typename std::enable_if<!ti<typename V::scalar_value_type>::is_cplx>::type check_casts(Rep& R, unsigned seed) {
    check_cast<V, float>(R, "cast_float", seed); check_cast<V, double>(R, "cast_double", seed); check_cast<V, int32_t>(R, "cast_int32", seed); check_cast<V, int64_t>(R, "cast_int64", seed);
}
template<class V> typename std::enable_if<ti<typename V::scalar_value_type>::is_cplx>::type check_casts(Rep&, unsigned) {}

template<class T, class ABI> void run_simd(unsigned seed, unsigned nrand, const char* only = nullptr) {
    using V = SIMDVector<T, ABI>;
    Rep R; R.seed = seed;
    char head[256]; std::snprintf(head, sizeof head, "simd cfg=%s opt=%s T=%s abi=%s cls=%s N=%d", CFGNAME, OPTNAME, ti<T>::name(), ai<ABI>::name(),
                                  is_generic<V>::value ? "generic" : "spec", (int)V::Size);
    R.head = head; (void)only;
    check_construct<V>(R, seed, nrand);
    check_sequential<V>(R, seed, nrand);
    check_memory<V>(R, seed, nrand);
    check_arith<V>(R, seed, nrand);
    check_real_only<V>(R, seed, nrand);
    check_float_only<V>(R, seed, nrand);
    check_horizontal<V>(R, seed, nrand);
    check_casts<V>(R, seed);
}

} // namespace sr

// helpers of extintrin.h that no SIMDVector member calls (dead code, probed directly): _mm256_div_epi32x
inline void run_helpers(unsigned seed) {
#ifdef FASTOR_AVX_IMPL
    sr::Rep R; R.seed = seed; R.head = std::string("simd cfg=") + CFGNAME + " opt=" + OPTNAME + " T=int32_t abi=avx cls=helper N=8";
    R.begin("helper_mm256_div_epi32x");
    sr::Rng rng(seed);
    for (int k = 0; k < 50; ++k) { alignas(32) int32_t a[8], b[8], got[8];
        for (int i = 0; i < 8; ++i) { a[i] = (int32_t)(rng.next() % 20001) - 10000; b[i] = (int32_t)(rng.next() % 199) + 1; }
        __m256i r = Fastor::_mm256_div_epi32x(_mm256_load_si256((const __m256i*)a), _mm256_load_si256((const __m256i*)b));
        _mm256_store_si256((__m256i*)got, r);
        for (int i = 0; i < 8; ++i) { ++R.n; if (got[i] != a[i] / b[i]) { R.fail("lane=" + std::to_string(i) + " a=" + sr::hexv(a, 8) + " b=" + sr::hexv(b, 8) + " got=" + sr::hexv(got, 8)); break; } } }
    R.end();
#else
    (void)seed;
#endif
}

// ---- kernels translated by C08 that are not SIMDVector members: outer products, register transposes, norms ----------
namespace sr {
template<class T, size_t M, size_t N> void check_dyadic(Rep& R, unsigned seed) {
    char nm[64]; std::snprintf(nm, sizeof nm, "kernel_dyadic_%zu_%zu", M, N);
    R.begin(nm); Rng rng(seed * 5 + M * 7 + N);
    // operands end exactly at an unmapped page (a read past the operand faults), result between canaries
    long pg = sysconf(_SC_PAGESIZE);
    char* base = (char*)mmap(nullptr, 4 * pg, PROT_READ | PROT_WRITE, MAP_PRIVATE | MAP_ANONYMOUS, -1, 0);
    if (base == (char*)MAP_FAILED) { R.end(); return; }
    mprotect(base + pg, pg, PROT_NONE); mprotect(base + 3 * pg, pg, PROT_NONE);
    T* a = (T*)(base + pg) - M; T* b = (T*)(base + 3 * pg) - N;
    struct sigaction sa, old; std::memset(&sa, 0, sizeof sa); sa.sa_handler = guard_handler; sigemptyset(&sa.sa_mask); sa.sa_flags = SA_NODEFER; sigaction(SIGSEGV, &sa, &old);
    alignas(64) static T outbuf[64 + M * N + 64];
    for (int k = 0; k < 40; ++k) {
        for (size_t i = 0; i < M; ++i) a[i] = (T)((int)(rng.next() % 41) - 20) / (T)4;
        for (size_t j = 0; j < N; ++j) b[j] = (T)((int)(rng.next() % 41) - 20) / (T)4;
        for (size_t i = 0; i < 128 + M * N; ++i) outbuf[i] = canary<T>(i);
        T* out = outbuf + 64;                    // 64-byte aligned (some specialisations use aligned stores)
        if (sigsetjmp(guard_env(), 1)) { R.fail("fault inside the kernel: the operands (" + std::to_string(M) + " / " + std::to_string(N) + " elements) end at an unmapped page, the result is 64-byte aligned"); break; }
        Fastor::_dyadic<T, M, N>(a, b, out);
        for (size_t i = 0; i < M; ++i) for (size_t j = 0; j < N; ++j) { ++R.n; T w = a[i] * b[j];
            if (!(out[i * N + j] == w)) R.fail("out[" + std::to_string(i * N + j) + "] a=" + hexv(a, M) + " b=" + hexv(b, N) + " got=" + hex(out[i * N + j]) + " want=" + hex(w)); }
        for (size_t i = 0; i < 128 + M * N; ++i) { T* p = outbuf + i; if (p >= out && p < out + M * N) continue;
            if (!same(*p, canary<T>(i))) { R.fail("element " + std::to_string((long)(p - out)) + " relative to the " + std::to_string(M * N) + "-element result was written"); break; } }
    }
    sigaction(SIGSEGV, &old, nullptr); munmap(base, 4 * pg);
    R.end();
}
template<class T, size_t N> void check_norm(Rep& R, unsigned seed) {
    char nm[64]; std::snprintf(nm, sizeof nm, "kernel_norm_%zu", N);
    R.begin(nm); Rng rng(seed * 3 + N);
    for (int k = 0; k < 60; ++k) { alignas(64) T a[N + 8]; volatile T acc = 0;
        for (size_t i = 0; i < N; ++i) { a[i] = (T)((int)(rng.next() % 21) - 10); acc = acc + a[i] * a[i]; }   // integers: every association exact
        T got = Fastor::_norm<T, N>(a); volatile T w = std::sqrt((T)acc); ++R.n;
        if (!same(got, (T)w)) R.fail("a=" + hexv(a, N) + " got=" + hex(got) + " want=" + hex((T)w)); }
    R.end();
}
} // namespace sr
inline void run_kernels(unsigned seed) {
    sr::Rep R; R.seed = seed;
    for (int t = 0; t < 2; ++t) {
        R.head = std::string("simd cfg=") + CFGNAME + " opt=" + OPTNAME + " T=" + (t ? "double" : "float") + " abi=kernel cls=kernel N=0";
        if (t == 0) { sr::check_dyadic<float, 2, 2>(R, seed); sr::check_dyadic<float, 3, 3>(R, seed); sr::check_dyadic<float, 4, 4>(R, seed); sr::check_dyadic<float, 1, 1>(R, seed); sr::check_dyadic<float, 2, 3>(R, seed);
                      sr::check_norm<float, 4>(R, seed); sr::check_norm<float, 9>(R, seed); sr::check_norm<float, 6>(R, seed); }
        else { sr::check_dyadic<double, 2, 2>(R, seed); sr::check_dyadic<double, 3, 3>(R, seed); sr::check_dyadic<double, 4, 4>(R, seed); sr::check_dyadic<double, 1, 1>(R, seed); sr::check_dyadic<double, 3, 2>(R, seed);
               sr::check_norm<double, 4>(R, seed); sr::check_norm<double, 9>(R, seed); sr::check_norm<double, 5>(R, seed); }
#ifdef FASTOR_AVX_IMPL
        if (t == 0) { R.begin("kernel_transpose8_ps"); sr::Rng rng(seed + 77);
            for (int k = 0; k < 20; ++k) { alignas(32) float m[8][8]; __m256 r[8];
                for (int i = 0; i < 8; ++i) { for (int j = 0; j < 8; ++j) m[i][j] = (float)(int)(rng.next() % 1000); r[i] = _mm256_load_ps(m[i]); }
                Fastor::internal::_MM_TRANSPOSE8_PS(r[0], r[1], r[2], r[3], r[4], r[5], r[6], r[7]);
                for (int i = 0; i < 8; ++i) { alignas(32) float o[8]; _mm256_store_ps(o, r[i]); for (int j = 0; j < 8; ++j) { ++R.n; if (o[j] != m[j][i]) R.fail("row " + std::to_string(i) + " col " + std::to_string(j)); } } }
            R.end(); }
        else { R.begin("kernel_transpose4_pd"); sr::Rng rng(seed + 78);
            for (int k = 0; k < 20; ++k) { alignas(32) double m[4][4]; __m256d r[4];
                for (int i = 0; i < 4; ++i) { for (int j = 0; j < 4; ++j) m[i][j] = (double)(int)(rng.next() % 1000); r[i] = _mm256_load_pd(m[i]); }
                Fastor::internal::_MM_TRANSPOSE4_PD(r[0], r[1], r[2], r[3]);
                for (int i = 0; i < 4; ++i) { alignas(32) double o[4]; _mm256_store_pd(o, r[i]); for (int j = 0; j < 4; ++j) { ++R.n; if (o[j] != m[j][i]) R.fail("row " + std::to_string(i) + " col " + std::to_string(j)); } } }
            R.end(); }
#endif
    }
}
using sr::run_simd;
