// C10: every way the inverse of a square tensor can be requested, as one template family (shared by the exact
// rational harness inverse_rat.h and the float/double harness inverse_real.h).  Include after <Fastor/Fastor.h>.
#ifndef VF_INVERSE_CALLS_H
#define VF_INVERSE_CALLS_H
#include <string>
namespace icall {
using namespace Fastor;
enum { SIMPLE = 0, SIMPLEPIV = 1, SIMPLELU = 2, SIMPLELUPIV = 3, BLOCKLU = 4, BLOCKLUPIV = 5, UT = 6, LUT = 7,
       LAZY = 8, LAZYADD = 9, LAZYSUB = 10, LAZYMUL = 11, LAZYMULL = 12, EXPR = 13, UTEXPR = 14, LUTEXPR = 15, LAZYMULEQ = 16, NVAR = 17 };
static const char* const names[NVAR] = {"simple", "simplepiv", "simplelu", "simplelupiv", "blocklu", "blocklupiv", "ut", "lut",
    "lazy", "lazyadd", "lazysub", "lazymul", "lazymull", "expr", "utexpr", "lutexpr", "lazymuleq"};
// the strategy of the model a variant is compared with
static const int base_of[NVAR] = {SIMPLE, SIMPLEPIV, SIMPLELU, SIMPLELUPIV, BLOCKLU, BLOCKLUPIV, UT, LUT,
    SIMPLE, SIMPLE, SIMPLE, SIMPLE, SIMPLE, SIMPLE, UT, LUT, SIMPLE};
static inline int variant_id(const std::string& s) { for (int i = 0; i < NVAR; ++i) if (s == names[i]) return i; return -1; }
static inline bool is_piv(int s) { return s == SIMPLEPIV || s == SIMPLELUPIV || s == BLOCKLUPIV; }

template<class T, size_t n> static inline Tensor<T,n,n> eye_() { Tensor<T,n,n> I(0); for (size_t i = 0; i < n; ++i) I(i,i) = T(1); return I; }

template<class T, int S, size_t n> struct Call;
#define ICALL(S, ...) template<class T, size_t n> struct Call<T, S, n> { static Tensor<T,n,n> go(const Tensor<T,n,n>& A) { __VA_ARGS__ } };
ICALL(SIMPLE,      return inverse<InvCompType::SimpleInv>(A);)
ICALL(SIMPLEPIV,   return inverse<InvCompType::SimpleInvPiv>(A);)
ICALL(SIMPLELU,    return inverse<InvCompType::SimpleLU>(A);)
ICALL(SIMPLELUPIV, return inverse<InvCompType::SimpleLUPiv>(A);)
ICALL(BLOCKLU,     return inverse<InvCompType::BlockLU>(A);)
ICALL(BLOCKLUPIV,  return inverse<InvCompType::BlockLUPiv>(A);)
ICALL(UT,          return tinverse<InvCompType::SimpleInv, UpLoType::Upper>(A);)
ICALL(LUT,         return tinverse<InvCompType::SimpleInv, UpLoType::UniLower>(A);)
// lazy expression inv(A): assign, compound assignments (X is recovered by an exact subtraction), products with I
ICALL(LAZY,        Tensor<T,n,n> X = inv(A); return X;)
ICALL(LAZYADD,     Tensor<T,n,n> Y(A); Y += inv(A); Tensor<T,n,n> X; for (size_t k = 0; k < n*n; ++k) X.data()[k] = Y.data()[k] - A.data()[k]; return X;)
ICALL(LAZYSUB,     Tensor<T,n,n> Y(A); Y -= inv(A); Tensor<T,n,n> X; for (size_t k = 0; k < n*n; ++k) X.data()[k] = A.data()[k] - Y.data()[k]; return X;)
ICALL(LAZYMUL,     Tensor<T,n,n> I = eye_<T,n>(); Tensor<T,n,n> X = inv(A) % I; return X;)
ICALL(LAZYMULL,    Tensor<T,n,n> I = eye_<T,n>(); Tensor<T,n,n> X = I % inv(A); return X;)
ICALL(LAZYMULEQ,   Tensor<T,n,n> Y(T(1)); Y *= inv(A); return Y;)   // element-wise compound product with the lazy inverse
// the overloads for generic expressions
ICALL(EXPR,        Tensor<T,n,n> Z(0); return inverse(A + Z);)
ICALL(UTEXPR,      Tensor<T,n,n> Z(0); return tinverse<InvCompType::SimpleInv, UpLoType::Upper>(A + Z);)
ICALL(LUTEXPR,     Tensor<T,n,n> Z(0); return tinverse<InvCompType::SimpleInv, UpLoType::UniLower>(A + Z);)
#undef ICALL
} // namespace icall
#endif
