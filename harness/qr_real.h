// K4 floating-point runs for C13 — a TEST, not a proof: the real `qr` over float/double under the ISA
// flag set of the translation unit, on matrices with a prescribed 2-norm condition number
// (A = U diag(sigma) V^T, U,V products of Householder reflections built in long double, sigma geometric
// from 1 down to 1/cond).  Measured in long double:
//   rec  = ||Q R - P A||_F / ||A||_F          must be <= CREC  * n * eps
//   orth = ||Q^T Q - I||_F                    must be <= CORTH * n * eps * cond     (Gram-Schmidt: inherent)
//   R(i,j) == 0 exactly for j < i, P equals the arg-max pivot of the source, det<QR> == prod R_ii (4 n eps rel.)
// One line per case: `qrreal cfg=.. T=.. n=.. strat=.. lc=.. seed=.. | ok orth=.. rec=..` or `| FAIL ...`.
#include <Fastor/Fastor.h>
#include <cstdio>
#include <cmath>
#include <limits>
#include <string>
#include <vector>
using namespace Fastor;
#ifndef CFGNAME
#define CFGNAME "sse2"
#endif
static bool g_verbose = false;   // set by replay translation units
#ifndef QR_CREC
#define QR_CREC 4.0L
#endif
#ifndef QR_CORTH
#define QR_CORTH 4.0L
#endif

namespace qrr {
typedef long double ld;
struct Rng { uint64_t s; explicit Rng(uint64_t x) : s(x * 6364136223846793005ull + 1442695040888963407ull) { next(); next(); }
    uint32_t next() { s = s * 6364136223846793005ull + 1442695040888963407ull; return (uint32_t)(s >> 33); }
    ld unit() { return ((ld)next() + 0.5L) / 2147483648.0L * 2.0L - 1.0L; } };
// X <- H(v) X
static inline void hh(std::vector<ld>& X, size_t n, const std::vector<ld>& v) {
    ld vv = 0; for (size_t i = 0; i < n; ++i) vv += v[i] * v[i];
    for (size_t j = 0; j < n; ++j) { ld d = 0; for (size_t i = 0; i < n; ++i) d += v[i] * X[i * n + j]; ld f = 2 * d / vv; for (size_t i = 0; i < n; ++i) X[i * n + j] -= f * v[i]; }
}
static inline std::vector<ld> randorth(size_t n, Rng& g) {
    std::vector<ld> X(n * n, 0); for (size_t i = 0; i < n; ++i) X[i * n + i] = 1;
    for (size_t t = 0; t < n; ++t) { std::vector<ld> v(n); for (size_t i = 0; i < n; ++i) v[i] = g.unit(); v[t % n] += 0.25L; hh(X, n, v); }
    return X;
}
template<typename T> struct tn; template<> struct tn<float> { static const char* n() { return "float"; } }; template<> struct tn<double> { static const char* n() { return "double"; } };
enum { S_MGSR = 0, S_MGSR_EXPR = 1, S_PIVV = 2, S_PIVV_EXPR = 3, S_PIVM = 4, S_PIVM_EXPR = 5,
       S_MGSR_SUM = 6, S_MGSR_TRANS = 7, S_PIVV_SUM = 8, S_PIVM_TRANS = 9 };
static const char* const SNAME[10] = {"mgsr", "mgsr_expr", "pivv", "pivv_expr", "pivm", "pivm_expr", "mgsr_sum", "mgsr_trans", "pivv_sum", "pivm_trans"};
static inline bool is_piv(int S) { return (S >= 2 && S <= 5) || S >= 8; }
static inline bool is_pmat(int S) { return S == 4 || S == 5 || S == 9; }
template<typename T, size_t n, int S> struct call_qr;
template<typename T, size_t n> struct call_qr<T, n, S_MGSR> { static void go(const Tensor<T,n,n>& A, Tensor<T,n,n>& Q, Tensor<T,n,n>& R, Tensor<size_t,n>&, Tensor<T,n,n>&) { qr(A, Q, R); } };
template<typename T, size_t n> struct call_qr<T, n, S_MGSR_EXPR> { static void go(const Tensor<T,n,n>& A, Tensor<T,n,n>& Q, Tensor<T,n,n>& R, Tensor<size_t,n>&, Tensor<T,n,n>&) { qr<QRCompType::MGSR>(A + T(0), Q, R); } };
template<typename T, size_t n> struct call_qr<T, n, S_PIVV> { static void go(const Tensor<T,n,n>& A, Tensor<T,n,n>& Q, Tensor<T,n,n>& R, Tensor<size_t,n>& P, Tensor<T,n,n>&) { qr<QRCompType::MGSRPiv>(A, Q, R, P); } };
template<typename T, size_t n> struct call_qr<T, n, S_PIVV_EXPR> { static void go(const Tensor<T,n,n>& A, Tensor<T,n,n>& Q, Tensor<T,n,n>& R, Tensor<size_t,n>& P, Tensor<T,n,n>&) { qr<QRCompType::MGSRPiv>(A + T(0), Q, R, P); } };
template<typename T, size_t n> struct call_qr<T, n, S_PIVM> { static void go(const Tensor<T,n,n>& A, Tensor<T,n,n>& Q, Tensor<T,n,n>& R, Tensor<size_t,n>&, Tensor<T,n,n>& PM) { qr<QRCompType::MGSRPiv>(A, Q, R, PM); } };
template<typename T, size_t n> struct call_qr<T, n, S_PIVM_EXPR> { static void go(const Tensor<T,n,n>& A, Tensor<T,n,n>& Q, Tensor<T,n,n>& R, Tensor<size_t,n>&, Tensor<T,n,n>& PM) { qr<QRCompType::MGSRPiv>(A + T(0), Q, R, PM); } };
// lazy arguments that are not "tensor + scalar": a sum of two tensors (A + Z, Z all zero: exact) and a transpose
// (trans(At) with At the transposed input: exact)
template<typename T, size_t n> static inline Tensor<T,n,n> zeros_like(const Tensor<T,n,n>&) { Tensor<T,n,n> Z; for (size_t i = 0; i < n * n; ++i) Z.data()[i] = T(0); return Z; }
template<typename T, size_t n> static inline Tensor<T,n,n> transposed(const Tensor<T,n,n>& A) { Tensor<T,n,n> B; for (size_t i = 0; i < n; ++i) for (size_t j = 0; j < n; ++j) B(i, j) = A(j, i); return B; }
template<typename T, size_t n> struct call_qr<T, n, S_MGSR_SUM> { static void go(const Tensor<T,n,n>& A, Tensor<T,n,n>& Q, Tensor<T,n,n>& R, Tensor<size_t,n>&, Tensor<T,n,n>&) { Tensor<T,n,n> Z = zeros_like(A); qr(A + Z, Q, R); } };
template<typename T, size_t n> struct call_qr<T, n, S_MGSR_TRANS> { static void go(const Tensor<T,n,n>& A, Tensor<T,n,n>& Q, Tensor<T,n,n>& R, Tensor<size_t,n>&, Tensor<T,n,n>&) { Tensor<T,n,n> At = transposed(A); qr(trans(At), Q, R); } };
template<typename T, size_t n> struct call_qr<T, n, S_PIVV_SUM> { static void go(const Tensor<T,n,n>& A, Tensor<T,n,n>& Q, Tensor<T,n,n>& R, Tensor<size_t,n>& P, Tensor<T,n,n>&) { Tensor<T,n,n> Z = zeros_like(A); qr<QRCompType::MGSRPiv>(A + Z, Q, R, P); } };
template<typename T, size_t n> struct call_qr<T, n, S_PIVM_TRANS> { static void go(const Tensor<T,n,n>& A, Tensor<T,n,n>& Q, Tensor<T,n,n>& R, Tensor<size_t,n>&, Tensor<T,n,n>& PM) { Tensor<T,n,n> At = transposed(A); qr<QRCompType::MGSRPiv>(trans(At), Q, R, PM); } };
} // namespace qrr

// lc10 = 10 * log10(cond)
template<typename T, size_t n, int S>
void run_qrreal(unsigned seed, int lc10) {
    using namespace qrr;
    Rng g(seed * 7919ull + n * 31 + S);
    const ld cond = std::pow(10.0L, lc10 / 10.0L);
    std::vector<ld> U = randorth(n, g), V = randorth(n, g), Ald(n * n, 0);
    for (size_t i = 0; i < n; ++i) for (size_t j = 0; j < n; ++j) {
        ld s = 0;
        for (size_t k = 0; k < n; ++k) { ld sig = n == 1 ? 1.0L : std::pow(cond, -(ld)k / (ld)(n - 1)); s += U[i * n + k] * sig * V[j * n + k]; }
        Ald[i * n + j] = s;
    }
    Tensor<T,n,n> A; for (size_t i = 0; i < n * n; ++i) A.data()[i] = (T)Ald[i];
    Tensor<T,n,n> Q, R, PM; Tensor<size_t,n> PV;
    for (size_t i = 0; i < n * n; ++i) { Q.data()[i] = T(77); R.data()[i] = T(77); PM.data()[i] = T(77); }
    for (size_t i = 0; i < n; ++i) PV.data()[i] = 77;
    const bool piv = is_piv(S), pmat = is_pmat(S);
    call_qr<T, n, S>::go(A, Q, R, PV, PM);
    T det = determinant<DetCompType::QR>(A);
    Tensor<T,n,n> Qd, Rd; qr(A, Qd, Rd);
    std::string why;
    std::vector<size_t> perm(n), eperm(n);
    bool perm_ok = true;
    for (size_t i = 0; i < n; ++i) { perm[i] = i; eperm[i] = i; }
    if (piv && !pmat) for (size_t i = 0; i < n; ++i) { perm[i] = PV(i); if (perm[i] >= n) { perm_ok = false; perm[i] = 0; } }
    if (pmat) for (size_t i = 0; i < n; ++i) {
        size_t c1 = 0;
        for (size_t j = 0; j < n; ++j) { if (PM(i, j) == T(1)) { ++c1; perm[i] = j; } else if (PM(i, j) != T(0)) perm_ok = false; }
        if (c1 != 1) perm_ok = false;
    }
    if (piv) for (size_t j = 0; j < n; ++j) {
        size_t mx = j;
        for (size_t i = j; i < n; ++i) if (std::abs(A(i, j)) > std::abs(A(mx, j))) mx = i;
        if (mx != j) std::swap(eperm[j], eperm[mx]);
    }
    { std::vector<int> seen(n, 0); for (size_t i = 0; i < n; ++i) if (perm[i] < n) seen[perm[i]]++; for (size_t i = 0; i < n; ++i) if (seen[i] != 1) perm_ok = false; }
    if (!perm_ok) why += ";P-not-a-permutation";
    else for (size_t i = 0; i < n; ++i) if (perm[i] != eperm[i]) { why += ";P-differs-from-argmax-pivot"; break; }
    for (size_t i = 0; i < n; ++i) for (size_t j = 0; j < i; ++j) if (!(R(i, j) == T(0))) { why += ";R-below-diagonal-nonzero@" + std::to_string(i) + "," + std::to_string(j); i = n; break; }
    const ld eps = std::numeric_limits<T>::epsilon();
    ld orth = 0, rec = 0, an = 0;
    for (size_t a = 0; a < n; ++a) for (size_t b = 0; b < n; ++b) { ld s = 0; for (size_t k = 0; k < n; ++k) s += (ld)Q(k, a) * (ld)Q(k, b); s -= (a == b); orth += s * s; }
    for (size_t i = 0; i < n; ++i) for (size_t j = 0; j < n; ++j) {
        ld s = 0; for (size_t k = 0; k < n; ++k) s += (ld)Q(i, k) * (ld)R(k, j);
        ld a = (ld)A(perm_ok ? perm[i] : i, j); s -= a; rec += s * s; an += a * a;
    }
    orth = std::sqrt(orth); rec = std::sqrt(rec) / std::sqrt(an);
    const ld brec = QR_CREC * n * eps, borth = QR_CORTH * n * eps * cond;
    if (!(rec <= brec)) why += ";reconstruction";
    if (!(orth <= borth)) why += ";orthogonality";
    // product of the diagonal: relative 4 n eps, plus an absolute term of n smallest-normal numbers — a product of
    // 24..32 floats of a matrix with cond 1e3 leaves the normal range of float (1e-56), where `product(diag(R))`
    // underflows gradually; the property does not ask the float product to be more than a float product
    { ld p = 1; for (size_t i = 0; i < n; ++i) p *= (ld)Rd(i, i);
      const ld tiny = (ld)std::numeric_limits<T>::min() * n;
      if (!(std::fabs((ld)det - p) <= 4 * n * eps * std::fabs(p) + tiny)) why += ";det!=prod(R_ii)"; }
    std::printf("qrreal cfg=%s T=%s n=%zu strat=%s lc=%d seed=%u | %s orth=%.3Le/%.3Le rec=%.3Le/%.3Le\n", CFGNAME, tn<T>::n(), n, SNAME[S], lc10, seed,
                why.empty() ? "ok" : ("FAIL " + why.substr(1)).c_str(), orth, borth, rec, brec);
}
