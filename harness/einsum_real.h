// K4 value runs for pairwise einsum / contraction / outer / inner, single-tensor einsum and the explicit-output
// form on the REAL element types (C03).  The symbolic carrier only reaches the generic is_vectorisable
// and the generic back ends; the float / double / integer specialisations (SIMD stride per element type,
// _dyadic / _inner / _matmul intrinsic kernels per ISA, CONTRACT_OPT loop variants, C++14 vs C++17 index tables)
// are reached here.  Data are small integers, so every result is exact in every element type and is
// compared element by element with a naive Einstein sum written over index assignments.
#include <Fastor/Fastor.h>
#include <cstdio>
#include <cstdint>
#include <vector>
#include <string>
#include <algorithm>
using namespace Fastor;
#ifndef CFGNAME
#define CFGNAME "sse2"
#endif
#ifdef CONTRACT_OPT
#define ECO CONTRACT_OPT
#else
#define ECO 0
#endif
// configuration tag printed with every case: ISA flag set, C++ level, CONTRACT_OPT (0 = unset)
static std::string ecfg() { return std::string(CFGNAME) + " std=" + std::to_string((int)(__cplusplus / 100 % 100)) + " co=" + std::to_string((int)ECO); }
#ifndef VFC
#define VFC ,
#endif
template<typename T> struct etn;
template<> struct etn<float> { static const char* n() { return "float"; } };
template<> struct etn<double> { static const char* n() { return "double"; } };
template<> struct etn<int32_t> { static const char* n() { return "int32"; } };
template<> struct etn<int64_t> { static const char* n() { return "int64"; } };

template<size_t... v> static std::string ejoin() { size_t a[] = {v..., 0}; std::string s; for (size_t i = 0; i < sizeof...(v); ++i) { if (i) s += ","; s += std::to_string(a[i]); } return s.empty() ? "-" : s; }
template<size_t... v> static std::vector<size_t> evec() { size_t a[] = {v..., 0}; return std::vector<size_t>(a, a + sizeof...(v)); }
template<typename TensorT> struct edims;
template<typename T, size_t... R> struct edims<Tensor<T,R...>> { static std::vector<size_t> vec() { return evec<R...>(); } };
static std::vector<size_t> estrides(const std::vector<size_t>& d) { std::vector<size_t> s(d.size(), 1); for (int i = (int)d.size() - 2; i >= 0; --i) s[i] = s[i + 1] * d[i + 1]; return s; }
static inline uint32_t ernd(uint32_t& s) { s = s * 1664525u + 1013904223u; return s >> 8; }

// naive Einstein sum: operands given by their index-name lists / extents / data; `outNames` = order of the result indices
// (empty `outNames` + useDefault = non-repeated names in order of first appearance)
struct EOp { std::vector<size_t> idx, dims; std::vector<long long> data; };
static std::vector<long long> einstein_ll(const std::vector<EOp>& ops, std::vector<size_t> outNames, bool useDefault, std::vector<size_t>& resDims) {
    std::vector<size_t> cat, cd;
    for (auto& o : ops) { cat.insert(cat.end(), o.idx.begin(), o.idx.end()); cd.insert(cd.end(), o.dims.begin(), o.dims.end()); }
    std::vector<size_t> names, ndim;
    for (size_t k = 0; k < cat.size(); ++k) if (std::find(names.begin(), names.end(), cat[k]) == names.end()) { names.push_back(cat[k]); ndim.push_back(cd[k]); }
    if (useDefault) { outNames.clear(); for (size_t k = 0; k < cat.size(); ++k) if (std::count(cat.begin(), cat.end(), cat[k]) == 1) outNames.push_back(cat[k]); }
    resDims.clear();
    for (auto nm : outNames) resDims.push_back(ndim[std::find(names.begin(), names.end(), nm) - names.begin()]);
    size_t nout = 1; for (auto d : resDims) nout *= d;
    std::vector<long long> out(nout, 0);
    auto sO = estrides(resDims);
    std::vector<std::vector<size_t>> sOps; for (auto& o : ops) sOps.push_back(estrides(o.dims));
    std::vector<size_t> as(names.size(), 0);
    auto val = [&](size_t name) { return as[std::find(names.begin(), names.end(), name) - names.begin()]; };
    size_t total = 1; for (auto d : ndim) total *= d;
    for (size_t it = 0; it < total; ++it) {
        size_t r = it; for (int k = (int)names.size() - 1; k >= 0; --k) { as[k] = r % ndim[k]; r /= ndim[k]; }
        long long prod = 1;
        for (size_t q = 0; q < ops.size(); ++q) { size_t off = 0; for (size_t k = 0; k < ops[q].idx.size(); ++k) off += sOps[q][k] * val(ops[q].idx[k]); prod *= ops[q].data[off]; }
        size_t io = 0; for (size_t k = 0; k < outNames.size(); ++k) io += sO[k] * val(outNames[k]);
        out[io] += prod;
    }
    return out;
}
template<typename TT> static EOp eop_of(const TT& t, const std::vector<size_t>& idx) {
    EOp o; o.idx = idx; o.dims = edims<TT>::vec(); size_t n = 1; for (auto d : o.dims) n *= d; o.data.resize(n);
    for (size_t i = 0; i < n; ++i) o.data[i] = (long long)t.data()[i]; return o; }
template<typename TT> static void efill(TT& t, uint32_t& s) { for (size_t i = 0; i < (size_t)t.size(); ++i) t.data()[i] = (typename TT::scalar_type)((int)(ernd(s) % 9) - 4); }

// compares a result tensor (any rank incl. 0) with the reference; returns "" or a description
template<typename R> static std::string ecompare(const R& out, const std::vector<long long>& ref, const std::vector<size_t>& refDims) {
    std::vector<size_t> got = edims<R>::vec();
    if (got != refDims) { std::string s = " extents got="; for (auto d : got) s += std::to_string(d) + ","; s += " want="; for (auto d : refDims) s += std::to_string(d) + ","; return s; }
    size_t n = 1; for (auto d : got) n *= d;
    for (size_t i = 0; i < n; ++i) if ((long long)out.data()[i] != ref[i]) return " pos=" + std::to_string(i) + " got=" + std::to_string((long long)out.data()[i]) + " want=" + std::to_string(ref[i]);
    return "";
}

// --- two operands: einsum and contraction (same pattern), plus outer / inner when the pattern is one
template<typename T, typename IndI, typename IndJ, typename TA, typename TB> struct ereal2;
template<typename T, size_t... I, size_t... J, size_t... DA, size_t... DB>
struct ereal2<T, Index<I...>, Index<J...>, Tensor<T,DA...>, Tensor<T,DB...>> {
    static void run(unsigned seed) {
        using TA = Tensor<T,DA...>; using TB = Tensor<T,DB...>;
        uint32_t s = seed * 2654435761u + 12345u;
        std::string fail;
        for (int rep = 0; rep < 2 && fail.empty(); ++rep) {
            TA a; TB b; efill(a, s); efill(b, s);
            std::vector<size_t> rd;
            auto ref = einstein_ll({eop_of(a, evec<I...>()), eop_of(b, evec<J...>())}, {}, true, rd);
            auto o1 = einsum<Index<I...>,Index<J...>>(a, b);
            std::string f = ecompare(o1, ref, rd); if (!f.empty()) fail = " fn=einsum" + f;
            if (fail.empty()) { auto o2 = contraction<Index<I...>,Index<J...>>(a, b); f = ecompare(o2, ref, rd); if (!f.empty()) fail = " fn=contraction" + f; }
        }
        std::printf("einsum_real cfg=%s T=%s I=%s J=%s dI=%s dJ=%s | %s%s\n", ecfg().c_str(), etn<T>::n(), ejoin<I...>().c_str(), ejoin<J...>().c_str(),
                    ejoin<DA...>().c_str(), ejoin<DB...>().c_str(), fail.empty() ? "ok" : "FAIL", fail.c_str());
    }
};
#define EINSUM_REAL(T, I, J, DA, DB, SEED) ereal2<T, Index<I>, Index<J>, Tensor<T, DA>, Tensor<T, DB>>::run(SEED)

// --- outer / inner / dyadic-style free functions on two tensors of the same element type
template<typename T, typename TA, typename TB> struct eouter;
template<typename T, size_t... DA, size_t... DB>
struct eouter<T, Tensor<T,DA...>, Tensor<T,DB...>> {
    static void run(unsigned seed) {
        using TA = Tensor<T,DA...>; using TB = Tensor<T,DB...>;
        uint32_t s = seed * 2654435761u + 777u;
        TA a; TB b; efill(a, s); efill(b, s);
        std::vector<size_t> ia, ib; for (size_t k = 0; k < sizeof...(DA); ++k) ia.push_back(k); for (size_t k = 0; k < sizeof...(DB); ++k) ib.push_back(100 + k);
        std::vector<size_t> rd; auto ref = einstein_ll({eop_of(a, ia), eop_of(b, ib)}, {}, true, rd);
        auto o = outer(a, b);
        std::string fail = ecompare(o, ref, rd);
        std::printf("outer_real cfg=%s T=%s dI=%s dJ=%s | %s%s\n", ecfg().c_str(), etn<T>::n(), ejoin<DA...>().c_str(), ejoin<DB...>().c_str(), fail.empty() ? "ok" : "FAIL", fail.c_str());
    }
};
#define OUTER_REAL(T, DA, DB, SEED) eouter<T, Tensor<T, DA>, Tensor<T, DB>>::run(SEED)
template<typename T, size_t... DA> static void einner_run(unsigned seed) {
    using TA = Tensor<T,DA...>;
    uint32_t s = seed * 2654435761u + 999u;
    TA a, b; efill(a, s); efill(b, s);
    long long ref = 0; for (size_t i = 0; i < (size_t)a.size(); ++i) ref += (long long)a.data()[i] * (long long)b.data()[i];
    long long got = (long long)inner(a, b);
    std::printf("inner_real cfg=%s T=%s dI=%s | %s", ecfg().c_str(), etn<T>::n(), ejoin<DA...>().c_str(), got == ref ? "ok" : "FAIL");
    if (got != ref) std::printf(" got=%lld want=%lld", got, ref);
    std::printf("\n");
}
#define INNER_REAL(T, DA, SEED) einner_run<T, DA>(SEED)

// --- single tensor:  einsum<Index<...>>(a)
template<typename T, typename IndI, typename TA> struct ereal1;
template<typename T, size_t... I, size_t... DA>
struct ereal1<T, Index<I...>, Tensor<T,DA...>> {
    static void run(unsigned seed) {
        using TA = Tensor<T,DA...>;
        uint32_t s = seed * 2654435761u + 4242u;
        TA a; efill(a, s);
        std::vector<size_t> rd; auto ref = einstein_ll({eop_of(a, evec<I...>())}, {}, true, rd);
        auto o = einsum<Index<I...>>(a);
        std::string fail = ecompare(o, ref, rd);
        std::printf("einsum1_real cfg=%s T=%s I=%s dI=%s | %s%s\n", ecfg().c_str(), etn<T>::n(), ejoin<I...>().c_str(), ejoin<DA...>().c_str(), fail.empty() ? "ok" : "FAIL", fail.c_str());
    }
};
#define EINSUM1_REAL(T, I, DA, SEED) ereal1<T, Index<I>, Tensor<T, DA>>::run(SEED)

// --- explicit output order:  einsum<Index<I>,Index<J>,OIndex<O>>(a,b)
template<typename T, typename IndI, typename IndJ, typename IndO, typename TA, typename TB> struct erealx;
template<typename T, size_t... I, size_t... J, size_t... O, size_t... DA, size_t... DB>
struct erealx<T, Index<I...>, Index<J...>, OIndex<O...>, Tensor<T,DA...>, Tensor<T,DB...>> {
    static void run(unsigned seed) {
        using TA = Tensor<T,DA...>; using TB = Tensor<T,DB...>;
        uint32_t s = seed * 2654435761u + 31337u;
        TA a; TB b; efill(a, s); efill(b, s);
        std::vector<size_t> rd; auto ref = einstein_ll({eop_of(a, evec<I...>()), eop_of(b, evec<J...>())}, evec<O...>(), false, rd);
        auto o = einsum<Index<I...>,Index<J...>,OIndex<O...>>(a, b);
        std::string fail = ecompare(o, ref, rd);
        std::printf("einsumx_real cfg=%s T=%s I=%s J=%s O=%s dI=%s dJ=%s | %s%s\n", ecfg().c_str(), etn<T>::n(), ejoin<I...>().c_str(), ejoin<J...>().c_str(), ejoin<O...>().c_str(),
                    ejoin<DA...>().c_str(), ejoin<DB...>().c_str(), fail.empty() ? "ok" : "FAIL", fail.c_str());
    }
};
#define EINSUMX_REAL(T, I, J, O, DA, DB, SEED) erealx<T, Index<I>, Index<J>, OIndex<O>, Tensor<T, DA>, Tensor<T, DB>>::run(SEED)

// --- n operands (3..8): einsum<Index<..>,Index<..>,...>(a,b,c,...) against the naive Einstein sum; the declared result
// type must carry the non-repeated indices in order of first appearance with their extents, whatever pairwise evaluation
// order the cost model picks (C15).  Called as  erealn<T, tlist<Index<..>...>, tlist<Tensor<T,..>...>>::run(seed);
#include <tuple>
#include <utility>
template<typename... Xs> struct tlist {};
template<typename Ind> struct idxvec;
template<size_t... I> struct idxvec<Index<I...>> { static std::vector<size_t> vec() { return evec<I...>(); } static std::string str() { return ejoin<I...>(); } };
template<typename TT> struct dimstr;
template<typename T, size_t... D> struct dimstr<Tensor<T,D...>> { static std::string str() { return ejoin<D...>(); } };
template<typename T, typename IndList, typename TenList> struct erealn;
template<typename T, typename... Inds, typename... Tens>
struct erealn<T, tlist<Inds...>, tlist<Tens...>> {
    template<size_t... K> static auto call(std::tuple<Tens...>& ops, std::index_sequence<K...>) -> decltype(einsum<Inds...>(std::get<K>(ops)...)) { return einsum<Inds...>(std::get<K>(ops)...); }
    template<size_t... K> static void fillall(std::tuple<Tens...>& ops, uint32_t& s, std::index_sequence<K...>) { int d[] = {(efill(std::get<K>(ops), s), 0)...}; (void)d; }
    template<size_t... K> static std::vector<EOp> eops(std::tuple<Tens...>& ops, std::index_sequence<K...>) { return std::vector<EOp>{eop_of(std::get<K>(ops), idxvec<Inds>::vec())...}; }
    static void run(unsigned seed) {
        uint32_t s = seed * 2654435761u + 55u;
        std::tuple<Tens...> ops; auto seq = std::index_sequence_for<Tens...>{};
        fillall(ops, s, seq);
        std::vector<size_t> rd; auto ref = einstein_ll(eops(ops, seq), {}, true, rd);
        auto o = call(ops, seq);
        std::string fail = ecompare(o, ref, rd);
        std::string is, ds; { std::string a[] = {idxvec<Inds>::str()...}; std::string b[] = {dimstr<Tens>::str()...};
            for (size_t k = 0; k < sizeof...(Inds); ++k) { is += (k ? ";" : "") + a[k]; ds += (k ? ";" : "") + b[k]; } }
#ifdef FASTOR_DONT_PERFORM_OP_MIN
        const int opmin = 0;
#else
        const int opmin = 1;
#endif
        std::printf("einsumn_real cfg=%s opmin=%d T=%s n=%zu I=%s d=%s | %s%s\n", ecfg().c_str(), opmin, etn<T>::n(), sizeof...(Inds), is.c_str(), ds.c_str(), fail.empty() ? "ok" : "FAIL", fail.c_str());
    }
};
