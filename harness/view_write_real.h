// K4 value runs for writing through views (C05) and overlapping assignments with noalias() (C18) on the
// REAL element types: the same run-time scripts as view_write_sym.h, the parent tensor A placed between
// sentinel margins, all FIVE operators, the result compared bit for bit with a plain multi-index loop.
// Lines: `vwr <case> | ok` / `| FAIL ...` / `| ok skipped=...`.
#include "view_write_common.h"
#include <cstdint>
#include <cstring>
#include <cmath>
#include <type_traits>
#include <sys/wait.h>
#ifndef CFGNAME
#define CFGNAME "sse2"
#endif
#ifdef FASTOR_USE_VECTORISED_EXPR_ASSIGN
#define VW_VEA 1
#else
#define VW_VEA 0
#endif
static bool g_verbose = false;

namespace vwr {
using namespace vw;
template<typename T> struct tn;
template<> struct tn<float> { static const char* n() { return "float"; } };
template<> struct tn<double> { static const char* n() { return "double"; } };
template<> struct tn<int32_t> { static const char* n() { return "int32_t"; } };
template<> struct tn<int64_t> { static const char* n() { return "int64_t"; } };
static inline uint32_t rnd(uint32_t& s) { s = s * 1664525u + 1013904223u; return s >> 8; }
// operands: small non-zero integers (exact in every type, safe as divisors)
template<typename T> static inline T small_nz(uint32_t& s) { int v = (int)(rnd(s) % 8) + 1; return (T)((rnd(s) & 1) ? v : -v); }
// initial contents of A: non-integral for the floating types, so that a wrong element is visible
template<typename T> static inline typename std::enable_if<std::is_floating_point<T>::value, T>::type init_a(uint32_t& s) {
    return ((T)(int)(rnd(s) % 20001) - (T)10000) / (T)64 + (T)0.5; }
template<typename T> static inline typename std::enable_if<!std::is_floating_point<T>::value, T>::type init_a(uint32_t& s) {
    int v = (int)(rnd(s) % 2001) - 1000; return (T)(v == 0 ? 7 : v); }
template<typename T> static inline bool same(const T& a, const T& b) { if (a != a && b != b) return true; return std::memcmp(&a, &b, sizeof(T)) == 0; }
// scalar reference arithmetic; integers wrap around like the vector units
template<typename T> static inline typename std::enable_if<std::is_floating_point<T>::value, T>::type rop(int op, T a, T b) {
    return op == 0 ? b : op == 1 ? a + b : op == 2 ? a - b : op == 3 ? a * b : a / b; }
template<typename T> static inline typename std::enable_if<!std::is_floating_point<T>::value, T>::type rop(int op, T a, T b) {
    using U = typename std::make_unsigned<T>::type;
    return op == 0 ? b : op == 1 ? (T)((U)a + (U)b) : op == 2 ? (T)((U)a - (U)b) : op == 3 ? (T)((U)a * (U)b) : (T)(a / b); }
template<typename T> static inline bool div_unsafe(T a, T b, std::true_type) { (void)a; (void)b; return false; }
template<typename T> static inline bool div_unsafe(T a, T b, std::false_type) { return b == 0 || (b == (T)-1 && a == std::numeric_limits<T>::min()); }

template<typename T, size_t R, size_t... E> struct EvalRhs;
template<typename T, size_t E0> struct EvalRhs<T,1,E0> {
    Tensor<T,E0,2> P; Tensor<T,2> Q;
    void init(uint32_t& s) { for (size_t i = 0; i < E0*2; ++i) P.data()[i] = small_nz<T>(s); for (size_t i = 0; i < 2; ++i) Q.data()[i] = small_nz<T>(s); }
    template<typename Vw> void run(int op, Vw&& v) { apply_op5(op, v, P % Q); }
    T at(long jf) const { return rop<T>(1, rop<T>(3, P.data()[jf*2], Q.data()[0]), rop<T>(3, P.data()[jf*2+1], Q.data()[1])); }
};
template<typename T, size_t E0, size_t E1> struct EvalRhs<T,2,E0,E1> {
    Tensor<T,E0,2> P; Tensor<T,2,E1> Q;
    void init(uint32_t& s) { for (size_t i = 0; i < E0*2; ++i) P.data()[i] = small_nz<T>(s); for (size_t i = 0; i < 2*E1; ++i) Q.data()[i] = small_nz<T>(s); }
    template<typename Vw> void run(int op, Vw&& v) { apply_op5(op, v, P % Q); }
    T at(long jf) const { long i = jf / E1, j = jf % E1;
        return rop<T>(1, rop<T>(3, P.data()[i*2], Q.data()[j]), rop<T>(3, P.data()[i*2+1], Q.data()[E1 + j])); }
};
template<typename T, size_t R, size_t... E> struct EvalRhs {
    void init(uint32_t&) {}
    template<typename Vw> void run(int, Vw&&) { std::printf(" | FAIL bad-script-m\n"); std::fflush(stdout); _exit(0); }
    T at(long) const { return T(); }
};

template<typename F> static inline void guarded(F f) {
    std::fflush(stdout);
    pid_t p = fork();
    if (p == 0) { f(); std::fflush(stdout); _exit(0); }
    int st = 0; waitpid(p, &st, 0);
    if (!(WIFEXITED(st) && WEXITSTATUS(st) == 0)) { std::printf(" | FAIL crash=%d\n", WIFSIGNALED(st) ? WTERMSIG(st) : -WEXITSTATUS(st)); std::fflush(stdout); }
}

template<typename T, typename RD, typename Maker, size_t... D> struct Runner;
template<typename T, size_t... E, typename Maker, size_t... D>
struct Runner<T, RDims<E...>, Maker, D...> {
    static constexpr size_t R = sizeof...(D);
    using TA = Tensor<T,D...>; using TB = Tensor<T,E...>; using TF = Tensor<T,prod_of<E...>::value>;
    static constexpr size_t MARG = 256;
    struct Block { unsigned char pre[MARG]; TA A; unsigned char post[MARG]; };
    static void go(const char* script, unsigned seed) {
        std::vector<int> dims = {(int)D...}; std::vector<int> rdims = {(int)E...};
        std::string ds, rs;
        for (size_t k = 0; k < dims.size(); ++k) ds += (k ? "x" : "") + std::to_string(dims[k]);
        for (size_t k = 0; k < rdims.size(); ++k) rs += (k ? "x" : "") + std::to_string(rdims[k]);
        guarded([&]{
            std::printf("vwr cls=%s cfg=%s T=%s vea=%d dims=%s rd=%s seed=%u W=%s", Maker::cls(), CFGNAME, tn<T>::n(), VW_VEA, ds.c_str(), rs.c_str(), seed, script);
            std::fflush(stdout);
            uint32_t s = seed * 2654435761u + 12345u;
            // the parent tensor between sentinel margins; every byte of the block outside A's elements is 0xA5
            static typename std::aligned_storage<sizeof(Block), 64>::type store;
            std::memset(&store, 0xA5, sizeof(Block));
            Block* blk = reinterpret_cast<Block*>(&store);
            TA* A = new (&blk->A) TA;
            const size_t NA = TA::size();
            for (size_t p = 0; p < NA; ++p) A->data()[p] = init_a<T>(s);
            TA B, C; TB Bt, Ct; TF Bf;
            for (size_t p = 0; p < NA; ++p) { B.data()[p] = small_nz<T>(s); C.data()[p] = small_nz<T>(s); }
            for (size_t p = 0; p < (size_t)TB::size(); ++p) { Bt.data()[p] = small_nz<T>(s); Ct.data()[p] = small_nz<T>(s); Bf.data()[p] = small_nz<T>(s); }
            EvalRhs<T,sizeof...(E),E...> ev; ev.init(s);
            std::integral_constant<size_t,R> rk;
            const unsigned char* lo = (const unsigned char*)A->data(); const unsigned char* hi = (const unsigned char*)(A->data() + NA);
            const unsigned char* b0 = (const unsigned char*)blk; const unsigned char* b1 = b0 + sizeof(Block);
            std::vector<T> ref(A->data(), A->data() + NA);
            bool ok = true, marg = true; long bad = -1; int badw = -1; long unjudged = 0, skipped = 0;
            auto wsp = parse_script(script);
            using VT = decltype(Maker::make(*A, wsp[0].dst, rk));
            std::unique_ptr<VT> held;
            bool flag = false;
            for (size_t wi = 0; wi < wsp.size() && ok && marg; ++wi) {
                const WSpec& w = wsp[wi];
                T c = (T)w.c;
                RefSel sel = Maker::is_diag() ? RefSel::diagonal(dims[0]) : RefSel(w.dst, dims); RefSel s1(w.src, dims), s2(w.src2, dims);
                // reference first (snapshot semantics); integer divisions that would trap are skipped
                std::vector<T> old = ref; bool trap = false;
                for (long jf = 0; jf < sel.total; ++jf) {
                    T r = T();
                    switch (w.rk) {
                    case 's': r = c; break;
                    case 'v': r = B.data()[s1.pos(jf, dims)]; break;
                    case 'e': r = rop<T>(1, B.data()[s1.pos(jf, dims)], rop<T>(3, C.data()[s2.pos(jf, dims)], c)); break;
                    case 't': r = Bt.data()[jf]; break;
                    case 'x': r = rop<T>(2, rop<T>(3, Bt.data()[jf], c), Ct.data()[jf]); break;
                    case 'f': r = Bf.data()[jf]; break;
                    case 'm': r = ev.at(jf); break;
                    case 'a': r = old[s1.pos(jf, dims)]; break;
                    case 'b': r = rop<T>(1, rop<T>(3, old[s1.pos(jf, dims)], c), old[s2.pos(jf, dims)]); break;
                    }
                    long p = sel.pos(jf, dims);
                    if (w.op == 4 && div_unsafe<T>(old[p], r, std::is_floating_point<T>())) { trap = true; break; }
                    ref[p] = rop<T>(w.op, old[p], r);
                }
                if (!w.keep || !held) { held.reset(new VT(Maker::make(*A, w.dst, rk))); flag = false; }
                if (w.na) flag = true;
                const bool grd = flag && w.rk != 's';
                bool coincide = true;
                if (w.rk == 'a' || w.rk == 'b')
                    for (long jf = 0; jf < sel.total; ++jf) {
                        if (s1.pos(jf, dims) != sel.pos(jf, dims)) coincide = false;
                        if (w.rk == 'b' && s2.pos(jf, dims) != sel.pos(jf, dims)) coincide = false;
                    }
                // an unguarded hazardous integer division could trap on a value the reference never sees
                if (w.op == 4 && !std::is_floating_point<T>::value && !grd && !coincide) trap = true;
                if (trap) { ref = old; ++skipped; if (w.na) Maker::noalias(*held); continue; }
                if (grd) flag = false;
                {
                    VT& v = *held;
                    if (w.na) Maker::noalias(v);
                    switch (w.rk) {
                    case 's': apply_op5(w.op, v, c); break;
                    case 'v': apply_op5(w.op, v, mkview(B, w.src, rk)); break;
                    case 'e': apply_op5(w.op, v, mkview(B, w.src, rk) + mkview(C, w.src2, rk) * c); break;
                    case 't': apply_op5(w.op, v, Bt); break;
                    case 'x': apply_op5(w.op, v, Bt * c - Ct); break;
                    case 'f': apply_op5(w.op, v, Bf); break;
                    case 'm': ev.run(w.op, v); break;
                    case 'a': apply_op5(w.op, v, Maker::src(*A, w.src, rk)); break;
                    case 'b': apply_op5(w.op, v, Maker::src(*A, w.src, rk) * c + Maker::src(*A, w.src2, rk)); break;
                    default: std::printf(" | FAIL bad-script\n"); std::fflush(stdout); _exit(0);
                    }
                }
                if ((w.rk == 'a' || w.rk == 'b') && !grd && !coincide) { ref.assign(A->data(), A->data() + NA); ++unjudged; }
                for (size_t p = 0; p < NA && ok; ++p) if (!same(ref[p], A->data()[p])) { ok = false; bad = p; badw = (int)wi; }
                for (const unsigned char* q = b0; q < b1 && marg; ++q) if ((q < lo || q >= hi) && *q != 0xA5) { marg = false; bad = q - lo; badw = (int)wi; }
            }
            if (ok && marg) std::printf(" | ok unjudged=%ld skipped=%ld\n", unjudged, skipped);
            else if (!marg) std::printf(" | FAIL memory-outside-A-changed write=%d byte-offset-from-A=%ld\n", badw, bad);
            else std::printf(" | FAIL write=%d pos=%ld got=%.17g want=%.17g\n", badw, bad, (double)A->data()[bad], (double)ref[bad]);
        });
    }
};
} // namespace vwr

#define VWR(T, RD, DD, SEED, SCRIPT) vwr::Runner<T, vw::RDims<VW_UNPACK RD>, vw::DynMaker, VW_UNPACK DD>::go(SCRIPT, SEED)
#define VWRD(T, RD, DD, SEED, SCRIPT) vwr::Runner<T, vw::RDims<VW_UNPACK RD>, vw::DiagMaker, VW_UNPACK DD>::go(SCRIPT, SEED)
#define VWRP(T, RD, DD, SEED, SCRIPT) vwr::Runner<T, vw::RDims<VW_UNPACK RD>, vw::MapDynMaker, VW_UNPACK DD>::go(SCRIPT, SEED)
#define VWRPF(T, RD, DD, FS, SEED, SCRIPT) vwr::Runner<T, vw::RDims<VW_UNPACK RD>, vw::MapFixMaker<VW_UNPACK FS>, VW_UNPACK DD>::go(SCRIPT, SEED)
#define VWRF(T, RD, DD, FS, SEED, SCRIPT) vwr::Runner<T, vw::RDims<VW_UNPACK RD>, vw::FixMaker<VW_UNPACK FS>, VW_UNPACK DD>::go(SCRIPT, SEED)
