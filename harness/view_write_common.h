// Parts of the view-write harnesses that do not depend on the element carrier: script parsing, the
// reference meaning of (first,last,step) triples, view makers for the dynamic and fixed view classes.
#ifndef VW_COMMON_H
#define VW_COMMON_H
#include <Fastor/Fastor.h>
#include <array>
#include <vector>
#include <string>
#include <memory>
#include <cstdio>
#include <cstdlib>
#include <unistd.h>
namespace vw {
using Fastor::seq; using Fastor::Tensor;
template<size_t... E> struct RDims {};
typedef std::array<int,3> Tri;

// ------------------------------------------------------------------------------------ script parsing
struct WSpec { int op; char rk; int c; bool na, keep; std::vector<Tri> dst, src, src2; };
static inline std::vector<std::string> split(const std::string& s, char d) {
    std::vector<std::string> r; std::string cur;
    for (char ch : s) { if (ch == d) { r.push_back(cur); cur.clear(); } else cur += ch; }
    r.push_back(cur); return r;
}
static inline std::vector<Tri> parse_ranges(const std::string& s) {
    std::vector<Tri> r;
    if (s.empty()) return r;
    for (auto& ax : split(s, ',')) { auto p = split(ax, '_'); r.push_back(Tri{std::atoi(p[0].c_str()), std::atoi(p[1].c_str()), std::atoi(p[2].c_str())}); }
    return r;
}
static inline int opcode(const std::string& s) { return s == "set" ? 0 : s == "add" ? 1 : s == "sub" ? 2 : s == "mul" ? 3 : 4; }
// write := op.rk.c.dst[.src[.src2]]   rk: s v e t x f m a b ; trailing letters on the op: `n` = noalias() is called on
// the view first, `k` = the write is applied to the view OBJECT of the previous write (stored view, same ranges)
static inline std::vector<WSpec> parse_script(const char* script) {
    std::vector<WSpec> ws;
    for (auto& w : split(script, '/')) {
        auto f = split(w, '.');
        WSpec s; std::string o = f[0];
        s.na = s.keep = false;
        while (!o.empty() && (o.back() == 'n' || o.back() == 'k')) { if (o.back() == 'n') s.na = true; else s.keep = true; o.pop_back(); }
        s.op = opcode(o); s.rk = f[1][0]; s.c = std::atoi(f[2].c_str());
        s.dst = parse_ranges(f[3]);
        if (f.size() > 4) s.src = parse_ranges(f[4]);
        if (f.size() > 5) s.src2 = parse_ranges(f[5]);
        ws.push_back(s);
    }
    return ws;
}

// ------------------------------------------------------------------------------------ reference
// documented meaning of a (first,last,step) triple on an axis of n elements (independent of the
// library's normalisers): negative `last` counts from the end with -1 = n; the pair (-1,0) is the
// single last element (integer index -1); both negative: both count from the end.
static inline void ref_norm(Tri t, int n, int& f, int& cnt, int& s) {
    int a = t[0], b = t[1]; s = t[2];
    if (a == -1 && b == 0) { a = n - 1; b = n; }
    else { if (b < 0) b += n + 1; if (a < 0) a += n + 1; }
    f = a; cnt = 0; for (int x = a; s > 0 ? x < b : x > b; x += s) ++cnt;
}
struct RefSel { std::vector<int> f, cnt, s; long total = 1; long diagN = -1;
    // the main diagonal of an N x N parent: element i at i*(N+1)
    static RefSel diagonal(int n) { std::vector<Tri> e1; std::vector<int> e2; RefSel r(e1, e2); r.total = n; r.diagN = n; return r; }
    RefSel(const std::vector<Tri>& r, const std::vector<int>& dims) {
        f.resize(r.size()); cnt.resize(r.size()); s.resize(r.size());
        for (size_t k = 0; k < r.size(); ++k) { ref_norm(r[k], dims[k], f[k], cnt[k], s[k]); total *= cnt[k]; }
    }
    // position in the parent of the logical flat (row-major) index jf
    long pos(long jf, const std::vector<int>& dims) const {
        if (diagN >= 0) return jf * (diagN + 1);
        long p = 0, rem = jf; std::vector<long> j(f.size());
        for (int k = (int)f.size() - 1; k >= 0; --k) { j[k] = rem % cnt[k]; rem /= cnt[k]; }
        for (size_t k = 0; k < f.size(); ++k) p = p * dims[k] + (f[k] + j[k] * s[k]);
        return p;
    }
};
// ------------------------------------------------------------------------------------ view makers
template<typename TT> inline auto mkview(TT& A, const std::vector<Tri>& r, std::integral_constant<size_t,1>)
    -> decltype(A(seq(0,1,1))) { return A(seq(r[0][0], r[0][1], r[0][2])); }
template<typename TT> inline auto mkview(TT& A, const std::vector<Tri>& r, std::integral_constant<size_t,2>)
    -> decltype(A(seq(0,1,1), seq(0,1,1))) { return A(seq(r[0][0], r[0][1], r[0][2]), seq(r[1][0], r[1][1], r[1][2])); }
template<typename TT> inline auto mkview(TT& A, const std::vector<Tri>& r, std::integral_constant<size_t,3>)
    -> decltype(A(seq(0,1,1), seq(0,1,1), seq(0,1,1))) {
    return A(seq(r[0][0], r[0][1], r[0][2]), seq(r[1][0], r[1][1], r[1][2]), seq(r[2][0], r[2][1], r[2][2])); }
template<typename TT> inline auto mkview(TT& A, const std::vector<Tri>& r, std::integral_constant<size_t,4>)
    -> decltype(A(seq(0,1,1), seq(0,1,1), seq(0,1,1), seq(0,1,1))) {
    return A(seq(r[0][0], r[0][1], r[0][2]), seq(r[1][0], r[1][1], r[1][2]), seq(r[2][0], r[2][1], r[2][2]), seq(r[3][0], r[3][1], r[3][2])); }

template<typename L, typename R> inline void apply_op(int op, L&& lhs, const R& rhs) {
    switch (op) { case 0: lhs = rhs; break; case 1: lhs += rhs; break; case 2: lhs -= rhs; break; default: lhs *= rhs; break; }
}
// all five operators (carriers with a division)
template<typename L, typename R> inline void apply_op5(int op, L&& lhs, const R& rhs) {
    switch (op) { case 0: lhs = rhs; break; case 1: lhs += rhs; break; case 2: lhs -= rhs; break; case 3: lhs *= rhs; break; default: lhs /= rhs; break; }
}

template<size_t... E> struct prod_of { static constexpr size_t value = 1; };
template<size_t E0, size_t... E> struct prod_of<E0,E...> { static constexpr size_t value = E0 * prod_of<E...>::value; };

// how the destination view is made: from the run-time triples of the script (dynamic view classes) ...
struct DynMaker {
    static const char* cls() { return "dyn"; }
    static bool is_diag() { return false; }
    template<typename V> static void noalias(V& v) { v.noalias(); }
    template<typename TT, size_t R> static auto make(TT& A, const std::vector<Tri>& r, std::integral_constant<size_t,R> rk)
        -> decltype(mkview(A, r, rk)) { return mkview(A, r, rk); }
    template<typename TT, size_t R> static auto src(TT& A, const std::vector<Tri>& r, std::integral_constant<size_t,R> rk)
        -> decltype(mkview(A, r, rk)) { return mkview(A, r, rk); }
};
// ... or from compile-time fseq<F,L,S> (fixed view classes; the script must carry the same triples)
template<typename... FS> struct FixMaker {
    static const char* cls() { return "fix"; }
    static bool is_diag() { return false; }
    template<typename V> static void noalias(V& v) { v.noalias(); }
    template<typename TT, size_t R> static auto make(TT& A, const std::vector<Tri>& r, std::integral_constant<size_t,R>)
        -> decltype(A(FS{}...)) {
        const int want[] = {FS::_first..., FS::_last..., FS::_step...};
        for (size_t k = 0; k < R; ++k)
            if (r[k][0] != want[k] || r[k][1] != want[R + k] || r[k][2] != want[2 * R + k]) { std::printf(" | ORACLE=FAIL script-does-not-match-fseq\n"); std::fflush(stdout); _exit(0); }
        return A(FS{}...);
    }
    template<typename TT, size_t R> static auto src(TT& A, const std::vector<Tri>& r, std::integral_constant<size_t,R> rk)
        -> decltype(mkview(A, r, rk)) { return mkview(A, r, rk); }
};

// ... or the same two through a TensorMap over the storage of A (TensorMap parents always get the generic n-D view
// classes TensorViewExpr<TensorMap<…>,R> / TensorFixedViewExprnD<TensorMap<…>,…>, whatever the rank)
template<typename TT> struct map_of;
template<typename T, size_t... D> struct map_of<Fastor::Tensor<T,D...>> { using type = Fastor::TensorMap<T,D...>; };
template<typename TT> inline typename map_of<TT>::type& the_map(TT& A) {
    using TM = typename map_of<TT>::type;
    static std::unique_ptr<TM> mp;
    if (!mp || mp->data() != A.data()) mp.reset(new TM(A.data()));
    return *mp;
}
struct MapDynMaker {
    static const char* cls() { return "mapdyn"; }
    static bool is_diag() { return false; }
    template<typename V> static void noalias(V& v) { v.noalias(); }
    template<typename TT, size_t R> static auto make(TT& A, const std::vector<Tri>& r, std::integral_constant<size_t,R> rk)
        -> decltype(mkview(the_map(A), r, rk)) { return mkview(the_map(A), r, rk); }
    template<typename TT, size_t R> static auto src(TT& A, const std::vector<Tri>& r, std::integral_constant<size_t,R> rk)
        -> decltype(mkview(the_map(A), r, rk)) { return mkview(the_map(A), r, rk); }
};
template<typename... FS> struct MapFixMaker {
    static const char* cls() { return "mapfix"; }
    static bool is_diag() { return false; }
    template<typename V> static void noalias(V& v) { v.noalias(); }
    template<typename TT, size_t R> static auto make(TT& A, const std::vector<Tri>& r, std::integral_constant<size_t,R>)
        -> decltype(the_map(A)(FS{}...)) {
        const int want[] = {FS::_first..., FS::_last..., FS::_step...};
        for (size_t k = 0; k < R; ++k)
            if (r[k][0] != want[k] || r[k][1] != want[R + k] || r[k][2] != want[2 * R + k]) { std::printf(" | ORACLE=FAIL script-does-not-match-fseq\n"); std::fflush(stdout); _exit(0); }
        return the_map(A)(FS{}...);
    }
    // aliased right-hand sides: slices of the OWNING tensor (a map of the storage of another Tensor)
    template<typename TT, size_t R> static auto src(TT& A, const std::vector<Tri>& r, std::integral_constant<size_t,R> rk)
        -> decltype(mkview(A, r, rk)) { return mkview(A, r, rk); }
};
// ... or the writable diagonal view diag(A) of a square matrix (the script's destination ranges are ignored)
struct DiagMaker {
    static const char* cls() { return "diag"; }
    static bool is_diag() { return true; }
    // TensorDiagViewExpr::noalias() is declared to return TensorViewExpr<…,2>& and does not compile when called
    template<typename V> static void noalias(V&) {}
    template<typename TT, size_t R> static auto make(TT& A, const std::vector<Tri>&, std::integral_constant<size_t,R>)
        -> decltype(Fastor::diag(A)) { return Fastor::diag(A); }
    template<typename TT, size_t R> static auto src(TT& A, const std::vector<Tri>& r, std::integral_constant<size_t,R> rk)
        -> decltype(mkview(A, r, rk)) { return mkview(A, r, rk); }
};
} // namespace vw
#define VW_UNPACK(...) __VA_ARGS__
using Fastor::fseq;
#endif
