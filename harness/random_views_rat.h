// Value runs of the index-tensor / mask views over exact rationals (C19): every operator including
// division without rounding.  vf::Rat is an 8-byte handle; the library treats it as a non-SIMD numeric type (width 1).
#include <Fastor/Fastor.h>
#include "rat_fastor.h"
namespace vf { static inline bool same(const Rat& a, const Rat& b) { return a == b; } }
#include "random_views_real.h"
namespace rr { template<> struct tn<vf::Rat> { static const char* n() { return "rat"; } }; }
