// C08: runtime of the GENERATED translator-validation harness (vlib/xlate_validate.py emits the calls).
// Each block calls one real Fastor helper / SIMDVector member on generated lane values and prints
//   gen f=<isa>/<generated definition> k=<int|f32|f64> r0=<16 hex lanes> .. s0=<hex> .. | w0=<lanes> o0=<hex lanes> .. so0=<hex>
// fmodel's `gen` command evaluates the generated Lean definition on the same values.
#pragma once
#include <Fastor/Fastor.h>
#include <cstdint>
#include <cstdio>
#include <cstring>
#include <string>
#include <complex>
static bool g_verbose = false;
namespace sg {
static uint64_t rs = 0x9E3779B97F4A7C15ull;
inline void seed(unsigned s) { rs ^= (uint64_t)s * 0x2545F4914F6CDD1Dull; }
inline uint64_t rnd() { rs ^= rs << 13; rs ^= rs >> 7; rs ^= rs << 17; return rs; }
static uint32_t rr[10][16]; static uint64_t sv[20];
static std::string line; static const char* kind_;
static const uint32_t IP[] = {0, 1, 0xffffffffu, 2, 0x7fffffffu, 0x80000000u, 0x80000001u, 0xffff, 0x10000, 0xb505, 0x55555555u, 0xaaaaaaaau, 3, 0xfffffffeu, 0x12345678u, 100};
inline float bitf(uint32_t b) { float f; std::memcpy(&f, &b, 4); return f; }
inline double bitd(uint64_t b) { double d; std::memcpy(&d, &b, 8); return d; }
inline uint32_t fbits(float f) { uint32_t b; std::memcpy(&b, &f, 4); return b; }
inline uint64_t dbits(double d) { uint64_t b; std::memcpy(&b, &d, 8); return b; }
inline double nz() { int v = (int)(rnd() % 2000) - 1000; if (v == 0) v = 7; return v / 8.0; }     // exactly representable, non-zero
template<class V> V ld(const uint32_t* p) { V v; std::memcpy(&v, p, sizeof v); return v; }
inline void hexcat(std::string& s, uint64_t x) { char b[24]; std::snprintf(b, sizeof b, "%llx", (unsigned long long)x); s += b; }
inline void begin(const char* f, const char* kind, int nreg, int nscal, int c) {
    kind_ = kind; line = "gen f="; line += f; line += " k="; line += kind;
    for (int r = 0; r < nreg; ++r) { line += " r" + std::to_string(r) + "=";
        for (int i = 0; i < 16; ++i) {
            if (kind[0] == 'i' && kind[1] == 'n' && kind[2] == 'z') { int v = (int)(rnd() % 2000) - 1000; if (v == 0) v = 3; rr[r][i] = (uint32_t)v; }
            else if (kind[0] == 'i') rr[r][i] = (c < 3) ? IP[(c * 5 + r * 3 + i * 7) % 16] : (uint32_t)rnd();
            else if (kind[1] == '3') rr[r][i] = fbits((float)nz());
            else { if (!(i & 1)) { uint64_t b = dbits(nz()); rr[r][i] = (uint32_t)b; rr[r][i + 1] = (uint32_t)(b >> 32); } }
            if (i) line += ","; hexcat(line, rr[r][i]); } }
    for (int s = 0; s < nscal; ++s) {
        if (kind[0] == 'i' && kind[1] == 'n' && kind[2] == 'z') { int v = (int)(rnd() % 2000) - 1000; if (v == 0) v = 3; sv[s] = (uint64_t)(int64_t)v; }
        else if (kind[0] == 'i') sv[s] = (c < 3) ? (uint64_t)(int64_t)(int32_t)IP[(c * 3 + s * 5) % 16] : rnd();
        else if (kind[1] == '3') sv[s] = fbits((float)nz());
        else sv[s] = dbits(nz());
        line += " s" + std::to_string(s) + "="; hexcat(line, sv[s]); }
    line += " |";
}
static int no_, ns_;
inline void canon(uint32_t* l, int w) {
    if (kind_[0] == 'i') return;
    if (kind_[1] == '3') { for (int i = 0; i < w; ++i) { float f = bitf(l[i]); if (f != f) l[i] = 0x7fc00000u; } }
    else for (int i = 0; i + 1 < w; i += 2) { double d = bitd(((uint64_t)l[i + 1] << 32) | l[i]); if (d != d) { l[i] = 0; l[i + 1] = 0x7ff80000u; } }
}
template<class V> void putr(const V& v) { uint32_t l[16] = {0}; std::memcpy(l, &v, sizeof v); int w = (int)(sizeof v / 4); canon(l, w);
    line += " w" + std::to_string(no_) + "=" + std::to_string(w) + " o" + std::to_string(no_) + "="; for (int i = 0; i < w; ++i) { if (i) line += ","; hexcat(line, l[i]); } ++no_; }
inline void puts64(uint64_t x) { line += " so" + std::to_string(ns_) + "="; hexcat(line, x); ++ns_; }
inline void puts(int32_t x) { puts64((uint32_t)x); }
inline void puts(int64_t x) { puts64((uint64_t)x); }
inline void puts(long long x) { puts64((uint64_t)x); }
inline void puts(float x) { puts64((x != x && kind_[0] != 'i') ? 0x7fc00000u : fbits(x)); }
inline void puts(double x) { puts64((x != x && kind_[0] != 'i') ? 0x7ff8000000000000ull : dbits(x)); }
inline void end() { std::puts(line.c_str()); no_ = 0; ns_ = 0; }
} // namespace sg
using sg::ld; using sg::bitf; using sg::bitd; using sg::rr; using sg::sv; using sg::begin; using sg::end; using sg::putr; using sg::puts;
