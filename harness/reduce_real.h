// K4 value runs for the scalar-valued reductions on the real element types (C16).
//  * minmax lines go through the Lean model (`minmax ... x=<data> | V= R= ORACLE=`): min/max of tensors and lazy
//    expressions on the property's sign patterns; the in-harness oracle is std::min_element / std::max_element
//    plus "the result is an element of the input".
//  * pred lines go through the Lean model: all_of / any_of / none_of on all 2^n boolean tensors and on expressions.
//  * every other line is oracle-only (`<case> | ok` or `<case> | FAIL ...`): sums / products / norms / inner /
//    trace on integer-valued data (exact), isequal / issymmetric / isorthogonal, determinants of integer
//    matrices against exact rational elimination for every DetCompType, and measured floating-point error.
#include "rat.h"
#include <Fastor/Fastor.h>
#include "rat_fastor.h"
#include <cstdio>
#include <cstdint>
#include <cstring>
#include <cmath>
#include <limits>
#include <string>
#include <vector>
#include <algorithm>
#include <unistd.h>
#include <sys/wait.h>
#ifndef CFGNAME
#define CFGNAME "sse2"
#endif
static bool g_verbose = false;   // set by the replay runner
namespace rr {
using namespace Fastor;
template<typename T> struct tn;
template<> struct tn<float> { static const char* n() { return "float"; } };
template<> struct tn<double> { static const char* n() { return "double"; } };
template<> struct tn<int32_t> { static const char* n() { return "int32"; } };
template<> struct tn<int64_t> { static const char* n() { return "int64"; } };
static inline uint32_t rnd(uint32_t& s) { s = s * 1664525u + 1013904223u; return s >> 8; }
template<typename T> constexpr bool isfp() { return std::is_floating_point<T>::value; }

template<class F> static inline void guarded(const std::string& head, F f) {
    std::fflush(stdout);
    pid_t p = fork();
    if (p == 0) { f(); std::fflush(stdout); _exit(0); }
    int st = 0; waitpid(p, &st, 0);
    if (!(WIFEXITED(st) && WEXITSTATUS(st) == 0)) {
        std::printf("%s | FAIL CRASH=%d ORACLE=FAIL\n", head.c_str(), WIFSIGNALED(st) ? WTERMSIG(st) : -WEXITSTATUS(st));
        std::fflush(stdout);
    }
}

// ---------------------------------------------------------------------------------------------
// value printing shared with the Lean driver: integers, inf, -inf
template<typename T> static inline std::string vstr(T v) {
    char b[400];
    if (isfp<T>()) {
        if (std::isinf((double)v)) return v > 0 ? "inf" : "-inf";
        std::snprintf(b, sizeof b, "%.0f", (double)v);
        if (std::string(b) == "-0") return "0";
        return b;
    }
    std::snprintf(b, sizeof b, "%lld", (long long)v); return b;
}

// sign patterns of the property.  bg: 0 all positive, 1 all negative, 2 mixed;
// ext: 0 none, 1 one moderate high value, 2 one moderate low value, 3 numeric_limits::max, 4 numeric_limits::lowest,
//      5 +inf (floats; max for integers), 6 -inf (floats; lowest for integers), 7 every element = lowest, 8 every element = max,
//      9 every element = -inf, 10 every element = +inf (floats; lowest / max for integers)
template<typename T, size_t N>
static inline void fill_pattern(Tensor<T,N>& A, int bg, int ext, size_t pos, uint32_t& s) {
    for (size_t i = 0; i < N; ++i) {
        int m = 1 + (int)(rnd(s) % 900);
        int v = bg == 0 ? m : bg == 1 ? -m : ((rnd(s) & 1) ? m : -m);
        A(i) = (T)v;
    }
    const T hi = std::numeric_limits<T>::max(), lo = std::numeric_limits<T>::lowest();
    const T pinf = isfp<T>() ? std::numeric_limits<T>::infinity() : hi, ninf = isfp<T>() ? (T)(-std::numeric_limits<T>::infinity()) : lo;
    switch (ext) {
    case 1: A(pos) = (T)(bg == 1 ? -1 + 0 : 5000); if (bg == 1) { for (size_t i = 0; i < N; ++i) if (i != pos) A(i) = (T)(A(i) - 1); } break;
    case 2: A(pos) = (T)(bg == 0 ? 1 : -5000); if (bg == 0) { for (size_t i = 0; i < N; ++i) if (i != pos) A(i) = (T)(A(i) + 1); } break;
    case 3: A(pos) = hi; break;
    case 4: A(pos) = lo; break;
    case 5: A(pos) = pinf; break;
    case 6: A(pos) = ninf; break;
    case 7: for (size_t i = 0; i < N; ++i) A(i) = lo; break;
    case 8: for (size_t i = 0; i < N; ++i) A(i) = hi; break;
    case 9: for (size_t i = 0; i < N; ++i) A(i) = ninf; break;
    case 10: for (size_t i = 0; i < N; ++i) A(i) = pinf; break;
    default: break;
    }
}

// min / max of a tensor (form 0), of the lazy expression A+Z with Z = 0 (form 1) and of -(-A) (form 2)
template<typename T, size_t N>
void minmax_eval(const Tensor<T,N>& A, const char* seedname, int k, int form) {
    std::string head = "minmax cfg=" CFGNAME " T=" + std::string(tn<T>::n()) + " k=" + (k ? "max" : "min") + " form=" + std::to_string(form) +
                       " n=" + std::to_string(N) + " seed=" + seedname + " x=";
    for (size_t i = 0; i < N; ++i) { if (i) head += ","; head += vstr<T>(A(i)); }
    guarded(head, [&]{
        Tensor<T,N> Z; Z.zeros();
        T r;
        if (k == 0) r = form == 0 ? min(A) : form == 1 ? min(A + Z) : min(-(-A));
        else        r = form == 0 ? max(A) : form == 1 ? max(A + Z) : max(-(-A));
        T want = A(0); bool member = false;
        for (size_t i = 0; i < N; ++i) { if (k == 0 ? A(i) < want : A(i) > want) want = A(i); }
        for (size_t i = 0; i < N; ++i) if (A(i) == r) member = true;
        bool ok = (r == want) && member;
        std::printf("%s | V=%d R=%s ORACLE=%s", head.c_str(), (int)Tensor<T,N>::simd_vector_type::Size, vstr<T>(r).c_str(), ok ? "ok" : "FAIL");
        if (!ok) std::printf(" want=%s member=%d", vstr<T>(want).c_str(), (int)member);
        std::printf("\n");
    });
}
template<typename T, size_t N>
void minmax_case(const char* seedmin, const char* seedmax, int k, int form, int bg, int ext, size_t pos, uint32_t ds) {
    if (!isfp<T>() && form == 2) form = 1;      // -(lowest) overflows for the integer types
    uint32_t s = ds * 2654435761u + 12345u + (uint32_t)(bg * 7 + ext * 131 + pos * 977);
    Tensor<T,N> A; fill_pattern(A, bg, ext, pos, s);
    minmax_eval<T,N>(A, k ? seedmax : seedmin, k, form);
}
// re-run one stored case: the data vector as printed (`inf`, `-inf`, decimal integers)
template<typename T, size_t N>
void replay_minmax(const char* seedname, int k, int form, const char* xs) {
    Tensor<T,N> A; std::string str(xs); size_t p = 0;
    for (size_t i = 0; i < N; ++i) {
        size_t q = str.find(',', p); std::string tok = str.substr(p, q == std::string::npos ? std::string::npos : q - p); p = q + 1;
        if (tok == "inf") A(i) = std::numeric_limits<T>::infinity(); else if (tok == "-inf") A(i) = (T)(-std::numeric_limits<T>::infinity());
        else if (isfp<T>()) A(i) = (T)std::strtold(tok.c_str(), nullptr); else A(i) = (T)std::strtoll(tok.c_str(), nullptr, 10);
    }
    minmax_eval<T,N>(A, seedname, k, form);
}

// the sign patterns for one (T,N): every background, single extremes at EVERY position for two extreme kinds
// chosen by the seed, all extreme kinds at seeded positions
template<typename T, size_t N>
void run_minmax(const char* seedmin, const char* seedmax, uint32_t ds, int all) {
    uint32_t s = ds * 97u + (uint32_t)N * 31u + (uint32_t)sizeof(T);
    for (int bg = 0; bg < 3; ++bg) for (int k = 0; k < 2; ++k) minmax_case<T,N>(seedmin, seedmax, k, (int)(rnd(s) % 3), bg, 0, 0, ds);
    for (int ext = 1; ext <= 10; ++ext) {
        bool every = all || ext == 1 + (int)(ds % 2) || ext == 3 + (int)((ds + N) % 4);
        if (ext >= 7) { for (int k = 0; k < 2; ++k) minmax_case<T,N>(seedmin, seedmax, k, (int)(rnd(s) % 3), 2, ext, 0, ds); continue; }
        for (size_t pos = 0; pos < N; ++pos) {
            if (!every && pos != rnd(s) % N) continue;
            int bg = (ext == 1) ? 1 : (ext == 2) ? 0 : (int)(rnd(s) % 3);     // the defect-revealing backgrounds for the moderate extremes
            int k = (ext == 1 || ext == 3 || ext == 5) ? 1 : 0;               // the operation whose answer is the extreme
            minmax_case<T,N>(seedmin, seedmax, k, (int)(rnd(s) % 3), bg, ext, pos, ds);
            if (all || (rnd(s) % 4) == 0) minmax_case<T,N>(seedmin, seedmax, 1 - k, (int)(rnd(s) % 3), bg, ext, pos, ds);
        }
    }
}

// ---------------------------------------------------------------------------------------------
// predicates on all 2^N boolean tensors (form 0) and on the boolean expression X > 0 (form 1)
static inline uint64_t mix64(uint64_t x) { x += 0x9E3779B97F4A7C15ULL; x = (x ^ (x >> 30)) * 0xBF58476D1CE4E5B9ULL; x = (x ^ (x >> 27)) * 0x94D049BB133111EBULL; return x ^ (x >> 31); }
static inline uint64_t hstep(uint64_t h, uint64_t x) { return mix64(h ^ (x + 0x51ED27ULL)); }
static inline std::string hex16(uint64_t x) { char b[32]; std::snprintf(b, sizeof b, "%016llx", (unsigned long long)x); return b; }

template<size_t N, int FORM>
void run_pred() {
    std::string head = "pred cfg=" CFGNAME " n=" + std::to_string(N) + " form=" + (FORM ? "expr" : "tensor");
    guarded(head + " what=allany", [&]{
        uint64_t ha = 0, hy = 0, hn = 0; long bad = -1, nbad = -1; bool eq_any = true, eq_not_any = true;
        for (unsigned long m = 0; m < (1ul << N); ++m) {
            Tensor<bool,N> b; Tensor<float,N> X;
            for (size_t i = 0; i < N; ++i) { b(i) = (m >> i) & 1; X(i) = ((m >> i) & 1) ? 1.f : -1.f; }
            bool a = FORM ? all_of(X > 0) : all_of(b);
            bool y = FORM ? any_of(X > 0) : any_of(b);
            bool z = FORM ? none_of(X > 0) : none_of(b);
            bool wa = true, wy = false; for (size_t i = 0; i < N; ++i) { wa = wa && ((m >> i) & 1); wy = wy || ((m >> i) & 1); }
            if ((a != wa || y != wy) && bad < 0) bad = (long)m;
            if (z != !wy && nbad < 0) nbad = (long)m;
            if (z != wy) eq_any = false;
            if (z != !wy) eq_not_any = false;
            ha = hstep(ha, a); hy = hstep(hy, y); hn = hstep(hn, z);
        }
        std::printf("%s what=allany | ALL=%s ANY=%s ORACLE=%s", head.c_str(), hex16(ha).c_str(), hex16(hy).c_str(), bad < 0 ? "ok" : "FAIL");
        if (bad >= 0) std::printf(" mask=%ld", bad);
        std::printf("\n%s what=none | NONE=%s ORACLE=%s", head.c_str(), hex16(hn).c_str(), eq_not_any ? "ok" : "FAIL");
        if (!eq_not_any) std::printf(" mask=%ld pattern=%s", nbad, eq_any ? "equals-any_of" : "other");
        std::printf("\n");
    });
}

// ---------------------------------------------------------------------------------------------
// exact sums / products / norms / inner / trace on integer-valued data (oracle-only lines)
template<typename T> struct wide { using type = long double; };
template<> struct wide<int32_t> { using type = uint32_t; };
template<> struct wide<int64_t> { using type = uint64_t; };

template<typename T, size_t N>
void run_rsum(uint32_t ds) {
    std::string head = "rsum cfg=" CFGNAME " T=" + std::string(tn<T>::n()) + " n=" + std::to_string(N) + " ds=" + std::to_string(ds);
    guarded(head, [&]{
        using W = typename wide<T>::type;
        std::string fails;
        for (int rep = 0; rep < 6; ++rep) {
            uint32_t s = ds * 7919u + rep * 131u + (uint32_t)N;
            Tensor<T,N> A, B, P;
            int twos = 0;
            for (size_t i = 0; i < N; ++i) {
                A(i) = (T)((int)(rnd(s) % 17) - 8); B(i) = (T)((int)(rnd(s) % 9) - 4);
                int c = (int)(rnd(s) % 4); P(i) = (T)(c == 0 ? 1 : c == 1 ? -1 : (twos++ < 20 ? (c == 2 ? 2 : -2) : 1));
            }
            if (rep == 1) for (size_t i = 0; i < N; ++i) { A(i) = (T)(-std::abs((double)A(i)) - 1); }      // all negative
            if (rep == 2 && !isfp<T>()) { A(rnd(s) % N) = std::numeric_limits<T>::max(); A(rnd(s) % N) = std::numeric_limits<T>::lowest(); }
            W sA = 0, sAB = 0, pP = 1, p2 = 1, nA = 0, iAB = 0;
            for (size_t i = 0; i < N; ++i) {
                sA = (W)(sA + (W)A(i)); sAB = (W)(sAB + (W)A(i) + (W)B(i)); pP = (W)(pP * (W)P(i)); p2 = (W)(p2 * (W)2 * (W)P(i));
                nA = (W)(nA + (W)A(i) * (W)A(i)); iAB = (W)(iAB + (W)A(i) * (W)B(i));
            }
            auto chk = [&](const char* what, T got, W want) { if (!((T)want == got)) { fails += std::string(" ") + what + "(rep" + std::to_string(rep) + ")got=" + vstr<T>(got) + ",want=" + vstr<T>((T)want); } };
            chk("sum(A)", sum(A), sA); chk("A.sum()", A.sum(), sA); chk("sum(A+B)", sum(A + B), sAB);
            chk("product(P)", product(P), pP); chk("P.product()", P.product(), pP);
            if (N <= 30) chk("product(2*P)", product((T)2 * P), p2);
            chk("inner(A,B)", inner(A, B), iAB); chk("inner(A+B,B)", inner(A + B, B), (W)(iAB + [&]{ W q = 0; for (size_t i = 0; i < N; ++i) q = (W)(q + (W)B(i) * (W)B(i)); return q; }()));
            chk("inner(A)", inner(A), sA);
            if (isfp<T>() && rep != 2) {
                T want = (T)std::sqrt((T)nA);
                T g1 = norm(A), g2 = norm(A + B - B);
                if (g1 != want) fails += " norm(A)(rep" + std::to_string(rep) + ")";
                if (g2 != want) fails += " norm(A+B-B)(rep" + std::to_string(rep) + ")";
            }
        }
        std::printf("%s | %s%s\n", head.c_str(), fails.empty() ? "ok" : "FAIL", fails.substr(0, 400).c_str());
    });
}

// 2-D reductions: trace (tensor, expression, evaluated expression), sum/min over an expression that requires
// evaluation (trans), inner(a) of a matrix, issymmetric, isorthogonal, isequal
template<typename T, size_t M>
void run_rmat(uint32_t ds) {
    std::string head = "rmat cfg=" CFGNAME " T=" + std::string(tn<T>::n()) + " n=" + std::to_string(M) + " ds=" + std::to_string(ds);
    guarded(head, [&]{
        using W = typename wide<T>::type;
        std::string fails;
        for (int rep = 0; rep < 4; ++rep) {
            uint32_t s = ds * 104729u + rep * 31u + (uint32_t)M;
            Tensor<T,M,M> A, B, S;
            for (size_t i = 0; i < M; ++i) for (size_t j = 0; j < M; ++j) { A(i,j) = (T)((int)(rnd(s) % 19) - 9); B(i,j) = (T)((int)(rnd(s) % 7) - 3); }
            if (rep == 1) for (size_t i = 0; i < M; ++i) for (size_t j = 0; j < M; ++j) A(i,j) = (T)(-std::abs((double)A(i,j)) - 1);
            for (size_t i = 0; i < M; ++i) for (size_t j = 0; j <= i; ++j) { S(i,j) = A(i,j); S(j,i) = A(i,j); }
            W tA = 0, tAB = 0, sA = 0; T mn = A(0,0), mx = A(0,0);
            for (size_t i = 0; i < M; ++i) { tA = (W)(tA + (W)A(i,i)); tAB = (W)(tAB + (W)A(i,i) + (W)B(i,i)); }
            for (size_t i = 0; i < M; ++i) for (size_t j = 0; j < M; ++j) { sA = (W)(sA + (W)A(i,j)); mn = std::min(mn, (T)A(i,j)); mx = std::max(mx, (T)A(i,j)); }
            auto chk = [&](const char* what, T got, T want) { if (!(want == got)) fails += std::string(" ") + what + "(rep" + std::to_string(rep) + ")got=" + vstr<T>(got) + ",want=" + vstr<T>(want); };
            auto chkb = [&](const char* what, bool got, bool want) { if (want != got) fails += std::string(" ") + what + "(rep" + std::to_string(rep) + ")got=" + (got ? "true" : "false"); };
            chk("trace(A)", trace(A), (T)tA); chk("trace(A+B)", trace(A + B), (T)tAB); chk("trace(trans(A))", trace(trans(A)), (T)tA);
            chk("inner(A)", inner(A), (T)tA);
            chk("sum(trans(A))", sum(trans(A)), (T)sA); chk("min(trans(A))", min(trans(A)), mn); chk("max(trans(A))", max(trans(A)), mx);
            chk("min(A)", min(A), mn); chk("max(A)", max(A), mx);
            // predicates
            chkb("isequal(A,A)", isequal(A, A), true);
            chkb("isequal(A+B,B+A)", isequal(A + B, B + A), true);
            chkb("isequal(trans(S),S)", isequal(trans(S), S), true);
            chkb("issymmetric(S)", issymmetric(S), true);
            chkb("issymmetric(S+S)", issymmetric(S + S), true);
            chkb("issymmetric(trans(S))", issymmetric(trans(S)), true);
            for (size_t p = 0; p < M * M; ++p) {
                Tensor<T,M,M> C = A; C.data()[p] = (T)(C.data()[p] + 1);
                if (isequal(A, C)) fails += " isequal(A,A+e" + std::to_string(p) + ")=true";
                if (isequal(A + B, C + B)) fails += " isequal(A+B,C+B;e" + std::to_string(p) + ")=true";
                size_t i = p / M, j = p % M;
                if (i != j) {
                    Tensor<T,M,M> D = S; D.data()[p] = (T)(D.data()[p] + 1);
                    if (issymmetric(D)) fails += " issymmetric(S+e" + std::to_string(p) + ")=true";
                    if (issymmetric(D + D)) fails += " issymmetric(D+D;e" + std::to_string(p) + ")=true";
                    if (issymmetric(trans(D))) fails += " issymmetric(trans(D);e" + std::to_string(p) + ")=true";
                }
            }
            if (isfp<T>()) {
                // signed permutation matrices are orthogonal with exactly representable products
                Tensor<T,M,M> Q(0); size_t perm[M]; for (size_t i = 0; i < M; ++i) perm[i] = i;
                for (size_t i = M; i > 1; --i) std::swap(perm[i - 1], perm[rnd(s) % i]);
                for (size_t i = 0; i < M; ++i) Q(i, perm[i]) = (rnd(s) & 1) ? (T)1 : (T)-1;
                chkb("isorthogonal(Q)", isorthogonal(Q), true);
                chkb("isorthogonal(Q+0)", isorthogonal(Q + (T)0), true);
                for (size_t p = 0; p < M * M; ++p) { Tensor<T,M,M> R = Q; R.data()[p] = (T)(R.data()[p] + 1); if (isorthogonal(R)) fails += " isorthogonal(Q+e" + std::to_string(p) + ")=true"; }
            }
        }
        std::printf("%s | %s%s\n", head.c_str(), fails.empty() ? "ok" : "FAIL", fails.substr(0, 400).c_str());
    });
}


// ---------------------------------------------------------------------------------------------
// the real horizontal steps SIMDVector<T,ABI>::sum / product / minimum / maximum, lane by lane: an extreme value in
// EVERY lane (moderate, numeric_limits max / lowest, +-inf) on all-positive / all-negative / mixed backgrounds, sums of
// distinct powers of two, products of small primes (exact).  Oracle-only lines.
template<typename T, typename ABI>
void run_hvec(const char* abiname, uint32_t ds) {
    using V = SIMDVector<T,ABI>;
    constexpr size_t N = V::Size;
    std::string head = "hvec cfg=" CFGNAME " T=" + std::string(tn<T>::n()) + " abi=" + abiname + " lanes=" + std::to_string(N) + " ds=" + std::to_string(ds);
    guarded(head, [&]{
        std::string fails;
        uint32_t s = ds * 2246822519u + (uint32_t)N * 7u + (uint32_t)sizeof(T);
        alignas(64) T buf[64];
        const T hi = std::numeric_limits<T>::max(), lo = std::numeric_limits<T>::lowest();
        const T pinf = isfp<T>() ? std::numeric_limits<T>::infinity() : hi, ninf = isfp<T>() ? (T)(-std::numeric_limits<T>::infinity()) : lo;
        for (int bg = 0; bg < 3; ++bg) for (size_t l = 0; l < N; ++l) for (int ext = 0; ext < 6; ++ext) {
            for (size_t i = 0; i < N; ++i) { int m = 2 + (int)(rnd(s) % 900); buf[i] = (T)(bg == 0 ? m : bg == 1 ? -m : ((rnd(s) & 1) ? m : -m)); }
            T e = ext == 0 ? (T)(bg == 1 ? -1 : 5000) : ext == 1 ? (T)(bg == 0 ? 1 : -5000) : ext == 2 ? hi : ext == 3 ? lo : ext == 4 ? pinf : ninf;
            buf[l] = e;
            T wmin = buf[0], wmax = buf[0];
            for (size_t i = 0; i < N; ++i) { if (buf[i] < wmin) wmin = buf[i]; if (buf[i] > wmax) wmax = buf[i]; }
            V v(buf, false);
            T gmin = v.minimum(), gmax = v.maximum();
            if (gmin != wmin) fails += " minimum(bg" + std::to_string(bg) + ",lane" + std::to_string(l) + ",ext" + std::to_string(ext) + ")=" + vstr<T>(gmin) + "!=" + vstr<T>(wmin);
            if (gmax != wmax) fails += " maximum(bg" + std::to_string(bg) + ",lane" + std::to_string(l) + ",ext" + std::to_string(ext) + ")=" + vstr<T>(gmax) + "!=" + vstr<T>(wmax);
        }
        // sum: lane l carries 2^l (every subset sum is distinct), also negated; product: distinct small primes
        static const int primes[16] = {2, 3, 5, 7, 11, 13, 17, 19, 23, 29, 31, 37, 41, 43, 47, 53};
        for (int rep = 0; rep < 3; ++rep) {
            using W = typename wide<T>::type; W ws = 0, wp = 1;
            for (size_t i = 0; i < N; ++i) {
                buf[i] = (T)((rep == 1 ? -1 : 1) * (long)(1L << i) + (rep == 2 ? (long)(rnd(s) % 64) * 65536 : 0));
                ws = (W)(ws + (W)buf[i]);
            }
            V v(buf, false);
            if (v.sum() != (T)ws) fails += " sum(rep" + std::to_string(rep) + ")=" + vstr<T>(v.sum()) + "!=" + vstr<T>((T)ws);
            size_t np = isfp<T>() ? (sizeof(T) == 4 ? 5 : 11) : (sizeof(T) == 4 ? 8 : 15);      // keep the product exact in T
            for (size_t i = 0; i < N; ++i) { buf[i] = (T)((i + rep) % N < np ? primes[(i + rep) % N] : 1) * ((i == (size_t)rep) ? -1 : 1); wp = (W)(wp * (W)buf[i]); }
            V w(buf, false);
            if (w.product() != (T)wp) fails += " product(rep" + std::to_string(rep) + ")=" + vstr<T>(w.product()) + "!=" + vstr<T>((T)wp);
        }
        std::printf("%s | %s%s\n", head.c_str(), fails.empty() ? "ok" : "FAIL", fails.substr(0, 400).c_str());
    });
}

// ---------------------------------------------------------------------------------------------
// determinants of integer matrices against exact rational elimination
using vf::Rat;
static inline Rat exact_det(std::vector<std::vector<Rat>> a) {
    size_t n = a.size(); Rat det(1);
    for (size_t c = 0; c < n; ++c) {
        size_t p = c; while (p < n && a[p][c] == Rat(0)) ++p;
        if (p == n) return Rat(0);
        if (p != c) { std::swap(a[p], a[c]); det = -det; }
        det = det * a[c][c];
        for (size_t r = c + 1; r < n; ++r) { Rat f = a[r][c] / a[c][c]; for (size_t k = c; k < n; ++k) a[r][k] = a[r][k] - f * a[c][k]; }
    }
    return det;
}
// families: 0 strictly diagonally dominant (every pivot-free LU exists), 1 a row permutation of family 0 (the
// static pivot search undoes it), 2 random small integers (Simple n <= 4 only), 3 family 0 with a tie in one pivot column
template<size_t M> static inline void int_matrix(int fam, uint32_t& s, long a[M][M]) {
    long d[M][M];
    for (size_t i = 0; i < M; ++i) for (size_t j = 0; j < M; ++j) d[i][j] = (long)(rnd(s) % 7) - 3;
    if (fam == 2) { for (size_t i = 0; i < M; ++i) for (size_t j = 0; j < M; ++j) a[i][j] = d[i][j]; return; }
    for (size_t i = 0; i < M; ++i) { long sum = 0; for (size_t j = 0; j < M; ++j) if (j != i) sum += std::labs(d[i][j]); d[i][i] = ((rnd(s) & 1) ? 1 : -1) * (sum + 1 + (long)(rnd(s) % 3)); }
    if (fam == 3 && M >= 2) {
        // a tie in the static pivot search: |A(i,j)| == |A(j,j)| for one i > j (the search must keep the FIRST maximum, and
        // count_swaps must agree with it); row i stays strictly diagonally dominant, so the pivot-free LU still exists
        size_t j = rnd(s) % (M - 1), i = j + 1 + rnd(s) % (M - 1 - j);
        long t = std::labs(d[j][j]);
        long old = std::labs(d[i][j]);
        d[i][j] = (rnd(s) & 1) ? t : -t;
        d[i][i] += (d[i][i] > 0 ? 1 : -1) * (t - old > 0 ? t - old : 0);
    }
    size_t perm[M]; for (size_t i = 0; i < M; ++i) perm[i] = i;
    if (fam == 1) for (size_t i = M; i > 1; --i) std::swap(perm[i - 1], perm[rnd(s) % i]);
    for (size_t i = 0; i < M; ++i) for (size_t j = 0; j < M; ++j) a[i][j] = d[perm[i]][j];
}
template<size_t M, int TYPE>
void run_detrat(uint32_t ds) {
    static const char* tname[] = {"simple", "lu", "qr"};
    for (int fam = 0; fam < 4; ++fam) {
        if (fam == 2 && !(TYPE == 0 && M <= 4)) continue;
        std::string head = "detrat cfg=" CFGNAME " n=" + std::to_string(M) + " type=" + tname[TYPE] + " fam=" + std::to_string(fam) + " ds=" + std::to_string(ds);
        guarded(head, [&]{
            std::string fails;
            for (int rep = 0; rep < 4; ++rep) {
                uint32_t s = ds * 15485863u + rep * 977u + (uint32_t)(M * 13 + fam);
                long a[M][M]; int_matrix<M>(fam, s, a);
                Tensor<Rat,M,M> A; std::vector<std::vector<Rat>> ref(M, std::vector<Rat>(M));
                for (size_t i = 0; i < M; ++i) for (size_t j = 0; j < M; ++j) { A(i,j) = Rat(a[i][j]); ref[i][j] = Rat(a[i][j]); }
                Rat want = exact_det(ref);
                Rat got = determinant<(DetCompType)TYPE>(A);
                Rat got2 = determinant<(DetCompType)TYPE>(A + Rat(0));
                if (!(got == want)) fails += " rep" + std::to_string(rep) + ":got=" + got.str() + ",want=" + want.str();
                if (!(got2 == want)) fails += " rep" + std::to_string(rep) + "(expr):got=" + got2.str() + ",want=" + want.str();
            }
            std::printf("%s | %s%s\n", head.c_str(), fails.empty() ? "ok" : "FAIL", fails.substr(0, 300).c_str());
        });
    }
}

// determinant<QR> = product(diag(R)) of the Gram-Schmidt factorisation.  Lines go through the Lean model
// (`detqr ... sgn=<sign of det A> | REL=exact|abs|other ORACLE=`): REL says how the returned value relates to
// the exact determinant.  T=rat: A = Q0*R0 with Q0 a product of Pythagorean Givens rotations (times a row
// reflection for fam=1) and R0 upper triangular with positive diagonal, so every square root is exact;
// T=float/double: integer matrices, relative tolerance 64*n*eps.
template<size_t M>
void run_detqr_rat(uint32_t ds) {
    for (int fam = 0; fam < 2; ++fam) for (int rep = 0; rep < 2; ++rep) {
        uint32_t s = ds * 86028121u + rep * 1543u + (uint32_t)(M * 29 + fam);
        static const int tri[3][3] = {{3, 4, 5}, {5, 12, 13}, {4, -3, 5}};
        std::vector<std::vector<Rat>> Q(M, std::vector<Rat>(M)), R(M, std::vector<Rat>(M)), A(M, std::vector<Rat>(M));
        for (size_t i = 0; i < M; ++i) Q[i][i] = Rat(1);
        size_t nrot = M < 2 ? 0 : (M - 1 < 3 ? M - 1 : 3);
        for (size_t r = 0; r < nrot; ++r) {
            size_t p = rnd(s) % M, q = rnd(s) % M; if (p == q) q = (p + 1) % M;
            const int* t = tri[rnd(s) % 3]; Rat c = Rat(t[0]) / Rat(t[2]), sn = Rat(t[1]) / Rat(t[2]);
            for (size_t j = 0; j < M; ++j) { Rat a = Q[p][j], b = Q[q][j]; Q[p][j] = c * a - sn * b; Q[q][j] = sn * a + c * b; }
        }
        if (fam == 1) { size_t p = rnd(s) % M; for (size_t j = 0; j < M; ++j) Q[p][j] = -Q[p][j]; }
        for (size_t i = 0; i < M; ++i) { R[i][i] = Rat(1 + (int)(rnd(s) % 3)); for (size_t j = i + 1; j < M; ++j) R[i][j] = Rat((int)(rnd(s) % 5) - 2); }
        for (size_t i = 0; i < M; ++i) for (size_t j = 0; j < M; ++j) { Rat q(0); for (size_t k = 0; k < M; ++k) q = q + Q[i][k] * R[k][j]; A[i][j] = q; }
        Rat want = exact_det(A);
        std::string head = "detqr cfg=" CFGNAME " T=rat n=" + std::to_string(M) + " fam=" + std::to_string(fam) + " ds=" + std::to_string(ds) + " rep=" + std::to_string(rep) +
                           " sgn=" + (want < Rat(0) ? "neg" : want == Rat(0) ? "zero" : "pos");
        guarded(head, [&]{
            Tensor<Rat,M,M> T; for (size_t i = 0; i < M; ++i) for (size_t j = 0; j < M; ++j) T(i,j) = A[i][j];
            vf::rat_sqrt_nonsquare = 0;
            Rat got = determinant<DetCompType::QR>(T);
            const char* rel = got == want ? "exact" : (got == -want ? "abs" : "other");
            bool ok = got == want && vf::rat_sqrt_nonsquare == 0;
            std::printf("%s | REL=%s NONSQ=%ld ORACLE=%s got=%s want=%s\n", head.c_str(), rel, vf::rat_sqrt_nonsquare, ok ? "ok" : "FAIL", got.str().c_str(), want.str().c_str());
        });
    }
}
template<typename T, size_t M>
void run_detqr_real(uint32_t ds) {
    for (int rep = 0; rep < 4; ++rep) {
        uint32_t s = ds * 67867967u + rep * 389u + (uint32_t)M;
        long a[M][M]; int_matrix<M>(rep % 2, s, a);
        std::vector<std::vector<Rat>> ref(M, std::vector<Rat>(M));
        for (size_t i = 0; i < M; ++i) for (size_t j = 0; j < M; ++j) ref[i][j] = Rat(a[i][j]);
        double want = (double)exact_det(ref);
        std::string head = "detqr cfg=" CFGNAME " T=" + std::string(tn<T>::n()) + " n=" + std::to_string(M) + " fam=" + std::to_string(rep % 2) + " ds=" + std::to_string(ds) +
                           " rep=" + std::to_string(rep) + " sgn=" + (want < 0 ? "neg" : want == 0 ? "zero" : "pos");
        guarded(head, [&]{
            Tensor<T,M,M> A; for (size_t i = 0; i < M; ++i) for (size_t j = 0; j < M; ++j) A(i,j) = (T)a[i][j];
            double got = (double)determinant<DetCompType::QR>(A);
            double tol = 64.0 * M * std::numeric_limits<T>::epsilon() * std::max(1.0, std::fabs(want));
            const char* rel = std::fabs(got - want) <= tol ? "exact" : (std::fabs(got + want) <= tol ? "abs" : "other");
            std::printf("%s | REL=%s ORACLE=%s got=%.17g want=%.17g\n", head.c_str(), rel, std::fabs(got - want) <= tol ? "ok" : "FAIL", got, want);
        });
    }
}
// real element types: integer matrices; Simple (closed forms, incl. the AVX float/double 2x2 and 3x3 code) must be
// exact on small integers; LU within a relative error of 64*n*eps
template<typename T, size_t M, int TYPE>
void run_detreal(uint32_t ds) {
    static const char* tname[] = {"simple", "lu", "qr"};
    std::string head = "detreal cfg=" CFGNAME " T=" + std::string(tn<T>::n()) + " n=" + std::to_string(M) + " type=" + tname[TYPE] + " ds=" + std::to_string(ds);
    guarded(head, [&]{
        std::string fails; double worst = 0;
        for (int rep = 0; rep < 8; ++rep) {
            uint32_t s = ds * 32452843u + rep * 613u + (uint32_t)M;
            int fam = (TYPE == 0 && M <= 4) ? (rep % 4) : (rep % 3 == 2 ? 3 : rep % 3);   // M > 4: Simple dispatches to the statically pivoted LU
            long a[M][M]; int_matrix<M>(fam, s, a);
            Tensor<T,M,M> A; std::vector<std::vector<Rat>> ref(M, std::vector<Rat>(M));
            for (size_t i = 0; i < M; ++i) for (size_t j = 0; j < M; ++j) { A(i,j) = (T)a[i][j]; ref[i][j] = Rat(a[i][j]); }
            double want = (double)exact_det(ref);
            double got = (double)determinant<(DetCompType)TYPE>(A);
            double got2 = (double)determinant<(DetCompType)TYPE>(A + (T)0);
            if (TYPE == 0 && M <= 4) {
                if (got != want || got2 != want) fails += " rep" + std::to_string(rep) + ":got=" + std::to_string(got) + ",want=" + std::to_string(want);
            } else {
                double eps = std::numeric_limits<T>::epsilon();
                double rel = std::fabs(got - want) / std::max(1.0, std::fabs(want)) / (64.0 * M * eps);
                double rel2 = std::fabs(got2 - want) / std::max(1.0, std::fabs(want)) / (64.0 * M * eps);
                worst = std::max(worst, std::max(rel, rel2));
                if (!(rel <= 1.0) || !(rel2 <= 1.0)) fails += " rep" + std::to_string(rep) + ":got=" + std::to_string(got) + ",want=" + std::to_string(want);
            }
        }
        std::printf("%s | %s%s worst=%.3g\n", head.c_str(), fails.empty() ? "ok" : "FAIL", fails.substr(0, 300).c_str(), worst);
    });
}

// ---------------------------------------------------------------------------------------------
// measured floating-point error of sum / norm / inner / product against the bound of the property statement
// (|err| <= n*eps*sum|x_i| for sums; n*eps*|prod| for products; n*eps*norm for norms).  A TEST, not a proof.
template<typename T, size_t N>
void run_fbound(uint32_t ds) {
    std::string head = "fbound cfg=" CFGNAME " T=" + std::string(tn<T>::n()) + " n=" + std::to_string(N) + " ds=" + std::to_string(ds);
    guarded(head, [&]{
        double worst = 0; std::string fails;
        const long double eps = std::numeric_limits<T>::epsilon();
        for (int rep = 0; rep < 10; ++rep) {
            uint32_t s = ds * 49979687u + rep * 8191u + (uint32_t)N;
            Tensor<T,N> A, B, P;
            for (size_t i = 0; i < N; ++i) {
                A(i) = (T)(((double)(rnd(s) % 200001) - 100000.) / 317.); B(i) = (T)(((double)(rnd(s) % 200001) - 100000.) / 713.);
                P(i) = (T)(0.5 + (double)(rnd(s) % 1000) / 1000.0) * ((rnd(s) & 1) ? 1 : -1);
            }
            long double sA = 0, aA = 0, pP = 1, nA = 0, iAB = 0, aAB = 0;
            for (size_t i = 0; i < N; ++i) { sA += A(i); aA += std::fabs((long double)A(i)); pP *= P(i); nA += (long double)A(i) * A(i); iAB += (long double)A(i) * B(i); aAB += std::fabs((long double)A(i) * B(i)); }
            auto rec = [&](const char* what, long double got, long double want, long double scale) {
                long double r = std::fabs(got - want) / (N * eps * scale + 1e-300L);
                if ((double)r > worst) worst = (double)r;
                if (!(r <= 1.0L)) fails += std::string(" ") + what + "(rep" + std::to_string(rep) + ")";
            };
            rec("sum", sum(A), sA, aA); rec("A.sum", A.sum(), sA, aA); rec("sum(A+B-B)", sum(A + B - B), sA, 3 * (aA + 2 * N * 200));
            rec("product", product(P), pP, std::fabs(pP)); rec("P.product", P.product(), pP, std::fabs(pP));
            rec("norm", norm(A), std::sqrt(nA), std::sqrt(nA)); rec("inner", inner(A, B), iAB, aAB);
        }
        std::printf("%s | %s%s worst_ratio=%.3g\n", head.c_str(), fails.empty() ? "ok" : "FAIL", fails.substr(0, 300).c_str(), worst);
    });
}
} // namespace rr
