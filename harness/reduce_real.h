// K4 value runs for the scalar-valued reductions on the real element types (C16).
//  * minmax lines go through the Lean model (`minmax ... x=<data> | V= R= ORACLE=`): min/max of tensors and lazy
//    expressions on the property's sign patterns; the in-harness oracle is std::min_element / std::max_element
//    plus "the result is an element of the input".
//  * pred lines go through the Lean model: all_of / any_of / none_of on all 2^n boolean tensors and on expressions.
//  * every other line is oracle-only (`<case> | ok` or `<case> | FAIL ...`): sums / products / norms / inner /
//    trace on integer-valued data (exact), isequal / issymmetric / isorthogonal, determinants of integer
//    matrices against exact rational elimination for every DetCompType, and measured floating-point error.
#include "rat.h"
#include <Fastor/Fastor.h>
#include "rat_fastor.h"
#include "reduce_depth.h"
#include <cstdio>
#include <cstdint>
#include <cstring>
#include <cmath>
#include <limits>
#include <string>
#include <vector>
#include <algorithm>
#include <complex>
#include <unistd.h>
#include <sys/wait.h>
#ifndef CFGNAME
#define CFGNAME "sse2"
#endif
static bool g_verbose = false;   // set by the replay runner
namespace rr {
using namespace Fastor;
template<typename T> struct tn;
template<> struct tn<float> { static const char* n() { return "float"; } };
template<> struct tn<double> { static const char* n() { return "double"; } };
template<> struct tn<int32_t> { static const char* n() { return "int32"; } };
template<> struct tn<int64_t> { static const char* n() { return "int64"; } };
static inline uint32_t rnd(uint32_t& s) { s = s * 1664525u + 1013904223u; return s >> 8; }
template<typename T> constexpr bool isfp() { return std::is_floating_point<T>::value; }

template<class F> static inline void guarded(const std::string& head, F f) {
    std::fflush(stdout);
    pid_t p = fork();
    if (p == 0) { f(); std::fflush(stdout); _exit(0); }
    int st = 0; waitpid(p, &st, 0);
    if (!(WIFEXITED(st) && WEXITSTATUS(st) == 0)) {
        std::printf("%s | FAIL CRASH=%d ORACLE=FAIL\n", head.c_str(), WIFSIGNALED(st) ? WTERMSIG(st) : -WEXITSTATUS(st));
        std::fflush(stdout);
    }
}

// ---------------------------------------------------------------------------------------------
// value printing shared with the Lean driver: integers, inf, -inf
template<typename T> static inline std::string vstr(T v) {
    char b[400];
    if (isfp<T>()) {
        if (std::isinf((double)v)) return v > 0 ? "inf" : "-inf";
        std::snprintf(b, sizeof b, "%.0f", (double)v);
        if (std::string(b) == "-0") return "0";
        return b;
    }
    std::snprintf(b, sizeof b, "%lld", (long long)v); return b;
}

// sign patterns of the property.  bg: 0 all positive, 1 all negative, 2 mixed;
// ext: 0 none, 1 one moderate high value, 2 one moderate low value, 3 numeric_limits::max, 4 numeric_limits::lowest,
//      5 +inf (floats; max for integers), 6 -inf (floats; lowest for integers), 7 every element = lowest, 8 every element = max,
//      9 every element = -inf, 10 every element = +inf (floats; lowest / max for integers)
template<typename T, size_t N>
static inline void fill_pattern(Tensor<T,N>& A, int bg, int ext, size_t pos, uint32_t& s) {
    for (size_t i = 0; i < N; ++i) {
        int m = 1 + (int)(rnd(s) % 900);
        int v = bg == 0 ? m : bg == 1 ? -m : ((rnd(s) & 1) ? m : -m);
        A(i) = (T)v;
    }
    const T hi = std::numeric_limits<T>::max(), lo = std::numeric_limits<T>::lowest();
    const T pinf = isfp<T>() ? std::numeric_limits<T>::infinity() : hi, ninf = isfp<T>() ? (T)(-std::numeric_limits<T>::infinity()) : lo;
    switch (ext) {
    case 1: A(pos) = (T)(bg == 1 ? -1 + 0 : 5000); if (bg == 1) { for (size_t i = 0; i < N; ++i) if (i != pos) A(i) = (T)(A(i) - 1); } break;
    case 2: A(pos) = (T)(bg == 0 ? 1 : -5000); if (bg == 0) { for (size_t i = 0; i < N; ++i) if (i != pos) A(i) = (T)(A(i) + 1); } break;
    case 3: A(pos) = hi; break;
    case 4: A(pos) = lo; break;
    case 5: A(pos) = pinf; break;
    case 6: A(pos) = ninf; break;
    case 7: for (size_t i = 0; i < N; ++i) A(i) = lo; break;
    case 8: for (size_t i = 0; i < N; ++i) A(i) = hi; break;
    case 9: for (size_t i = 0; i < N; ++i) A(i) = ninf; break;
    case 10: for (size_t i = 0; i < N; ++i) A(i) = pinf; break;
    default: break;
    }
}

// min / max of a tensor (form 0), of the lazy expression A+Z with Z = 0 (form 1) and of -(-A) (form 2)
template<typename T, size_t N>
void minmax_eval(const Tensor<T,N>& A, const char* seedname, int k, int form) {
    std::string head = "minmax cfg=" CFGNAME " T=" + std::string(tn<T>::n()) + " k=" + (k ? "max" : "min") + " form=" + std::to_string(form) +
                       " n=" + std::to_string(N) + " seed=" + seedname + " x=";
    for (size_t i = 0; i < N; ++i) { if (i) head += ","; head += vstr<T>(A(i)); }
    guarded(head, [&]{
        Tensor<T,N> Z; Z.zeros();
        T r;
        if (k == 0) r = form == 0 ? min(A) : form == 1 ? min(A + Z) : min(-(-A));
        else        r = form == 0 ? max(A) : form == 1 ? max(A + Z) : max(-(-A));
        T want = A(0); bool member = false;
        for (size_t i = 0; i < N; ++i) { if (k == 0 ? A(i) < want : A(i) > want) want = A(i); }
        for (size_t i = 0; i < N; ++i) if (A(i) == r) member = true;
        bool ok = (r == want) && member;
        std::printf("%s | V=%d R=%s ORACLE=%s", head.c_str(), (int)Tensor<T,N>::simd_vector_type::Size, vstr<T>(r).c_str(), ok ? "ok" : "FAIL");
        if (!ok) std::printf(" want=%s member=%d", vstr<T>(want).c_str(), (int)member);
        std::printf("\n");
    });
}
template<typename T, size_t N>
void minmax_case(const char* seedmin, const char* seedmax, int k, int form, int bg, int ext, size_t pos, uint32_t ds) {
    if (!isfp<T>() && form == 2) form = 1;      // -(lowest) overflows for the integer types
    uint32_t s = ds * 2654435761u + 12345u + (uint32_t)(bg * 7 + ext * 131 + pos * 977);
    Tensor<T,N> A; fill_pattern(A, bg, ext, pos, s);
    minmax_eval<T,N>(A, k ? seedmax : seedmin, k, form);
}
// re-run one stored case: the data vector as printed (`inf`, `-inf`, decimal integers)
template<typename T, size_t N>
void replay_minmax(const char* seedname, int k, int form, const char* xs) {
    Tensor<T,N> A; std::string str(xs); size_t p = 0;
    for (size_t i = 0; i < N; ++i) {
        size_t q = str.find(',', p); std::string tok = str.substr(p, q == std::string::npos ? std::string::npos : q - p); p = q + 1;
        if (tok == "inf") A(i) = std::numeric_limits<T>::infinity(); else if (tok == "-inf") A(i) = (T)(-std::numeric_limits<T>::infinity());
        else if (isfp<T>()) A(i) = (T)std::strtold(tok.c_str(), nullptr); else A(i) = (T)std::strtoll(tok.c_str(), nullptr, 10);
    }
    minmax_eval<T,N>(A, seedname, k, form);
}

// the sign patterns for one (T,N): every background, single extremes at EVERY position for two extreme kinds
// chosen by the seed, all extreme kinds at seeded positions
template<typename T, size_t N>
void run_minmax(const char* seedmin, const char* seedmax, uint32_t ds, int all) {
    uint32_t s = ds * 97u + (uint32_t)N * 31u + (uint32_t)sizeof(T);
    for (int bg = 0; bg < 3; ++bg) for (int k = 0; k < 2; ++k) minmax_case<T,N>(seedmin, seedmax, k, (int)(rnd(s) % 3), bg, 0, 0, ds);
    for (int ext = 1; ext <= 10; ++ext) {
        bool every = all || ext == 1 + (int)(ds % 2) || ext == 3 + (int)((ds + N) % 4);
        if (ext >= 7) { for (int k = 0; k < 2; ++k) minmax_case<T,N>(seedmin, seedmax, k, (int)(rnd(s) % 3), 2, ext, 0, ds); continue; }
        for (size_t pos = 0; pos < N; ++pos) {
            if (!every && pos != rnd(s) % N) continue;
            int bg = (ext == 1) ? 1 : (ext == 2) ? 0 : (int)(rnd(s) % 3);     // the defect-revealing backgrounds for the moderate extremes
            int k = (ext == 1 || ext == 3 || ext == 5) ? 1 : 0;               // the operation whose answer is the extreme
            minmax_case<T,N>(seedmin, seedmax, k, (int)(rnd(s) % 3), bg, ext, pos, ds);
            if (all || (rnd(s) % 4) == 0) minmax_case<T,N>(seedmin, seedmax, 1 - k, (int)(rnd(s) % 3), bg, ext, pos, ds);
        }
    }
}

// ---------------------------------------------------------------------------------------------
// predicates on all 2^N boolean tensors (form 0) and on the boolean expression X > 0 (form 1)
static inline uint64_t mix64(uint64_t x) { x += 0x9E3779B97F4A7C15ULL; x = (x ^ (x >> 30)) * 0xBF58476D1CE4E5B9ULL; x = (x ^ (x >> 27)) * 0x94D049BB133111EBULL; return x ^ (x >> 31); }
static inline uint64_t hstep(uint64_t h, uint64_t x) { return mix64(h ^ (x + 0x51ED27ULL)); }
static inline std::string hex16(uint64_t x) { char b[32]; std::snprintf(b, sizeof b, "%016llx", (unsigned long long)x); return b; }

template<size_t N, int FORM>
void run_pred() {
    std::string head = "pred cfg=" CFGNAME " n=" + std::to_string(N) + " form=" + (FORM ? "expr" : "tensor");
    guarded(head + " what=allany", [&]{
        uint64_t ha = 0, hy = 0, hn = 0; long bad = -1, nbad = -1; bool eq_any = true, eq_not_any = true;
        for (unsigned long m = 0; m < (1ul << N); ++m) {
            Tensor<bool,N> b; Tensor<float,N> X;
            for (size_t i = 0; i < N; ++i) { b(i) = (m >> i) & 1; X(i) = ((m >> i) & 1) ? 1.f : -1.f; }
            bool a = FORM ? all_of(X > 0) : all_of(b);
            bool y = FORM ? any_of(X > 0) : any_of(b);
            bool z = FORM ? none_of(X > 0) : none_of(b);
            bool wa = true, wy = false; for (size_t i = 0; i < N; ++i) { wa = wa && ((m >> i) & 1); wy = wy || ((m >> i) & 1); }
            if ((a != wa || y != wy) && bad < 0) bad = (long)m;
            if (z != !wy && nbad < 0) nbad = (long)m;
            if (z != wy) eq_any = false;
            if (z != !wy) eq_not_any = false;
            ha = hstep(ha, a); hy = hstep(hy, y); hn = hstep(hn, z);
        }
        std::printf("%s what=allany | ALL=%s ANY=%s ORACLE=%s", head.c_str(), hex16(ha).c_str(), hex16(hy).c_str(), bad < 0 ? "ok" : "FAIL");
        if (bad >= 0) std::printf(" mask=%ld", bad);
        std::printf("\n%s what=none | NONE=%s ORACLE=%s", head.c_str(), hex16(hn).c_str(), eq_not_any ? "ok" : "FAIL");
        if (!eq_not_any) std::printf(" mask=%ld pattern=%s", nbad, eq_any ? "equals-any_of" : "other");
        std::printf("\n");
    });
}

// ---------------------------------------------------------------------------------------------
// exact sums / products / norms / inner / trace on integer-valued data (oracle-only lines)
template<typename T> struct wide { using type = long double; };
template<> struct wide<int32_t> { using type = uint32_t; };
template<> struct wide<int64_t> { using type = uint64_t; };

template<typename T, size_t N>
void run_rsum(uint32_t ds) {
    std::string head = "rsum cfg=" CFGNAME " T=" + std::string(tn<T>::n()) + " n=" + std::to_string(N) + " ds=" + std::to_string(ds);
    guarded(head, [&]{
        using W = typename wide<T>::type;
        std::string fails;
        for (int rep = 0; rep < 6; ++rep) {
            uint32_t s = ds * 7919u + rep * 131u + (uint32_t)N;
            Tensor<T,N> A, B, P;
            int twos = 0;
            for (size_t i = 0; i < N; ++i) {
                A(i) = (T)((int)(rnd(s) % 17) - 8); B(i) = (T)((int)(rnd(s) % 9) - 4);
                int c = (int)(rnd(s) % 4); P(i) = (T)(c == 0 ? 1 : c == 1 ? -1 : (twos++ < 20 ? (c == 2 ? 2 : -2) : 1));
            }
            if (rep == 1) for (size_t i = 0; i < N; ++i) { A(i) = (T)(-std::abs((double)A(i)) - 1); }      // all negative
            if (rep == 2 && !isfp<T>()) { A(rnd(s) % N) = std::numeric_limits<T>::max(); A(rnd(s) % N) = std::numeric_limits<T>::lowest(); }
            W sA = 0, sAB = 0, pP = 1, p2 = 1, nA = 0, iAB = 0;
            for (size_t i = 0; i < N; ++i) {
                sA = (W)(sA + (W)A(i)); sAB = (W)(sAB + (W)A(i) + (W)B(i)); pP = (W)(pP * (W)P(i)); p2 = (W)(p2 * (W)2 * (W)P(i));
                nA = (W)(nA + (W)A(i) * (W)A(i)); iAB = (W)(iAB + (W)A(i) * (W)B(i));
            }
            auto chk = [&](const char* what, T got, W want) { if (!((T)want == got)) { fails += std::string(" ") + what + "(rep" + std::to_string(rep) + ")got=" + vstr<T>(got) + ",want=" + vstr<T>((T)want); } };
            chk("sum(A)", sum(A), sA); chk("A.sum()", A.sum(), sA); chk("sum(A+B)", sum(A + B), sAB);
            chk("product(P)", product(P), pP); chk("P.product()", P.product(), pP);
            if (N <= 30) chk("product(2*P)", product((T)2 * P), p2);
            chk("inner(A,B)", inner(A, B), iAB); chk("inner(A+B,B)", inner(A + B, B), (W)(iAB + [&]{ W q = 0; for (size_t i = 0; i < N; ++i) q = (W)(q + (W)B(i) * (W)B(i)); return q; }()));
            chk("inner(A)", inner(A), sA);
            if (isfp<T>() && rep != 2) {
                T want = (T)std::sqrt((T)nA);
                T g1 = norm(A), g2 = norm(A + B - B);
                if (g1 != want) fails += " norm(A)(rep" + std::to_string(rep) + ")";
                if (g2 != want) fails += " norm(A+B-B)(rep" + std::to_string(rep) + ")";
            }
        }
        std::printf("%s | %s%s\n", head.c_str(), fails.empty() ? "ok" : "FAIL", fails.substr(0, 400).c_str());
    });
}

// 2-D reductions: trace (tensor, expression, evaluated expression), sum/min over an expression that requires
// evaluation (trans), inner(a) of a matrix, issymmetric, isorthogonal, isequal
template<typename T, size_t M>
void run_rmat(uint32_t ds) {
    std::string head = "rmat cfg=" CFGNAME " T=" + std::string(tn<T>::n()) + " n=" + std::to_string(M) + " ds=" + std::to_string(ds);
    guarded(head, [&]{
        using W = typename wide<T>::type;
        std::string fails;
        for (int rep = 0; rep < 4; ++rep) {
            uint32_t s = ds * 104729u + rep * 31u + (uint32_t)M;
            Tensor<T,M,M> A, B, S;
            for (size_t i = 0; i < M; ++i) for (size_t j = 0; j < M; ++j) { A(i,j) = (T)((int)(rnd(s) % 19) - 9); B(i,j) = (T)((int)(rnd(s) % 7) - 3); }
            if (rep == 1) for (size_t i = 0; i < M; ++i) for (size_t j = 0; j < M; ++j) A(i,j) = (T)(-std::abs((double)A(i,j)) - 1);
            for (size_t i = 0; i < M; ++i) for (size_t j = 0; j <= i; ++j) { S(i,j) = A(i,j); S(j,i) = A(i,j); }
            W tA = 0, tAB = 0, sA = 0; T mn = A(0,0), mx = A(0,0);
            for (size_t i = 0; i < M; ++i) { tA = (W)(tA + (W)A(i,i)); tAB = (W)(tAB + (W)A(i,i) + (W)B(i,i)); }
            for (size_t i = 0; i < M; ++i) for (size_t j = 0; j < M; ++j) { sA = (W)(sA + (W)A(i,j)); mn = std::min(mn, (T)A(i,j)); mx = std::max(mx, (T)A(i,j)); }
            auto chk = [&](const char* what, T got, T want) { if (!(want == got)) fails += std::string(" ") + what + "(rep" + std::to_string(rep) + ")got=" + vstr<T>(got) + ",want=" + vstr<T>(want); };
            auto chkb = [&](const char* what, bool got, bool want) { if (want != got) fails += std::string(" ") + what + "(rep" + std::to_string(rep) + ")got=" + (got ? "true" : "false"); };
            chk("trace(A)", trace(A), (T)tA); chk("trace(A+B)", trace(A + B), (T)tAB); chk("trace(trans(A))", trace(trans(A)), (T)tA);
            chk("inner(A)", inner(A), (T)tA);
            chk("sum(trans(A))", sum(trans(A)), (T)sA); chk("min(trans(A))", min(trans(A)), mn); chk("max(trans(A))", max(trans(A)), mx);
            chk("min(A)", min(A), mn); chk("max(A)", max(A), mx);
            // predicates
            chkb("isequal(A,A)", isequal(A, A), true);
            chkb("isequal(A+B,B+A)", isequal(A + B, B + A), true);
            chkb("isequal(trans(S),S)", isequal(trans(S), S), true);
            chkb("issymmetric(S)", issymmetric(S), true);
            chkb("issymmetric(S+S)", issymmetric(S + S), true);
            chkb("issymmetric(trans(S))", issymmetric(trans(S)), true);
            for (size_t p = 0; p < M * M; ++p) {
                Tensor<T,M,M> C = A; C.data()[p] = (T)(C.data()[p] + 1);
                if (isequal(A, C)) fails += " isequal(A,A+e" + std::to_string(p) + ")=true";
                if (isequal(A + B, C + B)) fails += " isequal(A+B,C+B;e" + std::to_string(p) + ")=true";
                size_t i = p / M, j = p % M;
                if (i != j) {
                    Tensor<T,M,M> D = S; D.data()[p] = (T)(D.data()[p] + 1);
                    if (issymmetric(D)) fails += " issymmetric(S+e" + std::to_string(p) + ")=true";
                    if (issymmetric(D + D)) fails += " issymmetric(D+D;e" + std::to_string(p) + ")=true";
                    if (issymmetric(trans(D))) fails += " issymmetric(trans(D);e" + std::to_string(p) + ")=true";
                }
            }
            if (isfp<T>()) {
                // signed permutation matrices are orthogonal with exactly representable products
                Tensor<T,M,M> Q(0); size_t perm[M]; for (size_t i = 0; i < M; ++i) perm[i] = i;
                for (size_t i = M; i > 1; --i) std::swap(perm[i - 1], perm[rnd(s) % i]);
                for (size_t i = 0; i < M; ++i) Q(i, perm[i]) = (rnd(s) & 1) ? (T)1 : (T)-1;
                chkb("isorthogonal(Q)", isorthogonal(Q), true);
                chkb("isorthogonal(Q+0)", isorthogonal(Q + (T)0), true);
                for (size_t p = 0; p < M * M; ++p) { Tensor<T,M,M> R = Q; R.data()[p] = (T)(R.data()[p] + 1); if (isorthogonal(R)) fails += " isorthogonal(Q+e" + std::to_string(p) + ")=true"; }
            }
        }
        std::printf("%s | %s%s\n", head.c_str(), fails.empty() ? "ok" : "FAIL", fails.substr(0, 400).c_str());
    });
}


// ---------------------------------------------------------------------------------------------
// the real horizontal steps SIMDVector<T,ABI>::sum / product / minimum / maximum, lane by lane: an extreme value in
// EVERY lane (moderate, numeric_limits max / lowest, +-inf) on all-positive / all-negative / mixed backgrounds, sums of
// distinct powers of two, products of small primes (exact).  Oracle-only lines.
template<typename T, typename ABI>
void run_hvec(const char* abiname, uint32_t ds) {
    using V = SIMDVector<T,ABI>;
    constexpr size_t N = V::Size;
    std::string head = "hvec cfg=" CFGNAME " T=" + std::string(tn<T>::n()) + " abi=" + abiname + " lanes=" + std::to_string(N) + " ds=" + std::to_string(ds);
    guarded(head, [&]{
        std::string fails;
        uint32_t s = ds * 2246822519u + (uint32_t)N * 7u + (uint32_t)sizeof(T);
        alignas(64) T buf[64];
        const T hi = std::numeric_limits<T>::max(), lo = std::numeric_limits<T>::lowest();
        const T pinf = isfp<T>() ? std::numeric_limits<T>::infinity() : hi, ninf = isfp<T>() ? (T)(-std::numeric_limits<T>::infinity()) : lo;
        for (int bg = 0; bg < 3; ++bg) for (size_t l = 0; l < N; ++l) for (int ext = 0; ext < 6; ++ext) {
            for (size_t i = 0; i < N; ++i) { int m = 2 + (int)(rnd(s) % 900); buf[i] = (T)(bg == 0 ? m : bg == 1 ? -m : ((rnd(s) & 1) ? m : -m)); }
            T e = ext == 0 ? (T)(bg == 1 ? -1 : 5000) : ext == 1 ? (T)(bg == 0 ? 1 : -5000) : ext == 2 ? hi : ext == 3 ? lo : ext == 4 ? pinf : ninf;
            buf[l] = e;
            T wmin = buf[0], wmax = buf[0];
            for (size_t i = 0; i < N; ++i) { if (buf[i] < wmin) wmin = buf[i]; if (buf[i] > wmax) wmax = buf[i]; }
            V v(buf, false);
            T gmin = v.minimum(), gmax = v.maximum();
            if (gmin != wmin) fails += " minimum(bg" + std::to_string(bg) + ",lane" + std::to_string(l) + ",ext" + std::to_string(ext) + ")=" + vstr<T>(gmin) + "!=" + vstr<T>(wmin);
            if (gmax != wmax) fails += " maximum(bg" + std::to_string(bg) + ",lane" + std::to_string(l) + ",ext" + std::to_string(ext) + ")=" + vstr<T>(gmax) + "!=" + vstr<T>(wmax);
        }
        // sum: lane l carries 2^l (every subset sum is distinct), also negated; product: distinct small primes
        static const int primes[16] = {2, 3, 5, 7, 11, 13, 17, 19, 23, 29, 31, 37, 41, 43, 47, 53};
        for (int rep = 0; rep < 3; ++rep) {
            using W = typename wide<T>::type; W ws = 0, wp = 1;
            for (size_t i = 0; i < N; ++i) {
                buf[i] = (T)((rep == 1 ? -1 : 1) * (long)(1L << i) + (rep == 2 ? (long)(rnd(s) % 64) * 65536 : 0));
                ws = (W)(ws + (W)buf[i]);
            }
            V v(buf, false);
            if (v.sum() != (T)ws) fails += " sum(rep" + std::to_string(rep) + ")=" + vstr<T>(v.sum()) + "!=" + vstr<T>((T)ws);
            size_t np = isfp<T>() ? (sizeof(T) == 4 ? 5 : 11) : (sizeof(T) == 4 ? 8 : 15);      // keep the product exact in T
            for (size_t i = 0; i < N; ++i) { buf[i] = (T)((i + rep) % N < np ? primes[(i + rep) % N] : 1) * ((i == (size_t)rep) ? -1 : 1); wp = (W)(wp * (W)buf[i]); }
            V w(buf, false);
            if (w.product() != (T)wp) fails += " product(rep" + std::to_string(rep) + ")=" + vstr<T>(w.product()) + "!=" + vstr<T>((T)wp);
        }
        std::printf("%s | %s%s\n", head.c_str(), fails.empty() ? "ok" : "FAIL", fails.substr(0, 400).c_str());
    });
}

// ---------------------------------------------------------------------------------------------
// determinants of integer matrices against exact rational elimination
using vf::Rat;
static inline Rat exact_det(std::vector<std::vector<Rat>> a) {
    size_t n = a.size(); Rat det(1);
    for (size_t c = 0; c < n; ++c) {
        size_t p = c; while (p < n && a[p][c] == Rat(0)) ++p;
        if (p == n) return Rat(0);
        if (p != c) { std::swap(a[p], a[c]); det = -det; }
        det = det * a[c][c];
        for (size_t r = c + 1; r < n; ++r) { Rat f = a[r][c] / a[c][c]; for (size_t k = c; k < n; ++k) a[r][k] = a[r][k] - f * a[c][k]; }
    }
    return det;
}
// families: 0 strictly diagonally dominant (every pivot-free LU exists), 1 a row permutation of family 0 (the
// static pivot search undoes it), 2 random small integers (Simple n <= 4 only), 3 family 0 with a tie in one pivot column
template<size_t M> static inline void int_matrix(int fam, uint32_t& s, long a[M][M]) {
    long d[M][M];
    for (size_t i = 0; i < M; ++i) for (size_t j = 0; j < M; ++j) d[i][j] = (long)(rnd(s) % 7) - 3;
    if (fam == 2) { for (size_t i = 0; i < M; ++i) for (size_t j = 0; j < M; ++j) a[i][j] = d[i][j]; return; }
    for (size_t i = 0; i < M; ++i) { long sum = 0; for (size_t j = 0; j < M; ++j) if (j != i) sum += std::labs(d[i][j]); d[i][i] = ((rnd(s) & 1) ? 1 : -1) * (sum + 1 + (long)(rnd(s) % 3)); }
    if (fam == 3 && M >= 2) {
        // a tie in the static pivot search: |A(i,j)| == |A(j,j)| for one i > j (the search must keep the FIRST maximum, and
        // count_swaps must agree with it); row i stays strictly diagonally dominant, so the pivot-free LU still exists
        size_t j = rnd(s) % (M - 1), i = j + 1 + rnd(s) % (M - 1 - j);
        long t = std::labs(d[j][j]);
        long old = std::labs(d[i][j]);
        d[i][j] = (rnd(s) & 1) ? t : -t;
        d[i][i] += (d[i][i] > 0 ? 1 : -1) * (t - old > 0 ? t - old : 0);
    }
    size_t perm[M]; for (size_t i = 0; i < M; ++i) perm[i] = i;
    if (fam == 1) for (size_t i = M; i > 1; --i) std::swap(perm[i - 1], perm[rnd(s) % i]);
    for (size_t i = 0; i < M; ++i) for (size_t j = 0; j < M; ++j) a[i][j] = d[perm[i]][j];
}
template<size_t M, int TYPE>
void run_detrat(uint32_t ds) {
    static const char* tname[] = {"simple", "lu", "qr"};
    for (int fam = 0; fam < 4; ++fam) {
        if (fam == 2 && !(TYPE == 0 && M <= 4)) continue;
        std::string head = "detrat cfg=" CFGNAME " n=" + std::to_string(M) + " type=" + tname[TYPE] + " fam=" + std::to_string(fam) + " ds=" + std::to_string(ds);
        guarded(head, [&]{
            std::string fails;
            for (int rep = 0; rep < 4; ++rep) {
                uint32_t s = ds * 15485863u + rep * 977u + (uint32_t)(M * 13 + fam);
                long a[M][M]; int_matrix<M>(fam, s, a);
                Tensor<Rat,M,M> A; std::vector<std::vector<Rat>> ref(M, std::vector<Rat>(M));
                for (size_t i = 0; i < M; ++i) for (size_t j = 0; j < M; ++j) { A(i,j) = Rat(a[i][j]); ref[i][j] = Rat(a[i][j]); }
                Rat want = exact_det(ref);
                Rat got = determinant<(DetCompType)TYPE>(A);
                Rat got2 = determinant<(DetCompType)TYPE>(A + Rat(0));
                if (!(got == want)) fails += " rep" + std::to_string(rep) + ":got=" + got.str() + ",want=" + want.str();
                if (!(got2 == want)) fails += " rep" + std::to_string(rep) + "(expr):got=" + got2.str() + ",want=" + want.str();
            }
            std::printf("%s | %s%s\n", head.c_str(), fails.empty() ? "ok" : "FAIL", fails.substr(0, 300).c_str());
        });
    }
}

// ---------------------------------------------------------------------------------------------
// reductions over VIEWS (A(seq), A(fseq), 2-D views) and over boolean / comparison expressions, including the
// requires-evaluation overloads (trans); exact integer-valued data; a violating element at EVERY position
template<typename T, size_t N>
void run_rview(uint32_t ds) {
    std::string head = "rview cfg=" CFGNAME " T=" + std::string(tn<T>::n()) + " n=" + std::to_string(N) + " ds=" + std::to_string(ds);
    guarded(head, [&]{
        using W = typename wide<T>::type;
        std::string fails;
        uint32_t s = ds * 69069u + (uint32_t)N * 5u;
        Tensor<T,N> A, B, P;
        for (size_t i = 0; i < N; ++i) { A(i) = (T)((int)(rnd(s) % 41) - 20); B(i) = (T)((int)(rnd(s) % 9) - 4); P(i) = (T)((rnd(s) & 1) ? 1 : ((rnd(s) & 1) ? -1 : 2)); }
        auto chk = [&](const std::string& what, T got, T want) { if (!(want == got)) fails += " " + what + ":got=" + vstr<T>(got) + ",want=" + vstr<T>(want); };
        for (int rep = 0; rep < 10; ++rep) {
            int f = (int)(rnd(s) % N), st = 1 + (int)(rnd(s) % 3), l = f + 1 + (int)(rnd(s) % (N - f));
            if (rep == 0) { f = 0; l = (int)N; st = 1; }
            if (rep == 1) { f = 0; l = (int)N; st = 2; }
            W sw = 0, pw = 1, iw = 0, nw = 0; T mn = A(f), mx = A(f); int cnt = 0;
            for (int i = f; i < l; i += st) { sw = (W)(sw + (W)A(i)); if (cnt < 24) pw = (W)(pw * (W)P(i)); iw = (W)(iw + (W)A(i) * (W)B(i)); nw = (W)(nw + (W)A(i) * (W)A(i)); mn = std::min(mn, (T)A(i)); mx = std::max(mx, (T)A(i)); ++cnt; }
            std::string tag = "(seq(" + std::to_string(f) + "," + std::to_string(l) + "," + std::to_string(st) + "))";
            chk("sum(A" + tag + ")", sum(A(seq(f, l, st))), (T)sw);
            chk("sum(A" + tag + "+B" + tag + ")", sum(A(seq(f, l, st)) + B(seq(f, l, st))), (T)(sw + [&]{ W q = 0; for (int i = f; i < l; i += st) q = (W)(q + (W)B(i)); return q; }()));
            chk("min(A" + tag + ")", min(A(seq(f, l, st))), mn); chk("max(A" + tag + ")", max(A(seq(f, l, st))), mx);
            if (cnt <= 24) chk("product(P" + tag + ")", product(P(seq(f, l, st))), (T)pw);
            if (isfp<T>()) { T g = norm(A(seq(f, l, st))); if (g != (T)std::sqrt((T)nw)) fails += " norm(A" + tag + ")"; }
        }
        { W sw = 0; T mx = A(N > 1 ? 1 : 0); for (size_t i = (N > 1 ? 1 : 0); i < N; i += 3) { sw = (W)(sw + (W)A(i)); mx = std::max(mx, (T)A(i)); }
          chk("sum(A(fseq<1,N,3>))", sum(A(fseq<(N > 1 ? 1 : 0), (int)N, 3>())), (T)sw); chk("max(A(fseq<1,N,3>))", max(A(fseq<(N > 1 ? 1 : 0), (int)N, 3>())), mx); }
        std::printf("%s | %s%s\n", head.c_str(), fails.empty() ? "ok" : "FAIL", fails.substr(0, 400).c_str());
    });
}
template<typename T, size_t M, size_t N>
void run_rview2(uint32_t ds) {
    std::string head = "rview2 cfg=" CFGNAME " T=" + std::string(tn<T>::n()) + " m=" + std::to_string(M) + " n=" + std::to_string(N) + " ds=" + std::to_string(ds);
    guarded(head, [&]{
        using W = typename wide<T>::type;
        std::string fails; uint32_t s = ds * 12347u + (uint32_t)(M * 31 + N);
        Tensor<T,M,N> A; for (size_t i = 0; i < M; ++i) for (size_t j = 0; j < N; ++j) A(i,j) = (T)((int)(rnd(s) % 41) - 20);
        for (int rep = 0; rep < 8; ++rep) {
            int f0 = (int)(rnd(s) % M), l0 = f0 + 1 + (int)(rnd(s) % (M - f0)), f1 = (int)(rnd(s) % N), l1 = f1 + 1 + (int)(rnd(s) % (N - f1)), s1 = 1 + (int)(rnd(s) % 2);
            if (rep == 0) { f0 = 0; l0 = (int)M; f1 = 0; l1 = (int)N; s1 = 1; }
            W sw = 0; T mn = A(f0,f1), mx = A(f0,f1);
            for (int i = f0; i < l0; ++i) for (int j = f1; j < l1; j += s1) { sw = (W)(sw + (W)A(i,j)); mn = std::min(mn, (T)A(i,j)); mx = std::max(mx, (T)A(i,j)); }
            T g = sum(A(seq(f0, l0), seq(f1, l1, s1))), gmn = min(A(seq(f0, l0), seq(f1, l1, s1))), gmx = max(A(seq(f0, l0), seq(f1, l1, s1)));
            std::string tag = "(seq(" + std::to_string(f0) + "," + std::to_string(l0) + "),seq(" + std::to_string(f1) + "," + std::to_string(l1) + "," + std::to_string(s1) + "))";
            if (g != (T)sw) fails += " sum" + tag + ":got=" + vstr<T>(g) + ",want=" + vstr<T>((T)sw);
            if (gmn != mn) fails += " min" + tag; if (gmx != mx) fails += " max" + tag;
        }
        std::printf("%s | %s%s\n", head.c_str(), fails.empty() ? "ok" : "FAIL", fails.substr(0, 400).c_str());
    });
}
// predicates of comparison / classification expressions: tensor-level expression, expression of expressions and the
// requires-evaluation overload (trans); the deciding element at EVERY position
template<typename T, size_t M, size_t N>
void run_rbool(uint32_t ds) {
    std::string head = "rbool cfg=" CFGNAME " T=" + std::string(tn<T>::n()) + " m=" + std::to_string(M) + " n=" + std::to_string(N) + " ds=" + std::to_string(ds);
    guarded(head, [&]{
        std::string fails; uint32_t s = ds * 30011u + (uint32_t)(M * 17 + N);
        Tensor<T,M,N> A, B, C;
        for (size_t i = 0; i < M * N; ++i) { A.data()[i] = (T)(10 + (int)(rnd(s) % 50)); B.data()[i] = (T)((int)(rnd(s) % 9)); C.data()[i] = (T)(A.data()[i] + B.data()[i] + 1); }
        auto chk = [&](const std::string& what, bool got, bool want) { if (got != want) fails += " " + what + "=" + (got ? "true" : "false"); };
        // A > B everywhere, A + B < C everywhere
        chk("all_of(A>B)", all_of(A > B), true); chk("any_of(A<B)", any_of(A < B), false); chk("all_of(A+B<C)", all_of(A + B < C), true);
        chk("any_of(A+B>=C)", any_of(A + B >= C), false); chk("all_of(trans(A)>0)", all_of(trans(A) > 0), true); chk("any_of(trans(A)<=0)", any_of(trans(A) <= 0), false);
        chk("all_of(A!=C)", all_of(A != C), true); chk("any_of(A==C)", any_of(A == C), false);
        for (size_t p = 0; p < M * N; ++p) {
            Tensor<T,M,N> D = A; D.data()[p] = (T)(-1);                 // the only element not above B, the only non-positive one
            std::string at = "@" + std::to_string(p);
            chk("all_of(D>B)" + at, all_of(D > B), false); chk("any_of(D<B)" + at, any_of(D < B), true);
            chk("all_of(D+B<C)" + at, all_of(D + B < C), true); chk("any_of(D+1<=0)" + at, any_of(D + (T)1 <= 0), true);
            chk("all_of(trans(D)>0)" + at, all_of(trans(D) > 0), false); chk("any_of(trans(D)<=0)" + at, any_of(trans(D) <= 0), true);
            chk("any_of(D==B-B-1)" + at, any_of(D == B - B - (T)1), true);
        }
        if (isfp<T>()) {
            chk("all_of(isfinite(A))", all_of(isfinite(A)), true); chk("any_of(isnan(A))", any_of(isnan(A)), false); chk("any_of(isinf(A+B))", any_of(isinf(A + B)), false);
            chk("all_of(isfinite(trans(A)))", all_of(isfinite(trans(A))), true);
            for (size_t p = 0; p < M * N; ++p) {
                Tensor<T,M,N> D = A, E = A; D.data()[p] = std::numeric_limits<T>::quiet_NaN(); E.data()[p] = -std::numeric_limits<T>::infinity();
                std::string at = "@" + std::to_string(p);
                chk("all_of(isfinite(D))" + at, all_of(isfinite(D)), false); chk("any_of(isnan(D))" + at, any_of(isnan(D)), true); chk("any_of(isinf(D))" + at, any_of(isinf(D)), false);
                chk("all_of(isfinite(E))" + at, all_of(isfinite(E)), false); chk("any_of(isinf(E+B))" + at, any_of(isinf(E + B)), true); chk("any_of(isnan(E))" + at, any_of(isnan(E)), false);
                chk("any_of(isnan(trans(D)))" + at, any_of(isnan(trans(D))), true); chk("all_of(isfinite(trans(E)))" + at, all_of(isfinite(trans(E))), false);
            }
        }
        std::printf("%s | %s%s\n", head.c_str(), fails.empty() ? "ok" : "FAIL", fails.substr(0, 400).c_str());
    });
}
// batched trace / determinant over the trailing two axes
template<typename T, size_t Bn, size_t M>
void run_rbatch(uint32_t ds) {
    std::string head = "rbatch cfg=" CFGNAME " T=" + std::string(tn<T>::n()) + " b=" + std::to_string(Bn) + " n=" + std::to_string(M) + " ds=" + std::to_string(ds);
    guarded(head, [&]{
        std::string fails; uint32_t s = ds * 7001u + (uint32_t)(Bn * 13 + M);
        Tensor<T,Bn,M,M> A; for (size_t i = 0; i < Bn * M * M; ++i) A.data()[i] = (T)((int)(rnd(s) % 9) - 4);
        auto tr = trace(A); auto dt = determinant(A);
        for (size_t b = 0; b < Bn; ++b) {
            long long t = 0; std::vector<std::vector<Rat>> ref(M, std::vector<Rat>(M));
            for (size_t i = 0; i < M; ++i) { t += (long long)A(b,i,i); for (size_t j = 0; j < M; ++j) ref[i][j] = Rat((long)A(b,i,j)); }
            if ((T)t != tr(b)) fails += " trace[" + std::to_string(b) + "]got=" + vstr<T>(tr(b)) + ",want=" + std::to_string(t);
            double d = (double)exact_det(ref);
            if ((double)dt(b) != d) fails += " det[" + std::to_string(b) + "]got=" + vstr<T>(dt(b)) + ",want=" + std::to_string(d);
        }
        std::printf("%s | %s%s\n", head.c_str(), fails.empty() ? "ok" : "FAIL", fails.substr(0, 400).c_str());
    });
}
// complex element types: Gaussian-integer data (every operation exact); one line per function
template<typename R, size_t N>
void run_cplx(uint32_t ds) {
    using T = std::complex<R>;
    uint32_t s = ds * 911u + (uint32_t)N;
    Tensor<T,N> A, B, P;
    for (size_t i = 0; i < N; ++i) { A(i) = T((R)((int)(rnd(s) % 9) - 4), (R)((int)(rnd(s) % 9) - 4)); B(i) = T((R)((int)(rnd(s) % 5) - 2), (R)((int)(rnd(s) % 5) - 2));
        static const int ur[4] = {1, 0, -1, 0}, ui[4] = {0, 1, 0, -1}; int k = rnd(s) % 4; P(i) = T((R)ur[k], (R)ui[k]); }
    T sA(0), sAB(0), pP(1), iAB(0); R n2 = 0;
    for (size_t i = 0; i < N; ++i) { sA += A(i); sAB += A(i) + B(i); pP *= P(i); iAB += A(i) * B(i); n2 += std::norm(A(i)); }
    auto line = [&](const char* what, bool ok, T got, T want) {
        std::printf("cplx cfg=" CFGNAME " T=complex_%s n=%zu what=%s | %s got=%g%+gi want=%g%+gi\n", tn<R>::n(), N, what, ok ? "ok" : "FAIL", (double)got.real(), (double)got.imag(), (double)want.real(), (double)want.imag());
    };
    std::string head = "cplx cfg=" CFGNAME " T=complex_" + std::string(tn<R>::n()) + " n=" + std::to_string(N);
    guarded(head + " what=sum", [&]{ T g = sum(A); line("sum", g == sA, g, sA); });
    guarded(head + " what=tsum", [&]{ T g = A.sum(); line("tsum", g == sA, g, sA); });
    guarded(head + " what=sumexpr", [&]{ T g = sum(A + B); line("sumexpr", g == sAB, g, sAB); });
    guarded(head + " what=product", [&]{ T g = product(P); line("product", g == pP, g, pP); });
    guarded(head + " what=inner", [&]{ T g = inner(A, B); line("inner", g == iAB, g, iAB); });
    // the Frobenius norm of a complex tensor is sqrt(sum |x_i|^2), a non-negative real number
    guarded(head + " what=norm", [&]{ T g = norm(A); T want(std::sqrt(n2), 0); bool ok = std::abs(g - want) <= 8 * N * std::numeric_limits<R>::epsilon() * std::abs(want); line("norm", ok, g, want); });
}

// determinant<QR> = product(diag(R)) of the Gram-Schmidt factorisation.  Lines go through the Lean model
// (`detqr ... sgn=<sign of det A> | REL=exact|abs|other ORACLE=`): REL says how the returned value relates to
// the exact determinant.  T=rat: A = Q0*R0 with Q0 a product of Pythagorean Givens rotations (times a row
// reflection for fam=1) and R0 upper triangular with positive diagonal, so every square root is exact;
// T=float/double: integer matrices, relative tolerance 64*n*eps.
template<size_t M>
void run_detqr_rat(uint32_t ds) {
    for (int fam = 0; fam < 2; ++fam) for (int rep = 0; rep < 2; ++rep) {
        uint32_t s = ds * 86028121u + rep * 1543u + (uint32_t)(M * 29 + fam);
        static const int tri[3][3] = {{3, 4, 5}, {5, 12, 13}, {4, -3, 5}};
        std::vector<std::vector<Rat>> Q(M, std::vector<Rat>(M)), R(M, std::vector<Rat>(M)), A(M, std::vector<Rat>(M));
        for (size_t i = 0; i < M; ++i) Q[i][i] = Rat(1);
        size_t nrot = M < 2 ? 0 : (M - 1 < 3 ? M - 1 : 3);
        for (size_t r = 0; r < nrot; ++r) {
            size_t p = rnd(s) % M, q = rnd(s) % M; if (p == q) q = (p + 1) % M;
            const int* t = tri[rnd(s) % 3]; Rat c = Rat(t[0]) / Rat(t[2]), sn = Rat(t[1]) / Rat(t[2]);
            for (size_t j = 0; j < M; ++j) { Rat a = Q[p][j], b = Q[q][j]; Q[p][j] = c * a - sn * b; Q[q][j] = sn * a + c * b; }
        }
        if (fam == 1) { size_t p = rnd(s) % M; for (size_t j = 0; j < M; ++j) Q[p][j] = -Q[p][j]; }
        for (size_t i = 0; i < M; ++i) { R[i][i] = Rat(1 + (int)(rnd(s) % 3)); for (size_t j = i + 1; j < M; ++j) R[i][j] = Rat((int)(rnd(s) % 5) - 2); }
        for (size_t i = 0; i < M; ++i) for (size_t j = 0; j < M; ++j) { Rat q(0); for (size_t k = 0; k < M; ++k) q = q + Q[i][k] * R[k][j]; A[i][j] = q; }
        Rat want = exact_det(A);
        std::string head = "detqr cfg=" CFGNAME " T=rat n=" + std::to_string(M) + " fam=" + std::to_string(fam) + " ds=" + std::to_string(ds) + " rep=" + std::to_string(rep) +
                           " sgn=" + (want < Rat(0) ? "neg" : want == Rat(0) ? "zero" : "pos");
        guarded(head, [&]{
            Tensor<Rat,M,M> T; for (size_t i = 0; i < M; ++i) for (size_t j = 0; j < M; ++j) T(i,j) = A[i][j];
            vf::rat_sqrt_nonsquare = 0;
            Rat got = determinant<DetCompType::QR>(T);
            const char* rel = got == want ? "exact" : (got == -want ? "abs" : "other");
            bool ok = got == want && vf::rat_sqrt_nonsquare == 0;
            std::printf("%s | REL=%s NONSQ=%ld ORACLE=%s got=%s want=%s\n", head.c_str(), rel, vf::rat_sqrt_nonsquare, ok ? "ok" : "FAIL", got.str().c_str(), want.str().c_str());
        });
    }
}
template<typename T, size_t M>
void run_detqr_real(uint32_t ds) {
    for (int rep = 0; rep < 4; ++rep) {
        uint32_t s = ds * 67867967u + rep * 389u + (uint32_t)M;
        long a[M][M]; int_matrix<M>(rep % 2, s, a);
        std::vector<std::vector<Rat>> ref(M, std::vector<Rat>(M));
        for (size_t i = 0; i < M; ++i) for (size_t j = 0; j < M; ++j) ref[i][j] = Rat(a[i][j]);
        double want = (double)exact_det(ref);
        std::string head = "detqr cfg=" CFGNAME " T=" + std::string(tn<T>::n()) + " n=" + std::to_string(M) + " fam=" + std::to_string(rep % 2) + " ds=" + std::to_string(ds) +
                           " rep=" + std::to_string(rep) + " sgn=" + (want < 0 ? "neg" : want == 0 ? "zero" : "pos");
        guarded(head, [&]{
            Tensor<T,M,M> A; for (size_t i = 0; i < M; ++i) for (size_t j = 0; j < M; ++j) A(i,j) = (T)a[i][j];
            double got = (double)determinant<DetCompType::QR>(A);
            double tol = 64.0 * M * std::numeric_limits<T>::epsilon() * std::max(1.0, std::fabs(want));
            const char* rel = std::fabs(got - want) <= tol ? "exact" : (std::fabs(got + want) <= tol ? "abs" : "other");
            std::printf("%s | REL=%s ORACLE=%s got=%.17g want=%.17g\n", head.c_str(), rel, std::fabs(got - want) <= tol ? "ok" : "FAIL", got, want);
        });
    }
}
// real element types: integer matrices; Simple (closed forms, incl. the AVX float/double 2x2 and 3x3 code) must be
// exact on small integers; LU within a relative error of 64*n*eps
template<typename T, size_t M, int TYPE>
void run_detreal(uint32_t ds) {
    static const char* tname[] = {"simple", "lu", "qr"};
    std::string head = "detreal cfg=" CFGNAME " T=" + std::string(tn<T>::n()) + " n=" + std::to_string(M) + " type=" + tname[TYPE] + " ds=" + std::to_string(ds);
    guarded(head, [&]{
        std::string fails; double worst = 0;
        for (int rep = 0; rep < 8; ++rep) {
            uint32_t s = ds * 32452843u + rep * 613u + (uint32_t)M;
            int fam = (TYPE == 0 && M <= 4) ? (rep % 4) : (rep % 3 == 2 ? 3 : rep % 3);   // M > 4: Simple dispatches to the statically pivoted LU
            long a[M][M]; int_matrix<M>(fam, s, a);
            Tensor<T,M,M> A; std::vector<std::vector<Rat>> ref(M, std::vector<Rat>(M));
            for (size_t i = 0; i < M; ++i) for (size_t j = 0; j < M; ++j) { A(i,j) = (T)a[i][j]; ref[i][j] = Rat(a[i][j]); }
            double want = (double)exact_det(ref);
            double got = (double)determinant<(DetCompType)TYPE>(A);
            double got2 = (double)determinant<(DetCompType)TYPE>(A + (T)0);
            if (TYPE == 0 && M <= 4) {
                if (got != want || got2 != want) fails += " rep" + std::to_string(rep) + ":got=" + std::to_string(got) + ",want=" + std::to_string(want);
            } else {
                double eps = std::numeric_limits<T>::epsilon();
                double rel = std::fabs(got - want) / std::max(1.0, std::fabs(want)) / (64.0 * M * eps);
                double rel2 = std::fabs(got2 - want) / std::max(1.0, std::fabs(want)) / (64.0 * M * eps);
                worst = std::max(worst, std::max(rel, rel2));
                if (!(rel <= 1.0) || !(rel2 <= 1.0)) fails += " rep" + std::to_string(rep) + ":got=" + std::to_string(got) + ",want=" + std::to_string(want);
            }
        }
        std::printf("%s | %s%s worst=%.3g\n", head.c_str(), fails.empty() ? "ok" : "FAIL", fails.substr(0, 300).c_str(), worst);
    });
}

// ---------------------------------------------------------------------------------------------
// measured floating-point error of sum / inner / norm^2 against the THEOREM Fastor.C16.sum_error_bound: over the rounding model
// |fl(x) - x| <= u|x| (u = eps/2) the reduction machine returns a value within ((1+u)^DEPTH - 1) * sum|term_i| of the exact
// sum, DEPTH = #vector steps + U + V + #tail + 1 (reduce_depth.h; the symbolic runs check DEPTH against the Lean model).
// inner / norm add one rounding for the products on configurations without FMA (DEPTH + 1).  product: n*u relative.
// This remains a TEST of the FPU against the modelled tree (ratio = measured error / bound, must be <= 1).
template<typename T, size_t N>
void run_fbound(uint32_t ds) {
    std::string head = "fbound cfg=" CFGNAME " T=" + std::string(tn<T>::n()) + " n=" + std::to_string(N) + " ds=" + std::to_string(ds);
    guarded(head, [&]{
        double worst = 0; std::string fails;
        const long double u = std::numeric_limits<T>::epsilon() / 2;
#ifdef FASTOR_AVX512_IMPL
        const bool a512 = true;
#else
        const bool a512 = false;
#endif
        const size_t Vn = Tensor<T,N>::simd_vector_type::Size;
        const size_t Vs = internal::choose_best_simd_type<SIMDVector<T,DEFAULT_ABI>,N>::type::Size;
        auto bound = [&](size_t depth) { return std::pow(1.0L + u, (long double)depth) - 1.0L; };
        for (int rep = 0; rep < 10; ++rep) {
            uint32_t s = ds * 49979687u + rep * 8191u + (uint32_t)N;
            Tensor<T,N> A, B, P;
            for (size_t i = 0; i < N; ++i) {
                A(i) = (T)(((double)(rnd(s) % 200001) - 100000.) / 317.); B(i) = (T)(((double)(rnd(s) % 200001) - 100000.) / 713.);
                P(i) = (T)(0.5 + (double)(rnd(s) % 1000) / 1000.0) * ((rnd(s) & 1) ? 1 : -1);
            }
            long double sA = 0, aA = 0, pP = 1, nA = 0, iAB = 0, aAB = 0;
            for (size_t i = 0; i < N; ++i) { sA += A(i); aA += std::fabs((long double)A(i)); pP *= P(i); nA += (long double)A(i) * A(i); iAB += (long double)A(i) * B(i); aAB += std::fabs((long double)A(i) * B(i)); }
            auto rec = [&](const char* what, long double got, long double want, long double bnd) {
                long double r = std::fabs(got - want) / (bnd + 1e-300L);
                if ((double)r > worst) worst = (double)r;
                if (!(r <= 1.0L)) fails += std::string(" ") + what + "(rep" + std::to_string(rep) + ")";
            };
            rec("sum", sum(A), sA, bound(vfdepth::depth(vfdepth::SUM, N, Vn, a512)) * aA);
            rec("A.sum", A.sum(), sA, bound(vfdepth::depth(vfdepth::SUM, N, Vn, a512)) * aA);
            rec("inner", inner(A, B), iAB, bound(vfdepth::depth(vfdepth::INNER, N, Vs, a512) + 1) * aAB);
            { long double g = norm(A); rec("norm^2", g * g, nA, (bound(vfdepth::depth(vfdepth::NORM_TENSOR, N, Vs, a512) + 1) + 4 * u) * nA); }
            { long double g = norm(A + B - B); long double nb = 0; for (size_t i = 0; i < N; ++i) { long double t = (long double)(T)((T)(A(i) + B(i)) - B(i)); nb += t * t; }
              rec("norm(expr)^2", g * g, nb, (bound(vfdepth::depth(vfdepth::NORM_EXPR, N, Vn, a512) + 1) + 4 * u) * nb); }
            rec("product", product(P), pP, N * u * std::fabs(pP) * 1.01L); rec("P.product", P.product(), pP, N * u * std::fabs(pP) * 1.01L);
        }
        std::printf("%s | %s%s worst_ratio=%.3g\n", head.c_str(), fails.empty() ? "ok" : "FAIL", fails.substr(0, 300).c_str(), worst);
    });
}
} // namespace rr
