// C08: runs each intrinsic modelled in lean/FastorModel/Model/SimdIntrinsics.lean on the CPU and prints
//   intrin f=<model name> w=<lanes> imm=<n> a=<hex lanes> b=.. | r=<hex lanes>
// so that the check can compare with the model (`fmodel intrin ...`).  NaN results are printed canonically.
#pragma once
#include <immintrin.h>
#include <cstdint>
#include <cstdio>
#include <cstring>
#include <string>
#include <vector>
#include <cmath>
static bool g_verbose = false;
namespace si {
struct R { uint32_t l[16]; };
static uint64_t rs = 88172645463325252ull;
inline uint64_t rnd() { rs ^= rs << 13; rs ^= rs >> 7; rs ^= rs << 17; return rs; }
inline std::string hexl(const R& r, int w) { std::string s; char b[16]; for (int i = 0; i < w; ++i) { std::snprintf(b, sizeof b, "%x", r.l[i]); if (i) s += ","; s += b; } return s; }
static const uint32_t IP[] = {0, 1, 0xffffffffu, 2, 0x7fffffffu, 0x80000000u, 0x80000001u, 0xffff, 0x10000, 0xb505, 0x55555555u, 0xaaaaaaaau, 3, 0xfffffffeu, 0x12345678u, 100};
static const uint32_t FP32[] = {0, 0x80000000u, 0x3f800000u, 0xbf800000u, 0x40000000u, 0x3f000000u, 0x7f800000u, 0xff800000u, 0x7fc00000u, 0x00000001u, 0x7f7fffffu, 0x00800000u, 0x40400000u, 0x3dcccccdu, 0x4b800000u, 0xc0a00000u};
static const uint64_t FP64[] = {0, 0x8000000000000000ull, 0x3ff0000000000000ull, 0xbff0000000000000ull, 0x4000000000000000ull, 0x7ff0000000000000ull, 0xfff0000000000000ull, 0x7ff8000000000000ull, 1ull, 0x7fefffffffffffffull, 0x4008000000000000ull, 0x3fb999999999999aull};
enum Kind { INT, F32, F64 };
inline R gen(Kind k, int c, int which) { R r;
    for (int i = 0; i < 16; ++i) {
        if (c < 24) { if (k == INT) r.l[i] = IP[(c * 3 + i * 5 + which * 7) % 16]; else if (k == F32) r.l[i] = FP32[(c * 3 + i * 5 + which * 7) % 16];
                      else { uint64_t v = FP64[(c * 5 + (i / 2) * 7 + which * 3) % 12]; r.l[i] = (uint32_t)((i & 1) ? (v >> 32) : v); } }
        else if (k == INT || (c & 1)) r.l[i] = (uint32_t)rnd();
        else if (k == F32) { float f = (float)((int)(rnd() % 2001) - 1000) / 8.f; std::memcpy(&r.l[i], &f, 4); }
        else { double d = (double)((int)(rnd() % 2001) - 1000) / 8.; uint64_t v; std::memcpy(&v, &d, 8); r.l[i] = (uint32_t)((i & 1) ? (v >> 32) : v); if (!(i & 1)) { r.l[i + 1] = (uint32_t)(v >> 32); ++i; } } }
    return r; }
inline void canon(R& r, Kind k, int w) {
    if (k == F32) for (int i = 0; i < w; ++i) { float f; std::memcpy(&f, &r.l[i], 4); if (f != f) r.l[i] = 0x7fc00000u; }
    if (k == F64) for (int i = 0; i + 1 < w + 1 && i < w; i += 2) { double d; uint64_t v = ((uint64_t)r.l[i + 1] << 32) | r.l[i]; std::memcpy(&d, &v, 8); if (d != d) { r.l[i] = 0; r.l[i + 1] = 0x7ff80000u; } } }
inline void emit(const char* f, int w, int imm, const R& a, const R& b, R r, Kind k) {
    if (!std::strcmp(f, "extractf128")) w = 4;          // the result is a 128-bit register: only its four lanes are defined
    canon(r, k, w);
    std::printf("intrin f=%s w=%d imm=%d a=%s b=%s | r=%s\n", f, w, imm, hexl(a, 16).c_str(), hexl(b, 16).c_str(), hexl(r, w).c_str()); }
#define LD128(x) _mm_loadu_si128((const __m128i*)(x).l)
#define LD256(x) _mm256_loadu_si256((const __m256i*)(x).l)
#define LD512(x) _mm512_loadu_si512((const void*)(x).l)
#define ST128(r, v) _mm_storeu_si128((__m128i*)(r).l, (v))
#define ST256(r, v) _mm256_storeu_si256((__m256i*)(r).l, (v))
#define ST512(r, v) _mm512_storeu_si512((void*)(r).l, (v))
#define PS(x) _mm_castsi128_ps(x)
#define PD(x) _mm_castsi128_pd(x)
#define IPS(x) _mm_castps_si128(x)
#define IPD(x) _mm_castpd_si128(x)
#define B2(NAME, KIND, EXPR) for (int c = 0; c < ncase; ++c) { R a = gen(KIND, c, 0), b = gen(KIND, c, 1), r{}; __m128i x = LD128(a), y = LD128(b); (void)y; ST128(r, (EXPR)); emit(NAME, 4, 0, a, b, r, KIND); }
#define BI(NAME, KIND, IMM, EXPR) for (int c = 0; c < ncase / 2 + 2; ++c) { R a = gen(KIND, c, 0), b = gen(KIND, c, 1), r{}; __m128i x = LD128(a), y = LD128(b); (void)y; ST128(r, (EXPR)); emit(NAME, 4, IMM, a, b, r, KIND); }
#define C2(NAME, KIND, EXPR) for (int c = 0; c < ncase; ++c) { R a = gen(KIND, c, 0), b = gen(KIND, c, 1), r{}; __m256i x = LD256(a), y = LD256(b); (void)y; ST256(r, (EXPR)); emit(NAME, 8, 0, a, b, r, KIND); }
#define CI(NAME, KIND, IMM, EXPR) for (int c = 0; c < ncase / 2 + 2; ++c) { R a = gen(KIND, c, 0), b = gen(KIND, c, 1), r{}; __m256i x = LD256(a), y = LD256(b); (void)y; ST256(r, (EXPR)); emit(NAME, 8, IMM, a, b, r, KIND); }
#define D2(NAME, KIND, EXPR) for (int c = 0; c < ncase; ++c) { R a = gen(KIND, c, 0), b = gen(KIND, c, 1), r{}; __m512i x = LD512(a), y = LD512(b); (void)y; ST512(r, (EXPR)); emit(NAME, 16, 0, a, b, r, KIND); }
#define YPS(x) _mm256_castsi256_ps(x)
#define YPD(x) _mm256_castsi256_pd(x)
#define YIS(x) _mm256_castps_si256(x)
#define YID(x) _mm256_castpd_si256(x)

inline void run_intrin(unsigned seed, int ncase) {
    rs ^= (uint64_t)seed * 0x9E3779B97F4A7C15ull;
    B2("add_epi32", INT, _mm_add_epi32(x, y)) B2("sub_epi32", INT, _mm_sub_epi32(x, y)) B2("add_epi64", INT, _mm_add_epi64(x, y)) B2("sub_epi64", INT, _mm_sub_epi64(x, y))
    B2("mul_epu32", INT, _mm_mul_epu32(x, y)) B2("and_si", INT, _mm_and_si128(x, y)) B2("or_si", INT, _mm_or_si128(x, y)) B2("xor_si", INT, _mm_xor_si128(x, y)) B2("andnot_si", INT, _mm_andnot_si128(x, y))
    BI("srai_epi32", INT, 31, _mm_srai_epi32(x, 31)) BI("srai_epi32", INT, 3, _mm_srai_epi32(x, 3)) BI("srli_epi32", INT, 5, _mm_srli_epi32(x, 5)) BI("slli_epi32", INT, 7, _mm_slli_epi32(x, 7)) BI("srli_epi32", INT, 40, _mm_srli_epi32(x, 40))
    BI("slli_si128", INT, 4, _mm_slli_si128(x, 4)) BI("slli_si128", INT, 8, _mm_slli_si128(x, 8)) BI("slli_si128", INT, 12, _mm_slli_si128(x, 12))
    BI("shuffle_epi32", INT, 0xF5, _mm_shuffle_epi32(x, 0xF5)) BI("shuffle_epi32", INT, 0x1B, _mm_shuffle_epi32(x, 0x1B)) BI("shuffle_epi32", INT, 0xB1, _mm_shuffle_epi32(x, 0xB1)) BI("shuffle_epi32", INT, 0xAA, _mm_shuffle_epi32(x, 0xAA)) BI("shuffle_epi32", INT, 0x39, _mm_shuffle_epi32(x, 0x39))
    BI("shuffle_ps", INT, 0x1B, IPS(_mm_shuffle_ps(PS(x), PS(y), 0x1B))) BI("shuffle_ps", INT, 0xF5, IPS(_mm_shuffle_ps(PS(x), PS(y), 0xF5))) BI("shuffle_ps", INT, 0x88, IPS(_mm_shuffle_ps(PS(x), PS(y), 0x88))) BI("shuffle_ps", INT, 0xDD, IPS(_mm_shuffle_ps(PS(x), PS(y), 0xDD))) BI("shuffle_ps", INT, 0x40, IPS(_mm_shuffle_ps(PS(x), PS(y), 0x40))) BI("shuffle_ps", INT, 1, IPS(_mm_shuffle_ps(PS(x), PS(y), 1))) BI("shuffle_ps", INT, 2, IPS(_mm_shuffle_ps(PS(x), PS(y), 2)))
    BI("shuffle_pd", INT, 0, IPD(_mm_shuffle_pd(PD(x), PD(y), 0))) BI("shuffle_pd", INT, 1, IPD(_mm_shuffle_pd(PD(x), PD(y), 1))) BI("shuffle_pd", INT, 2, IPD(_mm_shuffle_pd(PD(x), PD(y), 2))) BI("shuffle_pd", INT, 3, IPD(_mm_shuffle_pd(PD(x), PD(y), 3)))
    B2("unpacklo_epi32", INT, _mm_unpacklo_epi32(x, y)) B2("unpackhi_epi32", INT, _mm_unpackhi_epi32(x, y)) B2("unpacklo_epi64", INT, _mm_unpacklo_epi64(x, y)) B2("unpackhi_epi64", INT, _mm_unpackhi_epi64(x, y))
    B2("movehl_ps", INT, IPS(_mm_movehl_ps(PS(x), PS(y)))) B2("movelh_ps", INT, IPS(_mm_movelh_ps(PS(x), PS(y))))
    B2("add_ps", F32, IPS(_mm_add_ps(PS(x), PS(y)))) B2("sub_ps", F32, IPS(_mm_sub_ps(PS(x), PS(y)))) B2("mul_ps", F32, IPS(_mm_mul_ps(PS(x), PS(y)))) B2("div_ps", F32, IPS(_mm_div_ps(PS(x), PS(y))))
    B2("min_ps", F32, IPS(_mm_min_ps(PS(x), PS(y)))) B2("max_ps", F32, IPS(_mm_max_ps(PS(x), PS(y)))) B2("sqrt_ps", F32, IPS(_mm_sqrt_ps(PS(x))))
    B2("add_ss", F32, IPS(_mm_add_ss(PS(x), PS(y)))) B2("mul_ss", F32, IPS(_mm_mul_ss(PS(x), PS(y))))
    B2("add_pd", F64, IPD(_mm_add_pd(PD(x), PD(y)))) B2("sub_pd", F64, IPD(_mm_sub_pd(PD(x), PD(y)))) B2("mul_pd", F64, IPD(_mm_mul_pd(PD(x), PD(y)))) B2("div_pd", F64, IPD(_mm_div_pd(PD(x), PD(y))))
    B2("min_pd", F64, IPD(_mm_min_pd(PD(x), PD(y)))) B2("max_pd", F64, IPD(_mm_max_pd(PD(x), PD(y)))) B2("sqrt_pd", F64, IPD(_mm_sqrt_pd(PD(x))))
    B2("add_sd", F64, IPD(_mm_add_sd(PD(x), PD(y)))) B2("mul_sd", F64, IPD(_mm_mul_sd(PD(x), PD(y)))) B2("sub_sd", F64, IPD(_mm_sub_sd(PD(x), PD(y))))
    B2("set1_32", INT, _mm_set1_epi32((int)a.l[0])) B2("set1_64", INT, _mm_set1_epi64x((long long)(((uint64_t)a.l[1] << 32) | a.l[0])))
    B2("set32_4", INT, _mm_set_epi32((int)a.l[0], (int)a.l[1], (int)a.l[2], (int)a.l[3])) B2("setr32_4", INT, _mm_setr_epi32((int)a.l[0], (int)a.l[1], (int)a.l[2], (int)a.l[3]))
    B2("set64_2", INT, _mm_set_epi64x((long long)(((uint64_t)a.l[1] << 32) | a.l[0]), (long long)(((uint64_t)a.l[3] << 32) | a.l[2])))
    B2("cvt32", INT, _mm_cvtsi32_si128(_mm_cvtsi128_si32(x)))
#ifdef __SSE3__
    B2("movehdup_ps", INT, IPS(_mm_movehdup_ps(PS(x)))) B2("hadd_ps", F32, IPS(_mm_hadd_ps(PS(x), PS(y)))) B2("hadd_pd", F64, IPD(_mm_hadd_pd(PD(x), PD(y))))
#endif
#ifdef __SSE4_1__
    B2("mullo_epi32", INT, _mm_mullo_epi32(x, y)) B2("mul_epi32", INT, _mm_mul_epi32(x, y)) B2("min_epi32", INT, _mm_min_epi32(x, y)) B2("max_epi32", INT, _mm_max_epi32(x, y)) B2("abs_epi32", INT, _mm_abs_epi32(x))
#endif
#ifdef __AVX2__
    C2("add_epi32", INT, _mm256_add_epi32(x, y)) C2("mullo_epi32", INT, _mm256_mullo_epi32(x, y)) C2("add_epi64", INT, _mm256_add_epi64(x, y)) C2("abs_epi32", INT, _mm256_abs_epi32(x)) C2("mul_epu32", INT, _mm256_mul_epu32(x, y))
    C2("unpacklo_epi32", INT, YIS(_mm256_unpacklo_ps(YPS(x), YPS(y)))) C2("unpackhi_epi32", INT, YIS(_mm256_unpackhi_ps(YPS(x), YPS(y)))) C2("unpacklo_epi64", INT, YID(_mm256_unpacklo_pd(YPD(x), YPD(y)))) C2("unpackhi_epi64", INT, YID(_mm256_unpackhi_pd(YPD(x), YPD(y))))
    CI("shuffle_ps", INT, 27, YIS(_mm256_shuffle_ps(YPS(x), YPS(y), 27))) CI("shuffle_ps", INT, 0x88, YIS(_mm256_shuffle_ps(YPS(x), YPS(y), 0x88))) CI("shuffle_ps", INT, 0xDD, YIS(_mm256_shuffle_ps(YPS(x), YPS(y), 0xDD)))
    CI("shuffle_pd", INT, 5, YID(_mm256_shuffle_pd(YPD(x), YPD(y), 5))) CI("shuffle_pd", INT, 1, YID(_mm256_shuffle_pd(YPD(x), YPD(y), 1))) CI("shuffle_pd", INT, 10, YID(_mm256_shuffle_pd(YPD(x), YPD(y), 10)))
    CI("shuffle_epi32", INT, 0x93, YIS(_mm256_permute_ps(YPS(x), 0x93))) CI("shuffle_epi32", INT, 0x4E, YIS(_mm256_permute_ps(YPS(x), 0x4E)))
    CI("permute2f128", INT, 1, YIS(_mm256_permute2f128_ps(YPS(x), YPS(y), 1))) CI("permute2f128", INT, 2, YIS(_mm256_permute2f128_ps(YPS(x), YPS(y), 2))) CI("permute2f128", INT, 41, YIS(_mm256_permute2f128_ps(YPS(x), YPS(y), 41))) CI("permute2f128", INT, 42, YIS(_mm256_permute2f128_ps(YPS(x), YPS(y), 42))) CI("permute2f128", INT, 8, YIS(_mm256_permute2f128_ps(YPS(x), YPS(y), 8))) CI("permute2f128", INT, 0x31, YIS(_mm256_permute2f128_ps(YPS(x), YPS(y), 0x31)))
    CI("permute4x64", INT, 0xD8, YID(_mm256_permute4x64_pd(YPD(x), 0xD8))) CI("permute4x64", INT, 0x1B, YID(_mm256_permute4x64_pd(YPD(x), 0x1B)))
    CI("blend_ps", INT, 0x11, YIS(_mm256_blend_ps(YPS(x), YPS(y), 0x11))) CI("blend_ps", INT, 0x33, YIS(_mm256_blend_ps(YPS(x), YPS(y), 0x33)))
    CI("extractf128", INT, 1, _mm256_castsi128_si256(_mm256_extractf128_si256(x, 1))) CI("extractf128", INT, 0, _mm256_castsi128_si256(_mm256_extractf128_si256(x, 0)))
    CI("insertf128", INT, 1, _mm256_insertf128_si256(x, _mm256_castsi256_si128(y), 1)) CI("insertf128", INT, 0, _mm256_insertf128_si256(x, _mm256_castsi256_si128(y), 0))
    C2("hadd_pd", F64, YID(_mm256_hadd_pd(YPD(x), YPD(y)))) C2("hadd_ps", F32, YIS(_mm256_hadd_ps(YPS(x), YPS(y)))) C2("add_ps", F32, YIS(_mm256_add_ps(YPS(x), YPS(y)))) C2("max_pd", F64, YID(_mm256_max_pd(YPD(x), YPD(y))))
    C2("set32_8", INT, _mm256_set_epi32((int)a.l[0], (int)a.l[1], (int)a.l[2], (int)a.l[3], (int)a.l[4], (int)a.l[5], (int)a.l[6], (int)a.l[7]))
#endif
#ifdef __AVX512F__
    D2("permutexvar32", INT, _mm512_permutexvar_epi32(x, y)) D2("permutexvar64", INT, _mm512_permutexvar_epi64(x, y)) D2("mullo_epi32", INT, _mm512_mullo_epi32(x, y)) D2("abs_epi64", INT, _mm512_abs_epi64(x))
    D2("min_epi64", INT, _mm512_min_epi64(x, y)) D2("max_epi64", INT, _mm512_max_epi64(x, y)) D2("sub_epi64", INT, _mm512_sub_epi64(x, y))
    D2("reduce_add_epi32", INT, _mm512_zextsi128_si512(_mm_cvtsi32_si128(_mm512_reduce_add_epi32(x)))) D2("reduce_add_epi64", INT, _mm512_set1_epi64(_mm512_reduce_add_epi64(x)))
    D2("set32_16", INT, _mm512_set_epi32((int)a.l[0], (int)a.l[1], (int)a.l[2], (int)a.l[3], (int)a.l[4], (int)a.l[5], (int)a.l[6], (int)a.l[7], (int)a.l[8], (int)a.l[9], (int)a.l[10], (int)a.l[11], (int)a.l[12], (int)a.l[13], (int)a.l[14], (int)a.l[15]))
    D2("setr32_16", INT, _mm512_setr_epi32((int)a.l[0], (int)a.l[1], (int)a.l[2], (int)a.l[3], (int)a.l[4], (int)a.l[5], (int)a.l[6], (int)a.l[7], (int)a.l[8], (int)a.l[9], (int)a.l[10], (int)a.l[11], (int)a.l[12], (int)a.l[13], (int)a.l[14], (int)a.l[15]))
#ifdef __AVX512DQ__
    D2("mullo_epi64", INT, _mm512_mullo_epi64(x, y))
#endif
#endif
}
} // namespace si
using si::run_intrin;
