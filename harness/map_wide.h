// C20, wider operation alphabet on the real element types: views (read / write / compound), reductions, scalar
// assignment, products / transposes / permutations / einsum / inverse with a map as argument and as destination,
// compound lazy products, maps of const buffers, several maps of different shapes over one storage, squeeze with unit
// extents in every position, reshape / flatten of maps — every statement issued alternately through a map and through
// the source, against a plain-array oracle (and, where the semantics belongs to another property, against the same
// statement on an owning tensor holding the same values).
#include "map_real.h"
#include <cmath>
namespace c20w {
using namespace c20r;

template<typename T> static inline bool is_fp() { return std::is_floating_point<T>::value; }

// ---------------------------------------------------------------------------------------------------------------
// views, scalar assignment, reductions, second / third map of another shape over the same storage
//   KIND 0: the source is an owning Tensor<T,M,N>, the map is TensorMap<T,M,N>(source)
//   KIND 1: the source is a TensorMap<T,M,N> over a raw buffer `mis` elements after a 64-byte boundary, the map another one
template<typename T, int KIND, size_t M, size_t N> struct WideSrc;
template<typename T, size_t M, size_t N> struct WideSrc<T,0,M,N> {
    Tensor<T,M,N> S; T* data() { return S.data(); } Tensor<T,M,N>& src() { return S; }
    WideSrc(unsigned) {}
};
template<typename T, size_t M, size_t N> struct WideSrc<T,1,M,N> {
    alignas(64) unsigned char store[256 + M * N * sizeof(T)]; T* p; TensorMap<T,M,N> S;
    T* data() { return p; } TensorMap<T,M,N>& src() { return S; }
    WideSrc(unsigned seed) : p(reinterpret_cast<T*>(store + 64 + sizeof(T) * (1 + seed % 7))), S(p) {}
};

template<typename T, int KIND, size_t M, size_t N>
void run_rwide(unsigned seed) {
    guarded([&]{
        std::printf("rwide cfg=%s T=%s kind=%d dims=%zux%zu seed=%u", CFGNAME, tn<T>::n(), KIND, M, N, seed); std::fflush(stdout);
        constexpr size_t n = M * N;
        const char* what = nullptr; long pos = -1; int badstep = -1; const char* through = "";
        for (int parity = 0; parity < 2 && !what; ++parity) {
            WideSrc<T,KIND,M,N> W(seed + parity);
            T* buf = W.data();
            auto& S = W.src();
            TensorMap<T,M,N> m(buf);           // the map
            TensorMap<T,n> f(buf);             // a flat map of the same storage
            TensorMap<T,N,M> g(buf);           // a map of another shape of the same storage
            uint32_t s = seed * 7919u + 17u * parity;
            std::vector<T> ref(n), rb(n), rc(n);
            Tensor<T,M,N> B, C;
            for (size_t p = 0; p < n; ++p) { ref[p] = buf[p] = (T)((int)(rnd(s) % 7) - 3); rb[p] = B.data()[p] = (T)((int)(rnd(s) % 5) - 2); rc[p] = C.data()[p] = (T)((int)(rnd(s) % 3) - 1); }
            Tensor<T,M,1> col; for (size_t i = 0; i < M; ++i) col.data()[i] = (T)(i + 1);
            Tensor<T,1,N> row; for (size_t j = 0; j < N; ++j) row.data()[j] = (T)(2 * j) - (T)3;
            for (int step = 0; step < 16 && !what; ++step) {
                const bool viam = ((step + parity) & 1) == 0;
                const char* name = "";
                bool rdok = true;
#define VIA(STMT_M, STMT_S) do { if (viam) { auto& X = m; (void)X; STMT_M; } else { auto& X = S; (void)X; STMT_S; } } while (0)
#define BOTH(...) VIA(__VA_ARGS__, __VA_ARGS__)
                switch (step) {
                    case 0: name = "X(seq(0,M,2),all)+=3"; BOTH(X(seq(0, (int)M, 2), all) += (T)3);
                        for (size_t i = 0; i < M; i += 2) for (size_t j = 0; j < N; ++j) ref[i * N + j] += (T)3; break;
                    case 1: name = "X(all,0)=2"; BOTH(X(all, 0) = (T)2);
                        for (size_t i = 0; i < M; ++i) ref[i * N] = (T)2; break;
                    case 2: name = "X(fseq<0,M>,fseq<N-1,N>)=col"; BOTH(X(fseq<0,M>(), fseq<N-1,N>()) = col);
                        for (size_t i = 0; i < M; ++i) ref[i * N + N - 1] = (T)(i + 1); break;
                    case 3: name = "X(fall,fall)-=1"; BOTH(X(fall, fall) -= (T)1);
                        for (auto& x : ref) x -= (T)1; break;
                    case 4: { name = "R=X(seq(0,M,2),all)";
                        Tensor<T,(M + 1) / 2,N> R; VIA(R = X(seq(0, (int)M, 2), all), R = X(seq(0, (int)M, 2), all));
                        for (size_t i = 0; i < (M + 1) / 2; ++i) for (size_t j = 0; j < N; ++j) if (R(i, j) != ref[2 * i * N + j]) rdok = false;
                        break; }
                    case 5: name = "X(seq(1,M),seq(0,N,2))*=2"; BOTH(X(seq(1, (int)M), seq(0, (int)N, 2)) *= (T)2);
                        for (size_t i = 1; i < M; ++i) for (size_t j = 0; j < N; j += 2) ref[i * N + j] *= (T)2; break;
                    case 6: name = "X(0,all)=row"; BOTH(X(0, all) = row);
                        for (size_t j = 0; j < N; ++j) ref[j] = (T)(2 * j) - (T)3; break;
                    case 7: name = "X=X+C*B"; BOTH(X = X + C * B);
                        for (size_t p = 0; p < n; ++p) ref[p] = ref[p] + rc[p] * rb[p]; break;
                    case 8: { name = "reductions";
                        T su = 0, mn = ref[0], mx = ref[0]; double sq = 0;
                        for (auto x : ref) { su += x; if (x < mn) mn = x; if (x > mx) mx = x; sq += (double)x * (double)x; }
                        T a1, a2, a3, a4; double a5;
                        VIA((a1 = sum(X), a2 = X.sum(), a3 = min(X), a4 = max(X), a5 = (double)norm(X)), (a1 = sum(X), a2 = X.sum(), a3 = min(X), a4 = max(X), a5 = (double)norm(X)));
                        if (a1 != su || a2 != su || a3 != mn || a4 != mx) rdok = false;
                        if (is_fp<T>() && std::fabs(a5 - std::sqrt(sq)) > 1e-4 * (1 + std::sqrt(sq))) rdok = false;
                        break; }
                    case 9: name = "X=4"; BOTH(X = (T)4);
                        for (auto& x : ref) x = (T)4; break;
                    case 10: name = "X+=B"; BOTH(X += B);
                        for (size_t p = 0; p < n; ++p) ref[p] += rb[p]; break;
                    case 11: name = "g(all,0)+=1 (N x M map of the same storage)"; g(all, 0) += (T)1;
                        for (size_t i = 0; i < N; ++i) ref[i * M] += (T)1; break;
                    case 12: name = "f(seq(0,n,3))-=1 (flat map of the same storage)"; f(seq(0, (int)n, 3)) -= (T)1;
                        for (size_t p = 0; p < n; p += 3) ref[p] -= (T)1; break;
                    case 13: name = "X(seq(0,M,2),all)+=B(seq(0,M,2),all)"; BOTH(X(seq(0, (int)M, 2), all) += B(seq(0, (int)M, 2), all));
                        for (size_t i = 0; i < M; i += 2) for (size_t j = 0; j < N; ++j) ref[i * N + j] += rb[i * N + j]; break;
                    case 14: name = "X*=C+2"; BOTH(X *= C + (T)2);
                        for (size_t p = 0; p < n; ++p) ref[p] *= rc[p] + (T)2; break;
                    default: { name = "R=-X; X(-1,-1)";
                        Tensor<T,M,N> R; T corner; VIA((R = -X, corner = X(-1, -1)), (R = -X, corner = X(-1, -1)));
                        for (size_t p = 0; p < n; ++p) if (R.data()[p] != (T)(-ref[p])) rdok = false;
                        if (corner != ref[n - 1]) rdok = false;
                        break; }
                }
#undef BOTH
#undef VIA
                for (size_t p = 0; p < n && !what; ++p) if (!(buf[p] == ref[p])) { what = name; pos = (long)p; }
                if (!what && !rdok) { what = name; pos = -1; }
                if (what) { badstep = step; through = viam ? "map" : "source"; }
            }
        }
        if (!what) std::printf(" | ok\n"); else std::printf(" | FAIL step=%d stmt=%s through=%s pos=%ld\n", badstep, what, through, pos);
    });
}

// ---------------------------------------------------------------------------------------------------------------
// maps as arguments and as destinations of products, transposes, permutations, einsum, inverse; compound lazy products;
// maps of const buffers.  N x N, misaligned buffers; `O*` are owning tensors holding the same values.
template<typename T, size_t N>
void run_rlin(unsigned seed) {
    guarded([&]{
        std::printf("rlin cfg=%s T=%s n=%zu seed=%u", CFGNAME, tn<T>::n(), N, seed); std::fflush(stdout);
        const char* what = nullptr; long pos = -1;
        for (int stmt = 0; stmt < 19 && !what; ++stmt) {
            alignas(64) static unsigned char st1[256 + 256 * sizeof(T)], st2[256 + 256 * sizeof(T)];
            T* buf = reinterpret_cast<T*>(st1 + 64 + sizeof(T) * (1 + (seed + stmt) % 7));
            T* buf2 = reinterpret_cast<T*>(st2 + 64 + sizeof(T) * (1 + (seed + 3 * stmt) % 5));
            uint32_t s = seed * 2654435761u + (uint32_t)stmt;
            Tensor<T,N,N> A, B, O, O2; std::vector<T> x(N * N), a(N * N), b(N * N), want(N * N); bool have_want = true;
            for (size_t p = 0; p < N * N; ++p) {
                x[p] = buf[p] = O.data()[p] = (T)((int)(rnd(s) % 5) - 2); a[p] = A.data()[p] = (T)((int)(rnd(s) % 5) - 2); b[p] = B.data()[p] = (T)((int)(rnd(s) % 3) - 1);
                buf2[p] = O2.data()[p] = (T)((int)(rnd(s) % 7) - 3);
            }
            if (stmt >= 10 && stmt <= 11) for (size_t i = 0; i < N; ++i) { x[i * N + i] = buf[i * N + i] = O.data()[i * N + i] = (T)(3 * N + (i % 3)); }   // well conditioned
            TensorMap<T,N,N> m(buf), m2(buf2);
            auto mm = [&](const std::vector<T>& p, const std::vector<T>& q, size_t i, size_t j) { T r = 0; for (size_t k = 0; k < N; ++k) r += p[i * N + k] * q[k * N + j]; return r; };
            const char* name = ""; const T* got = buf; Tensor<T,N,N> R; bool cmp_owning = false;
            switch (stmt) {
                case 0: name = "R=matmul(m,B)"; R = matmul(m, B); got = R.data(); for (size_t i = 0; i < N; ++i) for (size_t j = 0; j < N; ++j) want[i * N + j] = mm(x, b, i, j); break;
                case 1: name = "m=matmul(A,B)"; m = matmul(A, B); for (size_t i = 0; i < N; ++i) for (size_t j = 0; j < N; ++j) want[i * N + j] = mm(a, b, i, j); break;
                case 2: name = "m=matmul(m,B)"; m = matmul(m, B); for (size_t i = 0; i < N; ++i) for (size_t j = 0; j < N; ++j) want[i * N + j] = mm(x, b, i, j); break;
                case 3: name = "m=A%B"; m = A % B; for (size_t i = 0; i < N; ++i) for (size_t j = 0; j < N; ++j) want[i * N + j] = mm(a, b, i, j); break;
                case 4: name = "m-=A%B"; m -= A % B; for (size_t i = 0; i < N; ++i) for (size_t j = 0; j < N; ++j) want[i * N + j] = x[i * N + j] - mm(a, b, i, j); break;
                case 5: name = "m+=A%B"; m += A % B; for (size_t i = 0; i < N; ++i) for (size_t j = 0; j < N; ++j) want[i * N + j] = x[i * N + j] + mm(a, b, i, j); break;
                case 6: name = "m*=A%B"; m *= A % B; for (size_t i = 0; i < N; ++i) for (size_t j = 0; j < N; ++j) want[i * N + j] = x[i * N + j] * mm(a, b, i, j); break;
                case 7: name = "m=trans(m)"; m = trans(m); for (size_t i = 0; i < N; ++i) for (size_t j = 0; j < N; ++j) want[i * N + j] = x[j * N + i]; break;
                case 8: name = "m2=transpose(m)"; m2 = transpose(m); got = buf2; for (size_t i = 0; i < N; ++i) for (size_t j = 0; j < N; ++j) want[i * N + j] = x[j * N + i]; break;
                case 9: name = "m2=permute<Index<1,0>>(m) vs owning"; m2 = permute<Index<1,0>>(m); O2 = permute<Index<1,0>>(O); got = buf2; cmp_owning = true; have_want = false; break;
                case 10: name = "m=inv(m) vs owning"; if (is_fp<T>()) { m = inv(m); O2 = inv(O); } else { O2 = O; } have_want = false; cmp_owning = true; break;
                case 11: name = "R=inverse(m), determinant(m) vs owning"; if (is_fp<T>()) { R = inverse(m); O2 = inverse(O); if (!(determinant(m) == determinant(O))) { what = name; pos = -3; } } else { R = O; O2 = O; }
                    got = R.data(); have_want = false; cmp_owning = true; break;
                case 12: name = "R=einsum<01,12>(m,B)"; R = einsum<Index<0,1>,Index<1,2>>(m, B); got = R.data(); for (size_t i = 0; i < N; ++i) for (size_t j = 0; j < N; ++j) want[i * N + j] = mm(x, b, i, j); break;
                case 13: name = "m=einsum<01,12>(A,B)"; m = einsum<Index<0,1>,Index<1,2>>(A, B); for (size_t i = 0; i < N; ++i) for (size_t j = 0; j < N; ++j) want[i * N + j] = mm(a, b, i, j); break;
                case 14: case 15: name = "R=m%B+A (lazy product with a map operand)"; R = m % B + A; got = R.data(); for (size_t i = 0; i < N; ++i) for (size_t j = 0; j < N; ++j) want[i * N + j] = mm(x, b, i, j) + a[i * N + j]; break;
                case 16: name = "m=m2 (map of the same type over another buffer)"; m = m2; for (size_t p = 0; p < N * N; ++p) want[p] = buf2[p]; break;
                case 17: name = "m=B (tensor)"; m = B; for (size_t p = 0; p < N * N; ++p) want[p] = b[p]; break;
                case 18: { name = "m=f2 (map of another shape over another buffer)"; TensorMap<T,N * N> f2(buf2); m = f2; for (size_t p = 0; p < N * N; ++p) want[p] = buf2[p]; break; }
                default: name = "R=m%B+A (lazy product with a map operand)"; R = m % B + A; got = R.data(); for (size_t i = 0; i < N; ++i) for (size_t j = 0; j < N; ++j) want[i * N + j] = mm(x, b, i, j) + a[i * N + j]; break;
            }
            for (size_t p = 0; p < N * N && !what; ++p) {
                if (have_want && !(got[p] == want[p])) { what = name; pos = (long)p; }
                if (cmp_owning && std::memcmp(&got[p], &O2.data()[p], sizeof(T)) != 0) { what = name; pos = (long)p; }
            }
            // statements whose destination is not `m` must leave the buffer of `m` alone
            if (!what && got != buf && stmt != 10) for (size_t p = 0; p < N * N; ++p) if (!(buf[p] == x[p])) { what = name; pos = -2; }
        }
        if (!what) std::printf(" | ok\n"); else std::printf(" | FAIL stmt=%s pos=%ld\n", what, pos);
    });
}

// maps of const buffers (own instantiation: with FASTOR_DONT_VECTORISE an expression over TensorMap<const T> is rejected at
// compile time — SIMDVector<const T,scalar>::store —, which must not hide the other linear-algebra statements)
template<typename T, size_t N>
void run_rconst(unsigned seed) {
    guarded([&]{
        std::printf("rconst cfg=%s T=%s n=%zu seed=%u", CFGNAME, tn<T>::n(), N, seed); std::fflush(stdout);
        alignas(64) static unsigned char st1[256 + 256 * sizeof(T)];
        T* buf = reinterpret_cast<T*>(st1 + 64 + sizeof(T) * (1 + seed % 7));
        uint32_t s = seed * 2654435761u;
        Tensor<T,N,N> B, R; std::vector<T> x(N * N), b(N * N);
        for (size_t p = 0; p < N * N; ++p) { x[p] = buf[p] = (T)((int)(rnd(s) % 5) - 2); b[p] = B.data()[p] = (T)((int)(rnd(s) % 3) - 1); }
        const T* cbuf = buf;
        TensorMap<const T,N,N> cm(cbuf);
        const char* what = nullptr; long pos = -1;
        R = cm + B;
        for (size_t p = 0; p < N * N && !what; ++p) if (!(R.data()[p] == (T)(x[p] + b[p]))) { what = "R=cm+B"; pos = (long)p; }
        R = B * cm - cm;
        for (size_t p = 0; p < N * N && !what; ++p) if (!(R.data()[p] == (T)(b[p] * x[p] - x[p]))) { what = "R=B*cm-cm"; pos = (long)p; }
        Tensor<T,(N + 1) / 2,N> V = cm(seq(0, (int)N, 2), all);
        for (size_t i = 0; i < (N + 1) / 2 && !what; ++i) for (size_t j = 0; j < N; ++j)
            if (V(i, j) != x[2 * i * N + j] || cm((int)(2 * i), (int)j) != x[2 * i * N + j]) { what = "cm(seq,all) / cm(i,j)"; pos = (long)(2 * i * N + j); }
        {   // reductions, products and diag of a map of a const buffer / of a map (compile with the const-map and diag repairs)
            T su = 0, mn = x[0]; for (auto v : x) { su += v; if (v < mn) mn = v; }
            if (!what && (!(sum(cm) == su) || !(cm.sum() == su) || !(min(cm) == mn))) { what = "sum(cm)/cm.sum()/min(cm)"; pos = -5; }
            Tensor<T,N,N> P = matmul(cm, B);
            for (size_t i = 0; i < N && !what; ++i) for (size_t j = 0; j < N; ++j) { T r = 0; for (size_t k = 0; k < N; ++k) r += x[i * N + k] * b[k * N + j]; if (!(P(i, j) == r)) { what = "matmul(cm,B)"; pos = (long)(i * N + j); } }
            TensorMap<T,N,N> mm(buf);
            Tensor<T,N> dg = diag(mm);
            for (size_t i = 0; i < N && !what; ++i) if (!(dg(i) == x[i * N + i])) { what = "diag(m)"; pos = (long)i; }
        }
        Tensor<T,N,N> Cp = cm;
        for (size_t p = 0; p < N * N && !what; ++p) if (!(Cp.data()[p] == x[p]) || !(buf[p] == x[p])) { what = "Tensor = cm"; pos = (long)p; }
        if (!what) std::printf(" | ok\n"); else std::printf(" | FAIL stmt=%s pos=%ld\n", what, pos);
    });
}

// ---------------------------------------------------------------------------------------------------------------
// squeeze with unit extents in any positions, reshape / flatten of tensors AND of maps, flatten(reshape<>(A))
template<typename T, size_t... D>
void run_rshape(unsigned seed) {
    guarded([&]{
        std::vector<size_t> d{D...}; size_t n = 1; for (auto x : d) n *= x;
        std::printf("rshape cfg=%s T=%s dims=%s seed=%u", CFGNAME, tn<T>::n(), dimstr(d).c_str(), seed); std::fflush(stdout);
        std::vector<size_t> sqd; for (auto x : d) if (x != 1) sqd.push_back(x);
        const char* what = nullptr; long pos = -1;
        Tensor<T,D...> S; for (size_t p = 0; p < n; ++p) S.data()[p] = (T)(p + 1);
        TensorMap<T,D...> mS(S.data());
        auto q1 = squeeze(S); auto q2 = squeeze(mS);
        auto fl = flatten(S); auto fm = flatten(mS);
        auto rs = reshape<pack_prod<D...>::value, 1>(mS);
        auto fr = flatten(reshape<1, pack_prod<D...>::value>(S));
        if (q1.data() != S.data() || q2.data() != S.data() || fl.data() != S.data() || fm.data() != S.data() || rs.data() != S.data() || fr.data() != S.data()) { what = "data pointer"; }
        if (!what && ((size_t)q1.rank() != sqd.size() || (size_t)q1.size() != n)) what = "squeeze rank/size";
        for (size_t k = 0; k < sqd.size() && !what; ++k) if ((size_t)q1.dimension(k) != sqd[k] || (size_t)q2.dimension(k) != sqd[k]) what = "squeeze extents";
        uint32_t s = seed;
        for (int rep = 0; rep < 6 && !what; ++rep) {
            size_t p = rnd(s) % n; T v = (T)(100 + rep);
            switch (rep) {
                case 0: at(q1, unflat_row(sqd, p)) = v; break;          // write through squeeze(tensor)
                case 1: at(q2, unflat_row(sqd, p)) = v; break;          // through squeeze(map)
                case 2: at(S, unflat_row(d, p)) = v; break;             // through the source
                case 3: fm((int)p) = v; break;                          // through flatten(map)
                case 4: rs((int)p, 0) = v; break;                       // through reshape<n,1>(map)
                default: fr((int)p) = v; break;                         // through flatten(reshape<1,n>(tensor))
            }
            bool ok = S.data()[p] == v && at(S, unflat_row(d, p)) == v && at(mS, unflat_row(d, p)) == v && fl((int)p) == v && fm((int)p) == v && rs((int)p, 0) == v && fr((int)p) == v;
            if (!sqd.empty()) ok = ok && at(q1, unflat_row(sqd, p)) == v && at(q2, unflat_row(sqd, p)) == v;
            if (!ok) { what = "write not visible through every name"; pos = (long)p; }
        }
        if (!what) std::printf(" | ok\n"); else std::printf(" | FAIL %s pos=%ld\n", what, pos);
    });
}
} // namespace c20w
using c20w::run_rwide; using c20w::run_rlin; using c20w::run_rshape; using c20w::run_rconst;
