// K4 value runs for index-tensor views and boolean-mask views on the real element types (C19):
// the real gather helper (vector_setter, dispatched on sizeof(T) and the ISA) and the real
// SIMDVector<T,ABI>::set are used; every result is compared bit for bit with plain loops.
// The parent tensor sits between two guard arrays which must stay untouched.
// One line per (case, action):  `<case> | ok`  or  `<case> | FAIL ...`.
#include <Fastor/Fastor.h>
#include <cstdio>
#include <cstdint>
#include <cstring>
#include <cmath>
#include <vector>
#include <string>
#include <algorithm>
using namespace Fastor;
#ifndef CFGNAME
#define CFGNAME "sse2"
#endif
#ifdef FASTOR_USE_VECTORISED_EXPR_ASSIGN
#define RR_VEA 1
#else
#define RR_VEA 0
#endif
namespace rr {
template<typename T> struct tn;
template<> struct tn<float> { static const char* n() { return "float"; } };
template<> struct tn<double> { static const char* n() { return "double"; } };
template<> struct tn<int32_t> { static const char* n() { return "int32"; } };
template<> struct tn<int64_t> { static const char* n() { return "int64"; } };
static inline uint32_t rnd(uint32_t& s) { s = s * 1664525u + 1013904223u; return s >> 8; }
// data: small non-zero values so that every operator (including integer division) is defined and exact
// enough to be compared bit for bit with the same scalar operation
template<typename T> static inline T val(uint32_t& s) { int v = (int)(rnd(s) % 37) - 18; if (v == 0) v = 19; return std::is_integral<T>::value ? (T)v : (T)v / (T)4; }
template<typename T> static inline T rhsval(uint32_t& s) { int v = (int)(rnd(s) % 9) + 1; return (T)((rnd(s) & 1) && !std::is_integral<T>::value ? -v : v); }
template<typename T> static inline bool same(const T& a, const T& b) { return std::memcmp(&a, &b, sizeof(T)) == 0; }
template<typename T> static inline T ap(int op, T a, T b) { return op == 0 ? b : op == 1 ? (T)(a + b) : op == 2 ? (T)(a - b) : op == 3 ? (T)(a * b) : (T)(a / b); }
static const char* OPN[] = {"set", "add", "sub", "mul", "div"};
static const long G = 24;   // guard elements on each side

template<typename T, typename PT> struct Guarded {
    alignas(64) T lo[G]; PT t; alignas(64) T hi[G];
    void init(uint32_t& s) { for (long i = 0; i < G; ++i) { lo[i] = (T)(-77 - i); hi[i] = (T)(77 + i); } for (size_t i = 0; i < PT::size(); ++i) t.data()[i] = val<T>(s); }
    bool guards_ok() const { for (long i = 0; i < G; ++i) if (!same(lo[i], (T)(-77 - i)) || !same(hi[i], (T)(77 + i))) return false; return true; }
};
static inline std::string join(const std::vector<long>& v) { std::string s; for (size_t i = 0; i < v.size(); ++i) { if (i) s += "."; s += std::to_string(v[i]); } return s.empty() ? "-" : s; }
static inline std::vector<long> indices(uint32_t& s, size_t len, long bound, int mode) {
    std::vector<long> v(len);
    if (mode != 1 && (long)len <= bound) {      // duplicate-free, arbitrary order (mode 2: descending)
        std::vector<long> all(bound); for (long i = 0; i < bound; ++i) all[i] = i;
        for (long i = bound - 1; i > 0; --i) std::swap(all[i], all[rnd(s) % (i + 1)]);
        for (size_t i = 0; i < len; ++i) v[i] = all[i];
        if (mode == 2) std::sort(v.begin(), v.end(), [](long a, long b) { return a > b; });
    } else for (size_t i = 0; i < len; ++i) v[i] = rnd(s) % bound;
    return v;
}
static inline bool dupfree(std::vector<long> f) { std::sort(f.begin(), f.end()); return std::adjacent_find(f.begin(), f.end()) == f.end(); }

// all actions on one view: PT parent type, RT tensor type of the view's shape, flat = selected parent positions
template<typename T, typename PT, typename RT, typename MK>
static inline void actions(const std::string& id, const std::vector<long>& flat, uint32_t& s, MK mk) {
    const long PS = PT::size(), VS = RT::size();
    auto line = [&](const char* what, bool ok, const std::string& why) {
        std::printf("rreal cfg=%s T=%s vea=%d %s %s | %s\n", CFGNAME, tn<T>::n(), RR_VEA, id.c_str(), what, ok ? "ok" : ("FAIL " + why).c_str());
    };
    Guarded<T,PT> A, C; A.init(s); C.init(s);
    RT R, B; for (long j = 0; j < VS; ++j) { R.data()[j] = rhsval<T>(s); B.data()[j] = val<T>(s); }
    const PT A0 = A.t; const RT B0 = B;
    // reads: B op= A(it),  B = A(it) + C(it),  through a const parent as well
    for (int op = 0; op < 5; ++op) {
        B = B0;
        if (op == 0) B = mk(A.t); else if (op == 1) B += mk(A.t); else if (op == 2) B -= mk(A.t); else if (op == 3) B *= mk(A.t); else B /= mk(A.t);
        std::string why; bool ok = true;
        for (long j = 0; j < VS && ok; ++j) if (!same(B.data()[j], ap<T>(op, B0.data()[j], A0.data()[flat[j]]))) { ok = false; why = "element " + std::to_string(j); }
        for (long p = 0; p < PS && ok; ++p) if (!same(A.t.data()[p], A0.data()[p])) { ok = false; why = "parent changed"; }
        line((std::string("read op=") + OPN[op]).c_str(), ok && A.guards_ok(), why);
    }
    {
        const PT& cA = A.t; const PT& cC = C.t;
        B = mk(cA) + mk(cC);
        std::string why; bool ok = true;
        for (long j = 0; j < VS && ok; ++j) if (!same(B.data()[j], (T)(A0.data()[flat[j]] + C.t.data()[flat[j]]))) { ok = false; why = "element " + std::to_string(j); }
        line("read expr=view+view const", ok, why);
    }
    if (!dupfree(flat)) return;
    // writes through duplicate-free indices: scalar, tensor, view of another parent
    T num = rhsval<T>(s);
    for (int rhs = 0; rhs < 3; ++rhs) for (int op = 0; op < 5; ++op) {
        A.t = A0;
        if (rhs == 0) { if (op == 0) mk(A.t) = num; else if (op == 1) mk(A.t) += num; else if (op == 2) mk(A.t) -= num; else if (op == 3) mk(A.t) *= num; else mk(A.t) /= num; }
        else if (rhs == 1) { if (op == 0) mk(A.t) = R; else if (op == 1) mk(A.t) += R; else if (op == 2) mk(A.t) -= R; else if (op == 3) mk(A.t) *= R; else mk(A.t) /= R; }
        else { if (op == 0) mk(A.t) = mk(C.t); else if (op == 1) mk(A.t) += mk(C.t); else if (op == 2) mk(A.t) -= mk(C.t); else if (op == 3) mk(A.t) *= mk(C.t); else mk(A.t) /= mk(C.t); }
        std::vector<long> who(PS, -1); for (long j = 0; j < VS; ++j) who[flat[j]] = j;
        std::string why; bool ok = true;
        for (long p = 0; p < PS && ok; ++p) {
            T got = A.t.data()[p];
            if (who[p] < 0) { if (!same(got, A0.data()[p])) { ok = false; why = "unindexed position " + std::to_string(p) + " changed"; } continue; }
            T r = rhs == 0 ? num : rhs == 1 ? R.data()[who[p]] : C.t.data()[p];
            bool good = same(got, ap<T>(op, A0.data()[p], r));
            // division by a floating-point scalar is implemented as multiplication by the reciprocal
            if (!good && op == 4 && rhs == 0 && !std::is_integral<T>::value) good = same(got, (T)(A0.data()[p] * ((T)1 / num)));
            if (!good) { ok = false; why = "indexed position " + std::to_string(p); }
        }
        if (ok && !A.guards_ok()) { ok = false; why = "guard overwritten"; }
        static const char* RN[] = {"scalar", "tensor", "view"};
        line((std::string("write op=") + OPN[op] + " rhs=" + RN[rhs]).c_str(), ok, why);
    }
}


// ---- right-hand sides that Fastor evaluates into a temporary first (requires_evaluation): P % Q, trans(C), P % Q + D,
// and a product that reads the parent of the view itself.  St<T,Dims...> holds operands for a view of shape Dims... (rank 1 or 2)
template<typename T> static inline T posval(uint32_t& s) { return (T)((int)(rnd(s) % 5) + 1); }
template<typename T, size_t... Dims> struct St;
template<typename T, size_t M> struct St<T,M> {
    Tensor<T,M,2> P; Tensor<T,2> q; Tensor<T,M> D; Tensor<T,M,M> Bm; std::vector<T> e[4];
    void init(uint32_t& s, const Tensor<T,M>& parent) {
        for (size_t i = 0; i < 2 * M; ++i) P.data()[i] = posval<T>(s); for (size_t i = 0; i < 2; ++i) q.data()[i] = posval<T>(s);
        for (size_t i = 0; i < M; ++i) D.data()[i] = posval<T>(s); for (size_t i = 0; i < M * M; ++i) Bm.data()[i] = posval<T>(s);
        for (int k = 0; k < 4; ++k) e[k].assign(M, T(0));
        for (size_t i = 0; i < M; ++i) {
            T v = (T)(P.data()[2 * i] * q.data()[0]); v = (T)(v + P.data()[2 * i + 1] * q.data()[1]);
            e[0][i] = v; e[1][i] = v; e[2][i] = (T)(v + D.data()[i]);
            T w = T(0); for (size_t k = 0; k < M; ++k) w = (T)(w + Bm.data()[i * M + k] * parent.data()[k]); e[3][i] = w;
        }
    }
    template<typename VW> void run(int op, int kind, VW&& vw, const Tensor<T,M>& parent) {
        if (kind == 0 || kind == 1) { if (op == 0) vw = P % q; else if (op == 1) vw += P % q; else if (op == 2) vw -= P % q; else if (op == 3) vw *= P % q; else vw /= P % q; }
        else if (kind == 2) { if (op == 0) vw = P % q + D; else if (op == 1) vw += P % q + D; else if (op == 2) vw -= P % q + D; else if (op == 3) vw *= P % q + D; else vw /= P % q + D; }
        else { if (op == 0) vw = Bm % parent; else if (op == 1) vw += Bm % parent; else if (op == 2) vw -= Bm % parent; else if (op == 3) vw *= Bm % parent; else vw /= Bm % parent; }
    }
};
template<typename T, size_t M, size_t N> struct St<T,M,N> {
    Tensor<T,M,2> P; Tensor<T,2,N> Q; Tensor<T,N,M> C; Tensor<T,M,N> D; Tensor<T,N,N> Bm; std::vector<T> e[4];
    void init(uint32_t& s, const Tensor<T,M,N>& parent) {
        for (size_t i = 0; i < 2 * M; ++i) P.data()[i] = posval<T>(s); for (size_t i = 0; i < 2 * N; ++i) Q.data()[i] = posval<T>(s);
        for (size_t i = 0; i < M * N; ++i) { C.data()[i] = posval<T>(s); D.data()[i] = posval<T>(s); } for (size_t i = 0; i < N * N; ++i) Bm.data()[i] = posval<T>(s);
        for (int k = 0; k < 4; ++k) e[k].assign(M * N, T(0));
        for (size_t i = 0; i < M; ++i) for (size_t j = 0; j < N; ++j) {
            T v = (T)(P.data()[2 * i] * Q.data()[j]); v = (T)(v + P.data()[2 * i + 1] * Q.data()[N + j]);
            e[0][i * N + j] = v; e[1][i * N + j] = C.data()[j * M + i]; e[2][i * N + j] = (T)(v + D.data()[i * N + j]);
            T w = T(0); for (size_t k = 0; k < N; ++k) w = (T)(w + parent.data()[i * N + k] * Bm.data()[k * N + j]); e[3][i * N + j] = w;
        }
    }
    template<typename VW> void run(int op, int kind, VW&& vw, const Tensor<T,M,N>& parent) {
        if (kind == 0) { if (op == 0) vw = P % Q; else if (op == 1) vw += P % Q; else if (op == 2) vw -= P % Q; else if (op == 3) vw *= P % Q; else vw /= P % Q; }
        else if (kind == 1) { if (op == 0) vw = trans(C); else if (op == 1) vw += trans(C); else if (op == 2) vw -= trans(C); else if (op == 3) vw *= trans(C); else vw /= trans(C); }
        else if (kind == 2) { if (op == 0) vw = P % Q + D; else if (op == 1) vw += P % Q + D; else if (op == 2) vw -= P % Q + D; else if (op == 3) vw *= P % Q + D; else vw /= P % Q + D; }
        else { if (op == 0) vw = parent % Bm; else if (op == 1) vw += parent % Bm; else if (op == 2) vw -= parent % Bm; else if (op == 3) vw *= parent % Bm; else vw /= parent % Bm; }
    }
};
static const char* SKN[] = {"P%Q", "trans(C) (P%q for rank 1)", "P%Q+D", "parent%B (reads the parent of the view)"};

// the evaluating overloads of the 1-D index view (instantiated for odd view lengths only, to bound compile time)
template<typename T, typename Int, size_t N, size_t M>
static inline void flat1_staged(std::false_type, uint32_t&, const std::vector<long>&, const Tensor<Int,M>&) {}
template<typename T, typename Int, size_t N, size_t M>
static inline void flat1_staged(std::true_type, uint32_t& s, const std::vector<long>& i0, const Tensor<Int,M>& it) {
        // right-hand sides that are evaluated into a temporary first (the evaluating overload of each operator)
        Guarded<T,Tensor<T,N>> A; A.init(s); for (size_t p = 0; p < N; ++p) if (A.t.data()[p] < T(0)) A.t.data()[p] = (T)(T(0) - A.t.data()[p]);
        const Tensor<T,N> A0 = A.t;
        Tensor<T,M> head; for (size_t p = 0; p < M; ++p) head.data()[p] = A0.data()[p];     // `Bm % head` stands for a product reading the parent
        St<T,M> st; st.init(s, head);
        for (int kind = 0; kind < 3; kind += 2) for (int op = 0; op < 5; ++op) {
            A.t = A0; st.run(op, kind, A.t(it), head);
            std::vector<long> who(N, -1); for (size_t j = 0; j < M; ++j) who[i0[j]] = j;
            bool ok = true; std::string why;
            for (size_t p = 0; p < N && ok; ++p) {
                T want = who[p] < 0 ? A0.data()[p] : ap<T>(op, A0.data()[p], st.e[kind][who[p]]);
                if (!same(A.t.data()[p], want)) { ok = false; why = (who[p] < 0 ? "unindexed position " : "indexed position ") + std::to_string(p); }
            }
            if (ok && !A.guards_ok()) { ok = false; why = "guard overwritten"; }
            std::printf("rreal cfg=%s T=%s vea=%d k=flat1 c=%zu i0=%s write op=%s rhs=staged:%s | %s\n", CFGNAME, tn<T>::n(), RR_VEA, N, join(i0).c_str(), OPN[op], kind == 0 ? "P%q" : "P%q+D", ok ? "ok" : ("FAIL " + why).c_str());
        }
        {   // the staged right-hand side reads the parent of the view: the temporary must be complete before the first store
            Tensor<T,M,N> BmN; for (size_t p = 0; p < M * N; ++p) BmN.data()[p] = posval<T>(s);
            for (int op = 0; op < 5; op += 2) {
                A.t = A0;
                if (op == 0) A.t(it) = BmN % A.t; else if (op == 2) A.t(it) -= BmN % A.t; else A.t(it) /= BmN % A.t;
                std::vector<long> who(N, -1); for (size_t j = 0; j < M; ++j) who[i0[j]] = j;
                bool ok = true; std::string why;
                for (size_t p = 0; p < N && ok; ++p) {
                    T want = A0.data()[p];
                    if (who[p] >= 0) { T w = T(0); for (size_t k = 0; k < N; ++k) w = (T)(w + BmN.data()[who[p] * N + k] * A0.data()[k]); want = ap<T>(op, A0.data()[p], w); }
                    if (!same(A.t.data()[p], want)) { ok = false; why = "position " + std::to_string(p); }
                }
                std::printf("rreal cfg=%s T=%s vea=%d k=flat1 c=%zu i0=%s write op=%s rhs=staged:B%%parent | %s\n", CFGNAME, tn<T>::n(), RR_VEA, N, join(i0).c_str(), OPN[op], ok ? "ok" : ("FAIL " + why).c_str());
            }
        }
}

template<typename T, typename Int, size_t N, size_t M>
static inline void flat1(unsigned seed, int count) {
    uint32_t s = seed * 2654435761u + 17;
    for (int q = 0; q < count; ++q) {
        std::vector<long> i0 = indices(s, M, N, q % 3);
        Tensor<Int,M> it; for (size_t i = 0; i < M; ++i) it.data()[i] = (Int)i0[i];
        actions<T, Tensor<T,N>, Tensor<T,M>>("k=flat1 c=" + std::to_string(N) + " i0=" + join(i0), i0, s, [&](auto& A) { return A(it); });
        if (dupfree(i0)) flat1_staged<T,Int,N,M>(std::integral_constant<bool,(M % 2 == 1)>(), s, i0, it);
    }
}
template<typename T, typename Int, size_t R, size_t C, size_t P, size_t Q>
static inline void flat2(unsigned seed, int count) {
    uint32_t s = seed * 2654435761u + 29;
    for (int q = 0; q < count; ++q) {
        std::vector<long> i0 = indices(s, P * Q, R * C, q % 3);
        Tensor<Int,P,Q> it; for (size_t i = 0; i < P * Q; ++i) it.data()[i] = (Int)i0[i];
        actions<T, Tensor<T,R,C>, Tensor<T,P,Q>>("k=flat2 r=" + std::to_string(R) + " c=" + std::to_string(C) + " i0=" + join(i0), i0, s, [&](auto& A) { return A(it); });
    }
}
template<typename T, typename Int0, typename Int1, size_t R, size_t C, size_t M, size_t N>
static inline void ii(unsigned seed, int count) {
    uint32_t s = seed * 2654435761u + 31;
    for (int q = 0; q < count; ++q) {
        std::vector<long> i0 = indices(s, M, R, q % 3), i1 = indices(s, N, C, (q + q / 3) % 3);
        Tensor<Int0,M> it0; for (size_t i = 0; i < M; ++i) it0.data()[i] = (Int0)i0[i];
        Tensor<Int1,N> it1; for (size_t i = 0; i < N; ++i) it1.data()[i] = (Int1)i1[i];
        std::vector<long> flat; for (size_t a = 0; a < M; ++a) for (size_t b = 0; b < N; ++b) flat.push_back(i0[a] * (long)C + i1[b]);
        actions<T, Tensor<T,R,C>, Tensor<T,M,N>>("k=ii r=" + std::to_string(R) + " c=" + std::to_string(C) + " i0=" + join(i0) + " i1=" + join(i1), flat, s, [&](auto& A) { return A(it0, it1); });
        // the view as the source of a 2-D range view
        Tensor<T,R,C> A; for (size_t p = 0; p < R * C; ++p) A.data()[p] = val<T>(s);
        Tensor<T,M+1,N+2> B; B.fill((T)55);
        if (q & 1) B(seq(0, (int)M), seq(0, (int)N)) = A(it0, it1); else B(fseq<0,(int)M>(), fseq<0,(int)N>()) = A(it0, it1);
        bool ok = true; std::string why;
        for (size_t i = 0; i < M + 1 && ok; ++i) for (size_t k = 0; k < N + 2 && ok; ++k) {
            T want = (i < M && k < N) ? A.data()[flat[i * N + k]] : (T)55;
            if (!same(B.data()[i * (N + 2) + k], want)) { ok = false; why = "element " + std::to_string(i) + "," + std::to_string(k); }
        }
        std::printf("rreal cfg=%s T=%s vea=%d k=ii r=%zu c=%zu i0=%s i1=%s into-2d-view dyn=%d | %s\n", CFGNAME, tn<T>::n(), RR_VEA, R, C, join(i0).c_str(), join(i1).c_str(), q & 1, ok ? "ok" : ("FAIL " + why).c_str());
    }
}
template<typename PT, typename IT, typename Int1> static inline auto mk_in(std::integral_constant<int,0>, PT& A, const IT& it0, Int1 num) { return A(it0, num); }
template<typename PT, typename IT, typename Int1> static inline auto mk_in(std::integral_constant<int,1>, PT& A, const IT& it0, Int1 num) { return A(num, it0); }
template<typename T, typename Int0, typename Int1, size_t R, size_t C, size_t M, int SWAP>
static inline void in_(unsigned seed, int count) {
    uint32_t s = seed * 2654435761u + 37;
    for (int q = 0; q < count; ++q) {
        std::vector<long> i0 = indices(s, M, SWAP ? C : R, q % 3);
        long num = 1 + rnd(s) % ((SWAP ? R : C) - 1);
        Tensor<Int0,M> it0; for (size_t i = 0; i < M; ++i) it0.data()[i] = (Int0)i0[i];
        std::vector<long> flat; for (size_t a = 0; a < M; ++a) flat.push_back(SWAP ? num * (long)C + i0[a] : i0[a] * (long)C + num);
        actions<T, Tensor<T,R,C>, Tensor<T,M,1>>(std::string("k=") + (SWAP ? "ni" : "in") + " r=" + std::to_string(R) + " c=" + std::to_string(C) + " i0=" + join(i0) + " num=" + std::to_string(num), flat, s,
            [&](auto& A) { return mk_in(std::integral_constant<int,SWAP>(), A, it0, (Int1)num); });
    }
}
static constexpr long fs_size(long F, long L, long S, long D) { return ((L < 0 ? D + L + 1 : L) - F + S - 1) / S; }
template<typename T, typename Int, size_t R, size_t C, size_t K, int F, int L, int S, int SWAP>
static inline void fs(unsigned seed, int count) {
    uint32_t s = seed * 2654435761u + 41;
    constexpr size_t FS = (size_t)fs_size(F, L, S, SWAP ? R : C);
    for (int q = 0; q < count; ++q) {
        std::vector<long> i0 = indices(s, K, SWAP ? C : R, q % 3);
        Tensor<Int,K> it0; for (size_t i = 0; i < K; ++i) it0.data()[i] = (Int)i0[i];
        std::vector<long> flat;
        if (!SWAP) { for (size_t a = 0; a < K; ++a) for (size_t b = 0; b < FS; ++b) flat.push_back(i0[a] * (long)C + F + (long)S * (long)b); }
        else for (size_t a = 0; a < FS; ++a) for (size_t b = 0; b < K; ++b) flat.push_back((F + (long)S * (long)a) * (long)C + i0[b]);
        std::string id = std::string("k=") + (SWAP ? "fi" : "if") + " r=" + std::to_string(R) + " c=" + std::to_string(C) + " i0=" + join(i0) + " fseq=" + std::to_string(F) + ":" + std::to_string(L) + ":" + std::to_string(S);
        using RT = typename std::conditional<SWAP, Tensor<T,FS,K>, Tensor<T,K,FS>>::type;
        actions<T, Tensor<T,R,C>, RT>(id, flat, s, [&](auto& A) { return mk_in(std::integral_constant<int,SWAP>(), A, it0, fseq<F,L,S>()); });
    }
}

// mask views with right-hand sides that are evaluated first (ranks 1 and 2; no product of rank 3 exists)
template<typename T, typename PT, typename ST, typename FT>
static inline void staged_mask(uint32_t& s, const std::string& ms, const FT& fl) {
    const long PS = PT::size();
    Guarded<T,PT> A; A.init(s); for (long p = 0; p < PS; ++p) if (A.t.data()[p] < T(0)) A.t.data()[p] = (T)(T(0) - A.t.data()[p]);
    const PT A0 = A.t;
    ST st; st.init(s, A0);
    for (int kind = 0; kind < 4; ++kind) for (int op = 0; op < 5; ++op) {
        A.t = A0; st.run(op, kind, A.t(fl), A.t);
        bool ok = true; std::string why;
        for (long p = 0; p < PS && ok; ++p) {
            T want = ms[p] == '1' ? ap<T>(op, A0.data()[p], st.e[kind][p]) : A0.data()[p];
            if (!same(A.t.data()[p], want)) { ok = false; why = (ms[p] == '1' ? "true position " : "false position ") + std::to_string(p); }
        }
        if (ok && !A.guards_ok()) { ok = false; why = "guard overwritten"; }
        std::printf("rreal cfg=%s T=%s k=mask n=%ld mask=%s write op=%s rhs=staged:%s | %s\n", CFGNAME, tn<T>::n(), PS, ms.c_str(), OPN[op], SKN[kind], ok ? "ok" : ("FAIL " + why).c_str());
    }
}
template<typename T, size_t... Dims> struct StagedMask { template<typename FT> static void go(uint32_t&, const std::string&, const FT&) {} };
template<typename T, size_t M> struct StagedMask<T,M> { template<typename FT> static void go(uint32_t& s, const std::string& ms, const FT& fl) { staged_mask<T, Tensor<T,M>, St<T,M>>(s, ms, fl); } };
template<typename T, size_t M, size_t N> struct StagedMask<T,M,N> { template<typename FT> static void go(uint32_t& s, const std::string& ms, const FT& fl) { staged_mask<T, Tensor<T,M,N>, St<T,M,N>>(s, ms, fl); } };

// boolean-mask views
template<typename T, size_t... Dims>
static inline void filt(unsigned seed, int count) {
    uint32_t s = seed * 2654435761u + 43;
    using PT = Tensor<T,Dims...>;
    const long PS = PT::size();
    for (int q = 0; q < count; ++q) {
        Guarded<T,PT> A, C; A.init(s); C.init(s);
        PT R, B; for (long p = 0; p < PS; ++p) { R.data()[p] = rhsval<T>(s); B.data()[p] = val<T>(s); }
        Tensor<bool,Dims...> fl; std::string ms(PS, '0');
        for (long p = 0; p < PS; ++p) { bool b = q == 0 ? true : q == 1 ? false : (rnd(s) >> 5 & 1); fl.data()[p] = b; ms[p] = b ? '1' : '0'; }
        const PT A0 = A.t; T num = rhsval<T>(s);
        auto line = [&](const std::string& what, bool ok, const std::string& why) {
            std::printf("rreal cfg=%s T=%s k=mask n=%ld mask=%s %s | %s\n", CFGNAME, tn<T>::n(), PS, ms.c_str(), what.c_str(), ok ? "ok" : ("FAIL " + why).c_str());
        };
        for (int rhs = 0; rhs < 3; ++rhs) for (int op = 0; op < 5; ++op) {
            A.t = A0;
            if (rhs == 0) { if (op == 0) A.t(fl) = num; else if (op == 1) A.t(fl) += num; else if (op == 2) A.t(fl) -= num; else if (op == 3) A.t(fl) *= num; else A.t(fl) /= num; }
            else if (rhs == 1) { if (op == 0) A.t(fl) = R; else if (op == 1) A.t(fl) += R; else if (op == 2) A.t(fl) -= R; else if (op == 3) A.t(fl) *= R; else A.t(fl) /= R; }
            else { if (op == 0) A.t(fl) = R + C.t; else if (op == 1) A.t(fl) += R + C.t; else if (op == 2) A.t(fl) -= R + C.t; else if (op == 3) A.t(fl) *= R + C.t; else A.t(fl) /= R * R; }
            bool ok = true; std::string why;
            for (long p = 0; p < PS && ok; ++p) {
                T got = A.t.data()[p];
                if (ms[p] == '0') { if (!same(got, A0.data()[p])) { ok = false; why = "false position " + std::to_string(p) + " changed"; } continue; }
                T r = rhs == 0 ? num : rhs == 1 ? R.data()[p] : (op == 4 ? (T)(R.data()[p] * R.data()[p]) : (T)(R.data()[p] + C.t.data()[p]));
                bool good = same(got, ap<T>(op, A0.data()[p], r));
                if (!good && op == 4 && rhs == 0 && !std::is_integral<T>::value) good = same(got, (T)(A0.data()[p] * ((T)1 / num)));
                if (!good) { ok = false; why = "true position " + std::to_string(p); }
            }
            if (ok && !A.guards_ok()) { ok = false; why = "guard overwritten"; }
            static const char* RN[] = {"scalar", "tensor", "expr"};
            line(std::string("write op=") + OPN[op] + " rhs=" + RN[rhs], ok, why);
        }
        StagedMask<T,Dims...>::go(s, ms, fl);
        {   // reading a mask view: the element where the mask is true, zero elsewhere
            A.t = A0; B = A.t(fl);
            bool ok = true; std::string why;
            for (long p = 0; p < PS && ok; ++p) if (!same(B.data()[p], ms[p] == '1' ? A0.data()[p] : (T)0)) { ok = false; why = "element " + std::to_string(p); }
            line("read", ok, why);
        }
    }
}
} // namespace rr
