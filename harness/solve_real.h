// C12 (K4): solve<SolveCompType::…> on float / double under the ISA of the translation unit — a TEST of the residual bound
// (the floating-point clause of the property, which the proof technique does not decide):
//     max_ij |A*X - B|  <=  C * n * eps * G * max_ij (|A|*|X| + |B|),   C = 8, G = 1e3 (growth / conditioning allowance)
// A strictly diagonally dominant (rows exchanged in disjoint pairs for the pivoted strategies).  Non-finite results fail.
// One line per case:  solvereal cfg= T= n= c= strat= seed= | ok res=<ratio to the bound>   or   | FAIL <what>
#ifndef VF_SOLVE_REAL_H
#define VF_SOLVE_REAL_H
#include <Fastor/Fastor.h>
#include <cstdio>
#include <cmath>
#include <vector>
#include <limits>

namespace vsr {
struct Rng { uint64_t s; explicit Rng(uint64_t seed) : s(seed * 0x9E3779B97F4A7C15ULL + 0x7654321ULL) { next(); next(); }
    uint64_t next() { s ^= s << 13; s ^= s >> 7; s ^= s << 17; return s; }
    int upto(int m) { return (int)((next() >> 11) % (uint64_t)m); } };
template<class T> struct TN; template<> struct TN<float> { static const char* n() { return "float"; } }; template<> struct TN<double> { static const char* n() { return "double"; } };
static const char* SSTRAT_NAME[] = {"inv", "invpiv", "block", "blockpiv", "simple", "simplepiv"};
template<int S> struct ST;
template<> struct ST<0> { static constexpr Fastor::SolveCompType v = Fastor::SolveCompType::SimpleInv; };
template<> struct ST<1> { static constexpr Fastor::SolveCompType v = Fastor::SolveCompType::SimpleInvPiv; };
template<> struct ST<2> { static constexpr Fastor::SolveCompType v = Fastor::SolveCompType::BlockLU; };
template<> struct ST<3> { static constexpr Fastor::SolveCompType v = Fastor::SolveCompType::BlockLUPiv; };
template<> struct ST<4> { static constexpr Fastor::SolveCompType v = Fastor::SolveCompType::SimpleLU; };
template<> struct ST<5> { static constexpr Fastor::SolveCompType v = Fastor::SolveCompType::SimpleLUPiv; };
template<class T, size_t n, size_t C> struct RHS { typedef Fastor::Tensor<T, n, C> type; static constexpr size_t cols = C; };
template<class T, size_t n> struct RHS<T, n, 0> { typedef Fastor::Tensor<T, n> type; static constexpr size_t cols = 1; };

template<class T, size_t n, size_t C, int STRAT> void run_solvereal(unsigned seed) {
    using namespace Fastor;
    typedef typename RHS<T, n, C>::type TB; constexpr size_t c = RHS<T, n, C>::cols;
    Rng r((uint64_t)seed * 7907ULL + n * 131ULL + C * 17 + STRAT);
    std::vector<double> Bm(n * n);
    for (size_t i = 0; i < n; ++i) { double s = 0; for (size_t j = 0; j < n; ++j) if (i != j) { double v = (r.upto(17) - 8) / 8.0; Bm[i * n + j] = v; s += std::fabs(v); }
        Bm[i * n + i] = (r.upto(2) ? 1 : -1) * (s + 1 + r.upto(8) / 8.0); }
    std::vector<size_t> sg(n); for (size_t i = 0; i < n; ++i) sg[i] = i;
    if (STRAT % 2 == 1) for (size_t i = 0; i + 1 < n; i += 3) std::swap(sg[i], sg[i + 1]);
    Tensor<T, n, n> A; for (size_t i = 0; i < n; ++i) for (size_t j = 0; j < n; ++j) A(sg[i], j) = (T)Bm[i * n + j];
    TB B; for (size_t i = 0; i < n * c; ++i) B.data()[i] = (T)((r.upto(33) - 16) / 4.0);
    TB X = solve<ST<STRAT>::v>(A, B);
    char head[200]; std::snprintf(head, sizeof head, "solvereal cfg=%s T=%s n=%zu c=%zu vec=%d strat=%s seed=%u", CFGNAME, TN<T>::n(), n, c, C == 0 ? 1 : 0, SSTRAT_NAME[STRAT], seed);
    long double res = 0, scale = 0; bool finite = true;
    for (size_t i = 0; i < n; ++i) for (size_t j = 0; j < c; ++j) {
        long double s = 0, a = 0;
        for (size_t k = 0; k < n; ++k) { long double t = (long double)A(i, k) * (long double)X.data()[k * c + j]; s += t; a += std::fabs(t); }
        if (!(s == s) || std::isinf((double)s)) finite = false;
        res = std::fmax(res, std::fabs(s - (long double)B.data()[i * c + j])); scale = std::fmax(scale, a + std::fabs((long double)B.data()[i * c + j]));
    }
    if (!finite) { std::printf("%s | FAIL non-finite result\n", head); return; }
    long double bound = 8.0L * 1e3L * n * (long double)std::numeric_limits<T>::epsilon() * scale;
    if (res <= bound) std::printf("%s | ok res=%.4f\n", head, (double)(res / bound));
    else std::printf("%s | FAIL residual max|A*X-B|=%Lg bound=%Lg\n", head, res, bound);
}
} // namespace vsr
using vsr::run_solvereal;
#endif
