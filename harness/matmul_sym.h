// Symbolic correspondence harness for Fastor::_matmul (C01) and _tmatmul (C17).
#include <Fastor/Fastor.h>
#include "simd_sym.h"
#include "hutil.h"
using namespace vf;
#ifndef CFGNAME
#define CFGNAME "sse2"
#endif
#ifdef FASTOR_MATMUL_OUTER_BLOCK_SIZE
#define OBSTR " ob=" FASTOR_STR(FASTOR_MATMUL_OUTER_BLOCK_SIZE)
#else
#define OBSTR ""
#endif
static bool g_verbose = false;
#define VF_XSTR(x) #x
#define VF_STR(x) VF_XSTR(x)

template<typename T, size_t M, size_t K, size_t N>
void run_matmul() {
    arena.reset(); pool.reset();
    T* out = sym_alloc<T>(0, M*N);
    T* a = sym_alloc<T>(1, M*K);
    T* b = sym_alloc<T>(2, K*N);
    trace.clear(); trace.on = true;
    Fastor::_matmul<T,M,K,N>(a,b,out);
    trace.on = false;
    auto s = summarise(0, g_verbose);
    bool ok = true; long badcell = -1;
    for (size_t i=0;i<M && ok;++i) for (size_t j=0;j<N;++j) {
        Poly acc;
        for (size_t k=0;k<K;++k) acc = padd(acc, pmul(ptok(mktok(1,i*K+k)), ptok(mktok(2,k*N+j))));
        if (acc != pool.v[out[i*N+j].h]) { ok=false; badcell=i*N+j; break; }
    }
    using V = Fastor::choose_best_simd_t<Fastor::SIMDVector<T,Fastor::simd_abi::native>, N==1?K:N>;
    std::printf("matmul cfg=%s sz=%d M=%zu K=%zu N=%zu", CFGNAME,(int)sizeof(T),M,K,N);
#ifdef FASTOR_MATMUL_OUTER_BLOCK_SIZE
    std::printf(" ob=%d", (int)FASTOR_MATMUL_OUTER_BLOCK_SIZE);
#endif
#ifdef FASTOR_MATMUL_INNER_BLOCK_SIZE
    std::printf(" ib=%d", (int)FASTOR_MATMUL_INNER_BLOCK_SIZE);
#endif
    std::printf(" | V=%d VAL=%s WSEQ=%s NW=%ld RDA=%s RDB=%s OOB=%ld ALN=%ld ORACLE=%s",
        (int)V::Size,hex16(val_digest(out,M*N)).c_str(),hex16(s.wseq).c_str(),s.nw,
        hex16(set_digest(s.reads[1])).c_str(),hex16(set_digest(s.reads[2])).c_str(),s.oob,s.aligned, ok?"ok":"FAIL");
    if (!ok) std::printf(" badcell=%ld got=%s", badcell, pstr(pool.v[out[badcell].h]).substr(0,300).c_str());
    if (g_verbose) std::printf(" W=[%s]", s.wlist.c_str());
    std::printf("\n");
}

template<typename Tag> struct tagc;
template<> struct tagc<Fastor::UpLoType::General> { static constexpr char c = 'g'; static bool in(size_t, size_t) { return true; } };
template<> struct tagc<Fastor::UpLoType::Lower> { static constexpr char c = 'l'; static bool in(size_t r, size_t c_) { return c_ <= r; } };
template<> struct tagc<Fastor::UpLoType::Upper> { static constexpr char c = 'u'; static bool in(size_t r, size_t c_) { return r <= c_; } };

template<typename T, size_t M, size_t K, size_t N, typename Lt, typename Rt>
void run_tmatmul() {
    arena.reset(); pool.reset();
    T* out = sym_alloc<T>(0, M*N);
    T* a = sym_alloc<T>(1, M*K);
    T* b = sym_alloc<T>(2, K*N);
    for (size_t i=0;i<M;++i) for (size_t k=0;k<K;++k) if (!tagc<Lt>::in(i,k)) a[i*K+k].h = 0;
    for (size_t k=0;k<K;++k) for (size_t j=0;j<N;++j) if (!tagc<Rt>::in(k,j)) b[k*N+j].h = 0;
    trace.clear(); trace.on = true;
    Fastor::_tmatmul<T,M,K,N,Lt,Rt>(a,b,out);
    trace.on = false;
    auto s = summarise(0, g_verbose);
    bool ok = true; long badcell = -1;
    for (size_t i=0;i<M && ok;++i) for (size_t j=0;j<N;++j) {
        Poly acc;
        for (size_t k=0;k<K;++k) acc = padd(acc, pmul(pool.v[a[i*K+k].h], pool.v[b[k*N+j].h]));
        if (acc != pool.v[out[i*N+j].h]) { ok=false; badcell=i*N+j; break; }
    }
    using V = Fastor::choose_best_simd_t<Fastor::SIMDVector<T,Fastor::simd_abi::native>, N>;
    std::printf("tmatmul cfg=%s sz=%d lt=%c rt=%c M=%zu K=%zu N=%zu", CFGNAME,(int)sizeof(T),tagc<Lt>::c,tagc<Rt>::c,M,K,N);
#ifdef FASTOR_MATMUL_OUTER_BLOCK_SIZE
    std::printf(" ob=%d", (int)FASTOR_MATMUL_OUTER_BLOCK_SIZE);
#endif
#ifdef FASTOR_MATMUL_INNER_BLOCK_SIZE
    std::printf(" ib=%d", (int)FASTOR_MATMUL_INNER_BLOCK_SIZE);
#endif
    std::printf(" | V=%d VAL=%s WSEQ=%s NW=%ld RDA=%s RDB=%s OOB=%ld ALN=%ld ORACLE=%s",
        (int)V::Size,hex16(val_digest(out,M*N)).c_str(),hex16(s.wseq).c_str(),s.nw,
        hex16(set_digest(s.reads[1])).c_str(),hex16(set_digest(s.reads[2])).c_str(),s.oob,s.aligned, ok?"ok":"FAIL");
    if (!ok) std::printf(" badcell=%ld got=%s", badcell, pstr(pool.v[out[badcell].h]).substr(0,300).c_str());
    if (g_verbose) std::printf(" W=[%s]", s.wlist.c_str());
    std::printf("\n");
}
