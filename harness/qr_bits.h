// K4 bit-exact runs for C13: the real `qr` over double/float, compiled with -ffp-contract=off, on arbitrary
// matrices (prescribed condition number, same generator as qr_real.h).  The case line carries the IEEE bit
// patterns of A; Q, R (bit patterns) and P are compared with the Lean model executed over `Float`/`Float32`
// (Driver/QR.lean, command `qrf`): same operations in the same order => identical bits.  This ties the
// operation ORDER of the dispatcher (e.g. modified vs classical Gram-Schmidt, k-outer/j-inner accumulation,
// the local R_ii) on inputs where the exact-rational family cannot see it.
#include "qr_real.h"
#include <cstring>
#include <cstdint>
namespace qrb {
template<typename T> struct bits;
template<> struct bits<double> { typedef uint64_t U; static const char* fmt() { return "%016llx"; } };
template<> struct bits<float> { typedef uint32_t U; static const char* fmt() { return "%08llx"; } };
template<typename T> static inline std::string hex(const T* p, size_t cnt) {
    std::string s; char buf[32];
    for (size_t i = 0; i < cnt; ++i) { typename bits<T>::U u; std::memcpy(&u, p + i, sizeof u); std::snprintf(buf, sizeof buf, bits<T>::fmt(), (unsigned long long)u); if (i) s += ","; s += buf; }
    return s;
}
}
template<typename T, size_t n, int S>
void run_qrbits(unsigned seed, int lc10) {
    using namespace qrr;
    Rng g(seed * 7919ull + n * 31 + S);
    const ld cond = std::pow(10.0L, lc10 / 10.0L);
    std::vector<ld> U = randorth(n, g), V = randorth(n, g);
    Tensor<T,n,n> A;
    for (size_t i = 0; i < n; ++i) for (size_t j = 0; j < n; ++j) {
        ld s = 0;
        for (size_t k = 0; k < n; ++k) { ld sig = n == 1 ? 1.0L : std::pow(cond, -(ld)k / (ld)(n - 1)); s += U[i * n + k] * sig * V[j * n + k]; }
        A(i, j) = (T)s;
    }
    Tensor<T,n,n> Q, R, PM; Tensor<size_t,n> PV;
    for (size_t i = 0; i < n * n; ++i) { Q.data()[i] = T(77); R.data()[i] = T(77); PM.data()[i] = T(77); }
    for (size_t i = 0; i < n; ++i) PV.data()[i] = 77;
    const bool piv = is_piv(S), pmat = is_pmat(S);
    call_qr<T, n, S>::go(A, Q, R, PV, PM);
    std::string ps; bool pok = true;
    for (size_t i = 0; i < n; ++i) {
        size_t p = i;
        if (piv && !pmat) p = PV(i);
        if (pmat) { size_t c1 = 0; for (size_t j = 0; j < n; ++j) { if (PM(i, j) == T(1)) { ++c1; p = j; } else if (PM(i, j) != T(0)) pok = false; } if (c1 != 1) pok = false; }
        if (i) ps += ","; ps += std::to_string(p);
    }
    std::printf("qrf cfg=%s T=%s n=%zu strat=%s lc=%d seed=%u A=%s | Q=%s R=%s P=%s ORACLE=%s\n", CFGNAME, tn<T>::n(), n, SNAME[S], lc10, seed,
                qrb::hex(A.data(), n * n).c_str(), qrb::hex(Q.data(), n * n).c_str(), qrb::hex(R.data(), n * n).c_str(), ps.c_str(), pok ? "ok" : "FAIL:P-not-a-0/1-permutation-matrix");
}
