// C11 (K3): the REAL lu<LUCompType::…> / pivot / apply_pivot / reconstruct templates over the exact rational carrier.
// One line per case:   lu n= strat= enc= fam= seed= A=<entries> | L= U= P= R= ORACLE= OOB=0 HMAX=
// Everything before `|` is fed to the Lean model (fmodel `lu`), which prints L, U, P, R of the model for the same matrix;
// ORACLE is an independent in-harness check of the property itself (structure incl. exact zeros, permutation,
// L*U == P*A, reconstruct == A) written with plain loops over vf::Rat.
#ifndef VF_LU_RAT_H
#define VF_LU_RAT_H
#include "rat.h"
#include <Fastor/Fastor.h>
#include "rat_fastor.h"
#include <vector>
#include <string>
#include <cstdio>
#include <csignal>
#include <csetjmp>

static bool g_verbose = false;

// vf::Rat aborts on a division by zero or an overflow.  When that happens inside the library the case is reported as a
// failing input (ORACLE=FAIL:arithmetic-trap) and the run continues with the next case.
static sigjmp_buf g_trap_jb; static volatile int g_trap_armed = 0;
static void vf_trap_handler(int) { if (g_trap_armed) { g_trap_armed = 0; siglongjmp(g_trap_jb, 1); } std::_Exit(134); }
static void vf_arm_trap() { static bool inst = false; if (!inst) { std::signal(SIGABRT, vf_trap_handler); inst = true; } g_trap_armed = 1; }
#define VF_TRAP_GUARD(HEAD, INPUTS) \
    vf_arm_trap(); \
    if (sigsetjmp(g_trap_jb, 1)) { std::printf("%s %s | ORACLE=FAIL:arithmetic-trap(division-by-zero-or-overflow-inside-the-library) OOB=0\n", HEAD, INPUTS); return; }

namespace vlu {
using vf::Rat; using vf::i128;

// ---------------------------------------------------------------------------------------------------------------
// screening arithmetic: small exact rationals with an explicit "too large / division by zero" flag (never aborts)
struct SQ { long long n, d; };
static bool sq_bad = false;
static const long long SQ_LIM = 1LL << 40;
static inline SQ sq_make(i128 n, i128 d) {
    if (d == 0) { sq_bad = true; return SQ{0, 1}; }
    if (d < 0) { n = -n; d = -d; }
    i128 g = vf::igcd(n, d); if (g > 1) { n /= g; d /= g; }
    if (vf::iabs(n) >= SQ_LIM || d >= SQ_LIM) { sq_bad = true; return SQ{0, 1}; }
    return SQ{(long long)n, (long long)d};
}
static inline SQ sq_int(long long v) { return SQ{v, 1}; }
static inline SQ operator+(SQ a, SQ b) { return sq_make((i128)a.n * b.d + (i128)b.n * a.d, (i128)a.d * b.d); }
static inline SQ operator-(SQ a, SQ b) { return sq_make((i128)a.n * b.d - (i128)b.n * a.d, (i128)a.d * b.d); }
static inline SQ operator*(SQ a, SQ b) { return sq_make((i128)a.n * b.n, (i128)a.d * b.d); }
static inline SQ operator/(SQ a, SQ b) { return sq_make((i128)a.n * b.d, (i128)a.d * b.n); }
static inline bool sq_absgt(SQ a, SQ b) { // |a| > |b|
    i128 x = (i128)(a.n < 0 ? -a.n : a.n) * b.d, y = (i128)(b.n < 0 ? -b.n : b.n) * a.d; return x > y; }

struct Rng { uint64_t s; explicit Rng(uint64_t seed) : s(seed * 0x9E3779B97F4A7C15ULL + 0x1234567ULL) { next(); next(); }
    uint64_t next() { s ^= s << 13; s ^= s >> 7; s ^= s << 17; return s; }
    int upto(int m) { return (int)((next() >> 11) % (uint64_t)m); }             // 0..m-1
    int sgn() { return upto(2) ? 1 : -1; }
    bool chance(int num, int den) { return upto(den) < num; } };

typedef std::vector<SQ> SMat;

// the library's static pivot, re-implemented for the screening (first strict column maximum among rows >= j of the ORIGINAL matrix)
static std::vector<size_t> ref_perm(const SMat& A, size_t n) {
    std::vector<size_t> p(n); for (size_t i = 0; i < n; ++i) p[i] = i;
    for (size_t j = 0; j < n; ++j) {
        size_t mx = j;
        for (size_t i = j; i < n; ++i) if (sq_absgt(A[i * n + j], A[mx * n + j])) mx = i;
        if (mx != j) std::swap(p[j], p[mx]);
    }
    return p;
}
// does PA (or A) have an LU factorisation with non-zero pivots and small entries?  (plain Doolittle over SQ)
static bool screen_ok(const SMat& A, size_t n, bool pivoted) {
    sq_bad = false;
    SMat B(A);
    if (pivoted) { std::vector<size_t> p = ref_perm(A, n); for (size_t i = 0; i < n; ++i) for (size_t j = 0; j < n; ++j) B[i * n + j] = A[p[i] * n + j]; }
    // right-looking elimination in place
    for (size_t k = 0; k < n && !sq_bad; ++k) {
        if (B[k * n + k].n == 0) return false;
        for (size_t i = k + 1; i < n; ++i) {
            SQ l = B[i * n + k] / B[k * n + k]; B[i * n + k] = l;
            if (l.n == 0) continue;
            for (size_t j = k + 1; j < n; ++j) B[i * n + j] = B[i * n + j] - l * B[k * n + j];
        }
    }
    return !sq_bad;
}

// family 0: strictly row-diagonally-dominant small integers (n <= 10); pivoted cases: rows shuffled
static SMat gen_dd(Rng& r, size_t n, bool pivoted) {
    SMat B(n * n);
    for (size_t i = 0; i < n; ++i) {
        long long s = 0;
        for (size_t j = 0; j < n; ++j) if (i != j) { long long v = r.chance(2, 3) ? r.sgn() * (1 + r.upto(2)) : 0; B[i * n + j] = sq_int(v); s += v < 0 ? -v : v; }
        B[i * n + i] = sq_int(r.sgn() * (s + 1 + r.upto(3)));
    }
    if (!pivoted) return B;
    std::vector<size_t> sg(n); for (size_t i = 0; i < n; ++i) sg[i] = i;
    for (size_t i = n; i > 1; --i) std::swap(sg[i - 1], sg[r.upto((int)i)]);
    SMat A(n * n); for (size_t i = 0; i < n; ++i) for (size_t j = 0; j < n; ++j) A[sg[i] * n + j] = B[i * n + j];
    return A;
}
// family 1: A = S (I+M)(D+N): M strictly lower with entries ±1/4, ±1/2, D = ±64/±128, N strictly upper with entries ±4, ±8,
// both restricted to index classes (i mod 3) so that every chain of non-zeros has length <= 2 (all inverses and Schur
// complements stay small); S swaps disjoint row pairs (pivoted cases).  All entries of A are integers.
static SMat gen_slu(Rng& r, size_t n, bool pivoted) {
    std::vector<SQ> M(n * n, sq_int(0)), U(n * n, sq_int(0)), L(n * n, sq_int(0));
    int den = (int)(n < 8 ? 8 : n);
    std::vector<size_t> sg(n); for (size_t i = 0; i < n; ++i) sg[i] = i;
    if (pivoted) { // disjoint 2-cycles (a b) and 3-cycles a->b->c->a of row positions, a < b < c (sg[i] = position of row i of (I+M)(D+N) in A)
        std::vector<bool> used(n, false);
        size_t want = 1 + n / 4;
        for (size_t t = 0; t < want * 4 && want > 0; ++t) {
            bool three = n >= 3 && r.upto(2);
            size_t a = r.upto((int)n), b = r.upto((int)n), c = r.upto((int)n);
            if (a > b) std::swap(a, b);
            if (three) { if (b > c) std::swap(b, c); if (a > b) std::swap(a, b); }
            if (a == b || used[a] || used[b]) continue;
            if (three && (b == c || used[c])) continue;
            if (!three) { used[a] = used[b] = true; sg[a] = b; sg[b] = a; }
            else { used[a] = used[b] = used[c] = true; sg[a] = b; sg[b] = c; sg[c] = a; }
            --want;
        }
    }
    for (size_t i = 0; i < n; ++i) { L[i * n + i] = sq_int(1); U[i * n + i] = sq_int(r.sgn() * (r.upto(2) ? 64 : 128)); }
    for (size_t i = 0; i < n; ++i) for (size_t j = 0; j < i; ++j)
        if (i % 3 > j % 3 && r.chance(9, den)) L[i * n + j] = SQ{(long long)r.sgn(), r.upto(2) ? 2 : 4};
    for (size_t i = 0; i < n; ++i) for (size_t j = i + 1; j < n; ++j)
        if (i % 3 < j % 3 && r.chance(9, den)) U[i * n + j] = sq_int(r.sgn() * (r.upto(2) ? 4 : 8));
    // boost U(j, m) for swapped pairs so that the static pivot keeps row m in place at column m
    for (size_t j = 0; j < n; ++j) if (sg[j] > j) { size_t m = sg[j]; long long d = U[m * n + m].n; if (d < 0) d = -d; U[j * n + m] = sq_int(r.sgn() * (d / 2 + 16)); }
    SMat A(n * n);
    for (size_t i = 0; i < n; ++i) for (size_t j = 0; j < n; ++j) {
        SQ s = sq_int(0);
        for (size_t k = 0; k <= (i < j ? i : j); ++k) if (L[i * n + k].n != 0 && U[k * n + j].n != 0) s = s + L[i * n + k] * U[k * n + j];
        A[sg[i] * n + j] = s;
    }
    return A;
}
// seeded, screened input: the first candidate (of a deterministic sequence) on which the strategy is defined with small entries
static bool gen_input(unsigned seed, int fam, size_t n, bool pivoted, SMat& A, int& tries) {
    Rng r((uint64_t)seed * 1000003ULL + fam * 7919ULL + n * 104729ULL + (pivoted ? 17 : 0));
    for (tries = 1; tries <= 200; ++tries) {
        A = fam == 0 ? gen_dd(r, n, pivoted) : gen_slu(r, n, pivoted);
        sq_bad = false;
        if (screen_ok(A, n, pivoted)) return true;
    }
    return false;
}

// independent exact determinant of an integer matrix: fraction-free (Bareiss) elimination with row exchanges, __int128
static bool bareiss_det(const SMat& A, size_t n, i128& det) {
    std::vector<i128> M(n * n); for (size_t i = 0; i < n * n; ++i) { if (A[i].d != 1) return false; M[i] = A[i].n; }
    i128 prev = 1; int sign = 1;
    for (size_t k = 0; k + 1 < n; ++k) {
        if (M[k * n + k] == 0) { size_t s = k + 1; while (s < n && M[s * n + k] == 0) ++s; if (s == n) { det = 0; return true; }
            for (size_t j = 0; j < n; ++j) std::swap(M[k * n + j], M[s * n + j]); sign = -sign; }
        for (size_t i = k + 1; i < n; ++i) for (size_t j = k + 1; j < n; ++j) {
            i128 a = M[i * n + j], b = M[k * n + k], c = M[i * n + k], d = M[k * n + j];
            const i128 LIM = (i128)1 << 60; if (vf::iabs(a) > LIM || vf::iabs(b) > LIM || vf::iabs(c) > LIM || vf::iabs(d) > LIM) return false;
            M[i * n + j] = (a * b - c * d) / prev; }
        prev = M[k * n + k];
    }
    det = sign * M[n * n - 1]; return true;
}
static std::string rstr(const Rat& x) { return x.str(); }
template<size_t n> static std::string mstr(const Fastor::Tensor<Rat, n, n>& X) {
    std::string s; s.reserve(n * n * 4);
    for (size_t i = 0; i < n; ++i) for (size_t j = 0; j < n; ++j) { if (i || j) s += ','; s += rstr(X(i, j)); }
    return s;
}
static bool isz(const Rat& x) { return x.num() == 0; }
static bool is1(const Rat& x) { return x.num() == 1 && x.den() == 1; }

static const char* STRAT_NAME[] = {"block", "simple", "blockpiv", "simplepiv"};
static const char* ENC_NAME[] = {"n", "v", "m"};

template<int STRAT, size_t n> struct Call {
    typedef Fastor::Tensor<Rat, n, n> T2;
    // AT: a tensor (the is_tensor_v overloads) or an unevaluated expression (the !is_tensor_v overloads: evaluate, then
    // pivot_inplace + apply_pivot_inplace on the temporary)
    template<class AT> static void nopiv(const AT& A, T2& L, T2& U) {
        if (STRAT == 0) Fastor::lu<Fastor::LUCompType::BlockLU>(A, L, U); else Fastor::lu<Fastor::LUCompType::SimpleLU>(A, L, U);
    }
    template<class AT, class PT> static void piv(const AT& A, T2& L, T2& U, PT& P) {
        if (STRAT == 2) Fastor::lu<Fastor::LUCompType::BlockLUPiv>(A, L, U, P); else Fastor::lu<Fastor::LUCompType::SimpleLUPiv>(A, L, U, P);
    }
};

// STRAT 0 block 1 simple 2 blockpiv 3 simplepiv ; ENC 0 (no permutation) 1 vector 2 matrix ; FORM 0 tensor argument, 1 expression argument
template<size_t n, int STRAT, int ENC, int FORM = 0> void run_lu(unsigned seed, int fam) {
    using namespace Fastor;
    static_assert((STRAT < 2) == (ENC == 0), "pivoted strategies return a permutation");
    vf::ratpool.reset();
    SMat SA; int tries = 0;
    char head[256];
    std::snprintf(head, sizeof head, "lu n=%zu strat=%s enc=%s form=%d det=%d fam=%d seed=%u", n, STRAT_NAME[STRAT], ENC_NAME[ENC], FORM, (STRAT == 2 && ENC == 1 && FORM == 0 && (n <= 8 || (n <= 10 && fam == 0))) ? 1 : 0, fam, seed);
    if (!gen_input(seed, fam, n, STRAT >= 2, SA, tries)) { std::printf("note: %s no admissible input found\n", head); return; }
    Tensor<Rat, n, n> A;
    for (size_t i = 0; i < n * n; ++i) A.data()[i] = Rat::make(SA[i].n, SA[i].d);
    const Tensor<Rat, n, n> A0(A);
    const std::string astr = "A=" + mstr(A0);
    VF_TRAP_GUARD(head, astr.c_str())
    // the outputs hold junk before the call: every entry the property speaks about must be written by the library
    Tensor<Rat, n, n> L, U, Pm; L.fill(Rat(7)); U.fill(Rat(-5)); Pm.fill(Rat(3));
    Tensor<size_t, n> Pv; Pv.fill(999);
    Tensor<Rat, n, n> R, Z; Z.fill(Rat(0));
    // determinant<DetCompType::LU> (count_swaps parity * product of the pivots of BlockLUPiv): once per (n, seed, family), small n (the product of the pivots must stay below 2^62)
    const bool withdet = (STRAT == 2 && ENC == 1 && FORM == 0 && (n <= 8 || (n <= 10 && fam == 0)));
    std::string dstr = "-", dwhy;
    if (withdet) { Rat d = determinant<DetCompType::LU>(A); dstr = rstr(d); i128 ex;
        if (bareiss_det(SA, n, ex) && !(d.den() == 1 && d.num() == ex)) dwhy = "determinant<LU>=" + dstr + "vs" + vf::i128str(ex); }
    if (FORM == 0) {
        if (ENC == 0) { Call<STRAT, n>::nopiv(A, L, U); R = reconstruct(L, U); }
        else if (ENC == 1) { Call<STRAT, n>::piv(A, L, U, Pv); R = reconstruct(L, U, Pv); }
        else { Call<STRAT, n>::piv(A, L, U, Pm); R = reconstruct(L, U, Pm); }
    } else {
        if (ENC == 0) { Call<STRAT, n>::nopiv(A + Z, L, U); R = reconstruct(L, U); }
        else if (ENC == 1) { Call<STRAT, n>::piv(A + Z, L, U, Pv); R = reconstruct(L, U, Pv); }
        else { Call<STRAT, n>::piv(A + Z, L, U, Pm); R = reconstruct(L, U, Pm); }
    }
    // ---- oracle
    std::string why;
    for (size_t i = 0; i < n * n && why.empty(); ++i) if (!(A.data()[i] == A0.data()[i])) why = "input-modified";
    for (size_t i = 0; i < n && why.empty(); ++i) for (size_t j = 0; j < n; ++j) {
        if (i == j && !is1(L(i, j))) { why = "L-diag(" + std::to_string(i) + ")=" + rstr(L(i, j)); break; }
        if (j > i && !isz(L(i, j))) { why = "L-upper(" + std::to_string(i) + "," + std::to_string(j) + ")=" + rstr(L(i, j)); break; }
        if (i > j && !isz(U(i, j))) { why = "U-lower(" + std::to_string(i) + "," + std::to_string(j) + ")=" + rstr(U(i, j)); break; }
    }
    std::vector<size_t> perm(n);
    for (size_t i = 0; i < n; ++i) perm[i] = i;
    if (ENC == 1) { for (size_t i = 0; i < n; ++i) perm[i] = Pv(i); }
    if (ENC == 2 && why.empty()) {
        for (size_t i = 0; i < n && why.empty(); ++i) {
            size_t ones = 0, at = 0;
            for (size_t j = 0; j < n; ++j) { if (is1(Pm(i, j))) { ++ones; at = j; } else if (!isz(Pm(i, j))) why = "P-entry(" + std::to_string(i) + "," + std::to_string(j) + ")=" + rstr(Pm(i, j)); }
            if (why.empty() && ones != 1) why = "P-row(" + std::to_string(i) + ")-has-" + std::to_string(ones) + "-ones";
            perm[i] = at;
        }
    }
    if (why.empty()) { // bijection
        std::vector<int> seen(n, 0);
        for (size_t i = 0; i < n; ++i) { if (perm[i] >= n) { why = "P(" + std::to_string(i) + ")=" + std::to_string(perm[i]) + "-out-of-range"; break; } seen[perm[i]]++; }
        for (size_t i = 0; i < n && why.empty(); ++i) if (seen[i] != 1) why = "P-not-a-bijection:value-" + std::to_string(i) + "-occurs-" + std::to_string(seen[i]) + "-times";
    }
    if (why.empty()) { // L*U == P*A, plain loops
        for (size_t i = 0; i < n && why.empty(); ++i) for (size_t j = 0; j < n; ++j) {
            Rat s(0); for (size_t k = 0; k < n; ++k) s = s + L(i, k) * U(k, j);
            if (!(s == A0(perm[i], j))) { why = "LU!=PA(" + std::to_string(i) + "," + std::to_string(j) + "):" + rstr(s) + "vs" + rstr(A0(perm[i], j)); break; }
        }
    }
    if (why.empty()) for (size_t i = 0; i < n * n; ++i) if (!(R.data()[i] == A0.data()[i])) { why = "reconstruct(" + std::to_string(i / n) + "," + std::to_string(i % n) + ")=" + rstr(R.data()[i]) + "vs" + rstr(A0.data()[i]); break; }
    if (why.empty() && !dwhy.empty()) why = dwhy;
    size_t maxcyc = 1; { std::vector<bool> seen(n, false); for (size_t i = 0; i < n; ++i) if (!seen[i] && perm[i] < n) { size_t len = 0, k = i; while (k < n && !seen[k]) { seen[k] = true; k = perm[k]; ++len; } if (len > maxcyc) maxcyc = len; } }
    // heights: every rational ever created during this case is in the pool
    i128 hmax = 0; for (const vf::RatV& v : vf::ratpool.v) { if (vf::iabs(v.n) > hmax) hmax = vf::iabs(v.n); if (v.d > hmax) hmax = v.d; }
    int bits = 0; while (hmax > 0) { ++bits; hmax >>= 1; }
    g_trap_armed = 0;
    if (bits > 62) { std::printf("note: %s arithmetic height %d bits: case not judged\n", head, bits); return; }
    std::string pstr = "-";
    if (ENC == 1) { pstr.clear(); for (size_t i = 0; i < n; ++i) { if (i) pstr += ','; pstr += std::to_string(Pv(i)); } }
    if (ENC == 2) pstr = mstr(Pm);
    std::printf("%s %s | L=%s U=%s P=%s R=%s D=%s ORACLE=%s OOB=0 HBITS=%d TRIES=%d CYC=%zu\n", head, astr.c_str(),
                mstr(L).c_str(), mstr(U).c_str(), pstr.c_str(), mstr(R).c_str(), dstr.c_str(), why.empty() ? "ok" : ("FAIL:" + why).c_str(), bits, tries, maxcyc);
}
} // namespace vlu
using vlu::run_lu;
#endif
