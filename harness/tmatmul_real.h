// K4 value runs for the triangular product: tmatmul<Lhs,Rhs>(A,B) on operands with literal zeros
// outside the tagged triangle vs the naive full product; result pre-filled with a sentinel so that
// unwritten (structurally zero) cells are detected.
#include <Fastor/Fastor.h>
#include <cstdio>
#include <cstdint>
using namespace Fastor;
#ifndef CFGNAME
#define CFGNAME "sse2"
#endif
template<typename T> struct tn;
template<> struct tn<float> { static const char* n() { return "float"; } };
template<> struct tn<double> { static const char* n() { return "double"; } };
template<> struct tn<int32_t> { static const char* n() { return "int32"; } };
template<> struct tn<int64_t> { static const char* n() { return "int64"; } };
template<typename Tag> struct tagc;
template<> struct tagc<UpLoType::General> { static constexpr char c = 'g'; static bool in(size_t, size_t) { return true; } };
template<> struct tagc<UpLoType::Lower> { static constexpr char c = 'l'; static bool in(size_t r, size_t c_) { return c_ <= r; } };
template<> struct tagc<UpLoType::Upper> { static constexpr char c = 'u'; static bool in(size_t r, size_t c_) { return r <= c_; } };
static inline int small(unsigned x) { x = x * 2654435761u + 12345u; int v = (int)((x >> 16) % 9) - 4; return v == 0 ? 1 : v; }

template<typename T, size_t M, size_t K, size_t N, typename Lt, typename Rt>
void run_treal(unsigned seed) {
    Tensor<T,M,K> A; Tensor<T,K,N> B;
    for (size_t i=0;i<M;++i) for (size_t k=0;k<K;++k) A(i,k) = tagc<Lt>::in(i,k) ? T(small(seed+3*(i*K+k))) : T(0);
    for (size_t k=0;k<K;++k) for (size_t j=0;j<N;++j) B(k,j) = tagc<Rt>::in(k,j) ? T(small(seed+5*(k*N+j)+2)) : T(0);
    T ref[M*N];
    for (size_t i=0;i<M;++i) for (size_t j=0;j<N;++j) { T s = T(0); for (size_t k=0;k<K;++k) s += A(i,k)*B(k,j); ref[i*N+j]=s; }
    constexpr size_t PAD = 64;
    static T raw[M*N+2*PAD];
    const T sent = T(-77);
    for (size_t i=0;i<M*N+2*PAD;++i) raw[i] = sent;
    _tmatmul<T,M,K,N,Lt,Rt>(A.data(),B.data(),raw+PAD);
    Tensor<T,M,N> C = tmatmul<Lt,Rt>(A,B);
    long bad_raw=-1, bad_pad=-1, bad_api=-1;
    for (size_t i=0;i<M*N;++i) { if (bad_raw<0 && !(raw[PAD+i]==ref[i])) bad_raw=i; if (bad_api<0 && !(C.data()[i]==ref[i])) bad_api=i; }
    for (size_t i=0;i<PAD;++i) if (!(raw[i]==sent) || !(raw[PAD+M*N+i]==sent)) { bad_pad=i; break; }
    bool ok = bad_raw<0 && bad_pad<0 && bad_api<0;
    std::printf("tmatmulreal cfg=%s T=%s lt=%c rt=%c M=%zu K=%zu N=%zu | %s", CFGNAME, tn<T>::n(), tagc<Lt>::c, tagc<Rt>::c, M,K,N, ok?"ok":"FAIL");
    if (!ok) std::printf(" raw=%ld api=%ld pad=%ld", bad_raw,bad_api,bad_pad);
    std::printf("\n");
}
