// depth of the summation tree fixed by the reduction machine of Model/Reduce.lean (`Fastor.Reduce.depth`):
// #vector steps + U + V + #tail steps + 1, with the accumulator count U of the overload the library dispatches to.
// The symbolic harness prints it as DEPTH for every case and the Lean driver must agree; the floating-point error
// measurements (fbound) use it in the bound ((1+u)^DEPTH - 1) * sum|x_i| of theorem Fastor.C16.sum_error_bound.
#ifndef VF_REDUCE_DEPTH_H
#define VF_REDUCE_DEPTH_H
#include <cstddef>
namespace vfdepth {
enum Kind { SUM, NORM_TENSOR, NORM_EXPR, INNER };
static inline size_t accumulators(Kind k, size_t n, size_t V, bool avx512) {
    switch (k) {
    case SUM: return 1;
    case NORM_TENSOR: return n <= (avx512 ? 8 : 4) * V ? 1 : (avx512 ? 8 : 4);
    case NORM_EXPR: return avx512 ? 8 : 4;
    default: return n <= 4 * V ? 1 : 4;
    }
}
static inline size_t depth(Kind k, size_t n, size_t V, bool avx512) { return n / V + accumulators(k, n, V, avx512) + V + n % V + 1; }
}
#endif
