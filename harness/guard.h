// K7 (C07): operands flush against PROT_NONE guard pages at every misalignment, fault catching,
// canary halos, read-only-input check, placement independence of the result, allocation counter.
//
//   layout of one region:   [ PROT_NONE page ][ RW bytes ............ ][ PROT_NONE page ]
//   position 'H' (head) : operand starts at lo + m            (exactly flush against the low guard at m = 0)
//   position 'T' (tail) : operand starts at the largest address <= hi - nbytes that is == m (mod 64)
//                         (exactly flush against the high guard at m = (-nbytes) mod 64, which is one of the
//                          misalignments tried because nbytes is a multiple of alignof(T))
//   every byte of the RW area within HALO bytes of the operand holds a canary pattern (depends on `salt`);
//   the output operand is pre-filled with a salt-dependent pattern too, so that an element the operation
//   does not write, or a value computed from bytes outside the operands, shows up as a result that
//   depends on the placement.
//
// Nothing here is a proof: these are runtime observations (faults, stray writes, allocations).
#ifndef VG_GUARD_H
#define VG_GUARD_H
#include <sys/mman.h>
#include <signal.h>
#include <setjmp.h>
#include <unistd.h>
#include <cstdio>
#include <cstdlib>
#include <cstring>
#include <cstdint>
#include <complex>
#include <new>
#include <exception>
#include <type_traits>

#if defined(__SANITIZE_ADDRESS__)
#define VG_ASAN 1
#endif

namespace vg {
static volatile long g_mallocs = 0, g_news = 0;
static volatile int g_count = 0;
}

#ifndef VG_ASAN
// allocation counter: malloc family (glibc exports the __libc_ entry points) and operator new
extern "C" {
void* __libc_malloc(size_t); void __libc_free(void*); void* __libc_calloc(size_t, size_t);
void* __libc_realloc(void*, size_t); void* __libc_memalign(size_t, size_t);
void* malloc(size_t n) { if (vg::g_count) ++vg::g_mallocs; return __libc_malloc(n); }
void  free(void* p) { __libc_free(p); }
void* calloc(size_t a, size_t b) { if (vg::g_count) ++vg::g_mallocs; return __libc_calloc(a, b); }
void* realloc(void* p, size_t n) { if (vg::g_count) ++vg::g_mallocs; return __libc_realloc(p, n); }
void* memalign(size_t a, size_t n) { if (vg::g_count) ++vg::g_mallocs; return __libc_memalign(a, n); }
void* aligned_alloc(size_t a, size_t n) { if (vg::g_count) ++vg::g_mallocs; return __libc_memalign(a, n); }
int posix_memalign(void** out, size_t a, size_t n) { if (vg::g_count) ++vg::g_mallocs; *out = __libc_memalign(a, n); return *out ? 0 : 12; }
}
void* operator new(size_t n) { if (vg::g_count) ++vg::g_news; void* p = __libc_malloc(n ? n : 1); if (!p) throw std::bad_alloc(); return p; }
void* operator new[](size_t n) { if (vg::g_count) ++vg::g_news; void* p = __libc_malloc(n ? n : 1); if (!p) throw std::bad_alloc(); return p; }
#if __cplusplus >= 201703L
void* operator new(size_t n, std::align_val_t a) { if (vg::g_count) ++vg::g_news; void* p = __libc_memalign((size_t)a, n ? n : 1); if (!p) throw std::bad_alloc(); return p; }
void* operator new[](size_t n, std::align_val_t a) { if (vg::g_count) ++vg::g_news; void* p = __libc_memalign((size_t)a, n ? n : 1); if (!p) throw std::bad_alloc(); return p; }
#endif
void operator delete(void* p) noexcept { __libc_free(p); }
void operator delete[](void* p) noexcept { __libc_free(p); }
void operator delete(void* p, size_t) noexcept { __libc_free(p); }
void operator delete[](void* p, size_t) noexcept { __libc_free(p); }
#if __cplusplus >= 201703L
void operator delete(void* p, std::align_val_t) noexcept { __libc_free(p); }
void operator delete[](void* p, std::align_val_t) noexcept { __libc_free(p); }
void operator delete(void* p, size_t, std::align_val_t) noexcept { __libc_free(p); }
void operator delete[](void* p, size_t, std::align_val_t) noexcept { __libc_free(p); }
#endif
#endif

#ifndef VG_LIBALIGN
#ifdef FASTOR_MEMORY_ALIGNMENT_VALUE
#define VG_LIBALIGN FASTOR_MEMORY_ALIGNMENT_VALUE
#else
#define VG_LIBALIGN 64
#endif
#endif
namespace vg {

static const size_t PAGE = 4096;
static const size_t RWBYTES = 1u << 16;
static const size_t HALO = 192;

// ------------------------------------------------------------------------------------------------
// fault catcher
static sigjmp_buf g_env;
static volatile sig_atomic_t g_armed = 0;
static void* volatile g_fault_addr = nullptr;
static volatile int g_fault_sig = 0;

static void on_fault(int sig, siginfo_t* si, void*) {
    if (!g_armed) { signal(sig, SIG_DFL); raise(sig); return; }
    g_fault_addr = si ? si->si_addr : nullptr; g_fault_sig = sig; g_armed = 0; g_count = 0;
    siglongjmp(g_env, 1);
}
static void install_handlers() {
    static bool done = false; if (done) return; done = true;
    static char altstack[1 << 16];
    stack_t ss; ss.ss_sp = altstack; ss.ss_size = sizeof altstack; ss.ss_flags = 0; sigaltstack(&ss, nullptr);
    struct sigaction sa; std::memset(&sa, 0, sizeof sa);
    sa.sa_sigaction = on_fault; sa.sa_flags = SA_SIGINFO | SA_ONSTACK | SA_NODEFER; sigemptyset(&sa.sa_mask);
    sigaction(SIGSEGV, &sa, nullptr); sigaction(SIGBUS, &sa, nullptr);
}
// 0 = completed, 1 = fault (g_fault_addr / g_fault_sig), 2 = C++ exception (g_what)
static char g_what[160];
template<class F> static inline int protect(F&& f) {
    install_handlers();
    g_armed = 1;
    if (sigsetjmp(g_env, 1) == 0) {
        try { asm volatile("" ::: "memory"); f(); asm volatile("" ::: "memory"); }
        catch (const std::exception& e) { g_armed = 0; g_count = 0; std::snprintf(g_what, sizeof g_what, "%s", e.what()); return 2; }
        catch (...) { g_armed = 0; g_count = 0; std::snprintf(g_what, sizeof g_what, "unknown"); return 2; }
        g_armed = 0; return 0;
    }
    return 1;
}

// ------------------------------------------------------------------------------------------------
struct Region {
    char* lo = nullptr; char* hi = nullptr;
    void init() {
        if (lo) return;
        char* m = (char*)mmap(nullptr, RWBYTES + 2 * PAGE, PROT_NONE, MAP_PRIVATE | MAP_ANONYMOUS, -1, 0);
        if (m == MAP_FAILED) { std::perror("mmap"); std::abort(); }
        if (mprotect(m + PAGE, RWBYTES, PROT_READ | PROT_WRITE)) { std::perror("mprotect"); std::abort(); }
        lo = m + PAGE; hi = lo + RWBYTES;
    }
    char* place(size_t nbytes, int m, char pos) const {
        if (pos == 'H') return lo + m;
        if (pos == 'F') return hi - nbytes;
        uintptr_t s = (uintptr_t)(hi - nbytes); s -= ((s - (uintptr_t)m) & 63);
        return (char*)s;
    }
    bool owns(const void* a) const { return (const char*)a >= lo - PAGE && (const char*)a < hi + PAGE; }
};
static const int MAXOPS = 6;
static Region g_reg[MAXOPS];

static inline unsigned char canary(const char* a, int salt) { return (unsigned char)(0xA5u ^ ((uintptr_t)a * 37u) ^ (salt * 0x5Bu)); }

static inline uint64_t mix(uint64_t h, uint64_t x) { h ^= x + 0x9E3779B97F4A7C15ULL + (h << 6) + (h >> 2); return h; }
static uint64_t g_sink = 0;
// results that are returned by value (scalars, tensors on the stack) are folded into the digest through this
static inline void sink(const void* p, size_t n) { const unsigned char* c = (const unsigned char*)p; for (size_t i = 0; i < n; ++i) g_sink = mix(g_sink, c[i]); }
template<class X> static inline void sink_val(const X& x) { sink(&x, sizeof x); }

// deterministic small-integer data (exact in every element type)
static inline uint32_t lcg(uint32_t& s) { s = s * 1664525u + 1013904223u; return s >> 8; }
template<class T> struct Filler { static T make(uint32_t& s) { return (T)((int)(lcg(s) % 9) - 4); } };
template<class U> struct Filler<std::complex<U>> { static std::complex<U> make(uint32_t& s) { U r = (U)((int)(lcg(s) % 7) - 3); U i = (U)((int)(lcg(s) % 7) - 3); return {r, i}; } };
template<> struct Filler<bool> { static bool make(uint32_t& s) { return lcg(s) & 1; } };

enum Role { IN = 0, OUT = 1, INOUT = 2 };
struct Operand {
    size_t n;         // elements
    int role;         // IN: must be unchanged; OUT: pre-filled with a pattern, result digested; INOUT: data, result digested
    int diag;         // > 0: square diag x diag matrix, made diagonally dominant (for inverse / solve / det)
    size_t payload;   // elements that carry the result (owning tensors: the rest of the object is alignment padding,
                      // whose contents are unspecified and are not part of the digest)
    Operand(size_t n_, int role_ = IN, int diag_ = 0, size_t payload_ = 0) : n(n_), role(role_), diag(diag_), payload(payload_ ? payload_ : n_) {}
};

struct Report {
    long alignreq = 0;   // raw kernels only: general-protection faults at placements that are not library-aligned (a precondition of the kernel, reported, not judged)
    long runs = 0, fault = 0, canary = 0, inmod = 0, placediff = 0, allocs = 0, exc = 0;
    char first[256] = "";
    void note(const char* what, char pos, int m, int salt, const char* more) {
        if (!first[0]) std::snprintf(first, sizeof first, "what=%s pos=%c m=%d salt=%d %s", what, pos, m, salt, more);
    }
    bool ok() const { return !(fault | canary | inmod | placediff | allocs | exc); }
};

// run `f(T* const* p)` with NOPS operands of element type T at every placement
template<class T, class F>
static Report sweep(const Operand* ops, int nops, F f, unsigned seed, unsigned flags = 0, size_t require_align = 1) {
    const bool expect_exception = flags & 1u, raw = flags & 2u, flushonly = flags & 4u;
    Report r;
    T* p[MAXOPS]; size_t nb[MAXOPS];
    static unsigned char snap[RWBYTES];
    for (int i = 0; i < nops; ++i) { g_reg[i].init(); nb[i] = ops[i].n * sizeof(T); if (nb[i] + 2 * HALO + 64 > RWBYTES) { std::fprintf(stderr, "operand too large\n"); std::abort(); } }
    bool have_ref = false; uint64_t ref_digest = 0;
    const int step = (int)alignof(T) < 1 ? 1 : (int)alignof(T);
    // pos 'F': EVERY operand ends exactly at the high guard of its own region at the same time (each with the misalignment its size gives)
    for (int pi = 0; pi < 3; ++pi) {
        const char pos = pi == 0 ? 'T' : (pi == 1 ? 'H' : 'F');
        for (int m = 0; m < (pos == 'F' ? 1 : 64); m += step) for (int salt = 0; salt < 2; ++salt) {
            if (require_align > 1 && (m % (int)require_align)) continue;      // owning tensors: library-aligned placements only
            if (flushonly && !(pos == 'F' || (pos == 'H' && m == 0) || (pos == 'T' && m == 4 * step))) continue;
            // place and fill
            size_t snapoff[MAXOPS]; size_t so = 0;
            for (int i = 0; i < nops; ++i) {
                // the output operand takes the opposite position when salt = 1
                const char ipos = (salt == 1 && ops[i].role == OUT && pos != 'F') ? (pos == 'H' ? 'T' : 'H') : pos;
                char* q = g_reg[i].place(nb[i], m, ipos);
                p[i] = (T*)q;
                char* a = q - HALO < g_reg[i].lo ? g_reg[i].lo : q - HALO;
                char* b = q + nb[i] + HALO > g_reg[i].hi ? g_reg[i].hi : q + nb[i] + HALO;
                for (char* c = a; c < b; ++c) *c = (char)canary(c, salt * 7 + m);
                if (ops[i].role != OUT) {
                    uint32_t s = seed * 2654435761u + 97u * i + 1u;
                    for (size_t k = 0; k < ops[i].n; ++k) p[i][k] = Filler<T>::make(s);
                    if (ops[i].diag > 0) for (int d = 0; d < ops[i].diag; ++d) p[i][(size_t)d * ops[i].diag + d] = (T)(5 * ops[i].diag + d);
                }
                snapoff[i] = so;
                if (ops[i].role == IN) { std::memcpy(snap + so, q, nb[i]); so += nb[i]; }
            }
            g_sink = 0;
            const long m0 = g_mallocs, n0 = g_news;
            T* const* pp = p;
            int rc = protect([&] { g_count = 1; asm volatile("" ::: "memory"); f(pp); asm volatile("" ::: "memory"); g_count = 0; });
            g_count = 0;
            ++r.runs;
            char more[160];
            bool anymis = false; for (int i = 0; i < nops; ++i) if ((uintptr_t)p[i] % VG_LIBALIGN) anymis = true;
            if (rc == 1 && raw && g_fault_addr == nullptr && anymis) { ++r.alignreq; continue; }
            if (rc == 1) {
                ++r.fault;
                int wi = -1; for (int i = 0; i < nops; ++i) if (g_reg[i].owns(g_fault_addr)) wi = i;
                if (wi >= 0) std::snprintf(more, sizeof more, "sig=%d opnd=%d off=%ld size=%zu", g_fault_sig, wi, (long)((char*)g_fault_addr - (char*)p[wi]), nb[wi]);
                else std::snprintf(more, sizeof more, "sig=%d addr=%p(outside-any-operand-region;0=general-protection,e.g.misaligned-aligned-access)", g_fault_sig, g_fault_addr);
                r.note("FAULT", pos, m, salt, more);
                continue;
            }
            if (rc == 2) {
                if (!expect_exception) { ++r.exc; std::snprintf(more, sizeof more, "exception=%.100s", g_what); for (char* c = more; *c; ++c) if (*c == ' ') *c = '_'; r.note("EXC", pos, m, salt, more); }
                continue;
            }
            const long dm = (g_mallocs - m0) + (g_news - n0);
            if (dm) { r.allocs += dm; std::snprintf(more, sizeof more, "malloc=%ld new=%ld", g_mallocs - m0, g_news - n0); r.note("ALLOC", pos, m, salt, more); }
            uint64_t dg = g_sink;
            for (int i = 0; i < nops; ++i) {
                char* q = (char*)p[i];
                char* a = q - HALO < g_reg[i].lo ? g_reg[i].lo : q - HALO;
                char* b = q + nb[i] + HALO > g_reg[i].hi ? g_reg[i].hi : q + nb[i] + HALO;
                for (char* c = a; c < b; ++c) {
                    if (c >= q && c < q + nb[i]) { c = q + nb[i] - 1; continue; }
                    if (*c != (char)canary(c, salt * 7 + m)) {
                        ++r.canary; std::snprintf(more, sizeof more, "opnd=%d off=%ld size=%zu", i, (long)(c - q), nb[i]); r.note("CANARY", pos, m, salt, more); break;
                    }
                }
                if (ops[i].role == IN) {
                    if (std::memcmp(snap + snapoff[i], q, nb[i])) {
                        ++r.inmod; size_t k = 0; while (snap[snapoff[i] + k] == (unsigned char)q[k]) ++k;
                        std::snprintf(more, sizeof more, "opnd=%d off=%zu size=%zu", i, k, nb[i]); r.note("INMOD", pos, m, salt, more);
                    }
                } else {
                    for (size_t k = 0; k < ops[i].payload * sizeof(T); ++k) dg = mix(dg, (unsigned char)q[k]);
                }
            }
            if (!have_ref) { have_ref = true; ref_digest = dg; }
            else if (dg != ref_digest) { ++r.placediff; r.note("PLACEDIFF", pos, m, salt, "result-differs-from-first-placement"); }
        }
    }
    return r;
}

static inline void print_report(const char* desc, const Report& r) {
#ifdef VG_ASAN
    const char* alloc = "na";
#else
    const char* alloc = "counted";
#endif
    if (r.ok()) std::printf("%s | ok RUNS=%ld ALLOC=%s ALIGNREQ=%ld\n", desc, r.runs, alloc, r.alignreq);
    else std::printf("%s | FAIL FAULT=%ld CANARY=%ld INMOD=%ld PLACEDIFF=%ld ALLOCS=%ld EXC=%ld RUNS=%ld first:%s\n", desc,
                     r.fault, r.canary, r.inmod, r.placediff, r.allocs, r.exc, r.runs, r.first);
    std::fflush(stdout);
}

template<class T> struct tname;
template<> struct tname<float> { static const char* s() { return "float"; } };
template<> struct tname<double> { static const char* s() { return "double"; } };
template<> struct tname<int32_t> { static const char* s() { return "int32_t"; } };
template<> struct tname<int64_t> { static const char* s() { return "int64_t"; } };
template<> struct tname<std::conditional<std::is_same<int64_t, long long>::value, long, long long>::type> { static const char* s() { return "int64_t"; } };
template<> struct tname<std::complex<float>> { static const char* s() { return "cfloat"; } };
template<> struct tname<std::complex<double>> { static const char* s() { return "cdouble"; } };

} // namespace vg
#endif
