// K3 exact runs for C13: the real `qr` templates (unary_qr_op.h, unary_piv_op.h) over vf::Rat with an exact
// square root, on the family A = Q0*R0 with Q0 a RATIONAL orthogonal matrix and R0 rational upper
// triangular with positive diagonal.  On this family exact Gram-Schmidt must return Q0,R0 and every
// sqrt argument is a perfect rational square (counted by rat.h: NSQ must be 0).
//
// One line per case:   qr n=.. strat=.. seed=.. A=<row-major rationals> | Q=.. R=.. P=.. DET=.. NSQ=.. SQC=.. ORACLE=..
// The part before `|` is fed to the Lean model (Driver/QR.lean), which prints Q,R,P,DET,NSQ,SQC.
// ORACLE is the in-harness reference, independent of the model: Q==P.Q0, R==R0, zeros below the
// diagonal exact, Q^T Q == I, Q R == P.A, P a permutation equal to the harness' own arg-max, DET == prod R0_ii,
// reconstruct(Q*R,P) == A.
#include "rat.h"
#include <Fastor/Fastor.h>
#include "rat_fastor.h"
#include <cstdio>
#include <string>
#include <vector>
#include <csignal>
#include <csetjmp>
using namespace Fastor;
using vf::Rat;
#ifndef CFGNAME
#define CFGNAME "sse2"
#endif
static bool g_verbose = false;

namespace qrh {

struct Rng { uint64_t s; explicit Rng(uint64_t x) : s(x * 6364136223846793005ull + 1442695040888963407ull) { next(); next(); }
    uint32_t next() { s = s * 6364136223846793005ull + 1442695040888963407ull; return (uint32_t)(s >> 33); }
    int range(int lo, int hi) { return lo + (int)(next() % (uint32_t)(hi - lo + 1)); } };

typedef std::vector<Rat> RM;   // row-major n x n

static inline RM ident(size_t n) { RM q(n * n, Rat(0)); for (size_t i = 0; i < n; ++i) q[i * n + i] = Rat(1); return q; }
static inline RM mul(const RM& a, const RM& b, size_t n) {
    RM c(n * n, Rat(0));
    for (size_t i = 0; i < n; ++i) for (size_t j = 0; j < n; ++j) { Rat s(0); for (size_t k = 0; k < n; ++k) s = s + a[i * n + k] * b[k * n + j]; c[i * n + j] = s; }
    return c;
}
// Q <- H(v) Q,  H(v) = I - 2 v v^T / (v^T v), v integral
static inline void householder(RM& q, size_t n, const std::vector<int>& v) {
    long vv = 0; for (size_t i = 0; i < n; ++i) vv += (long)v[i] * v[i];
    if (vv == 0) return;
    for (size_t j = 0; j < n; ++j) {
        Rat d(0); for (size_t i = 0; i < n; ++i) d = d + Rat(v[i]) * q[i * n + j];
        Rat f = Rat(2) * d / Rat(vv);
        for (size_t i = 0; i < n; ++i) q[i * n + j] = q[i * n + j] - Rat(v[i]) * f;
    }
}
// Q <- G(p,q;c,s) Q with c = cn/h, s = sn/h, cn^2+sn^2 = h^2
static inline void givens(RM& q, size_t n, size_t p, size_t r, int cn, int sn, int h) {
    Rat c = Rat::make(cn, h), s = Rat::make(sn, h);
    for (size_t j = 0; j < n; ++j) {
        Rat a = q[p * n + j], b = q[r * n + j];
        q[p * n + j] = c * a - s * b;
        q[r * n + j] = s * a + c * b;
    }
}
static const int PYTH[6][3] = {{3, 4, 5}, {4, 3, 5}, {5, 12, 13}, {12, 5, 13}, {8, 15, 17}, {15, 8, 17}};

// family member number `seed` of size n.  kind (seed%4): 0 = Givens chain, 1 = Householder(s) + Givens,
// 2 = signed permutation + Householder, 3 = everything
static int g_detsign = 0;   // sign of det(A) of the last family member (det Q0; R0 has a positive diagonal)
static inline void make_family(size_t n, unsigned seed, RM& Q0, RM& R0) {
    int sgn = 1;
    Rng g(seed * 1000003ull + n);
    Q0 = ident(n);
    unsigned kind = seed % 4;
    if (n >= 2) {
        if (kind == 2 || kind == 3) {           // signed permutation
            for (size_t i = 0; i + 1 < n; ++i) { size_t j = i + g.next() % (n - i); if (j != i) { sgn = -sgn; for (size_t c = 0; c < n; ++c) std::swap(Q0[i * n + c], Q0[j * n + c]); } }
            for (size_t i = 0; i < n; ++i) if (g.next() & 1) { sgn = -sgn; for (size_t c = 0; c < n; ++c) Q0[i * n + c] = -Q0[i * n + c]; }
        }
        if (kind != 0) {
            int nh = (kind == 3 && n <= 8) ? 2 : 1;
            for (int t = 0; t < nh; ++t) {
                std::vector<int> v(n);
                bool nz = false;
                for (size_t i = 0; i < n; ++i) { int r = g.range(0, 5); v[i] = r == 0 ? 0 : (r <= 2 ? 1 : (r <= 4 ? -1 : 2)); nz = nz || v[i]; }
                if (!nz) v[0] = 1;
                householder(Q0, n, v); sgn = -sgn;
            }
        }
        int ng = kind == 0 ? (int)std::min<size_t>(n - 1, 4) : (kind == 2 ? 0 : 2);
        for (int t = 0; t < ng; ++t) {
            size_t p = g.next() % n, r = g.next() % n; if (p == r) r = (p + 1) % n;
            const int* py = PYTH[g.next() % 6];
            givens(Q0, n, p, r, py[0], py[1], py[2]);
        }
    } else {
        if (seed & 1) { Q0[0] = Rat(-1); sgn = -1; }
    }
    g_detsign = sgn;
    R0.assign(n * n, Rat(0));
    static const int DN[6] = {1, 2, 3, 1, 3, 5}, DD[6] = {1, 1, 1, 2, 2, 2};
    for (size_t i = 0; i < n; ++i) {
        int d = g.next() % 6; R0[i * n + i] = Rat::make(DN[d], DD[d]);
        for (size_t j = i + 1; j < n; ++j) { int r = g.range(-3, 3); R0[i * n + j] = (g.next() % 5 == 0) ? Rat::make(r, 2) : Rat(r); }
    }
}

static inline std::string join(const RM& m) { std::string s; for (size_t i = 0; i < m.size(); ++i) { if (i) s += ","; s += m[i].str(); } return s; }
template<typename TT> static inline RM flat(const TT& t, size_t cnt) { RM v(cnt); for (size_t i = 0; i < cnt; ++i) v[i] = t.data()[i]; return v; }

static sigjmp_buf g_jmp;
static void on_abort(int) { siglongjmp(g_jmp, 1); }
static std::string g_hdr;   // case id + inputs of the running case (survives the longjmp)

// strategies
enum { S_MGSR = 0, S_MGSR_EXPR = 1, S_PIVV = 2, S_PIVV_EXPR = 3, S_PIVM = 4, S_PIVM_EXPR = 5,
       S_MGSR_SUM = 6, S_MGSR_TRANS = 7, S_PIVV_SUM = 8, S_PIVM_TRANS = 9 };
static const char* const SNAME[10] = {"mgsr", "mgsr_expr", "pivv", "pivv_expr", "pivm", "pivm_expr", "mgsr_sum", "mgsr_trans", "pivv_sum", "pivm_trans"};
static inline bool is_piv(int S) { return (S >= 2 && S <= 5) || S >= 8; }
static inline bool is_pmat(int S) { return S == 4 || S == 5 || S == 9; }

template<size_t n, int S> struct call_qr;
template<size_t n> struct call_qr<n, S_MGSR> { static void go(const Tensor<Rat,n,n>& A, Tensor<Rat,n,n>& Q, Tensor<Rat,n,n>& R, Tensor<size_t,n>&, Tensor<Rat,n,n>&) { qr(A, Q, R); } };
template<size_t n> struct call_qr<n, S_MGSR_EXPR> { static void go(const Tensor<Rat,n,n>& A, Tensor<Rat,n,n>& Q, Tensor<Rat,n,n>& R, Tensor<size_t,n>&, Tensor<Rat,n,n>&) { qr<QRCompType::MGSR>(A + Rat(0), Q, R); } };
template<size_t n> struct call_qr<n, S_PIVV> { static void go(const Tensor<Rat,n,n>& A, Tensor<Rat,n,n>& Q, Tensor<Rat,n,n>& R, Tensor<size_t,n>& P, Tensor<Rat,n,n>&) { qr<QRCompType::MGSRPiv>(A, Q, R, P); } };
template<size_t n> struct call_qr<n, S_PIVV_EXPR> { static void go(const Tensor<Rat,n,n>& A, Tensor<Rat,n,n>& Q, Tensor<Rat,n,n>& R, Tensor<size_t,n>& P, Tensor<Rat,n,n>&) { qr<QRCompType::MGSRPiv>(A + Rat(0), Q, R, P); } };
template<size_t n> struct call_qr<n, S_PIVM> { static void go(const Tensor<Rat,n,n>& A, Tensor<Rat,n,n>& Q, Tensor<Rat,n,n>& R, Tensor<size_t,n>&, Tensor<Rat,n,n>& PM) { qr<QRCompType::MGSRPiv>(A, Q, R, PM); } };
template<size_t n> struct call_qr<n, S_PIVM_EXPR> { static void go(const Tensor<Rat,n,n>& A, Tensor<Rat,n,n>& Q, Tensor<Rat,n,n>& R, Tensor<size_t,n>&, Tensor<Rat,n,n>& PM) { qr<QRCompType::MGSRPiv>(A + Rat(0), Q, R, PM); } };

// lazy arguments that are not "tensor + scalar": a sum of two tensors (A = A1 + A2, A1 small integers) and a
// transpose (trans(At) with At the transposed input)
template<size_t n> static inline void split(const Tensor<Rat,n,n>& A, Tensor<Rat,n,n>& A1, Tensor<Rat,n,n>& A2) {
    for (size_t i = 0; i < n * n; ++i) { A1.data()[i] = Rat((int)((i * 7 + 3) % 5) - 2); A2.data()[i] = A.data()[i] - A1.data()[i]; } }
template<size_t n> static inline Tensor<Rat,n,n> transposed(const Tensor<Rat,n,n>& A) { Tensor<Rat,n,n> B; for (size_t i = 0; i < n; ++i) for (size_t j = 0; j < n; ++j) B(i, j) = A(j, i); return B; }
template<size_t n> struct call_qr<n, S_MGSR_SUM> { static void go(const Tensor<Rat,n,n>& A, Tensor<Rat,n,n>& Q, Tensor<Rat,n,n>& R, Tensor<size_t,n>&, Tensor<Rat,n,n>&) { Tensor<Rat,n,n> A1, A2; split(A, A1, A2); qr(A1 + A2, Q, R); } };
template<size_t n> struct call_qr<n, S_MGSR_TRANS> { static void go(const Tensor<Rat,n,n>& A, Tensor<Rat,n,n>& Q, Tensor<Rat,n,n>& R, Tensor<size_t,n>&, Tensor<Rat,n,n>&) { Tensor<Rat,n,n> At = transposed(A); qr(trans(At), Q, R); } };
template<size_t n> struct call_qr<n, S_PIVV_SUM> { static void go(const Tensor<Rat,n,n>& A, Tensor<Rat,n,n>& Q, Tensor<Rat,n,n>& R, Tensor<size_t,n>& P, Tensor<Rat,n,n>&) { Tensor<Rat,n,n> A1, A2; split(A, A1, A2); qr<QRCompType::MGSRPiv>(A1 + A2, Q, R, P); } };
template<size_t n> struct call_qr<n, S_PIVM_TRANS> { static void go(const Tensor<Rat,n,n>& A, Tensor<Rat,n,n>& Q, Tensor<Rat,n,n>& R, Tensor<size_t,n>&, Tensor<Rat,n,n>& PM) { Tensor<Rat,n,n> At = transposed(A); qr<QRCompType::MGSRPiv>(trans(At), Q, R, PM); } };

} // namespace qrh

// free = false: family member `seed` (A = Q0*R0; full oracle).
// free = true : an arbitrary small rational matrix.  The square roots are then NOT exact (rat.h returns the floor of
//   the roots of numerator and denominator) so Q is not orthonormal, but Q*R == P*A, the zero pattern, the pivot and
//   the sqrt-call count must still hold exactly, and the Lean model run with the same pseudo-root must agree digit
//   for digit — on inputs where classical and modified Gram-Schmidt DIFFER in exact arithmetic.
//   Returns false when the case cannot be used (rational overflow / zero column): the caller tries the next seed.
template<size_t n, int S>
bool run_qr_impl(unsigned seed, bool free) {
    using namespace qrh;
    vf::ratpool.reset();
    RM Q0, R0, A0;
    if (!free) { make_family(n, seed, Q0, R0); A0 = mul(Q0, R0, n); }
    else {
        Rng g(seed * 2654435761ull + 17 * n + S);
        A0.assign(n * n, Rat(0));
        for (size_t i = 0; i < n * n; ++i) { int r = n >= 5 ? g.range(-2, 2) : g.range(-4, 4); A0[i] = (n < 5 && g.next() % 7 == 0) ? Rat::make(r, 2) : Rat(r); }
        for (size_t i = 0; i < n; ++i) if (g.next() % 3 == 0) A0[i * n + i] = A0[i * n + i] + Rat(g.range(2, 5));
    }
    Tensor<Rat,n,n> A; for (size_t i = 0; i < n * n; ++i) A.data()[i] = A0[i];
    // outputs pre-filled with a sentinel: an element the library does not write stays 77
    Tensor<Rat,n,n> Q, R, PM; Tensor<size_t,n> PV;
    for (size_t i = 0; i < n * n; ++i) { Q.data()[i] = Rat(77); R.data()[i] = Rat(77); PM.data()[i] = Rat(77); }
    for (size_t i = 0; i < n; ++i) PV.data()[i] = 77;
    const bool piv = is_piv(S), pmat = is_pmat(S);
    char hdr[256];
    std::snprintf(hdr, sizeof hdr, "qr cfg=%s n=%zu strat=%s seed=%u free=%d dsign=%d A=", CFGNAME, n, SNAME[S], seed, free ? 1 : 0, free ? 0 : g_detsign);
    g_hdr = std::string(hdr) + join(A0) + " | ";
    std::string line = g_hdr;
    Rat det(0);
    long nsq = 0, sqc = 0;
    void (*old)(int) = std::signal(SIGABRT, on_abort);
    if (sigsetjmp(g_jmp, 1) != 0) {
        std::signal(SIGABRT, old);
        if (free) return false;
        std::printf("%sQ=trap R=trap P=trap DET=trap NSQ=-1 SQC=-1 ORACLE=trap(rational-overflow-or-division-by-zero)\n", g_hdr.c_str());
        return true;
    }
    vf::rat_sqrt_calls = 0; vf::rat_sqrt_nonsquare = 0;
    call_qr<n, S>::go(A, Q, R, PV, PM);
    sqc = vf::rat_sqrt_calls;
    det = determinant<DetCompType::QR>(A);
    nsq = vf::rat_sqrt_nonsquare;          // det's own factorisation counts too
    long sqc_det = vf::rat_sqrt_calls - sqc;
    if (free) {
        // every intermediate value is in the pool: all below 2^60 means no __int128 product can have wrapped
        const vf::i128 LIM = (vf::i128)1 << 60;
        for (size_t i = 0; i < vf::ratpool.v.size(); ++i) if (vf::iabs(vf::ratpool.v[i].n) > LIM || vf::ratpool.v[i].d > LIM) { std::signal(SIGABRT, old); return false; }
    }

    // ---- observables
    std::vector<size_t> perm(n);
    bool perm_ok = true;
    if (!piv) { for (size_t i = 0; i < n; ++i) perm[i] = i; }
    else if (!pmat) { for (size_t i = 0; i < n; ++i) { perm[i] = PV(i); if (perm[i] >= n) { perm_ok = false; perm[i] = 0; } } }
    else {
        for (size_t i = 0; i < n; ++i) {
            size_t cnt1 = 0, at = 0;
            for (size_t j = 0; j < n; ++j) { if (PM(i, j) == Rat(1)) { ++cnt1; at = j; } else if (!(PM(i, j) == Rat(0))) perm_ok = false; }
            if (cnt1 != 1) perm_ok = false;
            perm[i] = at;
        }
    }
    std::string ps; for (size_t i = 0; i < n; ++i) { if (i) ps += ","; ps += std::to_string(perm[i]); }
    // coverage observables of the pivot: longest cycle of P (>= 3: P is not an involution) and whether some column's
    // search met a tie for the maximal |A(i,j)|
    size_t pcyc = 1; int tie = 0;
    if (piv) {
        pcyc = 0;
        for (size_t i = 0; i < n; ++i) { size_t x = i, len = 0; for (size_t t = 0; t < n; ++t) { x = perm[x] < n ? perm[x] : 0; ++len; if (x == i) break; } if (len > pcyc) pcyc = len; }
        for (size_t j = 0; j < n; ++j) {
            Rat m(0); for (size_t i = j; i < n; ++i) if (m < std::abs(A0[i * n + j])) m = std::abs(A0[i * n + j]);
            size_t c = 0; for (size_t i = j; i < n; ++i) if (std::abs(A0[i * n + j]) == m) ++c;
            if (c >= 2) tie = 1;
        }
    }
    RM Qv = flat(Q, n * n), Rv = flat(R, n * n);
    line += "PCYC=" + std::to_string(pcyc) + " TIE=" + std::to_string(tie) + " Q=" + join(Qv) + " R=" + join(Rv) + " P=" + ps + " DET=" + det.str() + " NSQ=" + std::to_string(nsq) + " SQC=" + std::to_string(sqc);

    // ---- oracle (independent of the model)
    std::string why;
    // the pivot the code is specified to compute: for column j the first row i >= j of maximal |A(i,j)|
    // (computed on the unpermuted A), swapping perm(j) and perm(max)
    std::vector<size_t> eperm(n); for (size_t i = 0; i < n; ++i) eperm[i] = i;
    if (piv) for (size_t j = 0; j < n; ++j) {
        size_t mx = j;
        for (size_t i = j; i < n; ++i) if (std::abs(A0[i * n + j]) > std::abs(A0[mx * n + j])) mx = i;
        if (mx != j) std::swap(eperm[j], eperm[mx]);
    }
    { std::vector<int> seen(n, 0); for (size_t i = 0; i < n; ++i) if (perm[i] < n) seen[perm[i]]++; for (size_t i = 0; i < n; ++i) if (seen[i] != 1) perm_ok = false; }
    if (!perm_ok) why += " P-not-a-permutation";
    for (size_t i = 0; i < n && why.empty(); ++i) if (perm[i] != eperm[i]) why += " P-differs-from-argmax-pivot@" + std::to_string(i);
    if (!free && nsq != 0) why += " non-square-sqrt-argument";
    if (sqc != (long)n || sqc_det != (long)n) why += " sqrt-call-count";
    for (size_t i = 0; i < n; ++i) for (size_t j = 0; j < i; ++j) if (!(Rv[i * n + j] == Rat(0))) { why += " R-below-diagonal-nonzero@" + std::to_string(i) + "," + std::to_string(j); i = n; break; }
    if (!free) {
        // Q == P.Q0, R == R0
        for (size_t i = 0; i < n * n; ++i) if (!(Rv[i] == R0[i])) { why += " R!=R0@" + std::to_string(i / n) + "," + std::to_string(i % n); break; }
        if (perm_ok) for (size_t i = 0; i < n * n; ++i) if (!(Qv[i] == Q0[perm[i / n] * n + i % n])) { why += " Q!=P.Q0@" + std::to_string(i / n) + "," + std::to_string(i % n); break; }
    }
    // Q^T Q == I (needs exact roots), Q R == P.A (holds for any non-zero root)
    {
        bool o = true, rc = true;
        if (!free) for (size_t a = 0; a < n; ++a) for (size_t b = 0; b < n; ++b) { Rat s(0); for (size_t k = 0; k < n; ++k) s = s + Qv[k * n + a] * Qv[k * n + b]; if (!(s == Rat(a == b ? 1 : 0))) o = false; }
        RM QR = mul(Qv, Rv, n);
        if (perm_ok) for (size_t i = 0; i < n * n; ++i) if (!(QR[i] == A0[perm[i / n] * n + i % n])) rc = false;
        if (!o) why += " QtQ!=I";
        if (!rc) why += " QR!=P.A";
        // the library's own reconstruction (unary_piv_op.h): reconstruct(Q*R, P) must give back A
        if (piv && !pmat && perm_ok) {
            Tensor<Rat,n,n> QRt; for (size_t i = 0; i < n * n; ++i) QRt.data()[i] = QR[i];
            Tensor<Rat,n,n> back = reconstruct(QRt, PV);
            for (size_t i = 0; i < n * n; ++i) if (!(back.data()[i] == A0[i])) { why += " reconstruct(QR,P)!=A"; break; }
        }
    }
    if (!free) { Rat p(1); for (size_t i = 0; i < n; ++i) p = p * R0[i * n + i]; if (!(det == p)) why += " det!=prod(R0_ii)"; }
    // the expression overloads of pivot_inplace (unary_piv_op.h) must produce the same permutation, as an index
    // vector and as a complete 0/1 matrix (destination pre-filled with the sentinel)
    if (piv) {
        Tensor<Rat,n,n> PX; Tensor<size_t,n> PVX;
        for (size_t i = 0; i < n * n; ++i) PX.data()[i] = Rat(77);
        for (size_t i = 0; i < n; ++i) PVX.data()[i] = 77;
        pivot_inplace(A + Rat(0), PX);
        pivot_inplace(A + Rat(0), PVX);
        bool okm = true, okv = true;
        for (size_t i = 0; i < n; ++i) { if (PVX(i) != eperm[i]) okv = false; for (size_t j = 0; j < n; ++j) if (!(PX(i, j) == Rat(j == eperm[i] ? 1 : 0))) okm = false; }
        if (!okv) why += " pivot_inplace(expr,perm)-wrong";
        if (!okm) why += " pivot_inplace(expr,P)-not-the-permutation-matrix";
    }
    for (size_t i = 1; i < why.size(); ++i) if (why[i] == ' ') why[i] = ';';
    std::signal(SIGABRT, old);
    std::printf("%s ORACLE=%s\n", line.c_str(), why.empty() ? "ok" : ("FAIL:" + why.substr(1)).c_str());
    if (g_verbose && !free) {
        std::printf("#   Q0=%s\n#   R0=%s\n", join(Q0).c_str(), join(R0).c_str());
    }
    return true;
}

template<size_t n, int S> void run_qr(unsigned seed) { run_qr_impl<n, S>(seed, false); }

// arbitrary-input case: the first usable seed among seed, seed+7919, ... (the line shows the seed actually used)
template<size_t n, int S> void run_qr_free(unsigned seed) {
    for (unsigned t = 0; t < 40; ++t) if (run_qr_impl<n, S>(seed + 7919u * t, true)) return;
    std::printf("# qr cfg=%s n=%zu strat=%s seed=%u free=1: no usable case among 40 seeds (rational overflow), skipped\n", CFGNAME, n, qrh::SNAME[S], seed);
}
