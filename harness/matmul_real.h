// Value runs of matmul on the real element types (K4): immediate, lazy and raw-backend forms on
// integer-valued data, compared exactly with a naive triple loop; sentinel margins around the
// raw output buffer detect unwritten cells and writes outside the result.
#include <Fastor/Fastor.h>
#include <complex>
#include <cstdio>
#include <cstdint>
using namespace Fastor;
#ifndef CFGNAME
#define CFGNAME "sse2"
#endif
template<typename T> struct tn;
template<> struct tn<float> { static const char* n() { return "float"; } };
template<> struct tn<double> { static const char* n() { return "double"; } };
template<> struct tn<int32_t> { static const char* n() { return "int32"; } };
template<> struct tn<int64_t> { static const char* n() { return "int64"; } };
template<> struct tn<std::complex<float>> { static const char* n() { return "cfloat"; } };
template<> struct tn<std::complex<double>> { static const char* n() { return "cdouble"; } };

template<typename T> inline T mk(int re, int im) { (void)im; return T(re); }
template<> inline std::complex<float> mk(int re, int im) { return std::complex<float>((float)re,(float)im); }
template<> inline std::complex<double> mk(int re, int im) { return std::complex<double>((double)re,(double)im); }
static inline int small(unsigned x) { x = x * 2654435761u + 12345u; return (int)((x >> 16) % 9) - 4; }

template<typename T, size_t M, size_t K, size_t N>
void run_real(unsigned seed) {
    Tensor<T,M,K> A; Tensor<T,K,N> B;
    for (size_t i=0;i<M*K;++i) A.data()[i] = mk<T>(small(seed+3*i), small(seed+7*i+1));
    for (size_t i=0;i<K*N;++i) B.data()[i] = mk<T>(small(seed+5*i+2), small(seed+11*i+3));
    T ref[M*N];
    for (size_t i=0;i<M;++i) for (size_t j=0;j<N;++j) { T s = T(0); for (size_t k=0;k<K;++k) s += A.data()[i*K+k]*B.data()[k*N+j]; ref[i*N+j]=s; }
    Tensor<T,M,N> C = matmul(A,B);
    Tensor<T,M,N> D = A % B;
    constexpr size_t PAD = 64;
    static T raw[M*N+2*PAD];
    const T sent = mk<T>(-77, 55);
    for (size_t i=0;i<M*N+2*PAD;++i) raw[i] = sent;
    _matmul<T,M,K,N>(A.data(),B.data(),raw+PAD);
    long bad_imm=-1, bad_lazy=-1, bad_raw=-1, bad_pad=-1;
    for (size_t i=0;i<M*N;++i) {
        if (bad_imm<0 && !(C.data()[i]==ref[i])) bad_imm=i;
        if (bad_lazy<0 && !(D.data()[i]==ref[i])) bad_lazy=i;
        if (bad_raw<0 && !(raw[PAD+i]==ref[i])) bad_raw=i;
    }
    for (size_t i=0;i<PAD;++i) if (!(raw[i]==sent) || !(raw[PAD+M*N+i]==sent)) { bad_pad=i; break; }
    bool ok = bad_imm<0 && bad_lazy<0 && bad_raw<0 && bad_pad<0;
    std::printf("matmulreal cfg=%s T=%s M=%zu K=%zu N=%zu | %s", CFGNAME, tn<T>::n(), M,K,N, ok?"ok":"FAIL");
    if (!ok) std::printf(" imm=%ld lazy=%ld raw=%ld pad=%ld", bad_imm,bad_lazy,bad_raw,bad_pad);
    std::printf("\n");
}
