// Symbolic correspondence harness for the scalar-valued reductions (C16):
// sum / product (function and Tensor method), norm, inner, trace, closed-form determinants over the
// exact polynomial carrier vf::Sym<B>: the returned polynomial is compared with a fold written in plain
// C++ over the element tokens ("every element used exactly once"), and the access trace gives the
// vector width, the ordered sequence of vector loads and the set of scalar (tail) reads.
#include "sym.h"
// norm() ends in sqrts(); on the symbolic carrier the square root is the identity so that the radicand
// (the reduction itself) is what is observed.  Must be visible before the library's templates.
namespace std { template<int B> inline vf::Sym<B> sqrt(const vf::Sym<B>& a) { return vf::Sym<B>::raw((uint32_t)a.h); } }
#include <Fastor/Fastor.h>
#include "simd_sym.h"
#include "hutil.h"
#include "tensor_arena.h"
#include "reduce_depth.h"
#ifndef CFGNAME
#define CFGNAME "sse2"
#endif
static bool g_verbose = false;

namespace rs {
using vf::Poly; using vf::padd; using vf::pmul; using vf::pconst; using vf::ptok; using vf::mktok; using vf::hex16;

// exact scalar used by the reference evaluation of the same expression text
struct PolyS { Poly p; PolyS() {} PolyS(const Poly& q) : p(q) {} explicit PolyS(int c) : p(pconst(c)) {} };
static inline PolyS operator+(const PolyS& a, const PolyS& b) { return PolyS(padd(a.p, b.p)); }
static inline PolyS operator-(const PolyS& a, const PolyS& b) { return PolyS(padd(a.p, b.p, -1)); }
static inline PolyS operator*(const PolyS& a, const PolyS& b) { return PolyS(pmul(a.p, b.p)); }
static inline PolyS operator-(const PolyS& a) { return PolyS(padd(Poly{}, a.p, -1)); }
static inline PolyS operator*(int a, const PolyS& b) { return PolyS(a) * b; }
static inline PolyS operator*(const PolyS& a, int b) { return a * PolyS(b); }
static inline PolyS operator+(const PolyS& a, int b) { return a + PolyS(b); }
static inline PolyS operator-(const PolyS& a, int b) { return a - PolyS(b); }

static inline uint64_t digest1(const Poly& p) { uint64_t h = 0; h = vf::hstep(h, vf::peval(p, 0)); h = vf::hstep(h, vf::peval(p, 1)); return h; }

// observables of the access trace for the operand windows 1..3
struct Obs { int lanes = 0; long nvl = 0; uint64_t lseq = 0; std::set<long> tail; std::map<int, std::set<long>> rd; long oob = 0; };
static inline Obs observe() {
    Obs o; o.oob = vf::trace.oob;
    for (auto& e : vf::trace.ev) {
        if (e.win < 1) continue;
        if (e.kind == 'r') { o.rd[e.win].insert(e.off); if (e.win == 1) o.tail.insert(e.off); }
        if (e.kind == 'L' || e.kind == 'A' || e.kind == 'm') {
            int pc = 0; for (int l = 0; l < 64; ++l) if (e.aux >> l & 1) { ++pc; o.rd[e.win].insert(e.off + l); }
            if (e.win == 1) { ++o.nvl; o.lseq = vf::hstep(o.lseq, (uint64_t)e.off); if (pc > o.lanes) o.lanes = pc; }
        }
    }
    return o;
}
static inline void print_obs(const Obs& o, bool lseq = true) {
    std::printf(" LV=%d NVL=%ld", o.lanes, o.nvl);
    if (lseq) std::printf(" LSEQ=%s", hex16(o.lseq).c_str());
    uint64_t h = 0; for (long x : o.tail) h = vf::hstep(h, (uint64_t)x);
    std::printf(" TAIL=%s", hex16(h).c_str());
    for (auto& kv : o.rd) std::printf(" RD%d=%s", kv.first, hex16(vf::set_digest(kv.second)).c_str());
}

enum Kind { SUM = 0, PROD = 1, TSUM = 2, TPROD = 3, NORM = 4 };
static const char* kname[] = {"sum", "prod", "tsum", "tprod", "norm"};

template<int K> struct Call;
template<> struct Call<SUM>  { template<class X, class TT> static auto go(const X& x, const TT&) { return Fastor::sum(x); } };
template<> struct Call<PROD> { template<class X, class TT> static auto go(const X& x, const TT&) { return Fastor::product(x); } };
template<> struct Call<TSUM> { template<class X, class TT> static auto go(const X&, const TT& a) { return a.sum(); } };
template<> struct Call<TPROD>{ template<class X, class TT> static auto go(const X&, const TT& a) { return a.product(); } };
template<> struct Call<NORM> { template<class X, class TT> static auto go(const X& x, const TT&) { return Fastor::norm(x); } };

template<typename T, size_t N, int K, typename F>
void run_reduce(const char* enc, F f) {
    vf::guarded([&]{
        using namespace Fastor;
        std::printf("reduce cfg=%s sz=%d k=%s n=%zu E=%s", CFGNAME, (int)sizeof(T), kname[K], N, enc); std::fflush(stdout);
        vf::arena.reset(); vf::pool.reset();
        using TT = Tensor<T,N>;
        TT* A = vf::arena_tensor<TT>(1); TT* B = vf::arena_tensor<TT>(2); TT* C = vf::arena_tensor<TT>(3);
        vf::trace.clear(); vf::trace.on = true;
        T r = Call<K>::go(f(*A, *B, *C), *A);
        vf::trace.on = false;
        Obs o = observe();
        // reference fold
        PolyS want = (K == PROD || K == TPROD) ? PolyS(1) : PolyS(0);
        for (size_t p = 0; p < N; ++p) {
            PolyS e = f(PolyS(ptok(mktok(1, p))), PolyS(ptok(mktok(2, p))), PolyS(ptok(mktok(3, p))));
            if (K == PROD || K == TPROD) want = want * e; else if (K == NORM) want = want + e * e; else want = want + e;
        }
        bool ok = want.p == r.poly();
        bool plain = std::string(enc) == "t1";
        size_t V = (K == NORM && plain) ? internal::choose_best_simd_type<SIMDVector<T,DEFAULT_ABI>,N>::type::Size
                                        : choose_best_simd_vector_t<T>::Size;
        std::printf(" | V=%zu VAL=%s", V, hex16(digest1(r.poly())).c_str());
        print_obs(o);
#ifdef FASTOR_AVX512_IMPL
        const bool a512 = true;
#else
        const bool a512 = false;
#endif
        if (!((K == TSUM || K == TPROD) && N <= 1))
            std::printf(" DEPTH=%zu", vfdepth::depth(K == NORM ? (plain ? vfdepth::NORM_TENSOR : vfdepth::NORM_EXPR) : vfdepth::SUM, N, V, a512));
        std::printf(" OOB=%ld ORACLE=%s", o.oob, ok ? "ok" : "FAIL");
        if (!ok) std::printf(" got=%s", vf::pstr(r.poly()).substr(0, 300).c_str());
        std::printf("\n");
    });
}
#define RED_CASE(T, N, K, ENC, ...) rs::run_reduce<T, N, K>(ENC, [](const auto& A, const auto& B, const auto& C) -> decltype(auto) { (void)A; (void)B; (void)C; return (__VA_ARGS__); })

// inner(a,b) = _doublecontract<T,N,1>; MODE 0: inner(A,B)  1: inner(A+C,B)  2: inner(A,B*C)  3: inner(A+C,B-C)
template<typename T, size_t N, int MODE>
void run_inner() {
    vf::guarded([&]{
        using namespace Fastor;
        static const char* ea[] = {"t1", "t1_t3_add", "t1", "t1_t3_add"};
        static const char* eb[] = {"t2", "t2", "t2_t3_mul", "t2_t3_sub"};
        std::printf("reduce cfg=%s sz=%d k=inner n=%zu E=%s F=%s", CFGNAME, (int)sizeof(T), N, ea[MODE], eb[MODE]); std::fflush(stdout);
        vf::arena.reset(); vf::pool.reset();
        using TT = Tensor<T,N>;
        TT* A = vf::arena_tensor<TT>(1); TT* B = vf::arena_tensor<TT>(2); TT* C = vf::arena_tensor<TT>(3);
        vf::trace.clear(); vf::trace.on = true;
        T r = MODE == 0 ? inner(*A, *B) : MODE == 1 ? inner(*A + *C, *B) : MODE == 2 ? inner(*A, *B * *C) : inner(*A + *C, *B - *C);
        vf::trace.on = false;
        Obs o = observe();
        PolyS want(0);
        for (size_t p = 0; p < N; ++p) {
            PolyS a(ptok(mktok(1, p))), b(ptok(mktok(2, p))), c(ptok(mktok(3, p)));
            PolyS x = (MODE == 1 || MODE == 3) ? a + c : a;
            PolyS y = MODE == 2 ? b * c : MODE == 3 ? b - c : b;
            want = want + x * y;
        }
        bool ok = want.p == r.poly();
        size_t V = internal::choose_best_simd_type<SIMDVector<T,DEFAULT_ABI>,N>::type::Size;
        std::printf(" | V=%zu VAL=%s DEPTH=%zu", V, hex16(digest1(r.poly())).c_str(), vfdepth::depth(vfdepth::INNER, N, V, false));
        if (MODE == 0) print_obs(o);
        std::printf(" OOB=%ld ORACLE=%s", o.oob, ok ? "ok" : "FAIL");
        if (!ok) std::printf(" got=%s", vf::pstr(r.poly()).substr(0, 300).c_str());
        std::printf("\n");
    });
}

// trace(A) (backend _trace) and trace(expr) (eval_s(i*(N+1))) of an M x M matrix
template<typename T, size_t M, typename F>
void run_trace(const char* enc, F f) {
    vf::guarded([&]{
        using namespace Fastor;
        std::printf("reduce cfg=%s sz=%d k=trace n=%zu E=%s", CFGNAME, (int)sizeof(T), M, enc); std::fflush(stdout);
        vf::arena.reset(); vf::pool.reset();
        using TT = Tensor<T,M,M>;
        TT* A = vf::arena_tensor<TT>(1); TT* B = vf::arena_tensor<TT>(2); TT* C = vf::arena_tensor<TT>(3);
        vf::trace.clear(); vf::trace.on = true;
        T r = Fastor::trace(f(*A, *B, *C));
        vf::trace.on = false;
        Obs o = observe();
        PolyS want(0);
        for (size_t i = 0; i < M; ++i) {
            size_t p = i * M + i;
            want = want + f(PolyS(ptok(mktok(1, p))), PolyS(ptok(mktok(2, p))), PolyS(ptok(mktok(3, p))));
        }
        bool ok = want.p == r.poly();
        std::printf(" | VAL=%s", hex16(digest1(r.poly())).c_str());
        print_obs(o, false);
        std::printf(" OOB=%ld ORACLE=%s", o.oob, ok ? "ok" : "FAIL");
        if (!ok) std::printf(" got=%s", vf::pstr(r.poly()).substr(0, 300).c_str());
        std::printf("\n");
    });
}
#define TRACE_CASE(T, M, ENC, ...) rs::run_trace<T, M>(ENC, [](const auto& A, const auto& B, const auto& C) -> decltype(auto) { (void)A; (void)B; (void)C; return (__VA_ARGS__); })

// determinant<Simple>(A), M <= 4: the generic closed forms against the Leibniz expansion
template<typename T, size_t M>
void run_det() {
    vf::guarded([&]{
        using namespace Fastor;
        std::printf("reduce cfg=%s sz=%d k=det n=%zu E=t1", CFGNAME, (int)sizeof(T), M); std::fflush(stdout);
        vf::arena.reset(); vf::pool.reset();
        using TT = Tensor<T,M,M>;
        TT* A = vf::arena_tensor<TT>(1);
        vf::trace.clear(); vf::trace.on = true;
        T r = determinant(*A);
        vf::trace.on = false;
        Obs o = observe();
        int perm[8]; for (size_t i = 0; i < M; ++i) perm[i] = (int)i;
        Poly want;
        do {
            int inv = 0; for (size_t i = 0; i < M; ++i) for (size_t j = i + 1; j < M; ++j) if (perm[i] > perm[j]) ++inv;
            Poly t = pconst(inv % 2 ? -1 : 1);
            for (size_t i = 0; i < M; ++i) t = pmul(t, ptok(mktok(1, i * M + perm[i])));
            want = padd(want, t);
        } while (std::next_permutation(perm, perm + M));
        bool ok = want == r.poly();
        std::printf(" | VAL=%s", hex16(digest1(r.poly())).c_str());
        for (auto& kv : o.rd) std::printf(" RD%d=%s", kv.first, hex16(vf::set_digest(kv.second)).c_str());
        std::printf(" OOB=%ld ORACLE=%s", o.oob, ok ? "ok" : "FAIL");
        if (!ok) std::printf(" got=%s", vf::pstr(r.poly()).substr(0, 300).c_str());
        std::printf("\n");
    });
}
} // namespace rs
using rs::SUM; using rs::PROD; using rs::TSUM; using rs::TPROD; using rs::NORM;
using vf::Sym4; using vf::Sym8;
