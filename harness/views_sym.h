// Symbolic correspondence harness for C04 (reading through a scalar index or a slice).
// The parent tensors hold one distinct token per element, so every value that comes out of a view
// evaluator or lands in a result tensor names the parent element it was read from.
#include <Fastor/Fastor.h>
#include "simd_sym.h"
#include "sym16.h"
#include "hutil.h"
#include "tensor_arena.h"
#include "views_common.h"
using namespace vf;
#ifndef CFGNAME
#define CFGNAME "sse2"
#endif
static bool g_verbose = false;

namespace vw {

struct Acc {                       // digest of a sequence of element values (two evaluation points each)
    uint64_t h = 0;
    template<typename T> void add(const T& x) { const Poly& p = pool.v[x.h]; h = hstep(h, peval(p, 0)); h = hstep(h, peval(p, 1)); }
};
struct Phase { long loads = 0; };
// fold the trace of one phase into the accumulated read set of the parent windows; count vector loads
static inline long fold_trace(std::set<long>& rd1, std::set<long>& rd2, long& oob) {
    long loads = 0;
    for (auto& e : trace.ev) {
        if (e.kind == 'r') { if (e.win == 1) rd1.insert(e.off); else if (e.win == 2) rd2.insert(e.off); }
        else if (e.kind == 'L' || e.kind == 'A' || e.kind == 'm') {
            if (e.win == 1 || e.win == 2) ++loads;
            for (int l = 0; l < 64; ++l) if (e.aux >> l & 1) { if (e.win == 1) rd1.insert(e.off + l); else if (e.win == 2) rd2.insert(e.off + l); }
        }
    }
    oob += trace.oob;
    trace.clear();
    return loads;
}

struct Fail { std::string what; };
#define VW_CHECK(cond, ...) do { if (!(cond) && fail.what.empty()) { char b_[256]; std::snprintf(b_, sizeof b_, __VA_ARGS__); fail.what = b_; } } while (0)

// route of `teval`, from the public flags of the n-D views; the 1-D / 2-D classes have no flags
template<typename View> static auto route_flags(const View& v, int) -> decltype(v.is_vectorisable(), int()) {
    return v.is_vectorisable() ? 0 : (v.is_strided_vectorisable() ? 1 : 2);
}
template<typename View> static int route_flags(const View&, long) { return -1; }
template<typename View, size_t RK> static std::string view_route(const View& v, int, const std::array<int,RK>&, bool& gather) {
    int r = route_flags(v, 0);
    gather = (r == 2);
    return r == 0 ? " route=c" : r == 1 ? " route=s" : r == 2 ? " route=g" : "";
}

// probes every evaluator of the view `v`; `expect[p]` = handle of the element documented at result position p
template<typename T, size_t RK, bool TWO, typename View>
static void probe(const View& v, const std::array<int,RK>& rd, const std::vector<uint32_t>& expect, Fail& fail, std::string& out) {
    using V = typename View::simd_vector_type;
    constexpr int VS = (int)V::Size;
    const long n = (long)expect.size();
    std::set<long> rd1, rd2; long oob = 0;
    Acc es, ev, e2s, e2v, ts, tv;
    trace.clear(); trace.on = true;
    long sz = (long)v.size();
    std::string dm; for (size_t k = 0; k < RK; ++k) { if (k) dm += "x"; dm += std::to_string((long)v.dimension(k)); }
    VW_CHECK(sz == n, "size()=%ld want %ld", sz, n);
    if (sz != n) { trace.on = false; out = " SZ=" + std::to_string(sz) + " DM=" + dm; return; }
    for (long i = 0; i < n; ++i) { T x = v.template eval_s<T>(i); es.add(x); VW_CHECK(x.h == expect[i], "eval_s(%ld)", i); }
    for (long i = 0; i + VS <= n; ++i) {
        auto x = v.template eval<T>(i);
        for (int l = 0; l < VS; ++l) { ev.add(x.value[l]); VW_CHECK(x.value[l].h == expect[i + l], "eval(%ld) lane %d", i, l); }
    }
    fold_trace(rd1, rd2, oob);
    const int dl = rd[RK - 1];
    long nl2 = 0, nlt = 0;
    if (TWO) {
        for (int i = 0; i < rd[0]; ++i) for (int j = 0; j < dl; ++j) {
            T x = v.template eval_s<T>(i, j); e2s.add(x); VW_CHECK(x.h == expect[(long)i * dl + j], "eval_s(%d,%d)", i, j);
        }
        fold_trace(rd1, rd2, oob);
        for (int i = 0; i < rd[0]; ++i) for (int j = 0; j + VS <= dl; ++j) {
            auto x = v.template eval<T>(i, j);
            for (int l = 0; l < VS; ++l) { e2v.add(x.value[l]); VW_CHECK(x.value[l].h == expect[(long)i * dl + j + l], "eval(%d,%d) lane %d", i, j, l); }
        }
        nl2 = fold_trace(rd1, rd2, oob);
    } else {
        for (long i = 0; i < n; i += dl) for (int j = 0; j < dl; ++j) {
            T x = v.template eval_s<T>(i, j); e2s.add(x); VW_CHECK(x.h == expect[i + j], "eval_s(%ld,%d)", i, j);
        }
        fold_trace(rd1, rd2, oob);
        for (long i = 0; i < n; i += dl) for (int j = 0; j < dl; ++j) if (i + j + VS <= n) {
            auto x = v.template eval<T>(i, j);
            for (int l = 0; l < VS; ++l) { e2v.add(x.value[l]); VW_CHECK(x.value[l].h == expect[i + j + l], "eval(%ld,%d) lane %d", i, j, l); }
        }
        nl2 = fold_trace(rd1, rd2, oob);
    }
    for (long p = 0; p < n; ++p) {
        auto as = unrowmajor<RK>(rd, p);
        T x = v.template teval_s<T>(as); ts.add(x); VW_CHECK(x.h == expect[p], "teval_s(#%ld)", p);
    }
    fold_trace(rd1, rd2, oob);
    // which lanes a vector `teval` is specified for: inside one row for the load / strided routes,
    // anywhere (continuing into the next rows) for the per-lane gather
    bool gather = false;
    out += view_route(v, VS, rd, gather);
    for (long p = 0; p < n; ++p) {
        auto as = unrowmajor<RK>(rd, p);
        if (gather ? (p + VS > n) : (as[RK - 1] + VS > dl)) continue;
        auto x = v.template teval<T>(as);
        for (int l = 0; l < VS; ++l) { tv.add(x.value[l]); VW_CHECK(x.value[l].h == expect[p + l], "teval(#%ld) lane %d", p, l); }
    }
    nlt = fold_trace(rd1, rd2, oob);
    trace.on = false;
    VW_CHECK(oob == 0, "out-of-window access while probing");
    out = " V=" + std::to_string(VS) + " SZ=" + std::to_string(sz) + " DM=" + dm + " ES=" + hex16(es.h) + " EV=" + hex16(ev.h) + " E2S=" + hex16(e2s.h)
        + " E2V=" + hex16(e2v.h) + " TS=" + hex16(ts.h) + " TV=" + hex16(tv.h) + " NLT=" + std::to_string(nlt) + " NL2=" + std::to_string(nl2) + out
        + " RDP=" + hex16(set_digest(rd1)) + " POOB=" + std::to_string(oob);
}

// one consumer: the result tensor is built in place inside the arena (window 0)
template<typename RT, typename F>
static void consume(const char* tag, F build, const std::vector<uint32_t>& expect, const std::vector<uint32_t>* expect2, Fail& fail, std::string& out) {
    using T = typename RT::scalar_type;
    void* slot = arena_result_slot<RT>(0);
    trace.clear(); trace.on = true;
    RT* r = build(slot);
    trace.on = false;
    auto s = summarise(0, false);
    std::set<long> rd1, rd2; long oob = 0;
    long loads = fold_trace(rd1, rd2, oob);
    const size_t n = expect.size();
    for (size_t p = 0; p < n; ++p) {
        const Poly& got = pool.v[r->data()[p].h];
        Poly want = expect2 ? padd(pmul(pconst(2), pool.v[expect[p]]), pool.v[(*expect2)[p]]) : pool.v[expect[p]];
        VW_CHECK(got == want, "consumer %s result[%zu]=%s", tag, p, pstr(got).substr(0, 60).c_str());
    }
    VW_CHECK(oob == 0, "consumer %s out-of-window access", tag);
    out += std::string(" C") + tag + "=" + hex16(val_digest(r->data(), n)) + " W" + tag + "=" + hex16(s.wseq) + " N" + tag + "=" + std::to_string(s.nw)
         + " L" + tag + "=" + std::to_string(loads) + " R" + tag + "=" + hex16(set_digest(rd1)) + " O" + tag + "=" + std::to_string(oob);
    // drop window 0 again so that the next consumer gets a fresh one
    trace.wins.pop_back();
}

template<typename P, typename... A> static auto slice(P& p, A... a) -> decltype(p(a...)) { return p(a...); }

// parent kinds: an owning Tensor, or a TensorMap over storage in the arena (its views use the generic n-D class at every rank)
template<int PK, typename T, size_t... D> struct Parent {
    using type = Fastor::Tensor<T, D...>;
    static type* make(int win) { return arena_tensor<type>(win); }
};
template<typename T, size_t... D> struct Parent<1, T, D...> {
    using type = Fastor::TensorMap<T, D...>;
    static type* make(int win) {
        size_t n = 1; for (size_t d : {D...}) n *= d;
        T* buf = sym_alloc<T>(win, n);
        return new (arena_raw<type>()) type(buf);
    }
};

template<typename T, int CK, typename KindsT, typename PD, typename RD, int PK = 0> struct DynRunner;
template<typename T, int CK, int... K, size_t... D, size_t... R, int PK>
struct DynRunner<T, CK, Kinds<K...>, Dims<D...>, Dims<R...>, PK> {
    static constexpr size_t RK = sizeof...(D);
    using PT = typename Parent<PK, T, D...>::type;
    using RT = Fastor::Tensor<T, R...>;
    using PRef = typename std::conditional<CK == 1, const PT, PT>::type;

    template<size_t... I>
    static void one(const std::array<Enc,RK>& e, Fastor::std_ext::index_sequence<I...>) {
        const std::array<int,RK> kinds = {K...}, pd = {(int)D...}, rd = {(int)R...};
        const char* cls = PK ? "dynN" : RK == 1 ? "dyn1" : RK == 2 ? "dyn2" : "dynN";
        std::printf("view cfg=%s sz=%d cls=%s ck=%s par=%s K=%s D=%s S=%s", CFGNAME, (int)sizeof(T), cls, CK ? "c" : "n", PK ? "map" : "t", dims_str<RK>(kinds).c_str(), dims_str<RK>(pd).c_str(), seqs_str<RK>(e, kinds).c_str());
        std::fflush(stdout);
        vf::guarded([&] {
            arena.reset(); pool.reset();
            PT* A = Parent<PK, T, D...>::make(1); PT* B = Parent<PK, T, D...>::make(2);
            PRef& a = *A; PRef& b = *B;
            const long n = (long)RT::size();
            std::vector<uint32_t> expect(n), expect2(n);
            for (long p = 0; p < n; ++p) {
                long off = ref_offset<RK>(pd, e, unrowmajor<RK>(rd, p));
                expect[p] = A->data()[off].h; expect2[p] = B->data()[off].h;
            }
            Fail fail; std::string out;
            {
                auto v = slice(a, ArgMaker<K>::make(e[I])...);
                probe<T, RK, RK == 2 && PK == 0>(v, rd, expect, fail, out);
            }
            if (out.find(" ES=") != std::string::npos) {
                consume<RT>("1", [&](void* slot) { return new (slot) RT(slice(a, ArgMaker<K>::make(e[I])...)); }, expect, nullptr, fail, out);
                consume<RT>("2", [&](void* slot) { RT* r = new (slot) RT(); trace.clear(); *r += slice(a, ArgMaker<K>::make(e[I])...); return r; }, expect, nullptr, fail, out);
                consume<RT>("3", [&](void* slot) { return new (slot) RT(T(2) * slice(a, ArgMaker<K>::make(e[I])...) + slice(b, ArgMaker<K>::make(e[I])...)); }, expect, &expect2, fail, out);
            }
            std::printf(" |%s OOB=0 ORACLE=%s", out.c_str(), fail.what.empty() ? "ok" : "FAIL");
            if (!fail.what.empty()) std::printf(" bad=%s", fail.what.c_str());
            std::printf("\n");
        });
    }
    static void run(int smax, size_t cap, uint32_t seed) {
        const std::array<int,RK> kinds = {K...}, pd = {(int)D...}, rd = {(int)R...};
        for (auto& e : combos<RK>(kinds, pd, rd, smax, cap, seed)) one(e, typename Fastor::std_ext::make_index_sequence<RK>::type{});
    }
    // replay of one stored case: `spec` = "f:l:s:i,..." as printed in the S= field
    static void run_one(const char* spec) {
        const std::array<int,RK> kinds = {K...}, pd = {(int)D...};
        std::array<Enc,RK> e; const char* q = spec;
        for (size_t k = 0; k < RK; ++k) {
            int f = 0, l = 0, s = 1, i = 0, used = 0;
            std::sscanf(q, "%d:%d:%d:%d%n", &f, &l, &s, &i, &used); q += used; if (*q == ',') ++q;
            if (kinds[k] == 1) e[k] = {f, 0, 0, f < 0 ? f + pd[k] : f, 1, 1};
            else {
                int nf = f, nl = l;
                if (nf == -1 && nl == 0) { nf = pd[k] - 1; nl = pd[k]; } else { if (nf < 0) nf += pd[k] + 1; if (nl < 0) nl += pd[k] + 1; }
                e[k] = {f, l, s, nf, s, ceil_div(nl - nf, s)};
            }
        }
        one(e, typename Fastor::std_ext::make_index_sequence<RK>::type{});
    }
};

// fixed views: the ranges are template arguments
template<typename T, int CK, typename PD, typename... Fseqs> struct FixRunner;
template<typename T, int CK, size_t... D, typename... Fseqs>
struct FixRunner<T, CK, Dims<D...>, Fseqs...> {
    static constexpr size_t RK = sizeof...(D);
    using PT = Fastor::Tensor<T, D...>;
    using RT = Fastor::Tensor<T, (size_t)Fastor::internal::fseq_range_detector<Fastor::to_positive_t<Fseqs, (int)D>>::value...>;
    using PRef = typename std::conditional<CK == 1, const PT, PT>::type;
    // `int0`: when axis 0 was written as the fixed integer `fix<int0>`, its documented meaning (element int0,
    // negative = counted from the end) is taken from the integer, not from the fseq the library turned it into
    static void run(int int0 = INT32_MIN) {
        const std::array<int,RK> kinds{}, pd = {(int)D...};
        const std::array<int,RK> rd = {(int)Fastor::internal::fseq_range_detector<Fastor::to_positive_t<Fseqs, (int)D>>::value...};
        // documented meaning, computed here from the written (F,L,S) without the library's to_positive
        const std::array<int,RK> F = {Fseqs::_first...}, L = {Fseqs::_last...}, S = {Fseqs::_step...};
        std::array<Enc,RK> e;
        for (size_t k = 0; k < RK; ++k) {
            int f = F[k], l = L[k];
            if (f == -1 && l == 0) { f = pd[k] - 1; l = pd[k]; } else { if (f < 0) f += pd[k] + 1; if (l < 0) l += pd[k] + 1; }
            e[k] = {F[k], L[k], S[k], f, S[k], ceil_div(l - f, S[k])};
            if (k == 0 && int0 != INT32_MIN) { e[k].bf = int0 < 0 ? int0 + pd[k] : int0; e[k].bs = 1; e[k].n = 1; }
        }
        const char* cls = RK == 1 ? "fix1" : RK == 2 ? "fix2" : "fixN";
        std::printf("view cfg=%s sz=%d cls=%s ck=%s D=%s S=%s", CFGNAME, (int)sizeof(T), cls, CK ? "c" : "n", dims_str<RK>(pd).c_str(), seqs_str<RK>(e, kinds).c_str());
        if (int0 != INT32_MIN) std::printf(" I0=%d", int0);
        std::fflush(stdout);
        vf::guarded([&] {
            arena.reset(); pool.reset();
            PT* A = arena_tensor<PT>(1); PT* B = arena_tensor<PT>(2);
            PRef& a = *A; PRef& b = *B;
            const long n = (long)RT::size();
            std::vector<uint32_t> expect(n), expect2(n);
            Fail fail; std::string out;
            bool shape_ok = true;
            for (size_t k = 0; k < RK; ++k) if (rd[k] != e[k].n) { shape_ok = false; VW_CHECK(false, "extent of axis %zu is %d want %d", k, rd[k], e[k].n); }
            if (shape_ok) {
                for (long p = 0; p < n; ++p) {
                    long off = ref_offset<RK>(pd, e, unrowmajor<RK>(rd, p));
                    expect[p] = A->data()[off].h; expect2[p] = B->data()[off].h;
                }
                {
                    auto v = a(Fseqs()...);
                    probe<T, RK, RK == 2>(v, rd, expect, fail, out);
                }
                if (out.find(" ES=") != std::string::npos) {
                    consume<RT>("1", [&](void* slot) { return new (slot) RT(a(Fseqs()...)); }, expect, nullptr, fail, out);
                    consume<RT>("2", [&](void* slot) { RT* r = new (slot) RT(); trace.clear(); *r += a(Fseqs()...); return r; }, expect, nullptr, fail, out);
                    consume<RT>("3", [&](void* slot) { return new (slot) RT(T(2) * a(Fseqs()...) + b(Fseqs()...)); }, expect, &expect2, fail, out);
                }
            }
            std::printf(" |%s OOB=0 ORACLE=%s", out.c_str(), fail.what.empty() ? "ok" : "FAIL");
            if (!fail.what.empty()) std::printf(" bad=%s", fail.what.c_str());
            std::printf("\n");
        });
    }
};

} // namespace vw

#define DIMS(...) vw::Dims<__VA_ARGS__>
#define KINDS(...) vw::Kinds<__VA_ARGS__>
template<typename T, int CK, typename K, typename PD, typename RD>
static void run_view(int smax, size_t cap, unsigned seed) { vw::DynRunner<T, CK, K, PD, RD>::run(smax, cap, seed); }
template<typename T, int CK, typename K, typename PD, typename RD>
static void run_view_one(const char* spec) { vw::DynRunner<T, CK, K, PD, RD>::run_one(spec); }
// the same over a TensorMap parent (non-const only: TensorMap has no const slicing operator)
template<typename T, typename K, typename PD, typename RD>
static void run_mview(int smax, size_t cap, unsigned seed) { vw::DynRunner<T, 0, K, PD, RD, 1>::run(smax, cap, seed); }
template<typename T, typename K, typename PD, typename RD>
static void run_mview_one(const char* spec) { vw::DynRunner<T, 0, K, PD, RD, 1>::run_one(spec); }
template<typename T, int CK, typename PD, typename... Fseqs>
static void run_fix() { vw::FixRunner<T, CK, PD, Fseqs...>::run(); }
// axis 0 written as the fixed integer fix<I0>, the other axes as given
template<typename T, int CK, typename PD, int I0, typename... Fseqs>
static void run_fixi() { vw::FixRunner<T, CK, PD, typename std::remove_cv<decltype(Fastor::fix<I0>)>::type, Fseqs...>::run(I0); }

// ------------------------------------------------------------------------------------------------
// scalar indexing A(i0,...,ik): every index tuple from one below -extent to one above extent-1
// (out-of-range tuples only when the bounds assertion is compiled in)
namespace vw {
template<typename T, int CK, size_t... D> struct SidxRunner {
    static constexpr size_t RK = sizeof...(D);
    using PT = Fastor::Tensor<T, D...>;
    using PRef = typename std::conditional<CK == 1, const PT, PT>::type;
    template<size_t... I> static long at(PRef& a, const std::array<int,RK>& t, Fastor::std_ext::index_sequence<I...>) {
        return (long)(&a(t[I]...) - a.data());
    }
    static void run(size_t cap, uint32_t seed) {
        const std::array<int,RK> pd = {(int)D...};
        arena.reset(); pool.reset();
        PT* A = arena_tensor<PT>(1); PRef& a = *A;
        const bool chk = FASTOR_BOUNDS_CHECK != 0;
        std::array<int,RK> span; size_t total = 1;
        for (size_t k = 0; k < RK; ++k) { span[k] = 2 * pd[k] + (chk ? 2 : 0); total *= span[k]; }
        uint32_t s = seed * 40503u + 977u;
        size_t count = total <= cap ? total : cap;
        for (size_t c = 0; c < count; ++c) {
            size_t id = total <= cap ? c : (((size_t)lcg(s) << 24) + lcg(s)) % total;
            std::array<int,RK> t; bool inr = true; std::array<int,RK> w;
            for (int k = (int)RK - 1; k >= 0; --k) { t[k] = (int)(id % span[k]) - pd[k] - (chk ? 1 : 0); id /= span[k]; }
            for (size_t k = 0; k < RK; ++k) { w[k] = t[k] < 0 ? t[k] + pd[k] : t[k]; if (w[k] < 0 || w[k] >= pd[k]) inr = false; }
            std::string is; for (size_t k = 0; k < RK; ++k) { if (k) is += ","; is += std::to_string(t[k]); }
            std::string got; bool ok;
            try { long off = at(a, t, typename Fastor::std_ext::make_index_sequence<RK>::type{}); got = std::to_string(off); ok = inr && off == rowmajor<RK>(pd, w); }
            catch (const std::exception&) { got = "assert"; ok = !inr; }
            std::printf("sidx cfg=%s ck=%s D=%s I=%s chk=%d | OFF=%s OOB=0 ORACLE=%s\n", CFGNAME, CK ? "c" : "n", dims_str<RK>(pd).c_str(), is.c_str(), chk ? 1 : 0, got.c_str(), ok ? "ok" : "FAIL");
        }
    }
};

// immediate sequences A(iseq<F,L,S>{}...)
template<typename T, typename PD, typename... Iseqs> struct IseqRunner;
template<typename T, size_t... D, typename... Iseqs>
struct IseqRunner<T, Dims<D...>, Iseqs...> {
    static constexpr size_t RK = sizeof...(D);
    using PT = Fastor::Tensor<T, D...>;
    using RT = Fastor::Tensor<T, (size_t)Fastor::range_detector<(int)Iseqs::_first, (int)Iseqs::_last, (int)Iseqs::_step>::value...>;
    // the rank-3 overload also exists for const tensors
    template<size_t R, typename std::enable_if<R == 3, bool>::type = 0>
    static void iseq_const_check(const PT& a, const std::vector<uint32_t>& expect, Fail& fail) {
        RT r(a(Iseqs()...));
        for (size_t p = 0; p < expect.size(); ++p) VW_CHECK(r.data()[p].h == expect[p], "const iseq result[%zu]", p);
    }
    template<size_t R, typename std::enable_if<R != 3, bool>::type = 0>
    static void iseq_const_check(const PT&, const std::vector<uint32_t>&, Fail&) {}
    static void run() {
        const std::array<int,RK> kinds{}, pd = {(int)D...};
        const std::array<int,RK> F = {(int)Iseqs::_first...}, L = {(int)Iseqs::_last...}, S = {(int)Iseqs::_step...};
        std::array<Enc,RK> e; std::array<int,RK> rd;
        for (size_t k = 0; k < RK; ++k) { e[k] = {F[k], L[k], S[k], F[k], S[k], ceil_div(L[k] - F[k], S[k])}; rd[k] = e[k].n; }
        std::printf("iseq cfg=%s sz=%d D=%s S=%s", CFGNAME, (int)sizeof(T), dims_str<RK>(pd).c_str(), seqs_str<RK>(e, kinds).c_str());
        std::fflush(stdout);
        vf::guarded([&] {
            arena.reset(); pool.reset();
            PT* A = arena_tensor<PT>(1);
            const long n = (long)RT::size();
            std::vector<uint32_t> expect(n);
            Fail fail; std::string out;
            long want_n = 1; for (size_t k = 0; k < RK; ++k) want_n *= rd[k];
            VW_CHECK(want_n == n, "result has %ld elements want %ld", n, want_n);
            if (want_n == n) {
                for (long p = 0; p < n; ++p) expect[p] = A->data()[ref_offset<RK>(pd, e, unrowmajor<RK>(rd, p))].h;
                consume<RT>("1", [&](void* slot) { return new (slot) RT((*A)(Iseqs()...)); }, expect, nullptr, fail, out);
                iseq_const_check<RK>(*A, expect, fail);
            }
            std::printf(" | DM=%s%s OOB=0 ORACLE=%s", dims_str<RK>(rd).c_str(), out.c_str(), fail.what.empty() ? "ok" : "FAIL");
            if (!fail.what.empty()) std::printf(" bad=%s", fail.what.c_str());
            std::printf("\n");
        });
    }
};
} // namespace vw
template<typename T, int CK, size_t... D> static void run_sidx(size_t cap, unsigned seed) { vw::SidxRunner<T, CK, D...>::run(cap, seed); }
template<typename T, typename PD, typename... Iseqs> static void run_iseq() { vw::IseqRunner<T, PD, Iseqs...>::run(); }
