// Diagonal views diag(A) (tensor_diag_views.h), read side: flat eval_s / eval and the trivial_assign consumer.
// (The two-index and teval vector forms of the class call a three-argument vector_setter that does not exist;
// they are never instantiated by the library and are not probed.)
#ifdef VW_DIAG_REAL
#include "views_real.h"
#else
#include "views_sym.h"
#endif

#ifndef VW_DIAG_REAL
template<typename T, size_t N>
static void run_diag() {
    using namespace vw;
    std::printf("diag cfg=%s sz=%d n=%zu", CFGNAME, (int)sizeof(T), N); std::fflush(stdout);
    vf::guarded([&] {
        using PT = Fastor::Tensor<T, N, N>; using RT = Fastor::Tensor<T, N>;
        arena.reset(); pool.reset();
        PT* A = arena_tensor<PT>(1);
        std::vector<uint32_t> expect(N);
        for (size_t i = 0; i < N; ++i) expect[i] = A->data()[i * N + i].h;
        Fail fail; std::string out;
        {
            auto v = Fastor::diag(*A);
            using V = typename decltype(v)::simd_vector_type; constexpr int VS = (int)V::Size;
            std::set<long> rd1, rd2; long oob = 0; Acc es, ev;
            trace.clear(); trace.on = true;
            VW_CHECK((size_t)v.size() == N, "size()=%ld", (long)v.size());
            for (long i = 0; i < (long)N; ++i) { T x = v.template eval_s<T>(i); es.add(x); VW_CHECK(x.h == expect[i], "eval_s(%ld)", i); }
            for (long i = 0; i + VS <= (long)N; ++i) {
                auto x = v.template eval<T>(i);
                for (int l = 0; l < VS; ++l) { ev.add(x.value[l]); VW_CHECK(x.value[l].h == expect[i + l], "eval(%ld) lane %d", i, l); }
            }
            fold_trace(rd1, rd2, oob); trace.on = false;
            VW_CHECK(oob == 0, "out-of-window access while probing");
            out = " V=" + std::to_string(VS) + " SZ=" + std::to_string((long)v.size()) + " ES=" + hex16(es.h) + " EV=" + hex16(ev.h) + " RDP=" + hex16(set_digest(rd1));
        }
        consume<RT>("1", [&](void* slot) { return new (slot) RT(Fastor::diag(*A)); }, expect, nullptr, fail, out);
        consume<RT>("2", [&](void* slot) { RT* r = new (slot) RT(); trace.clear(); *r += Fastor::diag(*A); return r; }, expect, nullptr, fail, out);
        std::printf(" |%s OOB=0 ORACLE=%s", out.c_str(), fail.what.empty() ? "ok" : "FAIL");
        if (!fail.what.empty()) std::printf(" bad=%s", fail.what.c_str());
        std::printf("\n");
    });
}
#else
template<typename T, size_t N>
static void run_rdiag() {
    using namespace vw;
    Tensor<T, N, N> A, B; rfill(A, B);
    std::vector<T> expect(N); for (size_t i = 0; i < N; ++i) expect[i] = A.data()[i * N + i];
    RFail fail;
    try {
        auto v = diag(A);
        using V = typename decltype(v)::simd_vector_type; constexpr int VS = (int)V::Size; T buf[64];
        for (long i = 0; i < (long)N; ++i) VR_CHECK(v.template eval_s<T>(i) == expect[i], "eval_s(%ld)", i);
        for (long i = 0; i + VS <= (long)N; ++i) { v.template eval<T>(i).store(buf, false); for (int l = 0; l < VS; ++l) VR_CHECK(buf[l] == expect[i + l], "eval(%ld) lane %d", i, l); }
        { Tensor<T, N> r(diag(A)); rcheck("ctor", r, expect, (const std::vector<T>*)nullptr, fail); }
        { Tensor<T, N> r; r.zeros(); r += diag(A); rcheck("+=", r, expect, (const std::vector<T>*)nullptr, fail); }
        { Tensor<T, N> r; r = diag(A); rcheck("=", r, expect, (const std::vector<T>*)nullptr, fail); }
    } catch (const std::exception& ex) { VR_CHECK(false, "exception %s", ex.what()); }
    std::printf("rdiag cfg=%s T=%s n=%zu | %s", CFGNAME, tn<T>::n(), N, fail.what.empty() ? "ok" : "FAIL");
    if (!fail.what.empty()) std::printf(" %s", fail.what.c_str());
    std::printf("\n");
}
#endif
