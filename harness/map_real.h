// K4 value runs for C20 on the real element types: operations through a TensorMap over a buffer placed at EVERY
// misalignment (0..63 bytes in steps of sizeof(T)) compared with the same operations on a plain array; constructors
// (raw buffer / std::array / std::vector with both layouts, nested initializer lists) and the layout converters.
#include <Fastor/Fastor.h>
#include <cstdio>
#include <cstdint>
#include <cstring>
#include <vector>
#include <array>
#include <string>
#include <unistd.h>
#include <sys/wait.h>
using namespace Fastor;
#ifndef CFGNAME
#define CFGNAME "sse2"
#endif
namespace c20r {
template<typename T> struct tn;
template<> struct tn<float> { static const char* n() { return "float"; } };
template<> struct tn<double> { static const char* n() { return "double"; } };
template<> struct tn<int32_t> { static const char* n() { return "int32"; } };
template<> struct tn<int64_t> { static const char* n() { return "int64"; } };
static inline uint32_t rnd(uint32_t& s) { s = s * 1664525u + 1013904223u; return s >> 8; }
template<class F> static inline void guarded(F f) {
    std::fflush(stdout);
    pid_t p = fork();
    if (p == 0) { f(); std::fflush(stdout); _exit(0); }
    int st = 0; waitpid(p, &st, 0);
    if (!(WIFEXITED(st) && WEXITSTATUS(st) == 0)) { std::printf(" | FAIL crash=%d\n", WIFSIGNALED(st) ? WTERMSIG(st) : -WEXITSTATUS(st)); std::fflush(stdout); }
}
static inline std::vector<size_t> unflat_row(const std::vector<size_t>& d, size_t p) {
    std::vector<size_t> i(d.size()); for (size_t k = d.size(); k-- > 0;) { i[k] = p % d[k]; p /= d[k]; } return i;
}
static inline size_t flat_col(const std::vector<size_t>& d, const std::vector<size_t>& i) {
    size_t p = 0, s = 1; for (size_t k = 0; k < d.size(); ++k) { p += i[k] * s; s *= d[k]; } return p;
}
static inline std::string dimstr(const std::vector<size_t>& d) { std::string s; for (size_t k = 0; k < d.size(); ++k) { if (k) s += "x"; s += std::to_string(d[k]); } return s; }
template<class TensorLike, size_t... I>
static inline auto& at_impl(TensorLike& t, const std::vector<size_t>& i, std::index_sequence<I...>) { return t((int)i[I]...); }
template<class TensorLike> static inline auto& at(TensorLike& t, const std::vector<size_t>& i) { return at_impl(t, i, std::make_index_sequence<TensorLike::dimension_t::value>{}); }

// a fixed program of operations through two maps (shaped and flat) of the same misaligned buffer; values stay small
// integers so that float/double are exact and integers do not overflow
template<typename T, size_t... D>
void run_rmap(unsigned seed) {
    guarded([&]{
        std::vector<size_t> d{D...}; size_t n = 1; for (auto x : d) n *= x;
        std::printf("rmap cfg=%s T=%s dims=%s seed=%u", CFGNAME, tn<T>::n(), dimstr(d).c_str(), seed); std::fflush(stdout);
        long bad = -1; int badmis = -1, badstep = -1;
        for (size_t mis = 0; mis < 64 && bad < 0; mis += sizeof(T)) {
            alignas(64) static unsigned char store[64 * 4 + 4096 * sizeof(T)];
            std::memset(store, 0x5A, sizeof store);
            T* buf = reinterpret_cast<T*>(store + 64 + mis);
            std::vector<T> ref(n);
            uint32_t s = seed * 7919u + (uint32_t)mis;
            Tensor<T,D...> B, C; std::vector<T> rb(n), rc(n);
            for (size_t p = 0; p < n; ++p) { ref[p] = buf[p] = (T)((int)(rnd(s) % 9) - 4); rb[p] = B.data()[p] = (T)((int)(rnd(s) % 5) - 2); rc[p] = C.data()[p] = (T)((int)(rnd(s) % 7) - 3); }
            TensorMap<T,D...> m(buf);
            TensorMap<T,pack_prod<D...>::value> f(buf);
            Tensor<T,pack_prod<D...>::value> Bf, Cf; for (size_t p = 0; p < n; ++p) { Bf.data()[p] = rb[p]; Cf.data()[p] = rc[p]; }
            T sums[2] = {0, 0}, rsums[2] = {0, 0};
            for (int step = 0; step < 10 && bad < 0; ++step) {
                switch (step) {
                    case 0: m += (T)3; for (auto& x : ref) x += (T)3; break;
                    case 1: f *= Bf; for (size_t p = 0; p < n; ++p) ref[p] *= rb[p]; break;
                    case 2: m = m + C * B; for (size_t p = 0; p < n; ++p) ref[p] = ref[p] + rc[p] * rb[p]; break;
                    case 3: { size_t p = rnd(s) % n; at(m, unflat_row(d, p)) = (T)7; ref[p] = (T)7; break; }
                    case 4: f -= (T)2; for (auto& x : ref) x -= (T)2; break;
                    case 5: sums[0] = m.sum(); for (auto x : ref) rsums[0] += x; break;
                    case 6: f = Cf - f; for (size_t p = 0; p < n; ++p) ref[p] = rc[p] - ref[p]; break;
                    case 7: { Tensor<T,D...> r = m * B; for (size_t p = 0; p < n && bad < 0; ++p) if (r.data()[p] != (T)(ref[p] * rb[p])) { bad = (long)p; } break; }
                    case 8: m -= B; for (size_t p = 0; p < n; ++p) ref[p] -= rb[p]; break;
                    default: sums[1] = f.sum(); for (auto x : ref) rsums[1] += x; break;
                }
                for (size_t p = 0; p < n && bad < 0; ++p) if (std::memcmp(&buf[p], &ref[p], sizeof(T)) != 0 && !(buf[p] == ref[p])) bad = (long)p;
                if (bad < 0 && (sums[0] != rsums[0] || sums[1] != rsums[1])) bad = -5;
                // nothing outside the mapped range may change
                for (size_t k = 0; k < 64 + mis && bad < 0; ++k) if (store[k] != 0x5A) bad = -7;
                for (size_t k = 64 + mis + n * sizeof(T); k < 64 + mis + n * sizeof(T) + 128 && bad < 0; ++k) if (store[k] != 0x5A) bad = -8;
                if (bad >= 0 || bad < -1) { badmis = (int)mis; badstep = step; }
            }
        }
        if (bad == -1) std::printf(" | ok\n"); else std::printf(" | FAIL mis=%d step=%d pos=%ld\n", badmis, badstep, bad);
    });
}

// constructors and converters: element k of the input is the number k+1
template<typename T, size_t... D>
void run_rctor(unsigned) {
    guarded([&]{
        std::vector<size_t> d{D...}; size_t n = 1; for (auto x : d) n *= x;
        std::printf("rctor cfg=%s T=%s dims=%s", CFGNAME, tn<T>::n(), dimstr(d).c_str()); std::fflush(stdout);
        std::vector<T> in(n); std::array<T,pack_prod<D...>::value> arr;
        for (size_t p = 0; p < n; ++p) { in[p] = (T)(p + 1); arr[p] = (T)(p + 1); }
        const char* what = nullptr; long pos = -1;
        auto chk = [&](const char* w, const Tensor<T,D...>& t, bool colmajor_input) {
            for (size_t p = 0; p < n && !what; ++p) {
                size_t src = colmajor_input ? flat_col(d, unflat_row(d, p)) : p;
                if (t.data()[p] != in[src] || at(t, unflat_row(d, p)) != in[src]) { what = w; pos = (long)p; }
            }
        };
        chk("ptr", Tensor<T,D...>(in.data()), false);
        chk("ptr-rowmajor", Tensor<T,D...>(in.data(), RowMajor), false);
        chk("ptr-colmajor", Tensor<T,D...>(in.data(), ColumnMajor), true);
        chk("array", Tensor<T,D...>(arr), false);
        chk("array-colmajor", Tensor<T,D...>(arr, ColumnMajor), true);
        chk("vector", Tensor<T,D...>(in), false);
        chk("vector-colmajor", Tensor<T,D...>(in, ColumnMajor), true);
        { Tensor<T,D...> a(in.data());
          chk("tocolumnmajor", tocolumnmajor(a), true);
          chk("torowmajor(tocolumnmajor)", torowmajor(tocolumnmajor(a)), false);
          chk("tocolumnmajor(torowmajor)", tocolumnmajor(torowmajor(a)), false);
          // torowmajor: element (i..) of `a` must sit at the column-major offset of the result
          Tensor<T,D...> r = torowmajor(a);
          for (size_t p = 0; p < n && !what; ++p) if (r.data()[flat_col(d, unflat_row(d, p))] != in[p]) { what = "torowmajor"; pos = (long)p; }
          TensorMap<T,D...> ma(in.data());
          chk("tocolumnmajor(map)", tocolumnmajor(ma), true); }
        if (!what) std::printf(" | ok\n"); else std::printf(" | FAIL %s pos=%ld\n", what, pos);
    });
}
// initializer lists: python writes the braces with the numbers 1..n in reading order
template<typename T, size_t... D, typename F>
void run_rilist(F make) {
    guarded([&]{
        std::vector<size_t> d{D...}; size_t n = 1; for (auto x : d) n *= x;
        std::printf("rilist cfg=%s T=%s dims=%s", CFGNAME, tn<T>::n(), dimstr(d).c_str()); std::fflush(stdout);
        Tensor<T,D...> t = make();
        long pos = -1;
        for (size_t p = 0; p < n && pos < 0; ++p) if (t.data()[p] != (T)(p + 1) || at(t, unflat_row(d, p)) != (T)(p + 1)) pos = (long)p;
        if (pos < 0) std::printf(" | ok\n"); else std::printf(" | FAIL pos=%ld\n", pos);
    });
}

// evaluation-requiring right-hand sides that read the map they are assigned to: the same statement on an owning tensor
// holding the same values and a plain-loop reference.  N x N, misaligned buffer.  MM = false: lazy transposes (statements
// 0..4), MM = true: lazy products (5, 6) — separate instantiations, so that a tree that rejects one family at compile time
// is still judged on the other.
template<bool MM> struct Staged;
template<> struct Staged<false> {
    static constexpr int first = 0, last = 5;
    template<class M_, class O_, class B_> static const char* run(int stmt, M_& m, O_& O, const B_& B) {
        switch (stmt) {
            case 0: m = B + trans(m); O = B + trans(O); return "m=B+trans(m)";
            case 1: m = B - trans(m); O = B - trans(O); return "m=B-trans(m)";
            case 2: m = m + trans(m); O = O + trans(O); return "m=m+trans(m)";
            case 3: m += trans(m); O += trans(O); return "m+=trans(m)";
            default: m = trans(m); O = trans(O); return "m=trans(m)";
        }
    }
};
template<> struct Staged<true> {
    static constexpr int first = 5, last = 7;
    template<class M_, class O_, class B_> static const char* run(int stmt, M_& m, O_& O, const B_& B) {
        switch (stmt) {
            case 5: m = B % m; O = B % O; return "m=B%m";
            default: m = B + B % m; O = B + B % O; return "m=B+B%m";
        }
    }
};
template<typename T, size_t N, bool MM>
void run_rstaged(unsigned seed) {
    guarded([&]{
        std::printf("rstaged cfg=%s T=%s n=%zu mm=%d seed=%u", CFGNAME, tn<T>::n(), N, (int)MM, seed); std::fflush(stdout);
        const char* what = nullptr; long pos = -1; const char* who = "";
        for (int stmt = Staged<MM>::first; stmt < Staged<MM>::last && !what; ++stmt) {
            alignas(64) static unsigned char store[64 * 4 + 1024 * sizeof(T)];
            std::memset(store, 0, sizeof store);
            T* buf = reinterpret_cast<T*>(store + 64 + sizeof(T) * (1 + (seed + stmt) % 7));
            uint32_t s = seed * 2654435761u + (uint32_t)stmt;
            Tensor<T,N,N> B, O; std::vector<T> x(N * N), b(N * N), want(N * N);
            for (size_t p = 0; p < N * N; ++p) { x[p] = buf[p] = O.data()[p] = (T)((int)(rnd(s) % 7) - 3); b[p] = B.data()[p] = (T)((int)(rnd(s) % 5) - 2); }
            TensorMap<T,N,N> m(buf);
            auto X = [&](size_t i, size_t j) { return x[i * N + j]; };
            auto Bv = [&](size_t i, size_t j) { return b[i * N + j]; };
            for (size_t i = 0; i < N; ++i) for (size_t j = 0; j < N; ++j) {
                T mm = 0; for (size_t k = 0; k < N; ++k) mm += Bv(i, k) * X(k, j);
                T w;
                switch (stmt) {
                    case 0: w = Bv(i, j) + X(j, i); break;
                    case 1: w = Bv(i, j) - X(j, i); break;
                    case 2: w = X(i, j) + X(j, i); break;
                    case 3: w = X(i, j) + X(j, i); break;
                    case 4: w = X(j, i); break;
                    case 5: w = mm; break;
                    default: w = Bv(i, j) + mm; break;
                }
                want[i * N + j] = w;
            }
            const char* name = Staged<MM>::run(stmt, m, O, B);
            for (size_t p = 0; p < N * N && !what; ++p) {
                if (buf[p] != want[p]) { what = name; pos = (long)p; who = "map"; }
                else if (O.data()[p] != want[p]) { what = name; pos = (long)p; who = "owning"; }
            }
        }
        if (!what) std::printf(" | ok\n"); else std::printf(" | FAIL stmt=%s through=%s pos=%ld\n", what, who, pos);
    });
}
} // namespace c20r
using c20r::run_rmap; using c20r::run_rctor; using c20r::run_rilist; using c20r::run_rstaged;
