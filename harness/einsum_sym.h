// Symbolic correspondence harness for pairwise einsum / contraction (C03).
#include <Fastor/Fastor.h>
#include "simd_sym.h"
#include "hutil.h"
#include "tensor_arena.h"
#include <vector>
#include <string>
using namespace vf;
#ifndef CFGNAME
#define CFGNAME "sse2"
#endif
static bool g_verbose = false;

template<size_t... v> static std::string joinv() { size_t a[] = {v..., 0}; std::string s; for (size_t i = 0; i < sizeof...(v); ++i) { if (i) s += ","; s += std::to_string(a[i]); } return s.empty() ? "-" : s; }
template<size_t... v> static std::vector<size_t> vecv() { size_t a[] = {v..., 0}; return std::vector<size_t>(a, a + sizeof...(v)); }
template<typename TensorT> struct dims_of;
template<typename T, size_t... R> struct dims_of<Fastor::Tensor<T,R...>> { static std::string str() { return joinv<R...>(); } static std::vector<size_t> vec() { return vecv<R...>(); } };

static std::vector<size_t> row_strides(const std::vector<size_t>& d) { std::vector<size_t> s(d.size(), 1); for (int i = (int)d.size() - 2; i >= 0; --i) s[i] = s[i + 1] * d[i + 1]; return s; }

// naive Einstein summation over exact polynomials: out(free) = sum over all assignments of the index names
static std::vector<Poly> einstein_ref(const std::vector<size_t>& I, const std::vector<size_t>& J, const std::vector<size_t>& dI, const std::vector<size_t>& dJ,
                                      std::vector<size_t>& resDims, int winA, int winB) {
    std::vector<size_t> cat(I); cat.insert(cat.end(), J.begin(), J.end());
    std::vector<size_t> cd(dI); cd.insert(cd.end(), dJ.begin(), dJ.end());
    std::vector<size_t> names, ndim;
    for (size_t k = 0; k < cat.size(); ++k) if (std::find(names.begin(), names.end(), cat[k]) == names.end()) { names.push_back(cat[k]); ndim.push_back(cd[k]); }
    std::vector<size_t> freeNames; resDims.clear();
    for (size_t k = 0; k < cat.size(); ++k) if (std::count(cat.begin(), cat.end(), cat[k]) == 1) { freeNames.push_back(cat[k]); resDims.push_back(cd[k]); }
    size_t nout = 1; for (auto d : resDims) nout *= d;
    std::vector<Poly> out(nout);
    auto sI = row_strides(dI), sJ = row_strides(dJ), sO = row_strides(resDims);
    std::vector<size_t> as(names.size(), 0);
    auto val = [&](size_t name) { return as[std::find(names.begin(), names.end(), name) - names.begin()]; };
    size_t total = 1; for (auto d : ndim) total *= d;
    for (size_t it = 0; it < total; ++it) {
        size_t r = it; for (int k = (int)names.size() - 1; k >= 0; --k) { as[k] = r % ndim[k]; r /= ndim[k]; }
        size_t ia = 0, ib = 0, io = 0;
        for (size_t k = 0; k < I.size(); ++k) ia += sI[k] * val(I[k]);
        for (size_t k = 0; k < J.size(); ++k) ib += sJ[k] * val(J[k]);
        for (size_t k = 0; k < freeNames.size(); ++k) io += sO[k] * val(freeNames[k]);
        out[io] = padd(out[io], pmul(ptok(mktok(winA, ia)), ptok(mktok(winB, ib))));
    }
    return out;
}

template<typename T, typename IndI, typename IndJ, typename TA, typename TB> struct einsum_case;
template<typename T, size_t... I, size_t... J, size_t... DA, size_t... DB>
struct einsum_case<T, Fastor::Index<I...>, Fastor::Index<J...>, Fastor::Tensor<T,DA...>, Fastor::Tensor<T,DB...>> {
    static void run() { vf::guarded([]{ run_inner(); }); }
    static void run_inner() {
        using namespace Fastor;
        using TA = Tensor<T,DA...>; using TB = Tensor<T,DB...>;
        using R = decltype(einsum<Index<I...>,Index<J...>>(std::declval<const TA&>(), std::declval<const TB&>()));
        std::printf("einsum cfg=%s sz=%d I=%s J=%s dI=%s dJ=%s", CFGNAME, (int)sizeof(T), joinv<I...>().c_str(), joinv<J...>().c_str(),
            joinv<DA...>().c_str(), joinv<DB...>().c_str());
        std::fflush(stdout);
        arena.reset(); pool.reset();
        TA* a = arena_tensor<TA>(1);
        TB* b = arena_tensor<TB>(2);
        void* slot = arena_result_slot<R>(0);
        vf::trace.clear(); vf::trace.on = true;
        R* out = new (slot) R(einsum<Index<I...>,Index<J...>>(*a, *b));
        vf::trace.on = false;
        auto s = summarise(0, g_verbose);
        std::vector<size_t> resDims;
        auto ref = einstein_ref(vecv<I...>(), vecv<J...>(), vecv<DA...>(), vecv<DB...>(), resDims, 1, 2);
        bool ok = (ref.size() == (size_t)out->size());
        long bad = -1;
        for (size_t k = 0; ok && k < ref.size(); ++k) if (ref[k] != pool.v[out->data()[k].h]) { ok = false; bad = k; }
        std::string rd; for (size_t k = 0; k < resDims.size(); ++k) { if (k) rd += ","; rd += std::to_string(resDims[k]); } if (rd.empty()) rd = "-";
        ok = ok && (rd == dims_of<R>::str());
#ifndef FASTOR_DONT_VECTORISE
        int V = is_vectorisable<Index<I...>,Index<J...>,TB>::stride;
#else
        int V = 1;
#endif
        std::printf(" | DIMS=%s V=%d VAL=%s WSEQ=%s NW=%ld RDA=%s RDB=%s ALN=%ld OOB=%ld ORACLE=%s",
            dims_of<R>::str().c_str(), V, hex16(val_digest(out->data(), out->size())).c_str(), hex16(s.wseq).c_str(), s.nw,
            hex16(set_digest(s.reads[1])).c_str(), hex16(set_digest(s.reads[2])).c_str(), s.aligned, s.oob, ok ? "ok" : "FAIL");
        if (!ok) std::printf(" bad=%ld refdims=%s", bad, rd.c_str());
        if (g_verbose) std::printf(" W=[%s]", s.wlist.c_str());
        std::printf("\n");
    }
};
#define VFC ,
#define EINSUM_CASE(T, I, J, DA, DB) einsum_case<T, Fastor::Index<I>, Fastor::Index<J>, Fastor::Tensor<T,DA>, Fastor::Tensor<T,DB>>::run()

#ifdef FASTOR_DONT_PERFORM_OP_MIN
#define VF_OPMIN " opmin=0"
#else
#define VF_OPMIN ""
#endif
// ---- multi-operand einsum (C15) -------------------------------------------------------------
struct OpDesc { std::vector<size_t> idx, dims; int win; };
static std::vector<Poly> einstein_ref_n(const std::vector<OpDesc>& ops, std::vector<size_t>& resDims) {
    std::vector<size_t> cat, cd;
    for (auto& o : ops) { cat.insert(cat.end(), o.idx.begin(), o.idx.end()); cd.insert(cd.end(), o.dims.begin(), o.dims.end()); }
    std::vector<size_t> names, ndim;
    for (size_t k = 0; k < cat.size(); ++k) if (std::find(names.begin(), names.end(), cat[k]) == names.end()) { names.push_back(cat[k]); ndim.push_back(cd[k]); }
    std::vector<size_t> freeNames; resDims.clear();
    for (size_t k = 0; k < cat.size(); ++k) if (std::count(cat.begin(), cat.end(), cat[k]) == 1) { freeNames.push_back(cat[k]); resDims.push_back(cd[k]); }
    size_t nout = 1; for (auto d : resDims) nout *= d;
    std::vector<Poly> out(nout);
    auto sO = row_strides(resDims);
    std::vector<size_t> as(names.size(), 0);
    auto val = [&](size_t name) { return as[std::find(names.begin(), names.end(), name) - names.begin()]; };
    size_t total = 1; for (auto d : ndim) total *= d;
    for (size_t it = 0; it < total; ++it) {
        size_t r = it; for (int k = (int)names.size() - 1; k >= 0; --k) { as[k] = r % ndim[k]; r /= ndim[k]; }
        Poly term = pconst(1);
        for (auto& o : ops) { auto s = row_strides(o.dims); size_t off = 0; for (size_t k = 0; k < o.idx.size(); ++k) off += s[k] * val(o.idx[k]); term = pmul(term, ptok(mktok(o.win, off))); }
        size_t io = 0; for (size_t k = 0; k < freeNames.size(); ++k) io += sO[k] * val(freeNames[k]);
        out[io] = padd(out[io], term);
    }
    return out;
}
template<typename R> static void finish_n(const char* tag, const R& out, const std::vector<OpDesc>& ops, int variant) {
    std::vector<size_t> resDims;
    auto ref = einstein_ref_n(ops, resDims);
    bool ok = (ref.size() == (size_t)out.size()); long bad = -1;
    for (size_t k = 0; ok && k < ref.size(); ++k) if (ref[k] != pool.v[out.data()[k].h]) { ok = false; bad = k; }
    std::string rd; for (size_t k = 0; k < resDims.size(); ++k) { if (k) rd += ","; rd += std::to_string(resDims[k]); } if (rd.empty()) rd = "-";
    ok = ok && (rd == dims_of<R>::str());
    std::printf(" | VAR=%d DIMS=%s VAL=%s ORACLE=%s", variant, dims_of<R>::str().c_str(), hex16(val_digest(out.data(), out.size())).c_str(), ok ? "ok" : "FAIL");
    if (!ok) std::printf(" bad=%ld refdims=%s", bad, rd.c_str());
    std::printf("\n");
}
template<typename T, typename I0, typename I1, typename I2, typename T0, typename T1, typename T2> struct einsum3_case;
template<typename T, size_t... I0, size_t... I1, size_t... I2, size_t... D0, size_t... D1, size_t... D2>
struct einsum3_case<T, Fastor::Index<I0...>, Fastor::Index<I1...>, Fastor::Index<I2...>, Fastor::Tensor<T,D0...>, Fastor::Tensor<T,D1...>, Fastor::Tensor<T,D2...>> {
    static void run() { vf::guarded([]{ run_inner(); }); }
    static void run_inner() {
        using namespace Fastor;
        std::printf("einsumn n=3" VF_OPMIN " I0=%s d0=%s I1=%s d1=%s I2=%s d2=%s", joinv<I0...>().c_str(), joinv<D0...>().c_str(), joinv<I1...>().c_str(), joinv<D1...>().c_str(),
                    joinv<I2...>().c_str(), joinv<D2...>().c_str());
        std::fflush(stdout);
        arena.reset(); pool.reset();
        auto* a = arena_tensor<Tensor<T,D0...>>(1); auto* b = arena_tensor<Tensor<T,D1...>>(2); auto* c = arena_tensor<Tensor<T,D2...>>(3);
        auto out = einsum<Index<I0...>,Index<I1...>,Index<I2...>>(*a, *b, *c);
#ifndef FASTOR_DONT_PERFORM_OP_MIN
        int variant = triplet_flop_cost<Index<I0...>,Index<I1...>,Index<I2...>,Tensor<T,D0...>,Tensor<T,D1...>,Tensor<T,D2...>>::which_variant;
#else
        int variant = -1;
#endif
        finish_n("3", out, {{vecv<I0...>(), vecv<D0...>(), 1}, {vecv<I1...>(), vecv<D1...>(), 2}, {vecv<I2...>(), vecv<D2...>(), 3}}, variant);
    }
};
template<typename T, typename I0, typename I1, typename I2, typename I3, typename T0, typename T1, typename T2, typename T3> struct einsum4_case;
template<typename T, size_t... I0, size_t... I1, size_t... I2, size_t... I3, size_t... D0, size_t... D1, size_t... D2, size_t... D3>
struct einsum4_case<T, Fastor::Index<I0...>, Fastor::Index<I1...>, Fastor::Index<I2...>, Fastor::Index<I3...>,
                    Fastor::Tensor<T,D0...>, Fastor::Tensor<T,D1...>, Fastor::Tensor<T,D2...>, Fastor::Tensor<T,D3...>> {
    static void run() { vf::guarded([]{ run_inner(); }); }
    static void run_inner() {
        using namespace Fastor;
        std::printf("einsumn n=4" VF_OPMIN " I0=%s d0=%s I1=%s d1=%s I2=%s d2=%s I3=%s d3=%s", joinv<I0...>().c_str(), joinv<D0...>().c_str(), joinv<I1...>().c_str(), joinv<D1...>().c_str(),
                    joinv<I2...>().c_str(), joinv<D2...>().c_str(), joinv<I3...>().c_str(), joinv<D3...>().c_str());
        std::fflush(stdout);
        arena.reset(); pool.reset();
        auto* a = arena_tensor<Tensor<T,D0...>>(1); auto* b = arena_tensor<Tensor<T,D1...>>(2); auto* c = arena_tensor<Tensor<T,D2...>>(3); auto* d = arena_tensor<Tensor<T,D3...>>(4);
        auto out = einsum<Index<I0...>,Index<I1...>,Index<I2...>,Index<I3...>>(*a, *b, *c, *d);
#ifndef FASTOR_DONT_PERFORM_OP_MIN
        int variant = quartet_flop_cost<Index<I0...>,Index<I1...>,Index<I2...>,Index<I3...>,Tensor<T,D0...>,Tensor<T,D1...>,Tensor<T,D2...>,Tensor<T,D3...>>::which_variant;
#else
        int variant = -1;
#endif
        finish_n("4", out, {{vecv<I0...>(), vecv<D0...>(), 1}, {vecv<I1...>(), vecv<D1...>(), 2}, {vecv<I2...>(), vecv<D2...>(), 3}, {vecv<I3...>(), vecv<D3...>(), 4}}, variant);
    }
};
#define EINSUM3_CASE(T, I0, I1, I2, D0, D1, D2) einsum3_case<T, Fastor::Index<I0>, Fastor::Index<I1>, Fastor::Index<I2>, Fastor::Tensor<T,D0>, Fastor::Tensor<T,D1>, Fastor::Tensor<T,D2>>::run()
#define EINSUM4_CASE(T, I0, I1, I2, I3, D0, D1, D2, D3) einsum4_case<T, Fastor::Index<I0>, Fastor::Index<I1>, Fastor::Index<I2>, Fastor::Index<I3>, Fastor::Tensor<T,D0>, Fastor::Tensor<T,D1>, Fastor::Tensor<T,D2>, Fastor::Tensor<T,D3>>::run()
