// Real-element-type runs for C14 (K4): the backend `_transpose<T,M,N>` with its intrinsic leaf kernels
// (float/double 2x2, 3x3, 4x4, 8x8, 16x16 — pure lane permutations) and the register-blocked nest on
// buffers placed flush against inaccessible pages (any load or store outside [0, M*N) faults), the public
// transpose / trans / ctrans / permute / permutation entry points on Tensors, each against a plain loop.
// Every case runs in a forked child: a fault is reported as a failing case.
// Lines:  <case k=v ...> | ok      or      <case k=v ...> | FAIL <detail>
#include <Fastor/Fastor.h>
#include <cstdio>
#include <cstdint>
#include <cstring>
#include <complex>
#include <array>
#include <string>
#include <sys/mman.h>
#include <sys/wait.h>
#include <unistd.h>
#ifndef CFGNAME
#define CFGNAME "sse2"
#endif
#if FASTOR_CXX_VERSION >= 2017
#define VR_STD 17
#else
#define VR_STD 14
#endif
#ifdef FASTOR_TRANS_OUTER_BLOCK_SIZE
#define VR_NR FASTOR_TRANS_OUTER_BLOCK_SIZE
#else
#define VR_NR 1
#endif
#ifdef FASTOR_TRANS_INNER_BLOCK_SIZE
#define VR_NC FASTOR_TRANS_INNER_BLOCK_SIZE
#else
#define VR_NC 1
#endif
#ifndef VR_TAG
#define VR_TAG ""
#endif

namespace vr {

template<typename T> struct tname;
template<> struct tname<float> { static const char* s() { return "float"; } };
template<> struct tname<double> { static const char* s() { return "double"; } };
template<> struct tname<int32_t> { static const char* s() { return "int32_t"; } };
template<> struct tname<int64_t> { static const char* s() { return "int64_t"; } };
template<> struct tname<std::complex<double>> { static const char* s() { return "cdouble"; } };
template<> struct tname<std::complex<float>> { static const char* s() { return "cfloat"; } };

// pairwise distinct, exactly representable values
template<typename T> struct mk { static T at(size_t k, unsigned seed) { return (T)((long)(k * 3 + 1 + seed % 7) * ((k + seed) % 2 ? -1 : 1)); } };
template<typename R> struct mk<std::complex<R>> {
    static std::complex<R> at(size_t k, unsigned seed) { return std::complex<R>((R)(long)(k + 1 + seed % 5), (R)(-(long)(2 * k + 3))); }
};
template<typename T> static inline T cj(const T& x) { return x; }
template<typename R> static inline std::complex<R> cj(const std::complex<R>& x) { return std::conj(x); }
template<typename T> static inline bool same(const T& a, const T& b) { return std::memcmp(&a, &b, sizeof(T)) == 0; }

template<class F> static inline void guarded(F f) {
    std::fflush(stdout);
    pid_t p = fork();
    if (p == 0) { f(); std::fflush(stdout); _exit(0); }
    int st = 0; waitpid(p, &st, 0);
    if (!(WIFEXITED(st) && WEXITSTATUS(st) == 0)) {
        std::printf(" | FAIL crash signal=%d (access outside the buffers faults: they are placed against inaccessible pages)\n",
                    WIFSIGNALED(st) ? WTERMSIG(st) : -WEXITSTATUS(st));
        std::fflush(stdout);
    }
}

// n elements of T; place 0: the buffer ends exactly at an inaccessible page, place 1: it starts right after one
template<typename T> static T* fenced(size_t n, int place) {
    const size_t pg = 4096;
    size_t bytes = n * sizeof(T);
    size_t pages = (bytes + pg - 1) / pg + 1;
    char* base = (char*)mmap(nullptr, (pages + 2) * pg, PROT_READ | PROT_WRITE, MAP_PRIVATE | MAP_ANONYMOUS, -1, 0);
    if (base == MAP_FAILED) { std::perror("mmap"); std::abort(); }
    std::memset(base, 0x5A, (pages + 2) * pg);
    mprotect(base, pg, PROT_NONE);
    mprotect(base + (pages + 1) * pg, pg, PROT_NONE);
    return place == 0 ? (T*)(base + (pages + 1) * pg - bytes) : (T*)(base + pg);
}

} // namespace vr

// the backend on exactly sized fenced buffers
template<typename T, size_t M, size_t N>
void run_treal(unsigned seed, int place) {
    {
        std::printf("treal cfg=%s%s std=%d T=%s M=%zu N=%zu nr=%d nc=%d place=%s seed=%u", CFGNAME, VR_TAG, VR_STD, vr::tname<T>::s(), M, N,
                    (int)VR_NR, (int)VR_NC, place ? "start" : "end", seed);
        vr::guarded([&]{
            T* a = vr::fenced<T>(M * N, place);
            T* out = vr::fenced<T>(M * N, place);
            for (size_t k = 0; k < M * N; ++k) a[k] = vr::mk<T>::at(k, seed);
            Fastor::_transpose<T,M,N>(a, out);
            for (size_t i = 0; i < M; ++i) for (size_t j = 0; j < N; ++j)
                if (!vr::same(out[j*M+i], a[i*N+j])) { std::printf(" | FAIL out[%zu] (row %zu col %zu of the result) differs from a[%zu]\n", j*M+i, j, i, i*N+j); return; }
            for (size_t k = 0; k < M * N; ++k) if (!vr::same(a[k], vr::mk<T>::at(k, seed))) { std::printf(" | FAIL input modified at %zu\n", k); return; }
            std::printf(" | ok\n");
        });
    }
}

namespace vr {
template<int API> struct TCall;
template<> struct TCall<1> { template<class TA, class TR, class T> static void go(const TA& A, const TA&, TR& R, T*&) { R = Fastor::transpose(A); } };
template<> struct TCall<2> { template<class TA, class TR, class T> static void go(const TA& A, const TA&, TR& R, T*&) { R = Fastor::trans(A); } };
template<> struct TCall<3> { template<class TA, class TR, class T> static void go(const TA& A, const TA& B, TR& R, T*&) { R = Fastor::transpose(A + B); } };
template<> struct TCall<4> { template<class TA, class TR, class T> static void go(const TA& A, const TA&, TR& R, T*&) { R = Fastor::ctranspose(A); } };
template<> struct TCall<5> { template<class TA, class TR, class T> static void go(const TA& A, const TA&, TR& R, T*&) { R = Fastor::ctrans(A); } };
template<> struct TCall<7> { template<class TA, class TR, class T> static void go(const TA& A, const TA&, TR& R, T*&) { R += Fastor::trans(A); } };
template<> struct TCall<8> { template<class TA, class TR, class T> static void go(const TA& A, const TA&, TR& R, T*&) { R -= Fastor::trans(A); } };
template<> struct TCall<9> { template<class TA, class TR, class T> static void go(const TA& A, const TA&, TR& R, T*&) { R *= Fastor::trans(A); } };
template<> struct TCall<10> { template<class TA, class TR, class T> static void go(const TA& A, const TA&, TR& R, T*&) { R += Fastor::ctrans(A); } };
template<> struct TCall<11> { template<class TA, class TR, class T> static void go(const TA& A, const TA&, TR& R, T*&) { R -= Fastor::ctrans(A); } };
template<> struct TCall<12> { template<class TA, class TR, class T> static void go(const TA& A, const TA&, TR& R, T*&) { R *= Fastor::ctrans(A); } };
template<> struct TCall<6> { template<class TA, class TR, class T> static void go(const TA& A, const TA&, TR& R, T*& res) {
    res = fenced<T>((size_t)R.size(), 0); Fastor::TensorMap<T, Fastor::get_tensor_dimensions<TR>::dims[0], Fastor::get_tensor_dimensions<TR>::dims[1]> dst(res); dst = Fastor::trans(A); } };
}

// public entry points on tensors.  API 1 transpose(A), 2 Tensor = trans(A), 3 transpose(A+B), 4 ctranspose(A), 5 Tensor = ctrans(A),
// 6 TensorMap over a fenced buffer = trans(A) (the destination has exactly N*M elements)
template<typename T, size_t M, size_t N, int API>
void run_tapi(unsigned seed) {
    using namespace Fastor;
    static const char* names[] = {"", "transpose", "trans", "transpose_expr", "ctranspose", "ctrans", "map_trans",
                                  "add_trans", "sub_trans", "mul_trans", "add_ctrans", "sub_ctrans", "mul_ctrans"};
    std::printf("tapi cfg=%s%s std=%d T=%s M=%zu N=%zu nr=%d nc=%d api=%s seed=%u", CFGNAME, VR_TAG, VR_STD, vr::tname<T>::s(), M, N, (int)VR_NR, (int)VR_NC, names[API], seed);
    vr::guarded([&]{
        Tensor<T,M,N> A, B;
        for (size_t k = 0; k < M * N; ++k) { A.data()[k] = vr::mk<T>::at(k, seed); B.data()[k] = vr::mk<T>::at(k + 7, seed + 1); }
        Tensor<T,N,M> R, R0; T* res = R.data();
        for (size_t k = 0; k < M * N; ++k) { R.data()[k] = vr::mk<T>::at(k + 11, seed + 3); R0.data()[k] = R.data()[k]; }
        vr::TCall<API>::go(A, B, R, res);
        for (size_t i = 0; i < M; ++i) for (size_t j = 0; j < N; ++j) {
            T want = A.data()[i*N+j];
            if (API == 3) want = want + B.data()[i*N+j];
            if (API == 4 || API == 5 || API >= 10) want = vr::cj(want);
            if (API == 7 || API == 10) want = R0.data()[j*M+i] + want;
            if (API == 8 || API == 11) want = R0.data()[j*M+i] - want;
            if (API == 9 || API == 12) want = R0.data()[j*M+i] * want;
            if (!vr::same(res[j*M+i], want)) { std::printf(" | FAIL result(%zu,%zu) differs\n", j, i); return; }
        }
        std::printf(" | ok\n");
    });
}

// transpose of the last two (equal) extents of a higher-order tensor
template<typename T, size_t B0, size_t J>
void run_tbatch(unsigned seed) {
    using namespace Fastor;
    std::printf("tbatch cfg=%s%s std=%d T=%s B=%zu J=%zu seed=%u", CFGNAME, VR_TAG, VR_STD, vr::tname<T>::s(), B0, J, seed);
    vr::guarded([&]{
        Tensor<T,B0,J,J> A;
        for (size_t k = 0; k < B0 * J * J; ++k) A.data()[k] = vr::mk<T>::at(k, seed);
        Tensor<T,B0,J,J> R = transpose(A);
        for (size_t b = 0; b < B0; ++b) for (size_t i = 0; i < J; ++i) for (size_t j = 0; j < J; ++j)
            if (!vr::same(R.data()[b*J*J + j*J + i], A.data()[b*J*J + i*J + j])) { std::printf(" | FAIL block %zu (%zu,%zu)\n", b, j, i); return; }
        std::printf(" | ok\n");
    });
}

namespace vr {
template<int KIND, int EX> struct PCall;
template<> struct PCall<0,0> { template<class Idx, class TA> static auto go(const TA& A, const TA&) { return Fastor::permute<Idx>(A); } };
template<> struct PCall<0,1> { template<class Idx, class TA> static auto go(const TA& A, const TA& B) { return Fastor::permute<Idx>(A + B); } };
template<> struct PCall<1,0> { template<class Idx, class TA> static auto go(const TA& A, const TA&) { return Fastor::permutation<Idx>(A); } };
template<> struct PCall<1,1> { template<class Idx, class TA> static auto go(const TA& A, const TA& B) { return Fastor::permutation<Idx>(A + B); } };
}

// permute (KIND 0) / legacy permutation (KIND 1) of a tensor (EX 0) or of the expression A+B (EX 1), then the round trip
template<typename T, int KIND, int EX, class Idx, class InvIdx, size_t... D>
void run_preal(unsigned seed) {
    using namespace Fastor;
    constexpr size_t N = sizeof...(D);
    std::array<size_t,N> d = {D...}, p{}, q{};
    for (size_t k = 0; k < N; ++k) { p[k] = Idx::values[k]; q[p[k]] = k; }
    std::string ps, ds; for (size_t k = 0; k < N; ++k) { ps += (k ? "," : "") + std::to_string(p[k]); ds += (k ? "," : "") + std::to_string(d[k]); }
    std::printf("preal cfg=%s%s std=%d T=%s kind=%s ex=%d p=%s dims=%s seed=%u", CFGNAME, VR_TAG, VR_STD, vr::tname<T>::s(), KIND ? "legacy" : "new", EX, ps.c_str(), ds.c_str(), seed);
    vr::guarded([&]{
        using TA = Tensor<T,D...>;
        TA A, B;
        for (size_t k = 0; k < (size_t)A.size(); ++k) { A.data()[k] = vr::mk<T>::at(k, seed); B.data()[k] = vr::mk<T>::at(k + 3, seed + 2); }
        auto R = vr::PCall<KIND,EX>::template go<Idx>(A, B);
        using RT = decltype(R);
        std::array<size_t,N> od{}; for (size_t k = 0; k < N; ++k) od[k] = get_tensor_dimensions<RT>::dims[k];
        const std::array<size_t,N>& use = KIND ? q : p;     // the legacy function permutes by the inverse
        for (size_t n = 0; n < N; ++n) if (od[n] != d[use[n]]) { std::printf(" | FAIL extent %zu is %zu, expected %zu\n", n, od[n], d[use[n]]); return; }
        std::array<size_t,N> i{};
        while (true) {
            size_t fa = 0, fo = 0;
            for (size_t k = 0; k < N; ++k) { fa = fa * d[k] + i[k]; fo = fo * od[k] + i[use[k]]; }
            T want = A.data()[fa]; if (EX) want = want + B.data()[fa];
            if (!vr::same(R.data()[fo], want)) { std::printf(" | FAIL result offset %zu (source offset %zu)\n", fo, fa); return; }
            int k = (int)N - 1;
            for (; k >= 0; --k) { if (++i[k] < d[k]) break; i[k] = 0; }
            if (k < 0) break;
        }
        // round trip with the inverse pack: bit for bit the argument (for EX=1: of the evaluated sum)
        decltype(R) Z; for (size_t k = 0; k < (size_t)Z.size(); ++k) Z.data()[k] = T(0);
        auto R2 = vr::PCall<KIND,EX>::template go<InvIdx>(R, Z);
        for (size_t k = 0; k < (size_t)A.size(); ++k) {
            T want = A.data()[k]; if (EX) want = want + B.data()[k];
            if (!vr::same(R2.data()[k], want)) { std::printf(" | FAIL round trip differs at %zu\n", k); return; }
        }
        std::printf(" | ok\n");
    });
}

// the overloads for expressions that must be evaluated first: permute / permutation of trans(A) (requires_evaluation),
// and conjugate transposition of the last two extents of a higher-order tensor
template<typename T, int KIND, size_t M, size_t N>
void run_peval(unsigned seed) {
    using namespace Fastor;
    std::printf("peval cfg=%s%s std=%d T=%s kind=%s M=%zu N=%zu seed=%u", CFGNAME, VR_TAG, VR_STD, vr::tname<T>::s(), KIND ? "legacy" : "new", M, N, seed);
    vr::guarded([&]{
        Tensor<T,M,N> A;
        for (size_t k = 0; k < M * N; ++k) A.data()[k] = vr::mk<T>::at(k, seed);
        Tensor<T,M,N> R = vr::PCall<KIND,0>::template go<Index<1,0>>(trans(A), trans(A));
        for (size_t k = 0; k < M * N; ++k) if (!vr::same(R.data()[k], A.data()[k])) { std::printf(" | FAIL offset %zu\n", k); return; }
        std::printf(" | ok\n");
    });
}
template<typename T, size_t B0, size_t J>
void run_ctbatch(unsigned seed) {
    using namespace Fastor;
    std::printf("ctbatch cfg=%s%s std=%d T=%s B=%zu J=%zu seed=%u", CFGNAME, VR_TAG, VR_STD, vr::tname<T>::s(), B0, J, seed);
    vr::guarded([&]{
        Tensor<T,B0,J,J> A;
        for (size_t k = 0; k < B0 * J * J; ++k) A.data()[k] = vr::mk<T>::at(k, seed);
        Tensor<T,B0,J,J> R = ctranspose(A);
        for (size_t b = 0; b < B0; ++b) for (size_t i = 0; i < J; ++i) for (size_t j = 0; j < J; ++j)
            if (!vr::same(R.data()[b*J*J + j*J + i], vr::cj(A.data()[b*J*J + i*J + j]))) { std::printf(" | FAIL block %zu (%zu,%zu)\n", b, j, i); return; }
        std::printf(" | ok\n");
    });
}

// permute / permutation inside larger expressions: R = permute<Idx>(A) + C,  C -= permutation<Idx>(A),
// and assignment of the permuted tensor to a view of a larger tensor (rank 2: W(seq, seq) = permute<1,0>(A))
template<typename T, int KIND, class Idx, size_t... D>
void run_pexpr(unsigned seed) {
    using namespace Fastor;
    constexpr size_t N = sizeof...(D);
    std::array<size_t,N> d = {D...}, p{}, q{};
    for (size_t k = 0; k < N; ++k) { p[k] = Idx::values[k]; q[p[k]] = k; }
    std::string ps, ds; for (size_t k = 0; k < N; ++k) { ps += (k ? "," : "") + std::to_string(p[k]); ds += (k ? "," : "") + std::to_string(d[k]); }
    std::printf("pexpr cfg=%s%s std=%d T=%s kind=%s p=%s dims=%s seed=%u", CFGNAME, VR_TAG, VR_STD, vr::tname<T>::s(), KIND ? "legacy" : "new", ps.c_str(), ds.c_str(), seed);
    vr::guarded([&]{
        using TA = Tensor<T,D...>;
        TA A; for (size_t k = 0; k < (size_t)A.size(); ++k) A.data()[k] = vr::mk<T>::at(k, seed);
        auto P = vr::PCall<KIND,0>::template go<Idx>(A, A);
        using RT = decltype(P);
        RT C, R, S; for (size_t k = 0; k < (size_t)C.size(); ++k) { C.data()[k] = vr::mk<T>::at(k + 5, seed + 1); S.data()[k] = C.data()[k]; }
        R = vr::PCall<KIND,0>::template go<Idx>(A, A) + C;
        S -= vr::PCall<KIND,0>::template go<Idx>(A, A);
        std::array<size_t,N> od{}; for (size_t k = 0; k < N; ++k) od[k] = get_tensor_dimensions<RT>::dims[k];
        const std::array<size_t,N>& use = KIND ? q : p;
        std::array<size_t,N> i{};
        while (true) {
            size_t fa = 0, fo = 0;
            for (size_t k = 0; k < N; ++k) { fa = fa * d[k] + i[k]; fo = fo * od[k] + i[use[k]]; }
            if (!vr::same(R.data()[fo], (T)(A.data()[fa] + C.data()[fo]))) { std::printf(" | FAIL permute(A)+C at result offset %zu\n", fo); return; }
            if (!vr::same(S.data()[fo], (T)(C.data()[fo] - A.data()[fa]))) { std::printf(" | FAIL C -= permute(A) at result offset %zu\n", fo); return; }
            int k = (int)N - 1;
            for (; k >= 0; --k) { if (++i[k] < d[k]) break; i[k] = 0; }
            if (k < 0) break;
        }
        std::printf(" | ok\n");
    });
}
template<typename T, size_t M, size_t N>
void run_pview(unsigned seed) {
    using namespace Fastor;
    std::printf("pview cfg=%s%s std=%d T=%s M=%zu N=%zu seed=%u", CFGNAME, VR_TAG, VR_STD, vr::tname<T>::s(), M, N, seed);
    vr::guarded([&]{
        Tensor<T,M,N> A; for (size_t k = 0; k < M * N; ++k) A.data()[k] = vr::mk<T>::at(k, seed);
        Tensor<T,N+2,M+3> W; for (size_t k = 0; k < (N+2)*(M+3); ++k) W.data()[k] = vr::mk<T>::at(k + 9, seed + 4);
        Tensor<T,N+2,M+3> W0 = W;
        W(seq(1, N + 1), seq(2, M + 2)) = permute<Index<1,0>>(A);
        for (size_t r = 0; r < N + 2; ++r) for (size_t c = 0; c < M + 3; ++c) {
            bool in = r >= 1 && r < N + 1 && c >= 2 && c < M + 2;
            T want = in ? A.data()[(c - 2) * N + (r - 1)] : W0.data()[r * (M + 3) + c];
            if (!vr::same(W.data()[r * (M + 3) + c], want)) { std::printf(" | FAIL view cell (%zu,%zu)\n", r, c); return; }
        }
        std::printf(" | ok\n");
    });
}
// transposition of the last two (equal) extents of a rank-4 tensor
template<typename T, size_t B0, size_t B1, size_t J>
void run_tbatch4(unsigned seed) {
    using namespace Fastor;
    std::printf("tbatch4 cfg=%s%s std=%d T=%s B=%zux%zu J=%zu seed=%u", CFGNAME, VR_TAG, VR_STD, vr::tname<T>::s(), B0, B1, J, seed);
    vr::guarded([&]{
        Tensor<T,B0,B1,J,J> A;
        for (size_t k = 0; k < B0 * B1 * J * J; ++k) A.data()[k] = vr::mk<T>::at(k, seed);
        Tensor<T,B0,B1,J,J> R = transpose(A);
        for (size_t b = 0; b < B0 * B1; ++b) for (size_t i = 0; i < J; ++i) for (size_t j = 0; j < J; ++j)
            if (!vr::same(R.data()[b*J*J + j*J + i], A.data()[b*J*J + i*J + j])) { std::printf(" | FAIL block %zu (%zu,%zu)\n", b, j, i); return; }
        std::printf(" | ok\n");
    });
}
#if FASTOR_CXX_VERSION >= 2017
// einsum with an explicit output index (C++17 only) ends with permute<permute_mapped_index_t<resulting, OIndex>>:
//  (1) a pure relabelling of one tensor: out axis n is the input axis carrying the label O[n];
//  (2) a matrix product delivered transposed: einsum<Index<I,J>,Index<J,K>,OIndex<K,I>>(A,B) = (A*B)^T
template<typename T, class IdxI, class IdxO, size_t... D>
void run_einsum_o1(unsigned seed) {
    using namespace Fastor;
    constexpr size_t N = sizeof...(D);
    std::array<size_t,N> d = {D...}, li{}, lo{}, src{};
    for (size_t k = 0; k < N; ++k) { li[k] = IdxI::values[k]; lo[k] = IdxO::values[k]; }
    for (size_t n = 0; n < N; ++n) for (size_t k = 0; k < N; ++k) if (li[k] == lo[n]) src[n] = k;   // out axis n = in axis src[n]
    std::string a, b, ds; for (size_t k = 0; k < N; ++k) { a += (k ? "," : "") + std::to_string(li[k]); b += (k ? "," : "") + std::to_string(lo[k]); ds += (k ? "," : "") + std::to_string(d[k]); }
    std::printf("einsum_o1 cfg=%s%s std=%d T=%s I=%s O=%s dims=%s seed=%u", CFGNAME, VR_TAG, VR_STD, vr::tname<T>::s(), a.c_str(), b.c_str(), ds.c_str(), seed);
    vr::guarded([&]{
        Tensor<T,D...> A; for (size_t k = 0; k < (size_t)A.size(); ++k) A.data()[k] = vr::mk<T>::at(k, seed);
        auto R = einsum<IdxI,IdxO>(A);
        using RT = decltype(R);
        std::array<size_t,N> od{}; for (size_t k = 0; k < N; ++k) od[k] = get_tensor_dimensions<RT>::dims[k];
        for (size_t n = 0; n < N; ++n) if (od[n] != d[src[n]]) { std::printf(" | FAIL extent %zu is %zu, expected %zu\n", n, od[n], d[src[n]]); return; }
        std::array<size_t,N> i{};
        while (true) {
            size_t fa = 0, fo = 0;
            for (size_t k = 0; k < N; ++k) { fa = fa * d[k] + i[k]; fo = fo * od[k] + i[src[k]]; }
            if (!vr::same(R.data()[fo], A.data()[fa])) { std::printf(" | FAIL result offset %zu (source offset %zu)\n", fo, fa); return; }
            int k = (int)N - 1;
            for (; k >= 0; --k) { if (++i[k] < d[k]) break; i[k] = 0; }
            if (k < 0) break;
        }
        std::printf(" | ok\n");
    });
}
template<typename T, size_t M, size_t K, size_t N>
void run_einsum_o2(unsigned seed) {
    using namespace Fastor;
    std::printf("einsum_o2 cfg=%s%s std=%d T=%s M=%zu K=%zu N=%zu seed=%u", CFGNAME, VR_TAG, VR_STD, vr::tname<T>::s(), M, K, N, seed);
    vr::guarded([&]{
        Tensor<T,M,K> A; Tensor<T,K,N> B;
        for (size_t k = 0; k < M * K; ++k) A.data()[k] = (T)(long)((k * 7 + seed) % 9) - (T)4;
        for (size_t k = 0; k < K * N; ++k) B.data()[k] = (T)(long)((k * 5 + seed) % 7) - (T)3;
        enum {I_ = 3, J_ = 7, K_ = 5};
        Tensor<T,N,M> R = einsum<Index<I_,J_>,Index<J_,K_>,OIndex<K_,I_>>(A, B);
        for (size_t i = 0; i < M; ++i) for (size_t j = 0; j < N; ++j) {
            T acc = T(0); for (size_t k = 0; k < K; ++k) acc += A.data()[i*K+k] * B.data()[k*N+j];
            if (R.data()[j*M+i] != acc) { std::printf(" | FAIL result(%zu,%zu)\n", j, i); return; }
        }
        std::printf(" | ok\n");
    });
}
#endif
