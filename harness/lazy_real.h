// K4 value runs for C09: an expression written with lazy operators vs the same expression written with
// the immediately evaluating functions, on float/double; all five assignment operators; the
// destination may appear element-wise on the right.
#include <Fastor/Fastor.h>
#include <cstdio>
#include <cmath>
using namespace Fastor;
#ifndef CFGNAME
#define CFGNAME "sse2"
#endif
template<typename T> struct tn;
template<> struct tn<float> { static const char* n() { return "float"; } static double tol() { return 2e-4; } };
template<> struct tn<double> { static const char* n() { return "double"; } static double tol() { return 1e-11; } };
static inline unsigned rnd(unsigned& s) { s = s * 1664525u + 1013904223u; return s >> 8; }

template<typename T, size_t N, int OP, typename FL, typename FE>
void run_lazyreal(const char* name, unsigned seed, FL fl, FE fe) {
    static const char* opn[] = {"set", "add", "sub", "mul", "div"};
    double worst = 0; bool ok = true;
    for (int rep = 0; rep < 3; ++rep) {
        unsigned s = seed * 977u + rep;
        Tensor<T,N,N> A, B, C, D;
        for (size_t i = 0; i < N; ++i) for (size_t j = 0; j < N; ++j) {
            A(i,j) = (T)((int)(rnd(s) % 7) - 3) + (i == j ? (T)(3 * N + 4) : (T)0);      // diagonally dominant
            B(i,j) = (T)((int)(rnd(s) % 9) - 4) + (i == j ? (T)(3 * N + 5) : (T)0);
            C(i,j) = (T)((int)(rnd(s) % 5) + 1);
            D(i,j) = (T)((int)(rnd(s) % 5) + 2);
        }
        Tensor<T,N,N> L = D, E = D;
        // the assignment happens inside the lambda: an expression over temporaries returned by the
        // eager functions must not outlive the full expression it is written in
        fl(A, B, C, L); fe(A, B, C, E);
        for (size_t i = 0; i < N * N; ++i) {
            double l = (double)L.data()[i], e = (double)E.data()[i];
            double err = (l == e || (l != l && e != e)) ? 0.0 : std::fabs(l - e) / (1.0 + std::fabs(e));
            if (!(err <= tn<T>::tol())) ok = false;
            if (err > worst || err != err) worst = err;
        }
    }
    std::printf("lazyreal cfg=%s T=%s n=%zu op=%s E=%s | %s worst=%.3g\n", CFGNAME, tn<T>::n(), N, opn[OP], name, ok ? "ok" : "FAIL", worst);
}
#define VF_OPTOK_0 =
#define VF_OPTOK_1 +=
#define VF_OPTOK_2 -=
#define VF_OPTOK_3 *=
#define VF_OPTOK_4 /=
#define VF_CAT(a, b) a##b
#define LAZYREAL_CASE(T, N, OP, NAME, SEED, LAZY, EAGER) run_lazyreal<T, N, OP>(NAME, SEED, \
    [](const auto& A, const auto& B, const auto& C, auto& D) { (void)A; (void)B; (void)C; D VF_CAT(VF_OPTOK_, OP) LAZY; }, \
    [](const auto& A, const auto& B, const auto& C, auto& D) { (void)A; (void)B; (void)C; D VF_CAT(VF_OPTOK_, OP) EAGER; })
