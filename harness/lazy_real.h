// K4 value runs for C09: an expression written with lazy operators vs the same expression written with
// the immediately evaluating functions, on float/double; all five assignment operators; the
// destination may appear element-wise on the right.
#include <Fastor/Fastor.h>
#include <cstdio>
#include <cmath>
using namespace Fastor;
#ifndef CFGNAME
#define CFGNAME "sse2"
#endif
template<typename T> struct tn;
template<> struct tn<float> { static const char* n() { return "float"; } static double tol() { return 2e-4; } };
template<> struct tn<double> { static const char* n() { return "double"; } static double tol() { return 1e-11; } };
static inline unsigned rnd(unsigned& s) { s = s * 1664525u + 1013904223u; return s >> 8; }

template<typename T, size_t N, int OP, typename FL, typename FE>
void run_lazyreal(const char* name, unsigned seed, FL fl, FE fe) {
    static const char* opn[] = {"set", "add", "sub", "mul", "div"};
    double worst = 0; bool ok = true;
    for (int rep = 0; rep < 3; ++rep) {
        unsigned s = seed * 977u + rep;
        Tensor<T,N,N> A, B, C, D;
        for (size_t i = 0; i < N; ++i) for (size_t j = 0; j < N; ++j) {
            A(i,j) = (T)((int)(rnd(s) % 7) - 3) + (i == j ? (T)(3 * N + 4) : (T)0);      // diagonally dominant
            B(i,j) = (T)((int)(rnd(s) % 9) - 4) + (i == j ? (T)(3 * N + 5) : (T)0);
            C(i,j) = (T)((int)(rnd(s) % 5) + 1);
            D(i,j) = (T)((int)(rnd(s) % 5) + 2);
        }
        Tensor<T,N,N> L = D, E = D;
        // the assignment happens inside the lambda: an expression over temporaries returned by the
        // eager functions must not outlive the full expression it is written in
        fl(A, B, C, L); fe(A, B, C, E);
        for (size_t i = 0; i < N * N; ++i) {
            double l = (double)L.data()[i], e = (double)E.data()[i];
            double err = (l == e || (l != l && e != e)) ? 0.0 : std::fabs(l - e) / (1.0 + std::fabs(e));
            if (!(err <= tn<T>::tol())) ok = false;
            if (err > worst || err != err) worst = err;
        }
    }
    std::printf("lazyreal cfg=%s T=%s n=%zu op=%s E=%s | %s worst=%.3g\n", CFGNAME, tn<T>::n(), N, opn[OP], name, ok ? "ok" : "FAIL", worst);
}
#define VF_OPTOK_0 =
#define VF_OPTOK_1 +=
#define VF_OPTOK_2 -=
#define VF_OPTOK_3 *=
#define VF_OPTOK_4 /=
#define VF_CAT(a, b) a##b
#define LAZYREAL_CASE(T, N, OP, NAME, SEED, LAZY, EAGER) run_lazyreal<T, N, OP>(NAME, SEED, \
    [](const auto& A, const auto& B, const auto& C, auto& D) { (void)A; (void)B; (void)C; D VF_CAT(VF_OPTOK_, OP) LAZY; }, \
    [](const auto& A, const auto& B, const auto& C, auto& D) { (void)A; (void)B; (void)C; D VF_CAT(VF_OPTOK_, OP) EAGER; })

// ---- rectangular product chains: the greedy cost model picks the association from the extents, so square
// operands never reach the right-association branches.  Integer-valued data: every intermediate is exact in
// float and double, so the lazy chain must equal the left-to-right eager product bit for bit, for all five
// assignment operators (the divisor is kept non-zero by construction: see `nz`).
template<typename T, size_t M, size_t K, size_t N, size_t P, int OP>
void run_chain3(unsigned seed) {
    static const char* opn[] = {"set", "add", "sub", "mul", "div"};
    unsigned s = seed * 733u + 5;
    Tensor<T,M,K> A; Tensor<T,K,N> B; Tensor<T,N,P> C; Tensor<T,M,P> D;
    for (size_t i = 0; i < M*K; ++i) A.data()[i] = (T)((int)(rnd(s) % 5) - 2);
    for (size_t i = 0; i < K*N; ++i) B.data()[i] = (T)((int)(rnd(s) % 5) - 2);
    for (size_t i = 0; i < N*P; ++i) C.data()[i] = (T)((int)(rnd(s) % 5) - 2);
    for (size_t i = 0; i < M*P; ++i) D.data()[i] = (T)((int)(rnd(s) % 7) + 1);
    Tensor<T,M,P> E = matmul(matmul(A, B), C);
    if (OP == 4) { // make the divisor a non-zero power of two so that the quotient is exact
        for (size_t i = 0; i < M*P; ++i) { D.data()[i] = (T)(8 * ((int)(rnd(s) % 5) + 1)); }
        for (size_t i = 0; i < M*K; ++i) A.data()[i] = (T)(i % K == 0 ? 1 : 0);
        for (size_t i = 0; i < K*N; ++i) B.data()[i] = (T)(i / N == 0 ? 2 : 0);
        for (size_t i = 0; i < N*P; ++i) C.data()[i] = (T)(i / P == 0 ? 1 : 0);
        E = matmul(matmul(A, B), C);           // every entry is 2
    }
    Tensor<T,M,P> L = D, R = D;
    switch (OP) {
        case 0: L = A % B % C;  R = E; break;
        case 1: L += A % B % C; R += E; break;
        case 2: L -= A % B % C; R -= E; break;
        case 3: L *= A % B % C; R *= E; break;
        default: L /= A % B % C; R /= E; break;
    }
    long bad = -1; for (size_t i = 0; i < M*P; ++i) if (!(L.data()[i] == R.data()[i])) { bad = (long)i; break; }
    std::printf("chain3 cfg=%s T=%s M=%zu K=%zu N=%zu P=%zu op=%s | %s", CFGNAME, tn<T>::n(), M, K, N, P, opn[OP], bad < 0 ? "ok" : "FAIL");
    if (bad >= 0) std::printf(" at=%ld lazy=%g eager=%g", bad, (double)L.data()[bad], (double)R.data()[bad]);
    std::printf("\n");
}
template<typename T, size_t M, size_t K, size_t N, size_t P, size_t Q, int OP>
void run_chain4(unsigned seed) {
    static const char* opn[] = {"set", "add", "sub", "mul", "div"};
    unsigned s = seed * 613u + 11;
    Tensor<T,M,K> A; Tensor<T,K,N> B; Tensor<T,N,P> C; Tensor<T,P,Q> F; Tensor<T,M,Q> D;
    for (size_t i = 0; i < M*K; ++i) A.data()[i] = (T)((int)(rnd(s) % 3) - 1);
    for (size_t i = 0; i < K*N; ++i) B.data()[i] = (T)((int)(rnd(s) % 3) - 1);
    for (size_t i = 0; i < N*P; ++i) C.data()[i] = (T)((int)(rnd(s) % 3) - 1);
    for (size_t i = 0; i < P*Q; ++i) F.data()[i] = (T)((int)(rnd(s) % 3) - 1);
    for (size_t i = 0; i < M*Q; ++i) D.data()[i] = (T)((int)(rnd(s) % 7) + 1);
    Tensor<T,M,Q> E = matmul(matmul(matmul(A, B), C), F);
    Tensor<T,M,Q> L = D, R = D;
    switch (OP) {
        case 0: L = A % B % C % F;  R = E; break;
        case 1: L += A % B % C % F; R += E; break;
        case 2: L -= A % B % C % F; R -= E; break;
        default: L *= A % B % C % F; R *= E; break;
    }
    long bad = -1; for (size_t i = 0; i < M*Q; ++i) if (!(L.data()[i] == R.data()[i])) { bad = (long)i; break; }
    std::printf("chain4 cfg=%s T=%s M=%zu K=%zu N=%zu P=%zu Q=%zu op=%s | %s", CFGNAME, tn<T>::n(), M, K, N, P, Q, opn[OP], bad < 0 ? "ok" : "FAIL");
    if (bad >= 0) std::printf(" at=%ld lazy=%g eager=%g", bad, (double)L.data()[bad], (double)R.data()[bad]);
    std::printf("\n");
}
// chain ending in a vector (matrix-matrix-vector): the cheapest association is right to left
template<typename T, size_t M, size_t K, size_t N, int OP>
void run_chainv(unsigned seed) {
    static const char* opn[] = {"set", "add", "sub", "mul", "div"};
    unsigned s = seed * 389u + 7;
    Tensor<T,M,K> A; Tensor<T,K,N> B; Tensor<T,N> x; Tensor<T,M> D;
    for (size_t i = 0; i < M*K; ++i) A.data()[i] = (T)((int)(rnd(s) % 5) - 2);
    for (size_t i = 0; i < K*N; ++i) B.data()[i] = (T)((int)(rnd(s) % 5) - 2);
    for (size_t i = 0; i < N; ++i) x.data()[i] = (T)((int)(rnd(s) % 5) - 2);
    for (size_t i = 0; i < M; ++i) D.data()[i] = (T)((int)(rnd(s) % 7) + 1);
    Tensor<T,M> E = matmul(matmul(A, B), x);
    Tensor<T,M> L = D, R = D;
    switch (OP) {
        case 0: L = A % B % x;  R = E; break;
        case 1: L += A % B % x; R += E; break;
        case 2: L -= A % B % x; R -= E; break;
        default: L *= A % B % x; R *= E; break;
    }
    long bad = -1; for (size_t i = 0; i < M; ++i) if (!(L.data()[i] == R.data()[i])) { bad = (long)i; break; }
    std::printf("chainv cfg=%s T=%s M=%zu K=%zu N=%zu op=%s | %s", CFGNAME, tn<T>::n(), M, K, N, opn[OP], bad < 0 ? "ok" : "FAIL");
    if (bad >= 0) std::printf(" at=%ld lazy=%g eager=%g", bad, (double)L.data()[bad], (double)R.data()[bad]);
    std::printf("\n");
}
// scalar-valued lazy operators applied to an UNEVALUATED element-wise expression of n x m elements (the vector
// loops of unary_norm_op.h / unary_trace_op.h / unary_det_op.h are unrolled per ISA, so the sizes matter):
// integer-valued data, so sums of squares are exact and sqrt is correctly rounded -> bit-equal to the eager form.
template<typename T, size_t M, size_t N>
void run_scalar_lazy(unsigned seed) {
    unsigned s = seed * 211u + 3;
    Tensor<T,M,N> A, B;
    for (size_t i = 0; i < M*N; ++i) { A.data()[i] = (T)((int)(rnd(s) % 7) - 3); B.data()[i] = (T)((int)(rnd(s) % 5) - 2); }
    Tensor<T,M,N> S = A + B; Tensor<T,M,N> Pm = A * B - B;
    T l1 = norm(A + B), e1 = norm(S);
    T l2 = norm(A * B - B), e2 = norm(Pm);
    T l3 = norm(A), e3 = (T)std::sqrt((double)inner(A, A));
    T l4 = sum(A + B), e4 = sum(S);
    T l5 = inner(A + B, A * B - B), e5 = inner(S, Pm);
    bool ok = (l1 == e1) && (l2 == e2) && (l3 == e3) && (l4 == e4) && (l5 == e5);
    std::printf("scalarlazy cfg=%s T=%s M=%zu N=%zu | %s", CFGNAME, tn<T>::n(), M, N, ok ? "ok" : "FAIL");
    if (!ok) std::printf(" norm(A+B)=%g/%g norm(A*B-B)=%g/%g norm(A)=%g/%g sum=%g/%g inner=%g/%g", (double)l1,(double)e1,(double)l2,(double)e2,(double)l3,(double)e3,(double)l4,(double)e4,(double)l5,(double)e5);
    std::printf("\n");
}
template<typename T, size_t N>
void run_scalar_lazy_sq(unsigned seed) {
    unsigned s = seed * 199u + 1;
    Tensor<T,N,N> A, B;
    for (size_t i = 0; i < N*N; ++i) { A.data()[i] = (T)((int)(rnd(s) % 7) - 3); B.data()[i] = (T)((int)(rnd(s) % 5) - 2); }
    Tensor<T,N,N> S = A + B; Tensor<T,N,N> Pd = matmul(A, B);
    T l1 = trace(A + B), e1 = trace(S);
    T l2 = trace(A % B), e2 = trace(Pd);
    T l3 = norm(A % B), e3 = norm(Pd);
    bool ok = (l1 == e1) && (l2 == e2) && (l3 == e3);
    std::printf("scalarlazysq cfg=%s T=%s N=%zu | %s", CFGNAME, tn<T>::n(), N, ok ? "ok" : "FAIL");
    if (!ok) std::printf(" trace(A+B)=%g/%g trace(A%%B)=%g/%g norm(A%%B)=%g/%g", (double)l1,(double)e1,(double)l2,(double)e2,(double)l3,(double)e3);
    std::printf("\n");
}
