#!/usr/bin/env python3
"""prints a markdown table of /verif/seeded/*/meta.json (seeded changes and which checks catch them)"""
import json, os, glob, re
VERIF = os.path.dirname(os.path.dirname(os.path.abspath(__file__)))
rows = []
for d in sorted(glob.glob(os.path.join(VERIF, "seeded", "*"))):
    mp = os.path.join(d, "meta.json")
    if not os.path.exists(mp): continue
    m = json.load(open(mp))
    patch = open(os.path.join(d, "patch.diff")).read() if os.path.exists(os.path.join(d, "patch.diff")) else ""
    files = sorted(set(re.findall(r"^\+\+\+ b/(\S+)", patch, flags=re.M)))
    needs = (m.get("needs_to_manifest") or "").replace("\n", " ").replace("|", "/")
    needs = re.sub(r"\s+", " ", needs)[:230]
    checks = []
    for c, r in sorted(m.get("checks", {}).items()):
        if r["rc"] != 0 and r["violations"] > 0:
            checks.append("%s: caught (%d with failing input / %d)" % (c, r["with_failing_input"], r["violations"]))
        else:
            checks.append("%s: missed" % c)
    rows.append("| %s | %s | %s | %s | %s |" % (m["id"], m["breaks_property"], ", ".join(f.replace("Fastor/", "") for f in files), "; ".join(checks), needs))
print("| id | property | file(s) changed | quick checks run against it | needs in order to manifest (from the author's README) |")
print("|---|---|---|---|---|")
print("\n".join(rows))
