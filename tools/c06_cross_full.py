#!/usr/bin/env python3
"""Runs only the cross-property stage of C06 with EVERY call of every property's quick real-type groups (the check itself
samples ~70 calls per property in the quick tier) and prints the failures that occur only under the alternative
configuration.  A development tool for flushing out configuration dependences / acceptance asymmetries; not a registered check."""
import os, sys, json
sys.path.insert(0, os.path.dirname(os.path.dirname(os.path.abspath(__file__))))
from vlib import core
import props.c06 as c06
seed = int(sys.argv[1]) if len(sys.argv) > 1 else 1
rot = int(sys.argv[2]) if len(sys.argv) > 2 else 0
force = sys.argv[3] if len(sys.argv) > 3 else None   # name of one alternative to apply to every group
class V:
    def __init__(self): self.notes = []; self.v = []
    def violation(self, key, obj, nofail=False): self.v.append((key, obj))
orig = c06.cross_groups
def full(tier, s):
    import random
    c06_budget = 10 ** 9
    g, sk = orig("thorough", s)
    return g, sk
# widen the budget by monkeypatching the constant inside cross_groups through its source
src = open(c06.__file__).read().replace("budget = 70 if tier == \"quick\" else 400", "budget = 10 ** 9").replace(
    "ALTS[(gi * 3 + seed + int(pid[1:])) % len(ALTS)]", "ALTS[(gi * 3 + seed + int(pid[1:]) + %d) %% len(ALTS)]" % rot)
if force:
    src = src.replace("name, alt = ALTS[", "name, alt = [a for a in ALTS if a[0] == %r][0] if True else ALTS[" % force)
ns = {}
exec(compile(src, c06.__file__, "exec"), ns)
v = V()
with core.Scratch() as wd:
    info = ns["cross_stage"](v, wd, "thorough", seed)
print(json.dumps({k: info[k] for k in info if k != "cross_samples"}, indent=1)[:3000])
for key, obj in v.v:
    print("ALT-ONLY:", key[:400]); print("     ", str(obj.get("detail"))[:300])
for n in v.notes[:20]: print("note:", n)
