#!/usr/bin/env python3
"""Regenerates lean/FastorModel/Generated/*.lean from the current /repo tree (run by MANIFEST.setup_cmd before the Lean build,
and by every check before its proof stage)."""
import os, sys
sys.path.insert(0, os.path.dirname(os.path.dirname(os.path.abspath(__file__))))
from vlib import core
log = []
core.regen_generated(log)
print("\n".join(log))
