#!/usr/bin/env python3
"""Regenerates /verif/MANIFEST.json from the table below."""
import json, os
VERIF = os.path.dirname(os.path.dirname(os.path.abspath(__file__)))

CLAIMED = {
 "C01": dict(
   text="Machine-checked proof (Lean 4): the model of _matmul — dispatch ladder plus every generic kernel (base, masked base, 10 small-N "
        "overloads incl. their spilling stores, tiny, matrix-vector, non-primitive) as ordered store events — leaves sum_k a(i,k)b(k,j) in every "
        "cell and writes nothing else, for all M,K,N, all build configurations and block-size macros (theorem Fastor.C01.matmul_exact, over any "
        "commutative semiring). The model is tied to /repo on every run by executing the real templates over a free-commutative-ring scalar at "
        "vector widths 1-16 and comparing values, store order, read sets and chosen width with the model, and by exact integer runs of all six "
        "element types on every ISA (immediate, lazy, raw with sentinel margins).",
   note="Trusted: Lean kernel + propext/Classical.choice/Quot.sound; the hand-written model (tied by the correspondence box of this run, not beyond it); "
        "harness carriers and oracles; g++ and the CPU. Not proved: the floating-point forward error bound (exactness over a semiring is); the float/double "
        "MxKxM intrinsic specialisations (2,3,4,8) are covered by value runs only.",
   technique="Lean 4 proof of an executable kernel model + symbolic-scalar correspondence with the real templates",
   design="§4 C01"),
 "C17": dict(
   text="Machine-checked proof (Lean 4): the model of _tmatmul (base and masked variants, the k-range clipping find_kfirst/find_klast per tile, "
        "all nine tag pairs) leaves the FULL sum_k a(i,k)b(k,j) in every cell when the operands vanish outside their tagged triangles, and writes "
        "nothing else — for all M,K,N (trapezoidal included), all widths and unroll factors (theorems Fastor.C17.tmatmul_exact and "
        "krange_sufficient_all). Tied to /repo by running the real _tmatmul over the symbolic scalar (literal zeros outside the triangle) and "
        "comparing values, store order and the clipped read sets with the model; plus exact integer runs on float/double/int32/int64 per ISA.",
   note="Trusted: Lean kernel + standard axioms; the hand-written model tied by this run's correspondence box; harness carriers; g++/CPU.",
   technique="Lean 4 proof of an executable kernel model + symbolic-scalar correspondence with the real templates",
   design="§4 C17"),
 "C03": dict(
   text="Machine-checked proof (Lean 4): the model of pairwise einsum/contraction — the index metafunctions (result indices/extents, loop variables, "
        "operand offsets), the default RecursiveCartesian loop nest, the SIMD stride chosen by is_vectorisable and the dispatch to the gemm-type back "
        "ends — computes, for EVERY index pattern (also indices repeated within one operand) and all extents, in every result cell the Einstein sum "
        "over all assignments of the index names that agree on the free indices, each exactly once, with result indices = the non-repeated indices in "
        "order of first appearance (theorems Fastor.C03.loopnest_correct, loopnest_vectorised_correct, result_type_correct, reroute_gemm_dispatch, "
        "24 in all). Tied to /repo by running the real einsum<Index<I>,Index<J>> over the symbolic scalar for every labelling of ranks up to (2,2) "
        "and samples up to (3,3)/(4,3), comparing result extents, values, store order incl. zero fill, read sets, stride and aligned-access count.",
   note="Trusted: Lean kernel + standard axioms; hand-written model tied by this run's box; harness carriers and the reference Einstein sum. Not modelled: "
        "Voigt overloads, CONTRACT_OPT variants other than the default (run by value only in the thorough tier), single-tensor einsum and explicit-output "
        "form (value-tested).",
   technique="Lean 4 proof of an executable loop-nest + metafunction model; symbolic-scalar correspondence with the real templates",
   design="§4 C03"),
 "C02": dict(
   text="Machine-checked proof (Lean 4): for every expression tree over {tensor, scalar, +, -, *, unary minus}, every width V=2^e and every size n, the "
        "vector evaluator is the scalar evaluator lane by lane (structural induction: Fastor.C02.lanes_of_evalV) and the assignment loop of "
        "trivial_assign / _add / _sub / _mul (vector body over ROUND_DOWN(n,V), scalar tail) leaves op(dst p, scalar evaluation at p) at every p < n "
        "and writes nothing else (Fastor.C02.assign_correct / assign_memory). Tied to /repo by assigning seeded random expression trees to real "
        "tensors over the symbolic scalar (values, store order, read sets, aligned-access count, width) and by bit-exact value runs of float, double, "
        "int32, int64 (incl. division, sqrt, abs, IEEE specials, integer boundary values) against the same generic lambda evaluated on scalars.",
   note="Proved relative to C08 (vector primitives are lane-wise by definition in the model). Division, math functions, comparisons / logical ops and "
        "the reciprocal-multiply form are value-tested only. Real-type runs use -ffp-contract=off; integer references wrap around.",
   technique="Lean 4 proof (structural induction + loop tiling) of an executable evaluator model; symbolic and bit-exact correspondence",
   design="§4 C02"),
 "C09": dict(
   text="Machine-checked proof (Lean 4): the staged assignment performed by the overload table of binary_arithmetic_assignment.h / binary_matmul_op.h "
        "(two-step splitting dst op= l +- r, alias check with its temporary, whole-expression temporary for *=, gemm-style accumulation of a lazy "
        "product) leaves op(dst, eager meaning of the tree) in dst and changes nothing else, for every tree over element-wise + - * and lazy products "
        "with the destination allowed anywhere, over any commutative ring (Fastor.C09.staged_eq_denote, staged_frame, assign_via_temporary). Tied to "
        "/repo by generated trees with every alias pattern over the symbolic scalar (values of all tensors, number of passes over the destination) "
        "and by lazy-vs-eager runs of inv/det/trans/cof/adj/solve/product chains on float and double for all five operators.",
   note="The model describes the code after two fix: commits (the alias branch used a copy of dst instead of the aliasing operand; does_alias did not "
        "compile with a scalar operand). inv/det/trans/cof/adj/solve/norm/trace nodes and the greedy re-association of product chains are value-tested; "
        "chain associativity over a ring is matrix-product associativity (not restated).",
   technique="Lean 4 proof by structural induction over an executable model of the assignment overload table; symbolic correspondence",
   design="§4 C09"),
 "C15": dict(
   text="Machine-checked proof (Lean 4): for 3 and 4 operands and EVERY variant the flop cost model can select (the variant depends on the extents, "
        "which are universally quantified), the composition of pairwise contractions computes in each cell the full Einstein sum of all operands "
        "(Fastor.C15.eval3_value / eval4_value, joined with the C03 loop-nest theorem), the result indices are a permutation of the declared ones with "
        "their extents (triplet_res_perm, quartet_res_perm), and the index ORDER is the declared one exactly when the variant is not 1 or operand 0 or "
        "1 has no free index (index_order_iff) — with a kernel-checked counterexample (index_order_counterexample, order_depends_on_extents): the "
        "order statement of the property is false of the code (known finding F9). Tied to /repo by real 3-/4-operand einsum over the symbolic scalar: "
        "selected variant, declared extents, values in memory order; op-min on and off.",
   note="F9 (wrong index order for variant 1) is a recorded known finding, not repaired. The single-loop evaluation used with FASTOR_DONT_PERFORM_OP_MIN "
        "is modelled (directVals) and tied, its order theorem is direct_order; its value theorem is not stated. 5..8 operands are not modelled.",
   technique="Lean 4 proof of cost-model/evaluation-order model (associativity of finite Einstein sums) + symbolic correspondence",
   design="§4 C15"),
}

NOT_YET = {}

# per-property claim fragments: props/claims/CXX.json = {"text","note","technique","design"[,"category"]}
_cd = os.path.join(VERIF, "props", "claims")
if os.path.isdir(_cd):
    for _f in sorted(os.listdir(_cd)):
        if _f.endswith(".json"):
            CLAIMED[_f[:-5]] = json.load(open(os.path.join(_cd, _f)))

# props/claims/HOLD.json = {"CXX": "reason"}: checks that exist but are not claimed at this commit (e.g. being adapted after a merge)
_hold = os.path.join(_cd, "HOLD.json")
HOLD = json.load(open(_hold)) if os.path.exists(_hold) else {}
CLAIMED.pop("HOLD", None)
for _k, _r in HOLD.items():
    CLAIMED.pop(_k, None); NOT_YET[_k] = _r

def main():
    props = [json.loads(l) for l in open(os.path.join(VERIF, "properties.jsonl"))]
    checks = []; na = []
    for p in props:
        pid = p["id"]
        if pid in CLAIMED:
            c = CLAIMED[pid]
            checks.append({
                "property_id": pid,
                "quick_cmd": "./check %s --tier quick" % pid,
                "thorough_cmd": "./check %s --tier thorough" % pid,
                "evidence_file": "evidence/%s.json" % pid,
                "replay_cmd_template": "./check %s --replay {path}" % pid,
                "engine": "lean-proof+correspondence",
                "level_claimed": {"category": c.get("category", "proof"), "text": c["text"], "design_ref": c["design"]},
                "level_note": c["note"],
                "technique": c["technique"],
            })
        else:
            na.append({"property_id": pid, "reason": NOT_YET.get(pid, "check not built yet in this round of work (planned, see DESIGN.md §9); not a claim that the technique cannot apply")})
    man = {
        "version": 1,
        "setup_cmd": "python3 tools/regen.py && cd lean && lake build FastorModel fmodel",
        "hooks": {
            "guard": "FASTOR_VERIF",
            "enable": "harness translation units are compiled with -DFASTOR_VERIF -I/repo (see vlib/core.py cxx_cmd)",
            "baseline_off_cmd": "cmake --build /repo/_build -j16 && ctest --test-dir /repo/_build -j8 --timeout 900",
            "source_commits": ["ac09722"],
            "add_only": True,
        },
        "engines": [{"name": "lean-proof+correspondence", "path": "check", "serves_properties": sorted(CLAIMED),
                     "kind_free_text": "Lean 4 theorems about executable models (lean/FastorModel), tied to /repo by differential runs of the real templates "
                                       "over symbolic / exact scalars against the compiled Lean driver fmodel"}],
        "checks": checks,
        "not_applicable": na,
        "notes": "All checks rebuild their harnesses from /repo's working tree; scratch builds live under $TMPDIR/verif-* and are removed.",
    }
    json.dump(man, open(os.path.join(VERIF, "MANIFEST.json"), "w"), indent=1)
    print("claimed:", len(checks), "not claimed:", len(na))

if __name__ == "__main__":
    main()
