#!/usr/bin/env python3
"""rewrites the seeded-changes table between the markers in DESIGN.md from seeded/*/meta.json"""
import os, re, subprocess
V = os.path.dirname(os.path.dirname(os.path.abspath(__file__)))
t = subprocess.run(["python3", os.path.join(V, "tools", "gen_seeded_table.py")], capture_output=True, text=True).stdout
p = os.path.join(V, "DESIGN.md"); s = open(p).read()
s = re.sub(r"<!-- seeded-table-begin -->.*<!-- seeded-table-end -->", lambda m: "<!-- seeded-table-begin -->\n" + t + "<!-- seeded-table-end -->", s, flags=re.S)
# theorem counts in the status table of section 10.2: `| Cxx | <n> | ...` <- number of `theorem` declarations in Props/Cxx*.lean
import glob
def count(pid):
    n = 0
    for f in glob.glob(os.path.join(V, "lean", "FastorModel", "Props", pid + "*.lean")):
        base = os.path.basename(f)[:-5]
        if base == pid or not base[len(pid)].isdigit():
            n += len(re.findall(r"^theorem\s", open(f).read(), flags=re.M))
    return n
def fix(m):
    n = count(m.group(1))
    return "| %s | %s |" % (m.group(1), "{:,}".format(n).replace(",", " "))
s = re.sub(r"^\| (C\d\d) \| [\d  ,]+ \|", fix, s, flags=re.M)
open(p, "w").write(s)
