#!/usr/bin/env python3
"""rewrites the seeded-changes table between the markers in DESIGN.md from seeded/*/meta.json"""
import os, re, subprocess
V = os.path.dirname(os.path.dirname(os.path.abspath(__file__)))
t = subprocess.run(["python3", os.path.join(V, "tools", "gen_seeded_table.py")], capture_output=True, text=True).stdout
p = os.path.join(V, "DESIGN.md"); s = open(p).read()
s = re.sub(r"<!-- seeded-table-begin -->.*<!-- seeded-table-end -->", lambda m: "<!-- seeded-table-begin -->\n" + t + "<!-- seeded-table-end -->", s, flags=re.S)
open(p, "w").write(s)
