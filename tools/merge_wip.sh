#!/bin/bash
# tools/merge_wip.sh <branch> : merge a builder branch into main safely — stop on conflicts, make clashing
# Driver helper names private, rebuild the Lean library and the driver, regenerate the manifest; commit only if all of it works.
set -u
cd "$(dirname "$0")/.."
b="$1"
if ! git merge --no-commit --no-ff "$b" >/tmp/merge_out.txt 2>&1; then
  # evidence files are rewritten by every run: take the branch's version
  for f in $(git diff --name-only --diff-filter=U | grep '^evidence/'); do git checkout --theirs "$f" && git add "$f"; done
  if git diff --name-only --diff-filter=U | grep -q .; then
    echo "CONFLICTS:"; git diff --name-only --diff-filter=U; echo "resolve by hand, then: git add -A && git commit"; exit 1
  fi
fi
if grep -rn "^<<<<<<< \|^>>>>>>> " --include=*.lean --include=*.py --include=*.h --include=*.json lean/FastorModel lean/Main.lean props vlib harness tools known_findings.d 2>/dev/null | head -3 | grep -q .; then
  echo "conflict markers present"; exit 1
fi
( cd lean && python3 - <<'E'
import re,glob,collections
files=glob.glob('FastorModel/Driver/*.lean')
names=collections.defaultdict(list)
for f in files:
    for i,l in enumerate(open(f).read().split('\n')):
        m=re.match(r'^(partial def|def)\s+(\S+)',l)
        if m: names[m.group(2)].append((f,i))
for n,locs in names.items():
    if len(locs)>1:
        print("clash",n,locs)
        for f,i in locs[1:]:
            if f.endswith('Common.lean') or f.endswith('LU.lean'): continue
            L=open(f).read().split('\n'); L[i]='private '+L[i]; open(f,'w').write('\n'.join(L))
E
)
( cd lean && lake build FastorModel fmodel > /tmp/merge_build.txt 2>&1 )
if ! grep -q "Build completed successfully" /tmp/merge_build.txt; then
  # tolerated: failures confined to the Props modules of properties listed in props/claims/HOLD.json (being re-tied)
  bad=$(python3 - <<'PY'
import json,re,os
out=open('/tmp/merge_build.txt').read()
mods=set(re.findall(r"^✖ \[\d+/\d+\] Building (\S+)", out, flags=re.M))
hold=json.load(open('props/claims/HOLD.json')) if os.path.exists('props/claims/HOLD.json') else {}
ok=lambda m: m=="FastorModel" or any(m.startswith("FastorModel.Props."+h) for h in hold)
print(" ".join(sorted(m for m in mods if not ok(m))) if mods else "unknown")
PY
)
  if [ -n "$bad" ]; then echo "LEAN BUILD FAILED after merging $b in: $bad"; tail -5 /tmp/merge_build.txt; echo "(merge left uncommitted)"; exit 1; fi
  ( cd lean && lake build fmodel 2>&1 | tail -1 | grep -q "Build completed successfully" ) || { echo "fmodel does not build"; exit 1; }
  echo "note: build failures only in held properties' modules"
fi
python3 tools/gen_manifest.py || exit 1
git add -A && git commit -qm "merge $b" && echo "merged $b: $(git log --oneline -1)"
