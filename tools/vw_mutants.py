#!/usr/bin/env python3
"""Mutation self-test for C05 / C18: applies one single-site change at a time to the anchored view code in the
repo worktree (VERIF_REPO), runs the property's quick check restricted (VERIF_ONLY) to the configurations the
change can manifest in, records VIOLATION lines / failing inputs, and reverts the change.
    VERIF_REPO=<worktree> tools/vw_mutants.py [C05|C18|all] [id ...]
The table it prints goes into docs/DESIGN_C05.md / DESIGN_C18.md."""
import os, subprocess, sys, json, re

VERIF = os.path.dirname(os.path.dirname(os.path.abspath(__file__)))
REPO = os.environ.get("VERIF_REPO", "/repo")
V = "Fastor/expressions/views/"

def nth(s, old, n):
    """index of the n-th (0-based) occurrence"""
    i = -1
    for _ in range(n + 1):
        i = s.index(old, i + 1)
    return i

# id, property, file, old, new, occurrence (of `old` in the file), VERIF_ONLY, what
MUTANTS = [
 ("C05-a", "C05", V + "tensor_views_nd.h",
  "ind += products_[it]*(as[it]*_seqs[it]._step + _seqs[it]._first);\n                }\n                // _data[ind] -= other_src.template eval_s<T>(counter);\n                _data[ind] -= other_src.template teval_s<T>(as);",
  "ind += products_[it]*(as[it] + _seqs[it]._first);\n                }\n                // _data[ind] -= other_src.template eval_s<T>(counter);\n                _data[ind] -= other_src.template teval_s<T>(as);", 0,
  "/d3,/d4", "n-D dynamic `-=` (equal order), scalar branch: the step of every axis dropped from the store index (wrong stride, rank >= 3 only)"),
 ("C05-b", "C05", V + "tensor_views_nd.h",
  "_is_vectorisable = !is_same_v_<T,bool> && _seqs[DIMS-1].size() % SIMDVector<T,simd_abi_type>::Size == 0 && (_seqs[DIMS-1]._step==1) ? true : false;",
  "_is_vectorisable = !is_same_v_<T,bool> && _seqs[DIMS-1].size() % SIMDVector<T,simd_abi_type>::Size <= 1 && (_seqs[DIMS-1]._step==1) ? true : false;", 1,
  "/d3,/d4", "n-D dynamic non-const view: vector route also taken when the last extent is a multiple of V plus 1 (a store spills past the row end)"),
 ("C05-c", "C05", V + "tensor_views_1d.h",
  "            for (; i <size(); i++) {\n                _data[i+_seq._first] *= other_src.template eval_s<T>(i);",
  "            for (; i+1 <size(); i++) {\n                _data[i+_seq._first] *= other_src.template eval_s<T>(i);", 0,
  "/d1", "1-D dynamic `*=`: scalar tail loop stops one element early (`*=` only)"),
 ("C05-d", "C05", V + "tensor_views_2d.h",
  "                    _expr(_seq0._step*i+_seq0._first,j+_seq1._first) += num;",
  "                    _expr(_seq0._step*i+_seq0._first,j+_seq1._first) = num;", 0,
  "/d2", "2-D dynamic scalar `+=`: the unit-step tail assigns instead of adding"),
 ("C05-e", "C05", "Fastor/simd_vector/simd_vector_common.h",
  "    data[idx+2*general_stride] = vec[2];\n    data[idx+3*general_stride] = vec[3];\n    data[idx+4*general_stride] = vec[4];",
  "    data[idx+2*general_stride] = vec[3];\n    data[idx+3*general_stride] = vec[2];\n    data[idx+4*general_stride] = vec[4];", 0,
  "avx2/sz4/vea1,avx2/float/vea1,avx2/int32_t/vea1,avx512/sz8/vea1,avx512/double/vea1,avx512/int64_t/vea1",
  "`data_setter` for 4-byte elements in a 256-bit vector: lanes 2 and 3 swapped (strided 2-D stores under FASTOR_USE_VECTORISED_EXPR_ASSIGN, AVX only)"),
 ("C05-f", "C05", V + "tensor_views_2d.h",
  "                    auto _vec = other_src.template eval<T>(counter);\n                    _vec.store(&_data[(_seq0._step*i+_seq0._first)*N+j+_seq1._first], is_aligned());\n                    counter+=Stride;",
  "                    auto _vec = other_src.template eval<T>(counter);\n                    _vec.store(&_data[(_seq0._step*i+_seq0._first)*N+j+_seq1._first], is_aligned());\n                    counter+=1;", 0,
  "/d2", "2-D dynamic `=` from an expression of another rank: the running rhs counter advances by 1 instead of V after a vector store"),
 ("C05-g", "C05", V + "tensor_fixed_views_2d.h",
  "data_setter(_data,_vec,S0*i*N+S1*j+Padding,S1);", "data_setter(_data,_vec,S0*i*N+S1*j+Padding,1);", 2,
  "/f2b,/f2d", "fixed 2-D view, one operator: `data_setter` called with stride 1 instead of S1"),
 ("C05-i", "C05", "Fastor/tensor/IndexRetriever.h",
  "const size_t k = get_index<2>(args...) < 0 ? P + get_index<2>(args...) : get_index<2>(args...);\n#if FASTOR_BOUNDS_CHECK\n    FASTOR_ASSERT( ( (i>=0 && i<M) && (j>=0 && j<N) && (k>=0 && k<P)),",
  "const size_t k = get_index<2>(args...) < 0 ? N + get_index<2>(args...) : get_index<2>(args...);\n#if FASTOR_BOUNDS_CHECK\n    FASTOR_ASSERT( ( (i>=0 && i<M) && (j>=0 && j<N) && (k>=0 && k<P)),", 0,
  "elemwrite", "seeded C05-m2: rank-3 `get_flat_index` wraps a negative third index with N instead of P (scalar element write A(i,j,-1) = x)"),
 ("C05-j", "C05", "Fastor/tensor/IndexRetriever.h",
  "const size_t l = get_index<3>(args...) < 0 ? Q + get_index<3>(args...) : get_index<3>(args...);",
  "const size_t l = get_index<3>(args...) < 0 ? P + get_index<3>(args...) : get_index<3>(args...);", 0,
  "elemwrite", "rank-4 `get_flat_index` wraps a negative fourth index with P instead of Q"),
 ("C05-k", "C05", "Fastor/tensor/IndexRetriever.h",
  "const size_t j = get_index<1>(args...) < 0 ? N + get_index<1>(args...) : get_index<1>(args...);\n#if FASTOR_BOUNDS_CHECK\n    FASTOR_ASSERT( ( (i>=0 && i<M) && (j>=0 && j<N)), \"INDEX OUT OF BOUNDS\");",
  "const size_t j = get_index<1>(args...) < 0 ? M + get_index<1>(args...) : get_index<1>(args...);\n#if FASTOR_BOUNDS_CHECK\n    FASTOR_ASSERT( ( (i>=0 && i<M) && (j>=0 && j<N)), \"INDEX OUT OF BOUNDS\");", 0,
  "elemwrite", "rank-2 `get_flat_index` wraps a negative column index with M instead of N"),
 ("C18-a", "C18", V + "tensor_views_1d.h",
  "            auto tmp = TensorViewExpr<Tensor<T,N>,1>(tmp_this_tensor,_seq);\n            // Assign other to temporary\n            tmp = other;\n            // assign temporary to this\n            this->operator+=(tmp);",
  "            auto tmp = TensorViewExpr<Tensor<T,N>,1>(_expr,_seq);\n            // Assign other to temporary\n            tmp = other;\n            // assign temporary to this\n            this->operator+=(tmp);", 0,
  "/a1", "1-D dynamic `+=`: the temporary view is made on the real tensor instead of the copy (the snapshot is taken after the first write)"),
 ("C18-b", "C18", V + "tensor_views_2d.h",
  "            _does_alias = false;", "            /*_does_alias = false;*/", 3,
  "/a2", "2-D dynamic view, one operator: the flag is not cleared"),
 ("C18-c", "C18", V + "tensor_views_nd.h",
  "            this->operator-=(tmp);", "            this->operator+=(tmp);", 0,
  "/a3", "n-D dynamic `-=`: the guarded path finishes with `+=`"),
 ("C18-d", "C18", V + "tensor_views_2d.h",
  "            tmp = other;\n            // assign temporary to this\n            this->operator*=(tmp);",
  "            // assign temporary to this\n            this->operator*=(tmp);", 0,
  "/a2", "2-D dynamic `*=`: the guarded path forgets `tmp = other` (multiplies by its own old contents)"),
 ("C18-e", "C18", V + "tensor_fixed_views_1d.h", "#if !(FASTOR_NO_ALIAS)", "#ifndef FASTOR_NO_ALIAS", None,
  "/g1", "revert of fix 1 (fixed 1-D views ignore noalias())"),
 ("C18-f", "C18", V + "tensor_fixed_views_2d.h", "#if !(FASTOR_NO_ALIAS)", "#ifndef FASTOR_NO_ALIAS", None,
  "/g2", "revert of fix 1 (fixed 2-D views ignore noalias())"),
 ("C18-g", "C18", V + "tensor_fixed_views_1d.h",
  "            this->operator*=(tmp);\n            return;\n        }\n#endif\n        const Derived& other_src = other.self();",
  "            this->operator=(tmp);\n            return;\n        }\n#endif\n        const Derived& other_src = other.self();", 0,
  "/g1", "revert of fix 2 (guarded `*=` of the fixed 1-D view assigns)"),
 ("C18-i", "C18", V + "tensor_fixed_views_2d.h",
  "            this->operator*=(tmp);", "            this->operator*=(other);", 0,
  "/g2,/g2s", "seeded C18-m3: fixed 2-D `noalias() *=` (equal order) multiplies by `other` instead of the snapshot `tmp`"),
 ("C18-j", "C18", V + "tensor_views_nd.h",
  "    constexpr FASTOR_INLINE Tensor<T,Rest...> get_tensor() const {return _expr;};\n    constexpr FASTOR_INLINE std::array<seq,sizeof...(Rest)> get_sequences() const {return _seqs;}",
  "    constexpr FASTOR_INLINE TensorType<T,Rest...> get_tensor() const {return _expr;};\n    constexpr FASTOR_INLINE std::array<seq,sizeof...(Rest)> get_sequences() const {return _seqs;}", 0,
  "map-", "seeded C18-m1: n-D dynamic view `get_tensor()` returns TensorType (a TensorMap parent is copied shallowly: no snapshot)"),
 ("C18-h", "C18", V + "tensor_fixed_views_nd.h",
  "            this->operator/=(tmp);", "            this->operator*=(tmp);", 0,
  "real/", "fixed n-D `/=`: the guarded path finishes with `*=` (real types only: the symbolic carrier has no division)"),
]

def run_one(m):
    mid, pid, rel, old, new, occ, only, what = m
    path = os.path.join(REPO, rel)
    src = open(path).read()
    if occ is None:
        if old not in src:
            return {"id": mid, "error": "pattern not found"}
        mut = src.replace(old, new)
    else:
        try:
            i = nth(src, old, occ)
        except ValueError:
            return {"id": mid, "error": "pattern not found"}
        mut = src[:i] + new + src[i + len(old):]
    open(path, "w").write(mut)
    try:
        env = dict(os.environ); env["VERIF_ONLY"] = only; env.setdefault("VERIF_JOBS", "3")
        p = subprocess.run([os.path.join(VERIF, "check"), pid, "--tier", "quick"], cwd=VERIF, env=env, stdout=subprocess.PIPE, stderr=subprocess.STDOUT, text=True, timeout=3000)
        out = p.stdout
        viol = re.findall(r"VIOLATION property=\S+ replay=(\S+)( no-failing-input-found)?", out)
        inputs = []
        for path_r, nofail in viol[:3]:
            try:
                o = json.load(open(path_r))
                inputs.append((o.get("kind"), (o.get("input") or o.get("line") or o.get("key", ""))[:230], (o.get("impl") or "")[-150:]))
            except Exception as e:
                inputs.append(("?", str(e), ""))
        return {"id": mid, "property": pid, "what": what, "only": only, "rc": p.returncode, "violations": len(viol),
                "with_failing_input": len([1 for _, nf in viol if not nf]), "examples": inputs, "tail": out[-300:]}
    finally:
        open(path, "w").write(src)

def main():
    sel = sys.argv[1:] or ["all"]
    res = []
    for m in MUTANTS:
        if "all" in sel or m[1] in sel or m[0] in sel:
            r = run_one(m)
            res.append(r)
            print(json.dumps(r, indent=1)); sys.stdout.flush()
    print("\n| id | change | VERIF_ONLY | result |\n|---|---|---|---|")
    for r in res:
        if "error" in r:
            print("| %s | - | - | %s |" % (r["id"], r["error"])); continue
        ex = r["examples"][0][1] if r["examples"] else ""
        print("| %s | %s | %s | rc=%d, %d violation(s), %d with failing input; e.g. `%s` |" % (r["id"], r["what"], r["only"], r["rc"], r["violations"], r["with_failing_input"], ex))

if __name__ == "__main__":
    main()
