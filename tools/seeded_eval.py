#!/usr/bin/env python3
"""Evaluate one seeded change (a mutant produced by an independent agent) and keep it under /verif/seeded/<id>/.

usage: tools/seeded_eval.py <mutant-dir> <seeded-id> <property> [--checks C01,C06] [--origwt /tmp/mut-C01] [--skip-ctest]

<mutant-dir> contains patch.diff, demo.cpp, demo.sh (and README.md).  Steps:
 1. scratch worktree of /repo (HEAD): demo must PASS without the change;
 2. apply the patch there: the library's test-suite must still build and pass (ctest), the demo must FAIL;
 3. apply the patch to /repo, run the listed checks (quick tier), undo it straight afterwards;
 4. write /verif/seeded/<id>/{patch.diff, demo.cpp, demo.sh, README.md, meta.json}.
The scratch worktree and its build output are removed at the end."""
import argparse, json, os, re, shutil, subprocess, sys, time

VERIF = os.path.dirname(os.path.dirname(os.path.abspath(__file__)))
REPO = "/repo"

def sh(cmd, cwd=None, timeout=7200, env=None):
    p = subprocess.run(cmd, shell=True, cwd=cwd, stdout=subprocess.PIPE, stderr=subprocess.STDOUT, text=True, timeout=timeout, env=env)
    return p.returncode, p.stdout

def run_demo(mdir, wt, origwt, tag):
    """run demo.sh with the library path replaced by the scratch worktree; returns (rc, tail of output)"""
    script = open(os.path.join(mdir, "demo.sh")).read()
    if origwt:
        script = script.replace(origwt, wt)
    script = re.sub(r"/tmp/mutout/[A-Za-z0-9]+/\d+", mdir, script)
    d = os.path.join("/tmp", "se-demo-%d-%s" % (os.getpid(), tag)); os.makedirs(d, exist_ok=True)
    open(os.path.join(d, "demo.sh"), "w").write(script)
    shutil.copy(os.path.join(mdir, "demo.cpp"), d)
    for f in os.listdir(mdir):
        if f.endswith((".h", ".hpp")):
            shutil.copy(os.path.join(mdir, f), d)
    rc, out = sh("bash demo.sh", cwd=d, timeout=1800)
    shutil.rmtree(d, ignore_errors=True)
    failed = rc != 0 or re.search(r"\bFAIL", out) is not None
    return failed, rc, out[-1500:]

def main():
    ap = argparse.ArgumentParser()
    ap.add_argument("mdir"); ap.add_argument("sid"); ap.add_argument("prop")
    ap.add_argument("--checks", default=None); ap.add_argument("--origwt", default=None)
    ap.add_argument("--skip-ctest", action="store_true"); ap.add_argument("--jobs", default="8")
    ap.add_argument("--tier", default="quick")
    a = ap.parse_args()
    mdir = os.path.abspath(a.mdir)
    checks = (a.checks or a.prop).split(",")
    patch = os.path.join(mdir, "patch.diff")
    meta = {"id": a.sid, "breaks_property": a.prop, "source": "independent sub-agent given only the property text and a scratch worktree",
            "repo_head": sh("git -C %s rev-parse --short HEAD" % REPO)[1].strip(), "ran": [], "when": time.strftime("%Y-%m-%d %H:%M:%S")}
    wt = "/tmp/se-%s" % a.sid
    sh("git -C %s worktree remove --force %s" % (REPO, wt)); shutil.rmtree(wt, ignore_errors=True)
    rc, out = sh("git -C %s worktree add --detach %s HEAD" % (REPO, wt))
    assert rc == 0, out
    try:
        f0, rc0, o0 = run_demo(mdir, wt, a.origwt, "clean")
        meta["demo_without_change"] = {"fails": f0, "rc": rc0, "tail": o0[-600:]}
        meta["ran"].append("demo.sh against a clean scratch worktree of /repo HEAD")
        rc, out = sh("git apply %s" % patch, cwd=wt)
        meta["patch_applies"] = (rc == 0)
        if rc != 0:
            meta["apply_error"] = out[-500:]
        else:
            f1, rc1, o1 = run_demo(mdir, wt, a.origwt, "mut")
            meta["demo_with_change"] = {"fails": f1, "rc": rc1, "tail": o1[-600:]}
            meta["ran"].append("demo.sh against the scratch worktree with patch.diff applied")
            if not a.skip_ctest:
                cmd = ("cmake -G Ninja -S {w} -B {w}/_build -DCMAKE_BUILD_TYPE=RelWithDebInfo -DCMAKE_CXX_FLAGS=-Wno-error > /dev/null && "
                       "cmake --build {w}/_build -j{j} 2>&1 | tail -3 && ctest --test-dir {w}/_build -j{j} --timeout 900 2>&1 | tail -15").format(w=wt, j=a.jobs)
                rc, out = sh(cmd, timeout=7200)
                m = re.search(r"(\d+)% tests passed, (\d+) tests failed out of (\d+)", out)
                failed_tests = re.findall(r"^\s*\d+ - (\S+)", out, flags=re.M)
                meta["ctest_with_change"] = {"rc": rc, "summary": m.group(0) if m else out[-400:], "failed": failed_tests}
                meta["ran"].append("cmake + ninja + ctest of the library's own suite in the scratch worktree with the change applied")
    finally:
        sh("git -C %s worktree remove --force %s" % (REPO, wt)); shutil.rmtree(wt, ignore_errors=True)
    # 3. our checks against a second scratch worktree with the change applied (VERIF_REPO points the checks at it);
    #    /repo itself is never modified, so several evaluations and ordinary check runs can proceed side by side
    meta["checks"] = {}
    if meta.get("patch_applies"):
        cwt = "/tmp/se-%s-chk" % a.sid
        sh("git -C %s worktree remove --force %s" % (REPO, cwt)); shutil.rmtree(cwt, ignore_errors=True)
        rc, out = sh("git -C %s worktree add --detach %s HEAD" % (REPO, cwt)); assert rc == 0, out
        rc, out = sh("git apply %s" % patch, cwd=cwt); assert rc == 0, out
        env = dict(os.environ); env["VERIF_REPO"] = cwt; env["VERIF_JOBS"] = a.jobs
        try:
            for c in checks:
                t0 = time.time()
                ev = os.path.join(VERIF, "evidence", c + ".json")
                saved = open(ev).read() if os.path.exists(ev) else None
                rc, out = sh("./check %s --tier %s" % (c, a.tier), cwd=VERIF, timeout=7200, env=env)
                if saved is not None:           # the evidence file was rewritten by a run against a modified tree: put the previous one back
                    open(ev, "w").write(saved)
                vio = [l for l in out.split("\n") if l.startswith("VIOLATION")]
                kinds = []
                for l in vio[:6]:
                    m = re.search(r"replay=(\S+)", l)
                    if m and os.path.exists(m.group(1)):
                        try:
                            o = json.load(open(m.group(1))); kinds.append({"key": o.get("key", "")[:200], "kind": o.get("kind"), "nofail": l.endswith("no-failing-input-found")})
                        except Exception:
                            pass
                meta["checks"][c] = {"rc": rc, "violations": len(vio), "with_failing_input": len([l for l in vio if not l.endswith("no-failing-input-found")]),
                                     "examples": kinds, "wall_s": round(time.time() - t0, 1), "tail": out[-300:]}
                meta["ran"].append("scratch worktree of /repo HEAD + patch.diff; VERIF_REPO=<that worktree> ./check %s --tier %s (same effect as git -C /repo apply ...; check; git checkout)" % (c, a.tier))
        finally:
            sh("git -C %s worktree remove --force %s" % (REPO, cwt)); shutil.rmtree(cwt, ignore_errors=True)
    # a re-evaluation with --skip-ctest keeps the ctest result (and earlier check results) of the first evaluation
    prev_path = os.path.join(VERIF, "seeded", a.sid, "meta.json")
    if os.path.exists(prev_path):
        prev = json.load(open(prev_path))
        if a.skip_ctest and "ctest_with_change" in prev:
            meta["ctest_with_change"] = prev["ctest_with_change"]
            meta["ran"].append("ctest result carried over from the evaluation of " + prev.get("when", "?"))
        for c, r in prev.get("checks", {}).items():
            meta["checks"].setdefault(c, r)
    valid = (meta.get("patch_applies") and not meta["demo_without_change"]["fails"] and meta.get("demo_with_change", {}).get("fails")
             and ((a.skip_ctest and "ctest_with_change" not in meta) or (meta.get("ctest_with_change", {}).get("rc") == 0 and not meta["ctest_with_change"]["failed"])))
    meta["valid_seed"] = bool(valid)
    meta["caught_by"] = [c for c, r in meta["checks"].items() if r["rc"] != 0 and r["violations"] > 0]
    out = os.path.join(VERIF, "seeded", a.sid); os.makedirs(out, exist_ok=True)
    for f in ("patch.diff", "demo.cpp", "demo.sh", "README.md"):
        if os.path.exists(os.path.join(mdir, f)):
            shutil.copy(os.path.join(mdir, f), out)
    readme = os.path.join(mdir, "README.md")
    if os.path.exists(readme):
        txt = open(readme).read()
        m = re.search(r"(?is)(needs|manifest)[^\n]*\n(.{0,600})", txt)
        meta["needs_to_manifest"] = (m.group(0)[:700] if m else txt[:700])
    json.dump(meta, open(os.path.join(out, "meta.json"), "w"), indent=1)
    print(json.dumps({k: meta[k] for k in ("id", "valid_seed", "caught_by")}), {c: (r["rc"], r["violations"], r["with_failing_input"]) for c, r in meta["checks"].items()})

if __name__ == "__main__":
    main()
