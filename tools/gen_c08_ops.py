#!/usr/bin/env python3
"""C08: writes lean/FastorModel/Props/C08Ops_<isa>.lean — one lane theorem per generated member definition of the
SIMDVector<int32_t|int64_t|float|double, sse|avx|avx512> classes whose *name* is in the operation schema below.

The STATEMENT of each theorem is a function of (element type, ABI, operation name) only — it is the specification
("lane i of v OP w is lane_i(v) OP lane_i(w)", operand order included), never of the code.  Only the proof hints (which
generated helper definitions to unfold) are read from the generated file.  Run by hand when the schema grows; the
resulting files are committed; `./check C08` rebuilds them against the definitions regenerated from the current repo tree.
"""
import os, re, struct, sys

HERE = os.path.dirname(os.path.dirname(os.path.abspath(__file__)))
GEN = os.path.join(HERE, "lean", "FastorModel", "Generated")
OUT = os.path.join(HERE, "lean", "FastorModel", "Props")
BITS = {"sse": 128, "avx": 256, "avx512": 512}
W = {"int32": 32, "int64": 64, "float": 32, "double": 64, "cfloat": 32, "cdouble": 64}

def parse_defs(path):
    """-> {name: (params [(n, ty)], ret, body)}"""
    src = open(path).read()
    out = {}
    for m in re.finditer(r"^def (\S+)((?: \([^)]*\))*) : ([^\n]*?) :=\n((?:  .*\n)+)", src, flags=re.M):
        params = re.findall(r"\((\S+) : ([^)]*)\)", m.group(2))
        out[m.group(1)] = (params, m.group(3).strip(), m.group(4))
    return out

def closure(defs, name):
    seen = []; todo = [name]
    while todo:
        n = todo.pop()
        if n in seen or n not in defs: continue
        seen.append(n)
        for tok in re.findall(r"[A-Za-z_][\w.]*", defs[n][2]):
            if tok in defs and tok not in seen: todo.append(tok)
    return seen

def fbits(w, x):
    return struct.unpack("<I", struct.pack("<f", float(x)))[0] if w == 32 else struct.unpack("<Q", struct.pack("<d", float(x)))[0]

def spec(T, abi, op, params):
    """-> (rhs as a function of lane variable `i`, needs interval cases) or None.  params: names without fo"""
    w = W[T]; N = BITS[abi] // w; isF = T in ("float", "double")
    L = (lambda e: "%s i" % e) if w == 32 else (lambda e: "lane64 %s i" % e)
    def bop(o, x, y):
        if isF: return "fo.%s%d (%s) (%s)" % (o, w, x, y)
        return "(%s) %s (%s)" % (x, {"add": "+", "sub": "-", "mul": "*"}[o], y)
    m = re.match(r"^(add|sub|mul|div)_(vv|vs|sv)$", op)
    if m:
        o, f = m.groups()
        a, b = params
        x = L(a) if f[0] == "v" else a; y = L(b) if f[1] == "v" else b
        if o == "div" and not isF: return "BitVec.sdiv (%s) (%s)" % (x, y)
        return bop(o, x, y)
    m = re.match(r"^i(add|sub|mul|div)_(s|r|v)$", op)
    if m:
        o, f = m.groups()
        s, a = params
        if o == "div" and not isF: return "BitVec.sdiv (%s) (%s)" % (L(s), a if f == "s" else L(a))
        return bop(o, L(s), a if f == "s" else L(a))
    if op == "pos": return L(params[0])
    if op == "neg": return ("fneg%d (%s)" % (w, L(params[0]))) if isF else "- (%s)" % L(params[0])
    if op == "abs": return ("fabs%d (%s)" % (w, L(params[0]))) if isF else "abs%d (%s)" % (w, L(params[0]))
    if op == "sqrt" and isF: return "fo.sqrt%d (%s)" % (w, L(params[0]))
    if op == "ctor": return "0#%d" % w
    if op == "ctor_s": return params[0]
    if op == "ctor_r": return L(params[0])
    if op == "set_s": return params[1]
    if op in ("aligned_load_p", "load_pb"): return ("%s i" % params[1]) if w == 32 else "lane64 %s i" % params[1]
    if op == "mask_load_pmb":
        # masked load: an enabled lane comes from memory, a disabled lane keeps its value (bit i of the mask <-> lane i)
        s_, a_, m_ = params[0], params[1], params[2]
        return "(if (%s >>> i) %% 2 = 1 then %s else %s)" % (m_, L(a_), L(s_))
    if op in ("store_pb", "aligned_store_p"):
        return "MEM:(if i < %d then %s i else %s i)" % (N * (w // 32), params[0], params[1])
    if op == "mask_store_pmb":
        # masked store: exactly the enabled lanes are written, every other word of memory keeps its value
        s_, a_, m_ = params[0], params[1], params[2]
        lane = "i" if w == 32 else "i / 2"
        return "MEM:(if i < %d ∧ (%s >>> (%s)) %% 2 = 1 then %s i else %s i)" % (N * (w // 32), m_, lane, s_, a_)
    if op == "reverse": return ("%s (%d - i)" if w == 32 else "lane64 %s (%d - i)") % (params[0], N - 1)
    if re.match(r"^set_s{2,}$", op) and len(params) == N + 1:
        # argument k lands in lane N-1-k (the order of _mm_set_*)
        return "[" + ", ".join(reversed(params[1:])) + "].getD i 0"
    if op == "set_sequential_s":
        n = params[1]
        if not isF: return "%s + BitVec.ofNat %d i" % (n, w)
        return "[" + ", ".join([n] + ["fo.add%d %s %d#%d" % (w, n, fbits(w, k), w) for k in range(1, N)]) + "].getD i 0"
    if op == "fmadd" and isF: a, b, c = params; return "fo.fma%d (%s) (%s) (%s)" % (w, L(a), L(b), L(c))
    if op == "fmsub" and isF: a, b, c = params; return "fo.fma%d (%s) (%s) (fneg%d (%s))" % (w, L(a), L(b), w, L(c))
    if op == "fnmadd" and isF: a, b, c = params; return "fo.fma%d (fneg%d (%s)) (%s) (%s)" % (w, w, L(a), L(b), L(c))
    if op in ("min_vv", "max_vv"):
        a, b = params
        if isF: return "fo.%s%d (%s) (%s)" % (op[:3], w, L(a), L(b))
        return "s%s%d (%s) (%s)" % (op[:3], w, L(a), L(b))
    return None


def cspec(T, abi, op, params):
    """complex classes: -> (re, im) lane expressions (ring formulas), or a single expression for real-valued results"""
    w = W[T]; N = BITS[abi] // w
    L = (lambda e: "%s i" % e) if w == 32 else (lambda e: "lane64 (%s) i" % e)
    f = lambda o, x, y: "fo.%s%d (%s) (%s)" % (o, w, x, y)
    re = lambda v: L(v + ".1"); im = lambda v: L(v + ".2")
    if op in ("add_vv", "sub_vv", "iadd_v", "isub_v"):
        a, b = params; o = "add" if "add" in op else "sub"
        return f(o, re(a), re(b)), f(o, im(a), im(b))
    if op in ("mul_vv", "imul_v"):
        a, b = params
        return f("sub", f("mul", re(a), re(b)), f("mul", im(a), im(b))), f("add", f("mul", re(a), im(b)), f("mul", im(a), re(b)))
    if op in ("div_vv", "idiv_v"):
        a, b = params; den = f("add", f("mul", re(b), re(b)), f("mul", im(b), im(b)))
        return (f("div", f("add", f("mul", re(a), re(b)), f("mul", im(a), im(b))), den),
                f("div", f("sub", f("mul", im(a), re(b)), f("mul", re(a), im(b))), den))
    if op == "rcp":      # 1/z = conj(z) / |z|^2
        a, = params; den = f("add", f("mul", re(a), re(a)), f("mul", im(a), im(a)))
        return f("div", re(a), den), "fneg%d (%s)" % (w, f("div", im(a), den))
    if op == "neg": a, = params; return "fneg%d (%s)" % (w, re(a)), "fneg%d (%s)" % (w, im(a))
    if op == "conj": a, = params; return re(a), "fneg%d (%s)" % (w, im(a))
    if op == "pos": a, = params; return re(a), im(a)
    if op == "ctor": return "0#%d" % w, "0#%d" % w
    if op == "ctor_rr": a, b = params; return L(a), L(b)
    if op == "reverse":
        a, = params
        R = (lambda e: "%s (%d - i)" % (e, N - 1)) if w == 32 else (lambda e: "lane64 (%s) (%d - i)" % (e, N - 1))
        return R(a + ".1"), R(a + ".2")
    if op == "real": a, = params; return re(a)
    if op == "imag": a, = params; return im(a)
    if op == "norm": a, = params; return f("add", f("mul", re(a), re(a)), f("mul", im(a), im(a)))
    if op == "magnitude": a, = params; return "fo.sqrt%d (%s)" % (w, f("add", f("mul", re(a), re(a)), f("mul", im(a), im(a))))
    return None

def fhspec(T, abi, op, params):
    """float horizontals: the fold over all lanes, under associativity and commutativity of the operation (the code fixes
    one association tree; the hand-written theorems of Props/C08.lean state the trees themselves)"""
    w = W[T]; N = BITS[abi] // w
    E = (lambda v, k: "%s %d" % (v, k)) if w == 32 else (lambda v, k: "lane64 %s %d" % (v, k))
    v = params[0]
    opn = {"sum": "add", "product": "mul", "dot": "add", "minimum": "min", "maximum": "max"}.get(op)
    if opn is None: return None
    if op == "dot": els = ["fo.mul%d (%s) (%s)" % (w, E(v, k), E(params[1], k)) for k in range(N)]
    else: els = ["(%s)" % E(v, k) for k in range(N)]
    return ("HYP", "fo.%s%d" % (opn, w), "[%s].foldl fo.%s%d (%s)" % (", ".join(els[1:]), opn, w, els[0]))

def hspec(T, abi, op, params):
    """integer horizontal operations = the fold over all lanes (float ones: association trees, by hand in Props/C08.lean)"""
    if T in ("float", "double"): return fhspec(T, abi, op, params)
    if T not in ("int32", "int64"): return None
    w = W[T]; N = BITS[abi] // w
    E = (lambda v, k: "%s %d" % (v, k)) if w == 32 else (lambda v, k: "lane64 %s %d" % (v, k))
    v = params[0]
    els = ", ".join(E(v, k) for k in range(N))
    if op == "sum": return "[%s].foldl (· + ·) 0" % els
    if op == "product": return "[%s].foldl (· * ·) 1" % els
    if op == "dot": return "[%s].foldl (· + ·) 0" % ", ".join("%s * %s" % (E(v, k), E(params[1], k)) for k in range(N))
    if op == "minimum": return "[%s].foldl (fun q x => smin%d x q) (%s)" % (els, w, E(v, 0))
    if op == "maximum": return "[%s].foldl (fun q x => smax%d x q) (%s)" % (els, w, E(v, 0))
    return None

# floating-point horizontal operations: association trees stated by hand in Props/C08.lean
def main():
    isas = sys.argv[1:] or ["sse2", "avx2", "avx512"]
    for isa in isas:
        defs = parse_defs(os.path.join(GEN, "Simd_%s.lean" % isa))
        lines = ["import FastorModel.Proofs.SimdLanes", "import FastorModel.Generated.Simd_%s" % isa, "import Mathlib.Tactic.IntervalCases", "import Mathlib.Tactic.SplitIfs",
                 "/-! GENERATED by tools/gen_c08_ops.py — lane theorems of C08 for the member definitions of configuration `%s`." % isa,
                 "    The statement of each theorem depends only on (element type, ABI, operation name): it is the specification.",
                 "    `lane i (v OP w) = lane i v OP lane i w`, scalar operands on the side they were written (`s - v` is `s - lane i v`). -/",
                 "namespace Fastor.C08Ops.%s" % isa, "open Fastor.Simd Fastor.Gen", "set_option linter.unusedVariables false", "set_option linter.unusedSimpArgs false", ""]
        n = 0; skipped = []
        for name, (params, ret, body) in defs.items():
            m = re.match(r"^(int32|int64|float|double|cfloat|cdouble)_(sse|avx|avx512)\.(\w+)$", name)
            if not m: continue
            T, abi, op = m.groups()
            if T in ("cfloat", "cdouble"):
                ps = [p for p in params if p[0] != "fo"]
                has_fo = bool(params) and params[0][0] == "fo"
                try: sp = cspec(T, abi, op, [p[0] for p in ps])
                except Exception: sp = None
                if sp is None: skipped.append(name); continue
                w = W[T]; N = BITS[abi] // w
                call = "%s.%s%s%s" % (isa, name, " fo" if has_fo else "", "".join(" " + p[0] for p in ps))
                binder = "(fo : FOps) " + " ".join("(%s : %s)" % pp for pp in ps)
                hyp = ("(hfma : ∀ x y z, fo.fma%d x y z = fo.add%d (fo.mul%d x y) z) (hneg : ∀ x y, fo.add%d x (y ^^^ sign%d) = fo.sub%d x y)" % (w, w, w, w, w, w))
                unf = ", ".join("%s.%s" % (isa, d) for d in closure(defs, name))
                LL = (lambda e: "(%s) i" % e) if w == 32 else (lambda e: "lane64 (%s) i" % e)
                if isinstance(sp, tuple):
                    stmt = "%s = %s ∧\n    %s = %s" % (LL("(%s).1" % call), sp[0], LL("(%s).2" % call), sp[1])
                else:
                    stmt = "%s = %s" % (LL(call), sp)
                lines.append("theorem %s_%s_%s %s %s (i : Nat) (hi : i < %d) :\n    %s := by" % (T, abi, op, binder.strip(), hyp, N, stmt))
                ex = "lane64, fneg32, fneg64, sign32, sign64, hfma, hneg', append_xor_halves"
                lines.append("  have hneg' := hneg; simp only [sign32, sign64] at hneg'")
                lines.append("  first | (simp [simd, %s, %s]; done) | (interval_cases i <;> simp [simd, %s, %s])" % (unf, ex, unf, ex))
                n += 1; continue
            has_fo = bool(params) and params[0][0] == "fo"
            ps = [p for p in params if p[0] != "fo"]
            try:
                rhs = spec(T, abi, op, [p[0] for p in ps])
            except Exception:
                rhs = None
            if ret in ("BitVec 32", "BitVec 64"):
                try: hr = hspec(T, abi, op, [p[0] for p in ps])
                except Exception: hr = None
                if hr is None: skipped.append(name); continue
                if isinstance(hr, tuple):
                    _, fop, rhs2 = hr
                    call = "%s.%s%s%s" % (isa, name, " fo" if has_fo else "", "".join(" " + p[0] for p in ps))
                    binder = "(fo : FOps) (hassoc : ∀ x y z, %s (%s x y) z = %s x (%s y z)) (hcomm : ∀ x y, %s x y = %s y x) " % ((fop,) * 6) + " ".join("(%s : %s)" % p for p in ps)
                    unf = ", ".join("%s.%s" % (isa, d) for d in closure(defs, name))
                    lines.append("theorem %s_%s_%s %s :\n    %s = %s := by" % (T, abi, op, binder, call, rhs2))
                    lines.append("  have : Std.Associative %s := ⟨hassoc⟩" % fop)
                    lines.append("  have : Std.Commutative %s := ⟨hcomm⟩" % fop)
                    lines.append("  first | (simp [simd, %s, lane64, List.foldl]; done) | (simp [simd, %s, lane64, List.foldl]; ac_rfl)" % (unf, unf))
                    n += 1; continue
                call = "%s.%s%s%s" % (isa, name, " fo" if has_fo else "", "".join(" " + p[0] for p in ps))
                binder = " ".join("(%s : %s)" % p for p in ps)
                unf = ", ".join("%s.%s" % (isa, d) for d in closure(defs, name))
                lines.append("theorem %s_%s_%s %s :\n    %s = %s := by" % (T, abi, op, binder, call, hr))
                lines.append("  first | (simp [simd, %s, lane64, reduce_add_epi32, reduce_add_epi64, smin32, smax32, smin64, smax64, List.range, List.range.loop]; done) | (simp [simd, %s, lane64, reduce_add_epi32, reduce_add_epi64, smin32, smax32, smin64, smax64, List.range, List.range.loop]; ac_rfl)" % (unf, unf))
                n += 1; continue
            if rhs is None or ret != "Reg":
                skipped.append(name); continue
            w = W[T]; N = BITS[abi] // w
            call = "%s.%s%s%s" % (isa, name, " fo" if has_fo else "", "".join(" " + p[0] for p in ps))
            if rhs.startswith("MEM:"):
                binder = "(fo : FOps) " + " ".join("(%s : %s)" % p for p in ps)
                unf = ", ".join("%s.%s" % (isa, d) for d in closure(defs, name))
                lines.append("theorem %s_%s_%s %s (i : Nat) :\n    (%s) i = %s := by" % (T, abi, op, binder.strip(), call, rhs[4:]))
                lines.append("  by_cases h : i < %d <;> simp [simd, %s, h] <;> first | omega | (intro h1; omega) | skip" % (N * (w // 32), unf))
                n += 1; continue
            lhs = ("(%s) i" % call) if w == 32 else "lane64 (%s) i" % call
            binder = "(fo : FOps) " + " ".join("(%s : %s)" % p for p in ps)
            unf = ", ".join("%s.%s" % (isa, d) for d in closure(defs, name))
            extra = "lane64, fneg32, fneg64, fabs32, fabs64, sign32, sign64, abs_by_sign, smin32, smax32, smin64, smax64"
            lines.append("theorem %s_%s_%s %s (i : Nat) (hi : i < %d) :\n    %s = %s := by" % (T, abi, op, binder.strip(), N, lhs, rhs))
            if op == "mask_load_pmb" and w == 64:
                lines.append("  interval_cases i <;> simp [simd, %s, lane64] <;> split_ifs <;> simp_all" % unf)
            elif op == "abs" and T in ("float", "double"):
                lines.append("  first | (simp only [%s, andnot_si, zip32, set1_32, fabs32, sign32]; done) | (interval_cases i <;> simp [simd, %s, %s])" % (unf, unf, extra))
            else:
                lines.append("  first | (simp [simd, %s]; done) | (simp [simd, %s, %s]; done) | (interval_cases i <;> simp [simd, %s, %s])" % (unf, unf, extra, unf, extra))
            n += 1
        lines += ["", "end Fastor.C08Ops.%s" % isa, ""]
        with open(os.path.join(OUT, "C08Ops_%s.lean" % isa), "w") as fh:
            fh.write("\n".join(lines))
        print(isa, n, "theorems;", len(skipped), "member definitions without a schema entry:", " ".join(skipped)[:600])

if __name__ == "__main__":
    main()
