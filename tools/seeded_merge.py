#!/usr/bin/env python3
"""tools/seeded_merge.py <snapshot-verif-dir>: bring the results of seeded evaluations made from a pinned snapshot of /verif
(tools/seeded_eval.py run there) back into /verif/seeded, keeping the demo / ctest results of the first evaluation."""
import json, os, shutil, sys
VERIF = os.path.dirname(os.path.dirname(os.path.abspath(__file__)))
snap = sys.argv[1]
for sid in sorted(os.listdir(os.path.join(snap, "seeded"))):
    nm = os.path.join(snap, "seeded", sid, "meta.json")
    if not os.path.exists(nm):
        continue
    new = json.load(open(nm))
    dst = os.path.join(VERIF, "seeded", sid)
    om = os.path.join(dst, "meta.json")
    if not os.path.exists(om):
        if os.path.isdir(dst): shutil.rmtree(dst)
        shutil.copytree(os.path.join(snap, "seeded", sid), dst); print("new", sid); continue
    old = json.load(open(om))
    if new.get("when") == old.get("when"):
        continue
    def artifact(r): return r.get("with_failing_input", 0) == 0 and any("lean-build-failed" in e.get("key", "") for e in r.get("examples", []))
    for c, r in new.get("checks", {}).items():
        if not artifact(r):
            old.setdefault("checks", {})[c] = r
    for c in list(old.get("checks", {})):
        if artifact(old["checks"][c]):
            del old["checks"][c]
    old["caught_by"] = sorted(c for c, r in old["checks"].items() if r["rc"] != 0 and r["violations"] > 0)
    old.setdefault("ran", []).extend(x for x in new.get("ran", []) if x.startswith("scratch worktree") and x not in old["ran"])
    old["last_evaluated"] = new.get("when")
    json.dump(old, open(om, "w"), indent=1); print("updated", sid, old["caught_by"])
